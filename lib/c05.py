"""C05: every selected permutation is executed exactly once against a matching, alive server;
never more than --max-servers server processes alive; every server stopped; the run terminates.
Offline checker over the helper peers' event log + the runner's output + the independent selection."""
import concurrent.futures as cf
import json
import os
import random

import e2e

CONFIGS = {
    "A": """features:
  versions: [HTTP_VERSION_1, HTTP_VERSION_2]
  protocols: [PROTOCOL_CONNECT, PROTOCOL_GRPC, PROTOCOL_GRPC_WEB]
  codecs: [CODEC_PROTO]
  compressions: [COMPRESSION_IDENTITY]
  stream_types: [STREAM_TYPE_UNARY, STREAM_TYPE_SERVER_STREAM]
  supports_tls: true
  supports_tls_client_certs: false
  supports_connect_get: false
  supports_message_receive_limit: false
""",
    "B": """features:
  versions: [HTTP_VERSION_1, HTTP_VERSION_2, HTTP_VERSION_3]
  protocols: [PROTOCOL_CONNECT]
  codecs: [CODEC_PROTO, CODEC_JSON]
  compressions: [COMPRESSION_IDENTITY]
  stream_types: [STREAM_TYPE_UNARY, STREAM_TYPE_CLIENT_STREAM]
  supports_tls: true
  supports_tls_client_certs: true
  supports_connect_get: true
  supports_message_receive_limit: false
""",
    "C": """features:
  versions: [HTTP_VERSION_2]
  protocols: [PROTOCOL_GRPC, PROTOCOL_GRPC_WEB]
  codecs: [CODEC_PROTO]
  compressions: [COMPRESSION_IDENTITY, COMPRESSION_GZIP]
  stream_types: [STREAM_TYPE_UNARY, STREAM_TYPE_CLIENT_STREAM, STREAM_TYPE_SERVER_STREAM, STREAM_TYPE_HALF_DUPLEX_BIDI_STREAM, STREAM_TYPE_FULL_DUPLEX_BIDI_STREAM]
  supports_tls: false
  supports_h2c: true
  supports_message_receive_limit: false
""",
}
# one big TLS batch: the runner's hand-over is paced by the client, the server leaves cleanly in the middle
CONFIG_D = """features:
  versions: [HTTP_VERSION_2]
  protocols: [PROTOCOL_CONNECT, PROTOCOL_GRPC, PROTOCOL_GRPC_WEB]
  codecs: [CODEC_PROTO, CODEC_JSON]
  compressions: [COMPRESSION_IDENTITY, COMPRESSION_GZIP]
  stream_types: [STREAM_TYPE_UNARY, STREAM_TYPE_CLIENT_STREAM, STREAM_TYPE_SERVER_STREAM, STREAM_TYPE_HALF_DUPLEX_BIDI_STREAM, STREAM_TYPE_FULL_DUPLEX_BIDI_STREAM]
  supports_tls: true
  supports_h2c: false
  supports_tls_client_certs: false
  supports_message_receive_limit: false
"""
SUITE_PATTERNS = {"A": ["Basic/**", "Connect Unexpected Requests/**", "gRPC Unexpected Requests/**", "gRPC-Web Unexpected Requests/**", "Server Empty Requests/**"], "B": ["Basic/**", "TLS Client Certs/**", "Connect with GET/**"], "C": ["Basic/**"]}


def wildcard(rnd, name):
    parts = name.split("/")
    out = []
    i = 0
    while i < len(parts):
        r = rnd.random()
        if r < 0.2:
            out.append("*")
        elif r < 0.35:
            out.append("**")
            i += rnd.randint(0, 2)
        else:
            out.append(parts[i])
        i += 1
    return "/".join(out)


def load_events(path):
    evs = []
    if os.path.exists(path):
        for line in open(path):
            try:
                evs.append(json.loads(line))
            except ValueError:
                pass
    evs.sort(key=lambda e: e["t"])
    return evs


def key_of(info):
    return "p%d/v%d/tls=%s/cc=%s" % (info["protocol"], info["version"], "true" if info["tls"] else "false", "true" if info["certs"] else "false")


def one_run(ctx, bins, peer, rid, setup, conf_name, run, skip, max_servers, gomaxprocs, fail_key, seed):
    d = os.path.join(ctx.W, "c05-%d" % rid)
    os.makedirs(d, exist_ok=True)
    confp = os.path.join(d, "conf.yaml")
    open(confp, "w").write(CONFIGS[conf_name])
    evp = os.path.join(d, "events.jsonl")
    script = {"default": "canned", "probe": True, "answer_delay_max_ms": 20, "seed": seed, "mode": "logging", "start_delay_ms": (seed * 37) % 300, "stop_delay_ms": (seed * 53) % 400}
    if ((seed * 2654435761) >> 7) % 3 == 0:
        script["own_cert"] = True  # the server serves a certificate of its own, not the one it was offered: requests must carry the reported one
    if seed % 2 == 0:
        script["omit_host"] = True  # the host field of the server's answer is optional: the runner fills in its default
    if fail_key == "no-cert":
        script["no_cert"] = True  # every server answers the handshake without its certificate: TLS instances count as not started
    elif fail_key:
        script["fail_start_for"] = [fail_key]
    args = ["-v", "--conf", confp, "--mode", setup, "--max-servers", str(max_servers)]
    for r in run:
        args += ["--run", r]
    for s in skip:
        args += ["--skip", s]
    if setup == "server":
        args += ["--parallel", "8", "--", peer, "server"]
    elif setup == "client":
        args += ["--", peer, "client"]
    else:
        args += ["--", peer, "client", "----", peer, "server"]
    env = {"VERIF_EVENTLOG": evp, "VERIF_PEER_SCRIPT": json.dumps(script), "GOMAXPROCS": str(gomaxprocs)}
    rc, to, text = e2e.run_runner(ctx, bins, args, "c05-%d" % rid, timeout=600, env=env, race_label="c05-%d" % rid)
    return {"rc": rc, "timed_out": to, "text": text, "events": load_events(evp), "args": args, "script": script, "dir": d}


def check_run(ctx, res, sel, setup, max_servers, fail_key, rid, stats, desc):
    w = {"run": rid, "setup": setup, "argv": " ".join(res["args"]), "script": res["script"], "exit": res["rc"], "selected_by_model": len(sel), "output_tail": res["text"][-1500:]}
    if res["timed_out"]:
        ctx.add_violation("c05/not-terminating/" + setup, "the run did not terminate within the progress bound", w)
        return
    if "unmatched and possibly invalid patterns" in res["text"]:
        # every pattern given here matches some permutation; the trie reports a pattern as unmatched when a
        # higher-priority pattern claimed all of its names (recorded by C08 as shadowing, not a violation)
        stats["refused_by_pattern_shadowing"] = stats.get("refused_by_pattern_shadowing", 0) + 1
        return
    evs = res["events"]
    out = e2e.parse_output(res["text"])
    # --- servers: intervals, bound, cleanup
    starts, readies, exits, stops = {}, {}, {}, {}
    for e in evs:
        if e["ev"] == "server_start":
            starts[e["pid"]] = e
        elif e["ev"] == "server_ready":
            readies[e["pid"]] = e
        elif e["ev"] == "server_exit":
            exits[e["pid"]] = e
        elif e["ev"] == "server_stop_signal":
            stops[e["pid"]] = e
    own_servers = setup in ("server", "both")
    if own_servers:
        points = []
        for pid, s in starts.items():
            end = exits.get(pid)
            if end is None:
                ctx.add_violation("c05/server-not-stopped", "server instance %s (pid %d) was started but never logged its exit: it was not stopped" % (s["key"], pid), w)
                continue
            if pid in readies and pid not in stops and end.get("why") not in ("scripted start failure", "scripted death"):
                ctx.add_violation("c05/server-not-signalled", "server %s ended without being asked to stop (%s)" % (s["key"], end.get("why")), w)
            points.append((s["t"], 1))
            points.append((end["t"], -1))
        points.sort()
        cur = peak = 0
        for _, dlt in points:
            cur += dlt
            peak = max(peak, cur)
        stats["max_concurrent_servers:max-servers=%d" % max_servers] = max(stats.get("max_concurrent_servers:max-servers=%d" % max_servers, 0), peak)
        stats["server_instances_started"] = stats.get("server_instances_started", 0) + len(starts)
        if peak > max_servers:
            ctx.add_violation("c05/too-many-servers", "%d server processes were alive at once with --max-servers %d (logged alive intervals are subsets of the real lifetimes)" % (peak, max_servers), w)
        # a server per instance key at most once per client pass (reference client pass + gRPC client pass)
        per_key = {}
        for s in starts.values():
            per_key[s["key"]] = per_key.get(s["key"], 0) + 1
        for k, c in per_key.items():
            if c > 2:
                ctx.add_violation("c05/server-started-repeatedly", "instance %s was started %d times" % (k, c), w)
    # --- dispatch: exactly once, matching, alive
    expected = dict(sel)
    unstartable = set()
    if fail_key == "no-cert":
        unstartable = {n for n, info in sel.items() if info["tls"]}
        stats["tls_permutations_of_servers_without_certificate"] = stats.get("tls_permutations_of_servers_without_certificate", 0) + len(unstartable)
    elif fail_key:
        unstartable = {n for n, info in sel.items() if key_of(info) == fail_key}
    if setup == "server":
        seen = {}
        for e in evs:
            if e["ev"] == "rpc":
                seen.setdefault(e["name"], []).append(e)
    else:
        seen = {}
        for e in evs:
            if e["ev"] == "client_recv":
                seen.setdefault(e["name"], []).append(e)
    for name, info in expected.items():
        got = seen.get(name, [])
        want = 0 if name in unstartable else 1
        if len(got) != want:
            cls = "missing" if len(got) < want else "duplicate"
            marker = "grpc" if "(grpc " in name else "plain"
            if name in unstartable:
                cls = "issued-despite-server-start-failure"
            ctx.add_violation("c05/%s/%s/%s" % (cls, setup, marker), "permutation %r was handed out %d times, want %d" % (name, len(got), want), w)
            continue
        if not got:
            # its server could not be started: it must be reported, not silently dropped
            if name not in out["failed"]:
                ctx.add_violation("c05/setup-failure-not-reported", "server for %r could not be started but the case is not reported as failed" % name, w)
            continue
        e = got[0]
        stats["dispatches_checked"] = stats.get("dispatches_checked", 0) + 1
        if info["certs"]:
            stats["client_cert_dispatches_checked"] = stats.get("client_cert_dispatches_checked", 0) + 1
        if setup == "server":
            # the RPC was logged by the very instance it reached: instance config must equal the name's axes
            if e["key"] != key_of(info):
                ctx.add_violation("c05/wrong-server/server", "RPC of %r arrived at instance %s, its permutation needs %s" % (name, e["key"], key_of(info)), w)
            if e["proto_major"] != info["version"] or e["tls"] != info["tls"] or (e["peer_cert"] != "") != info["certs"]:
                ctx.add_violation("c05/wrong-connection/server", "RPC of %r arrived over HTTP/%s tls=%s client-cert=%r, permutation says HTTP/%d tls=%s certs=%s" % (name, e["proto_major"], e["tls"], e["peer_cert"], info["version"], info["tls"], info["certs"]), w)
        else:
            if e["protocol"] != info["protocol"] or e["http_version"] != info["version"] or e["tls"] != info["tls"] or e["client_cert"] != info["certs"]:
                ctx.add_violation("c05/request-axes/" + setup, "request of %r carries protocol=%s version=%s tls=%s certs=%s, permutation says %s" % (name, e["protocol"], e["http_version"], e["tls"], e["client_cert"], info), w)
            exp = e.get("expect") or {}
            if exp:
                # (client mode: the peer is the reference server, which is told what to expect of each request)
                stats["expectation_headers_checked"] = stats.get("expectation_headers_checked", 0) + 1
                want_exp = {"x-expect-http-version": str(info["version"]), "x-expect-protocol": str(info["protocol"]), "x-expect-tls": "true" if info["tls"] else "false"}
                for hk, hv in want_exp.items():
                    if exp.get(hk) != hv:
                        ctx.add_violation("c05/expectation-header/%s/%s" % (hk, setup), "request of %r tells the reference server %s: %r, the permutation says %r" % (name, hk, exp.get(hk), hv), w)
                if ("x-expect-client-cert" in exp) != bool(info["certs"]):
                    ctx.add_violation("c05/expectation-header/x-expect-client-cert/" + setup, "request of %r %s a client certificate to the reference server, the permutation %s one" % (name, "promises" if "x-expect-client-cert" in exp else "does not promise", "uses" if info["certs"] else "does not use"), w)
            if not e.get("host"):
                ctx.add_violation("c05/request-without-host/" + setup, "request of %r was handed to the client without a host (server answered %s)" % (name, "without the optional host field" if res["script"].get("omit_host") else "with a host"), w)
            if e["name_header"] != name:
                ctx.add_violation("c05/test-name-header/" + setup, "request of %r carries x-test-case-name %r" % (name, e["name_header"]), w)
            if res["script"].get("own_cert") and info["tls"]:
                stats["dispatches_to_servers_with_own_certificate"] = stats.get("dispatches_to_servers_with_own_certificate", 0) + 1
            if not str(e.get("probe", "")).startswith("ok"):
                ctx.add_violation("c05/server-not-alive/" + setup, "request of %r points at %s:%s where no matching server answered the probe: %s" % (name, e["host"], e["port"], e.get("probe")), w)
            if info["version"] == 2 and info["tls"] and "alpn=h2" not in str(e.get("probe", "")):
                ctx.add_violation("c05/wrong-alpn/" + setup, "server for %r did not negotiate h2: %s" % (name, e.get("probe")), w)
            if setup == "both":
                # the addressed port must belong to a logged instance with exactly this permutation's configuration
                owner = [r for r in readies.values() if r["port"] == e["port"] and r["t"] <= e["t"] and (r["pid"] not in exits or exits[r["pid"]]["t"] >= e["t"])]
                if not owner:
                    ctx.add_violation("c05/no-live-server-on-port/both", "request of %r addresses port %s on which no started helper server was alive at that moment" % (name, e["port"]), w)
                elif owner[0]["key"] != key_of(info):
                    ctx.add_violation("c05/wrong-server/both", "request of %r addresses instance %s, its permutation needs %s" % (name, owner[0]["key"], key_of(info)), w)
    for name in seen:
        if name not in expected:
            ctx.add_violation("c05/outside-selection/" + setup, "permutation %r was issued although it is not in the selected set" % name, w)
    # --- the runner's own accounting
    if out["total"] is not None and out["total"] + out["could_not_run"] != len(sel):
        ctx.add_violation("c05/total-count/" + setup, "runner reports %s cases (+%s not run) for a selection of %d" % (out["total"], out["could_not_run"], len(sel)), w)
    stats["runs"] = stats.get("runs", 0) + 1
    stats["permutations_selected"] = stats.get("permutations_selected", 0) + len(sel)


def server_leaves_run(ctx, bins, peer, rid, exit_code, die_ms, stats, known_failing=False, prefix="c05"):
    """A server instance that ends on its own (exit status exit_code) in the middle of a large batch: what the
    runner hands to the client afterwards is bounded by what the pipe could already hold, the rest is reported."""
    d = os.path.join(ctx.W, "%s-leave-%d" % (prefix.replace("/", "-"), rid))
    os.makedirs(d, exist_ok=True)
    confp = os.path.join(d, "conf.yaml")
    open(confp, "w").write(CONFIG_D)
    run = ["Basic/**", "Duplicate Metadata/**", "Errors/**"]
    sel = e2e.model_selection(ctx, confp, "both", run, ())
    if not sel:
        return
    by_key = {}
    for n, info in sel.items():
        by_key.setdefault(key_of(info), []).append(n)
    key = max(sorted(by_key), key=lambda k: (k.endswith("tls=true/cc=false"), len(by_key[k])))
    evp = os.path.join(d, "events.jsonl")
    script = {"default": "canned", "probe": False, "seed": ctx.seed * 100 + rid, "mode": "logging", "read_delay_ms": 4,
              "die_after_ms_for": {key: die_ms}, "die_exit_code": exit_code}
    args = ["-v", "--conf", confp, "--mode", "both", "--max-servers", "1"]
    for r in run:
        args += ["--run", r]
    if known_failing:
        args += ["--known-failing", "**"]  # every case is expected to fail: only cases that could not be run count against success
    args += ["--", peer, "client", "----", peer, "server"]
    env = {"VERIF_EVENTLOG": evp, "VERIF_PEER_SCRIPT": json.dumps(script)}
    rc, to, text = e2e.run_runner(ctx, bins, args, "%s-leave-%d" % (prefix.replace("/", "-"), rid), timeout=600, env=env, race_label="%s-leave-%d" % (prefix.replace("/", "-"), rid))
    evs = load_events(evp)
    out = e2e.parse_output(text)
    w = {"scenario": "server instance %s exits with status %d, %d ms after it was ready, batch of %d permutations" % (key, exit_code, die_ms, len(by_key[key])),
         "argv": " ".join(args), "script": script, "exit": rc, "output_tail": text[-1200:]}
    if to:
        ctx.add_violation(prefix + "/not-terminating/server-leaves", "the run did not terminate within the progress bound", w)
        return
    death = [e for e in evs if e["ev"] == "server_exit" and e.get("why") == "scripted death" and e.get("key") == key]
    pipe = max([e.get("stdin_pipe_bytes", 0) for e in evs if e["ev"] == "client_start"] + [0])
    if not death or pipe <= 0:
        ctx.inconclusive.append(prefix + " server-leaves: the scripted death was not observed (%d death events, pipe %d)" % (len(death), pipe))
        return
    t_x = min(e["t"] for e in death)
    names = set(by_key[key])
    recv = [e for e in evs if e["ev"] == "client_recv" and e["name"] in names]
    before = [e for e in recv if e["t"] <= t_x]
    after = [e for e in recv if e["t"] > t_x]
    bytes_after = sum(e.get("bytes", 0) for e in after)
    batch_bytes_est = sum(e.get("bytes", 0) for e in recv) or 1
    avg = batch_bytes_est / max(1, len(recv))
    # everything the runner wrote before it could know sits in the pipe (capacity logged by the client) or in the
    # client's read buffer; the allowance also covers the hand-overs in flight while the exit is being noticed
    allowed = pipe + 65536 + 4 * int(max(e.get("bytes", 0) for e in recv) if recv else 0)
    remaining_bytes_if_all_sent = (len(names) - len(before)) * avg
    w.update({"handed_before_exit": len(before), "handed_after_exit": len(after), "bytes_after_exit": bytes_after, "allowed_bytes": allowed, "pipe_capacity": pipe, "batch": len(names)})
    stats.setdefault("server_leaves", []).append({k: w[k] for k in ("scenario", "handed_before_exit", "handed_after_exit", "bytes_after_exit", "allowed_bytes", "batch")})
    if remaining_bytes_if_all_sent < 2 * allowed:
        # not decidable for this timing: counted; the check as a whole is inconclusive only if no scenario was decidable
        stats["server_leaves_undecidable"] = stats.get("server_leaves_undecidable", 0) + 1
        return
    stats["server_leaves_decided"] = stats.get("server_leaves_decided", 0) + 1
    if bytes_after > allowed:
        ctx.add_violation(prefix + "/handed-over-after-server-exit/status-%d" % exit_code,
                          "%d permutations (%d bytes) of the batch were handed to the client after their server had exited with status %d; at most %d bytes could have been in the pipe already" % (len(after), bytes_after, exit_code, allowed), w)
    # exactly once or reported
    seen = {}
    for e in recv:
        seen[e["name"]] = seen.get(e["name"], 0) + 1
    for n in sorted(names):
        c = seen.get(n, 0)
        if c > 1:
            ctx.add_violation(prefix + "/duplicate/both/server-leaves", "permutation %r was handed out %d times" % (n, c), w)
            break
        if c == 0 and n not in out["failed"]:
            ctx.add_violation(prefix + "/not-run-not-reported/server-leaves", "permutation %r was neither handed to the client nor reported as failed after its server left" % n, w)
            break
    if rc == 0:
        ctx.add_violation(prefix + "/run-succeeds-although-server-left/status-%d%s" % (exit_code, "/all-known-failing" if known_failing else ""), "the run exits 0 although server %s left in the middle of its batch (%d of its %d permutations were never handed to a client)" % (key, len(names) - len(seen), len(names)), w)


def stubborn_servers_run(ctx, bins, peer, max_servers, stats):
    """Helper servers that ignore the stop request: the runner must end them itself before it frees their
    --max-servers slot. Observed by sampling /proc for the logged server pids while the runner runs."""
    import threading, time
    d = os.path.join(ctx.W, "c05-stubborn-%d" % max_servers)
    os.makedirs(d, exist_ok=True)
    confp = os.path.join(d, "conf.yaml")
    open(confp, "w").write(CONFIGS["A"])
    evp = os.path.join(d, "events.jsonl")
    run = ["Basic/HTTPVersion:1/**"]
    script = {"default": "canned", "probe": False, "seed": ctx.seed, "mode": "logging", "ignore_sigterm": True}
    args = ["-v", "--conf", confp, "--mode", "both", "--max-servers", str(max_servers), "--run", run[0], "--", peer, "client", "----", peer, "server"]
    env = {"VERIF_EVENTLOG": evp, "VERIF_PEER_SCRIPT": json.dumps(script)}
    stop = threading.Event()
    peak = {"n": 0, "samples": 0, "pids": set()}

    def alive(pid):
        try:
            st = open("/proc/%d/stat" % pid).read()
            return st.rsplit(")", 1)[1].split()[0] != "Z"
        except OSError:
            return False

    def sampler():
        while not stop.is_set():
            pids = set()
            if os.path.exists(evp):
                for e in load_events(evp):
                    if e["ev"] == "server_ready":
                        pids.add(e["pid"])
            peak["pids"] |= pids
            n = sum(1 for p in pids if alive(p))
            peak["n"] = max(peak["n"], n)
            peak["samples"] += 1
            time.sleep(0.05)

    th = threading.Thread(target=sampler)
    th.start()
    try:
        rc, to, text = e2e.run_runner(ctx, bins, args, "c05-stubborn-%d" % max_servers, timeout=600, env=env, race_label="c05-stubborn-%d" % max_servers, reap=False)
    finally:
        stop.set()
        th.join()
    evs = load_events(evp)
    pids = sorted({e["pid"] for e in evs if e["ev"] == "server_ready"})
    ignored = [e for e in evs if e["ev"] == "server_stop_signal" and e.get("ignored")]
    w = {"scenario": "every helper server ignores SIGTERM; --max-servers %d" % max_servers, "argv": " ".join(args), "exit": rc, "servers_started": len(pids), "stop_requests_ignored": len(ignored),
         "peak_alive_sampled": peak["n"], "samples": peak["samples"], "output_tail": text[-800:]}
    stats.setdefault("stubborn", []).append({k: w[k] for k in ("scenario", "servers_started", "stop_requests_ignored", "peak_alive_sampled", "samples")})
    if to:
        ctx.add_violation("c05/not-terminating/stubborn-servers", "the run did not terminate within the progress bound", w)
    left = [p for p in pids if alive(p)]
    for p in left:
        try:
            os.kill(p, 9)
        except OSError:
            pass
    if len(pids) < 2 or not ignored:
        ctx.inconclusive.append("c05 stubborn-servers: the scenario did not take place (%d servers, %d ignored stop requests)" % (len(pids), len(ignored)))
        return
    stats["stubborn_decided"] = stats.get("stubborn_decided", 0) + 1
    if left:
        ctx.add_violation("c05/server-outlives-the-run", "%d of %d started server processes were still alive after the runner had exited (they ignore SIGTERM; the runner has to end them)" % (len(left), len(pids)), w)
    if peak["n"] > max_servers:
        ctx.add_violation("c05/too-many-servers/stubborn", "%d server processes were observed alive at the same moment with --max-servers %d" % (peak["n"], max_servers), w)


def client_fault_run(ctx, bins, peer, rid, max_servers, after_answers, stats, prefix="c05"):
    """The client under test exits in the middle of the run while several server batches are in flight and the
    servers need different times to shut down (all well inside the grace period). The run is lost, but it still has
    to stop - and wait for - every server it started before it ends. Decided on the event log (CLOCK_MONOTONIC,
    the same clock the driver reads when the runner has exited) and by looking at /proc right after the exit."""
    import time
    d = os.path.join(ctx.W, "c05-cfault-%d" % rid)
    os.makedirs(d, exist_ok=True)
    confp = os.path.join(d, "conf.yaml")
    open(confp, "w").write(CONFIGS["A"])
    evp = os.path.join(d, "events.jsonl")
    sel = e2e.model_selection(ctx, confp, "both", ["Basic/**"], ())
    if not sel:
        return
    keys = sorted({key_of(i) for i in sel.values()})
    # with -v the runner walks the instances in sorted order, plaintext and TLS alternating: of two neighbouring
    # batches one server leaves at once and the other takes 1.2 s to drain
    script = {"default": "canned", "probe": False, "seed": ctx.seed * 10 + rid, "mode": "logging", "stop_delay_ms": 1200,
              "stop_delay_ms_for": {k: 20 for k in keys if ("tls=false" in k) == (rid % 2 == 0)}, "exit_after_answers": after_answers, "exit_code": 1, "answer_delay_max_ms": 20}
    args = ["-v", "--conf", confp, "--mode", "both", "--max-servers", str(max_servers), "--run", "Basic/**", "--", peer, "client", "----", peer, "server"]
    env = {"VERIF_EVENTLOG": evp, "VERIF_PEER_SCRIPT": json.dumps(script)}
    label = "c05-cfault-%d" % rid
    # (reap=False: processes the runner leaves behind are what this scenario looks for; they are ended below)
    rc, to, text = e2e.run_runner(ctx, bins, args, label, timeout=600, env=env, race_label=label, reap=False)
    t_exit = time.monotonic_ns()

    def alive(pid):
        try:
            st = open("/proc/%d/stat" % pid).read()
            return st.rsplit(")", 1)[1].split()[0] != "Z"
        except OSError:
            return False

    evs0 = load_events(evp)
    ready = {e["pid"]: e for e in evs0 if e["ev"] == "server_ready"}
    alive_after = sorted(p for p in ready if alive(p))
    time.sleep(2.0)  # let whatever is left behind finish writing its log
    evs = load_events(evp)
    for p in ready:
        if alive(p):
            try:
                os.kill(p, 9)
            except OSError:
                pass
    w = {"scenario": "helper client exits with status 1 after %d answers; --max-servers %d; helper servers exit 20 ms or 1200 ms after the stop request" % (after_answers, max_servers),
         "argv": " ".join(args), "exit": rc, "servers_started": len(ready), "output_tail": text[-800:]}
    if to:
        ctx.add_violation("c05/not-terminating/client-fault", "the run did not terminate within the progress bound", w)
        return
    client_exit = [e for e in evs if e["ev"] == "client_exit"]
    exits = {e["pid"]: e for e in evs if e["ev"] == "server_exit"}
    asked = {e["pid"]: e for e in evs if e["ev"] == "server_stop_signal"}
    slow_asked = [p for p in asked if script["stop_delay_ms_for"].get(ready.get(p, {}).get("key"), 1200) >= 1200]
    if not client_exit or len(ready) < 2 or not slow_asked:
        ctx.inconclusive.append("c05 client-fault %d: the scenario did not take place (client exit logged: %s, %d servers, %d slow ones asked to stop)" % (rid, bool(client_exit), len(ready), len(slow_asked)))
        return
    stats["client_fault_decided"] = stats.get("client_fault_decided", 0) + 1
    stats.setdefault("client_fault", []).append({"max_servers": max_servers, "client_exits_after_answers": after_answers, "servers_started": len(ready), "asked_to_stop": len(asked), "slow_servers_asked": len(slow_asked), "runner_exit": rc})
    never_asked = [p for p in ready if p not in asked and p not in exits]
    late = sorted((exits[p]["t"] - t_exit) / 1e6 for p in exits if exits[p]["t"] > t_exit)
    if alive_after or late or never_asked:
        w["alive_right_after_runner_exit"] = alive_after
        w["server_exits_after_runner_exit_ms"] = [round(x, 1) for x in late]
        w["never_asked_to_stop"] = never_asked
        ctx.add_violation("c05/server-outlives-the-run/client-fault", "the runner ended while %d of the %d server processes it had started were still alive (%d logged their exit after it, %d were never asked to stop)" % (max(len(alive_after), len(late), len(never_asked)), len(ready), len(late), len(never_asked)), w)
    # the printed totals still account for every selected case once: what ran plus what could not be run
    out = e2e.parse_output(text)
    if out["total"] is None:
        ctx.add_violation(prefix + "/client-fault/no-summary", "the run printed no totals", w)
    else:
        accounted = (out["passed"] or 0) + (out["nfailed"] or 0) + out["could_not_run"] + out["expected_failures"]
        stats["client_fault_totals_checked"] = stats.get("client_fault_totals_checked", 0) + 1
        if accounted != len(sel):
            w["selected"] = len(sel)
            ctx.add_violation(prefix + "/client-fault/totals", "the client died with batches still to be started: %d cases were selected, the summary accounts for %d (total %s, passed %s, failed %s, could not be run %s)" % (len(sel), accounted, out["total"], out["passed"], out["nfailed"], out["could_not_run"]), w)
    if rc == 0:
        ctx.add_violation("c05/client-fault-run-succeeds", "the client exited with status 1 in the middle of the run, the runner exited with 0", w)


def client_mode_bound_run(ctx, bins, peer, max_servers, stats):
    """Client mode has two kinds of in-process servers (reference and grpc-go). A slow helper client dials, at
    every request, every server address it has been told so far: never more than --max-servers may accept."""
    d = os.path.join(ctx.W, "c05-cbound-%d" % max_servers)
    os.makedirs(d, exist_ok=True)
    confp = os.path.join(d, "conf.yaml")
    open(confp, "w").write(CONFIGS["C"])
    evp = os.path.join(d, "events.jsonl")
    script = {"default": "canned", "probe": False, "probe_known_ports": True, "answer_delay_ms": 350, "seed": ctx.seed, "mode": "logging"}
    args = ["-v", "--conf", confp, "--mode", "client", "--max-servers", str(max_servers), "--run", "Basic/**", "--", peer, "client"]
    env = {"VERIF_EVENTLOG": evp, "VERIF_PEER_SCRIPT": json.dumps(script)}
    rc, to, text = e2e.run_runner(ctx, bins, args, "c05-cbound-%d" % max_servers, timeout=600, env=env, race_label="c05-cbound-%d" % max_servers)
    evs = load_events(evp)
    recv = [e for e in evs if e["ev"] == "client_recv" and "known_servers_alive" in e]
    w = {"scenario": "client mode (reference + grpc-go servers in-process), --max-servers %d, helper client answers after 350 ms and dials every server address seen so far" % max_servers,
         "argv": " ".join(args), "exit": rc, "requests": len(recv), "output_tail": text[-600:]}
    if to:
        ctx.add_violation("c05/not-terminating/client-mode-bound", "the run did not terminate within the progress bound", w)
        return
    ports = {(e["host"], e["port"]) for e in recv}
    grpc_marked = sum(1 for e in recv if "(grpc server impl)" in e["name"])
    if len(recv) < 10 or len(ports) < 3 or grpc_marked == 0:
        ctx.inconclusive.append("c05 client-mode-bound: too little happened (%d requests, %d server addresses, %d for the grpc-go server)" % (len(recv), len(ports), grpc_marked))
        return
    peak = max(e["known_servers_alive"] for e in recv)
    worst = max(recv, key=lambda e: e["known_servers_alive"])
    stats.setdefault("client_mode_bound", []).append({"max_servers": max_servers, "requests": len(recv), "server_addresses": len(ports), "peak_alive": peak, "grpc_server_requests": grpc_marked})
    stats["client_mode_bound_decided"] = stats.get("client_mode_bound_decided", 0) + 1
    if peak > max_servers:
        w["moment"] = {"request": worst["name"], "alive": worst.get("alive_addrs")}
        ctx.add_violation("c05/too-many-servers/client-mode", "%d in-process servers accepted connections at the same moment with --max-servers %d" % (peak, max_servers), w)


def run(ctx, bins, peer, tier):
    rnd = random.Random(ctx.seed * 7919 + 1)
    stats = {}
    ctx.extra["c05"] = stats
    for j, (code, ms) in enumerate([(0, 150), (1, 150)] if tier == "quick" else [(0, 100), (1, 100), (0, 300), (3, 300), (0, 20), (0, 200)]):
        server_leaves_run(ctx, bins, peer, j, code, ms, stats)
    for ms_ in ((2,) if tier == "quick" else (1, 2, 3)):
        stubborn_servers_run(ctx, bins, peer, ms_, stats)
    for ms_ in ((1,) if tier == "quick" else (1, 2, 3)):
        client_mode_bound_run(ctx, bins, peer, ms_, stats)
    for j, (ms_, after) in enumerate([(2, 6), (2, 6), (3, 10), (3, 10)] if tier == "quick" else [(2, 6), (2, 6), (3, 10), (3, 10), (2, 3), (3, 20), (8, 12), (2, 25), (2, 14), (3, 3)]):
        client_fault_run(ctx, bins, peer, j, ms_, after, stats)
    nruns = 18 if tier == "quick" else 150
    plans = []
    for i in range(nruns):
        setup = ["server", "client", "both"][i % 3]
        conf = ["A", "B", "C"][(i // 3) % 3]
        ms = rnd.choice([1, 2, 3, 8])
        gm = rnd.choice([1, 2, 16])
        plans.append((i, setup, conf, ms, gm))
    results = []

    def prepare_and_run(p):
        i, setup, conf, ms, gm = p
        d = os.path.join(ctx.W, "c05-%d" % i)
        os.makedirs(d, exist_ok=True)
        confp = os.path.join(d, "conf.yaml")
        open(confp, "w").write(CONFIGS[conf])
        base = e2e.model_selection(ctx, confp, setup, SUITE_PATTERNS[conf], ())
        if not base:
            return None
        names = sorted(base)
        lr = random.Random(ctx.seed * 131 + i)
        run = list(SUITE_PATTERNS[conf])
        skip = []
        if i >= 6 and lr.random() < 0.7:
            run = [wildcard(lr, lr.choice(names)) for _ in range(lr.randint(1, 4))]
        if i >= 3 and lr.random() < 0.5:
            skip = [wildcard(lr, lr.choice(names)) for _ in range(lr.randint(1, 2))]
        sel = e2e.model_selection(ctx, confp, setup, run, skip)
        if sel is None:
            return None
        # patterns that match nothing make the runner refuse to start: only keep matching ones
        run = [r for r in run if any(e2e.glob_match(r, n) for n in base)] or list(SUITE_PATTERNS[conf])
        skip = [s for s in skip if any(e2e.glob_match(s, n) for n in base)]
        sel = e2e.model_selection(ctx, confp, setup, run, skip)
        if not sel:
            run, skip = list(SUITE_PATTERNS[conf]), []
            sel = base
        if i == 11:
            run, skip, sel = [r for r in SUITE_PATTERNS[conf] if any(e2e.glob_match(r, n) for n in base)], [], base  # the forced no-certificate scenario runs the plain selection
        fail_key = None
        if setup in ("server", "both") and lr.random() < 0.3:
            fail_key = key_of(sel[lr.choice(sorted(sel))])
        if setup in ("server", "both") and conf in ("A", "B") and (i == 11 or (i > 18 and lr.random() < 0.1)):
            fail_key = "no-cert"
        res = one_run(ctx, bins, peer, i, setup, conf, run, skip, ms, gm, fail_key, ctx.seed * 1000 + i)
        return p, res, sel, fail_key, run, skip

    with cf.ThreadPoolExecutor(3) as ex:
        for r in ex.map(prepare_and_run, plans):
            if r is None:
                continue
            p, res, sel, fail_key, runp, skipp = r
            i, setup, conf, ms, gm = p
            desc = "config %s, run %s, skip %s, max-servers %d, GOMAXPROCS %d, fail %s" % (conf, runp, skipp, ms, gm, fail_key)
            check_run(ctx, res, sel, setup, ms, fail_key, i, stats, desc)
            stats.setdefault("combinations", []).append({"setup": setup, "config": conf, "max_servers": ms, "gomaxprocs": gm, "selected": len(sel), "fail_start": fail_key})
    ctx.extra["evaluations"] = ctx.extra.get("evaluations", 0) + stats.get("permutations_selected", 0)
    ctx.extra["distinct_nontrivial"] = ctx.extra.get("distinct_nontrivial", 0) + stats.get("dispatches_checked", 0)
    ctx.extra["rule"] = "runs of the race-built runner with the scriptable helper peers in modes server (helper logging server under test), client (helper probing client under test) and both; 3 configs (TLS/h2c, client certs + HTTP/3 + GET, gRPC streams) x embedded suites x random --run/--skip patterns derived from the model's names x --max-servers {1,2,3,8} x GOMAXPROCS {1,2,16} x answer/start latencies x optional start failure of one server instance; distinct = dispatches checked against the event log"
    ctx.extra["samples"] = [{"event_log_line": {"ev": "client_recv", "name": "Basic/HTTPVersion:2/Protocol:PROTOCOL_GRPC/.../TLS:true/unary/success", "port": 40123, "probe": "ok alpn=h2", "name_header": "<same name>"}}]
    ctx.extra["not_exhaustive"] = True
    if stats.get("client_cert_dispatches_checked", 0) < 3:
        ctx.inconclusive.append("c05: fewer than 3 client-certificate permutations were dispatched and checked (%d)" % stats.get("client_cert_dispatches_checked", 0))
    if stats.get("tls_permutations_of_servers_without_certificate", 0) < 3:
        ctx.inconclusive.append("c05: the servers-without-certificate scenario covered fewer than 3 TLS permutations")
    if stats.get("client_fault_decided", 0) < 1:
        ctx.inconclusive.append("c05: no client-fault scenario took place")
    if stats.get("server_leaves_decided", 0) < 1:
        ctx.inconclusive.append("c05: no server-leaves scenario was decidable")
