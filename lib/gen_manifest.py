#!/usr/bin/env python3
"""Regenerates /verif/MANIFEST.json from lib/checks.py (SPECS) so that the two never drift."""
import json, os, sys
sys.path.insert(0, os.path.dirname(os.path.abspath(__file__)))
import checks

ALL = ["C%02d" % i for i in range(1, 21)]
m = {
    "version": 1,
    "setup_cmd": "./setup.sh",
    "hooks": {
        "guard": "verif",
        "enable": "no hook lives in /repo: ./check builds /repo's working tree with `go test|build -tags verif -modfile <copy of go.mod + porcupine> -overlay <add-only map of /verif/harness/** into the package directories>`; all injected files carry //go:build verif",
        "baseline_off_cmd": "cd /repo && GOFLAGS=-mod=mod GOPROXY=off GOSUMDB=off GOTOOLCHAIN=local go test -vet=off -count=1 ./...",
        "source_commits": [],
        "add_only": True,
    },
    "engines": [
        {"name": "check", "path": "/verif/check", "serves_properties": [p for p in ALL if p in checks.SPECS],
         "kind_free_text": "python driver: overlay build of in-package Go monitors (harness/), child process per monitor, race-log attribution, known-findings, evidence"},
    ],
    "checks": [],
    "notes": "Runtime monitoring only (DESIGN.md). Exit 2 of a check means inconclusive (never a pass, never a violation).",
    "not_applicable": [],
}
for pid in ALL:
    s = checks.SPECS.get(pid)
    if not s:
        m["not_applicable"].append({"property_id": pid, "reason": "monitor not built yet in this round (in scope for the technique; see DESIGN.md section 2)"})
        continue
    m["checks"].append({
        "property_id": pid,
        "quick_cmd": "./check %s quick" % pid,
        "thorough_cmd": "./check %s thorough" % pid,
        "evidence_file": "/verif/evidence/%s.json" % pid,
        "replay_cmd_template": "./check %s --replay {path}" % pid,
        "engine": "check",
        "level_claimed": {"category": s["level"], "text": s["text"], "design_ref": "DESIGN.md section 2, " + pid},
        "level_note": s["note"],
        "technique": s["technique"],
    })
json.dump(m, open(os.path.join(os.path.dirname(__file__), "..", "MANIFEST.json"), "w"), indent=1)
print("checks:", len(m["checks"]), "not_applicable:", len(m["not_applicable"]))
