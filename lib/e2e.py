"""Process-level helpers: build the five binaries from the tree, run the real
runner, parse what it printed, compute the independent selection."""
import os
import re
import subprocess

REPO = os.environ.get("VERIF_REPO", "/repo")

BINARIES = ["connectconformance", "referenceclient", "referenceserver", "grpcclient", "grpcserver"]


def build_all(ctx, race=False):
    import concurrent.futures as cf
    out = {}
    with cf.ThreadPoolExecutor(5) as ex:
        futs = {b: ex.submit(ctx.build_bin, "cmd/" + b, race) for b in BINARIES}
        for b, f in futs.items():
            out[b] = f.result()
    if any(v is None for v in out.values()):
        return None
    return out


def model_selection(ctx, conf, mode, run=(), skip=(), testfiles=()):
    """Names (and axes) the independent models select for a runner invocation."""
    binp = ctx.build_test("internal/app/connectconformance", False, "cc")
    if not binp:
        return None
    import uuid
    outp = os.path.join(ctx.W, "emit-%s.txt" % uuid.uuid4().hex)
    env = dict(ctx.env, VERIF_EMIT_OUT=outp, VERIF_EMIT_CONF=conf or "", VERIF_EMIT_MODE=mode,
               VERIF_EMIT_RUN="\n".join(run), VERIF_EMIT_SKIP="\n".join(skip), VERIF_EMIT_TESTFILES="\n".join(testfiles))
    p = subprocess.run([binp, "-test.run", "^TestVerifEmitSelection$"], cwd=os.path.join(REPO, "internal/app/connectconformance"),
                       env=env, stdout=subprocess.PIPE, stderr=subprocess.STDOUT, timeout=300)
    if p.returncode != 0 or not os.path.exists(outp):
        ctx.inconclusive.append("model selection failed: " + p.stdout.decode(errors="replace")[-1500:])
        return None
    sel = {}
    for line in open(outp):
        f = line.rstrip("\n").rsplit("\t", 5)
        sel[f[0]] = {"protocol": int(f[1]), "version": int(f[2]), "tls": f[3] == "true", "certs": f[4] == "true", "stream": int(f[5])}
    return sel


FAILED_RE = re.compile(r"^FAILED: (.*?)(?::| was expected to fail but did not)\s*$")
INFO_RE = re.compile(r"^INFO: (.*) failed \(as expected\):\s*$")


def parse_output(text):
    """The runner's observable report."""
    res = {"failed": {}, "unexpected_pass": [], "info": [], "total": None, "passed": None, "nfailed": None,
           "could_not_run": 0, "expected_failures": 0, "errors": []}
    lines = text.split("\n")
    i = 0
    while i < len(lines):
        l = lines[i]
        m = FAILED_RE.match(l)
        if m:
            name = m.group(1)
            if l.rstrip().endswith("was expected to fail but did not"):
                res["unexpected_pass"].append(name)
            detail = []
            j = i + 1
            while j < len(lines) and lines[j].startswith("\t"):
                detail.append(lines[j].strip())
                j += 1
            res["failed"][name] = "\n".join(detail)
            i = j
            continue
        m = INFO_RE.match(l)
        if m:
            res["info"].append(m.group(1))
        m = re.match(r"^Total cases: (\d+)", l)
        if m:
            res["total"] = int(m.group(1))
        m = re.match(r"^(\d+) passed, (\d+) failed", l)
        if m:
            res["passed"], res["nfailed"] = int(m.group(1)), int(m.group(2))
        m = re.match(r"^Another (\d+) could not be run", l)
        if m:
            res["could_not_run"] = int(m.group(1))
        m = re.match(r"^\(Another (\d+) failed as expected", l)
        if m:
            res["expected_failures"] = int(m.group(1))
        i += 1
    return res


def run_runner(ctx, bins, args, label, timeout=3600, env=None, race_label=None, reap=True):
    """Runs the real connectconformance binary; returns (rc, timed_out, text)."""
    e = {"GORACE": "halt_on_error=0 log_path=%s" % os.path.join(ctx.race_dir, race_label or label)}
    if env:
        e.update(env)
    argv = [bins["connectconformance"]] + list(args)
    rc, to, path = ctx.run(argv, REPO, timeout, label + ".log", e, reap=reap)
    text = open(path, errors="replace").read()
    return rc, to, text


def glob_match(pattern, name):
    return _gm(pattern.split("/"), name.split("/"))


def _gm(p, n):
    if not p:
        return not n
    if p[0] == "**":
        return any(_gm(p[1:], n[k:]) for k in range(len(n) + 1))
    if not n:
        return False
    if p[0] == "*" or p[0] == n[0]:
        return _gm(p[1:], n[1:])
    return False


def read_patterns(path):
    out = []
    for l in open(path):
        l = l.strip()
        if l and not l.startswith("#"):
            out.append(l)
    return out
