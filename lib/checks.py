"""Per-property check definitions for /verif/check."""


def c08(ctx):
    ctx.gotest("cc", "^TestVerifC08", race=False, timeout=900)
    ctx.gotest("cmdcc", "^TestVerifC08", race=False, timeout=300)


def c06(ctx):
    if ctx.tier == "quick":
        ctx.gotest("cc", "^TestVerifC06", timeout=600)
    else:
        shards = 16
        import concurrent.futures as cf
        ctx.build_test("internal/app/connectconformance", False, "cc")
        with cf.ThreadPoolExecutor(shards) as ex:
            list(ex.map(lambda i: ctx.gotest("cc", "^TestVerifC06", timeout=3000, label="cc-c06-%d" % i,
                                             env={"VERIF_SHARD": str(i), "VERIF_SHARDS": str(shards)}), range(shards)))


SPECS = {
    "C06": {"fn": c06, "level": "exploration",
            "technique": "runtime monitoring: reference-model monitor (declarative set comprehension) compared with the real parseConfig on a bounded-exhaustive feature slice and seeded random configs",
            "text": "parseConfig is executed on every feature block of a 4.5M-config slice (thorough: complete, 16 shards; quick: 1/64 stratified) and on 60k-1.1M random configs with include/exclude entries; an independent comprehension of the documented semantics decides set equality, possibility of every returned case, and the must/may-error rule.",
            "note": "Trusts the comprehension in harness/cc/model_config_test.go as the meaning of docs/configuring_and_running_tests.md; entries denoting the empty set may (but need not) be rejected; YAML syntax is protoyaml's business (inputs are protojson).",
            "assumptions": ["model_config_test.go is the specification of config expansion"]},
    "C08": {"fn": c08, "level": "exploration",
            "technique": "runtime monitoring: reference-model monitor (independent glob matcher) evaluated next to the real trie/filter/flag collection on bounded-exhaustive and seeded random inputs",
            "text": "The real parsePatterns/matchPattern, testCaseFilter, tryMatchPatterns, run() ambiguity check and argsToPatterns are executed on every pattern set of a bounded alphabet (all single patterns of length<=4, all pairs of length<=3, sampled triples, random longer ones) and on every split of a pattern list across flags and @files; an independent 10-line glob model is the oracle. Exhaustive over the small slice where every matcher branch is reachable, sampled beyond.",
            "note": "Trusts the glob model as the documented semantics; the trie's shadowing of lower-priority patterns in the unmatched report is counted but not a violation (statement is one-directional).",
            "assumptions": ["the 10-line recursive glob matcher in harness/cc/model_glob_test.go is the meaning of the documented pattern language"]},
}
