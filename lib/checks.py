"""Per-property check definitions for /verif/check."""


def c08(ctx):
    ctx.gotest("cc", "^TestVerifC08", race=False, timeout=900)
    ctx.gotest("cmdcc", "^TestVerifC08", race=False, timeout=300)


def c06(ctx):
    if ctx.tier == "quick":
        ctx.gotest("cc", "^TestVerifC06", timeout=600)
    else:
        shards = 16
        import concurrent.futures as cf
        ctx.build_test("internal/app/connectconformance", False, "cc")
        with cf.ThreadPoolExecutor(shards) as ex:
            list(ex.map(lambda i: ctx.gotest("cc", "^TestVerifC06", timeout=3000, label="cc-c06-%d" % i,
                                             env={"VERIF_SHARD": str(i), "VERIF_SHARDS": str(shards)}), range(shards)))


def c07(ctx):
    import concurrent.futures as cf
    ctx.build_test("internal/app/connectconformance", False, "cc")
    with cf.ThreadPoolExecutor(3) as ex:
        futs = [ex.submit(ctx.gotest, "cc", "^TestVerifC07Library$", timeout=2400, label="cc-c07-%d" % i, env={"VERIF_RUNIDX": str(i)}) for i in (0, 1)]
        futs.append(ex.submit(ctx.gotest, "cc", "^TestVerifC07(Embedded|ParseModeRules)$", timeout=900))
        [f.result() for f in futs]
    # same seed, two processes: Go randomises map iteration per process, the digests must agree
    import os
    if os.environ.get("VERIF_BUILD_ONLY"):
        return
    d = [os.path.join(ctx.reports_dir, "cc-c07-%d" % i, "c07-digests-%d.txt" % i) for i in (0, 1)]
    if all(os.path.exists(x) for x in d):
        a, b = open(d[0]).read().split("\n"), open(d[1]).read().split("\n")
        diff = [i for i, (x, y) in enumerate(zip(a, b)) if x != y]
        ctx.extra["cross_process_inputs_compared"] = min(len(a), len(b))
        if diff or len(a) != len(b):
            ctx.add_violation("library/unstable-across-processes", "expansion of input #%s differs between two processes of the same seed" % (diff[:5],), {"indices": diff[:50]})
    else:
        ctx.inconclusive.append("cross-process digests missing")


def c12(ctx):
    ctx.gotest("refserver", "^TestVerifC12(Matrix|Timeout|Wire)", race=False, timeout=1800)
    ctx.gotest("refserver", "^TestVerifC12(RepeatConcurrent|PrinterConcurrent)$", race=True, timeout=900)


def c09(ctx):
    ctx.gotest("internal", "^TestVerifC09", race=True, timeout=1800)
    ctx.gotest("refclient", "^TestVerifC09", race=True, timeout=1800)


def c14(ctx):
    ctx.gotest("tracer", "^TestVerifC14", race=True, timeout=2400)


def c03(ctx):
    ctx.gotest("cc", "^TestVerifC03", race=False, timeout=3000)


def c18(ctx):
    ctx.gotest("internal", "^TestVerifC18", race=False, timeout=1800)
    ctx.gotest("grpcutil", "^TestVerifC18", race=False, timeout=1800)


def c20(ctx):
    ctx.gotest("compression", "^TestVerifC20", race=False, timeout=1800)
    # the same instance histories on a machine with few processors (constructors may size themselves by GOMAXPROCS)
    for gm in (("2",) if ctx.tier == "quick" else ("1", "2", "3", "5")):
        ctx.gotest("compression", "^TestVerifC20(Pool|Constructors|CompressorReuse)$", race=False, timeout=1800, label="compression-c20-gomaxprocs%s" % gm, env={"GOMAXPROCS": gm})
    ctx.gotest("tracer", "^TestVerifC20", race=True, timeout=900)
    ctx.gotest("internal", "^TestVerifC20", race=False, timeout=600)
    ctx.gotest("refserver", "^TestVerifC20", race=False, timeout=900)
    if "refclient" in PKG_HAS and "c20" in PKG_HAS["refclient"]:
        ctx.gotest("refclient", "^TestVerifC20", race=False, timeout=900)


import os as _os
PKG_HAS = {}
for _d in _os.listdir(_os.path.join(_os.path.dirname(_os.path.abspath(__file__)), "..", "harness")):
    _p = _os.path.join(_os.path.dirname(_os.path.abspath(__file__)), "..", "harness", _d)
    if _os.path.isdir(_p):
        PKG_HAS[_d] = set(x for f in _os.listdir(_p) for x in __import__("re").findall(r"c\d\d", f.split("_")[0]))


def c16(ctx):
    ctx.gotest("tracer", "^TestVerifC16", race=True, timeout=3000)
    ctx.gotest("refclient", "^TestVerifC16", race=True, timeout=1200)
    ctx.gotest("cc", "^TestVerifC16", race=True, timeout=1200)


def c10(ctx):
    ctx.gotest("cc", "^TestVerifC10", race=True, timeout=3000)
    if ctx.tier == "thorough":
        for gm in ("1", "4"):
            ctx.gotest("cc", "^TestVerifC10Mux$", race=True, timeout=3000, label="cc-c10-gomaxprocs%s" % gm, env={"GOMAXPROCS": gm, "VERIF_PARTSUFFIX": gm})


def c11(ctx):
    ctx.gotest("cc", "^TestVerifC11", race=True, timeout=3000)


def c15(ctx):
    ctx.gotest("tracer", "^TestVerifC15", race=True, timeout=3000)


def c13(ctx):
    ctx.gotest("refserver", "^TestVerifC13", race=False, timeout=3000)


def c19(ctx):
    ctx.gotest("cc", "^TestVerifC19", race=False, timeout=3000)
    ctx.gotest("refserver", "^TestVerifC19", race=False, timeout=1800)
    if "c19" in PKG_HAS.get("refclient", ()):
        ctx.gotest("refclient", "^TestVerifC19", race=False, timeout=1800)


def c17(ctx):
    ctx.gotest("refserver", "^TestVerifC17", race=False, timeout=1800)
    ctx.gotest("refclient", "^TestVerifC17", race=False, timeout=1800)
    ctx.gotest("internal", "^TestVerifC17", race=False, timeout=900)


# ---------------------------------------------------------------- C01

REFERENCE_RUNS = [
    # label, config, mode, known-failing list, peer binary
    ("refserver", "testing/reference-impls-config.yaml", "server", "testing/referenceserver-known-failing.txt", "referenceserver"),
    ("refclient", "testing/reference-impls-config.yaml", "client", "testing/referenceclient-known-failing.txt", "referenceclient"),
]
GRPC_RUNS = [
    ("grpcserver", "testing/grpc-impls-config.yaml", "server", "testing/grpcserver-known-failing.txt", "grpcserver"),
    ("grpcserver-web", "testing/grpc-web-server-impl-config.yaml", "server", "testing/grpcserver-web-known-failing.txt", "grpcserver"),
    ("grpcclient", "testing/grpc-impls-config.yaml", "client", "testing/grpcclient-known-failing.txt", "grpcclient"),
]
SIZE_SUITE = {"client": "Client Message Size", "server": "Server Message Size"}


def _c01_one(ctx, bins, label, conf, mode, kf, peer, run=(), skip=(), extra=(), race_label=None, stats=None):
    """One runner invocation + the oracle of C01 over its output."""
    import e2e
    import os
    repo = e2e.REPO
    sel = e2e.model_selection(ctx, os.path.join(repo, conf), mode, run, skip)
    if sel is None:
        return
    args = ["-v", "--trace", "--conf", os.path.join(repo, conf), "--mode", mode, "--known-failing", "@" + os.path.join(repo, kf)]
    for r in run:
        args += ["--run", r]
    for s in skip:
        args += ["--skip", s]
    args += list(extra) + ["--", bins[peer]]
    rc, to, text = e2e.run_runner(ctx, bins, args, "c01-" + label, timeout=5400, race_label=race_label)
    out = e2e.parse_output(text)
    w = {"run": label, "argv": " ".join(args), "exit": rc}
    st = stats.setdefault(label, {})
    st.update({"selected_by_model": len(sel), "total_cases": out["total"], "passed": out["passed"], "failed": out["nfailed"], "info": len(out["info"]), "could_not_run": out["could_not_run"], "exit": rc})
    if to:
        ctx.add_violation("c01/%s/timeout" % label, "runner did not finish", dict(w, tail=text[-3000:]))
        return
    if out["total"] is None:
        ctx.add_violation("c01/%s/no-summary" % label, "runner printed no summary (exit %s)" % rc, dict(w, tail=text[-3000:]))
        return
    # every selected permutation must have been run: the independent count closes "silently ran fewer"
    accounted = out["total"] + out["could_not_run"]
    if accounted != len(sel) or out["could_not_run"]:
        ctx.add_violation("c01/%s/case-count" % label, "runner accounts for %d cases (+%d could not be run), the independent models select %d" % (out["total"], out["could_not_run"], len(sel)), w)
    # failures: re-run alone before calling a deviation (timing suites / QUIC accept backlog are load dependent)
    failing = dict(out["failed"])
    patterns = e2e.read_patterns(os.path.join(repo, kf))
    want_info = sorted(n for n in sel if any(e2e.glob_match(p, n) for p in patterns))
    flaky = []
    for name, detail in sorted(failing.items())[:40]:
        still = 0
        for attempt in range(2):
            a2 = ["-v", "--trace", "--conf", os.path.join(repo, conf), "--mode", mode, "--run", name, "--max-servers", "1"]
            if mode == "server":
                a2 += ["-p", "4"]
            a2 += ["--", bins[peer]]
            rc2, to2, t2 = e2e.run_runner(ctx, bins, a2, "c01-%s-rerun" % label, timeout=300, race_label=race_label)
            o2 = e2e.parse_output(t2)
            if rc2 != 0 or o2["failed"]:
                still += 1
        if still == 2:
            key = "c01/%s/unexpected-failure/%s" % (label, _name_class(name))
            ctx.add_violation(key, "permutation %r fails deterministically: %s" % (name, detail[:600]), dict(w, permutation=name, detail=detail[:3000]))
        else:
            flaky.append({"name": name, "first_error": detail[:300]})
    if len(failing) > 40:
        ctx.add_violation("c01/%s/many-failures" % label, "%d permutations failed" % len(failing), dict(w, examples=sorted(failing)[:20]))
    st["flaky_reruns"] = flaky
    # known-failing lists stay exact
    got_info = sorted(out["info"])
    if got_info != want_info:
        missing = [n for n in want_info if n not in got_info]
        extra_i = [n for n in got_info if n not in want_info]
        ctx.add_violation("c01/%s/known-failing-not-exact" % label, "expected-failure set differs from what the shipped list matches: listed but not failing as expected %s; failing as expected but not listed %s" % (missing[:5], extra_i[:5]), w)
    for name in out["unexpected_pass"]:
        ctx.add_violation("c01/%s/listed-case-passes" % label, "known-failing case %r passed" % name, w)
    if not failing and not out["unexpected_pass"] and rc != 0 and accounted == len(sel):
        ctx.add_violation("c01/%s/nonzero-exit" % label, "runner exited %s without reporting a failing case" % rc, dict(w, tail=text[-3000:]))
    if out["passed"] is not None and out["passed"] + out["nfailed"] + out["expected_failures"] != out["total"]:
        ctx.add_violation("c01/%s/totals" % label, "summary does not add up: %s" % {k: out[k] for k in ("total", "passed", "nfailed", "expected_failures")}, w)
    ctx.extra["evaluations"] = ctx.extra.get("evaluations", 0) + (out["total"] or 0)
    ctx.extra["distinct_nontrivial"] = ctx.extra.get("distinct_nontrivial", 0) + (out["passed"] or 0)


def _name_class(name):
    import re as _re
    parts = name.split("/")
    return parts[0] + "/" + _re.sub(r"[^A-Za-z]+", "-", parts[-1])[:40]


def c01(ctx):
    import e2e
    bins = e2e.build_all(ctx, race=False)
    if not bins:
        return
    stats = {}
    ctx.extra["runs"] = stats
    ctx.extra["rule"] = "every permutation the independent models derive from the shipped configs x embedded suites is run by the real binaries exactly as `make runconformance` does; distinct = permutations that passed; quick: message-size suites on a reduced matrix (HTTP/2 without TLS, every protocol, codec and compression), everything else complete; thorough: complete"
    import concurrent.futures as cf
    if ctx.tier == "quick":
        jobs = []
        for (label, conf, mode, kf, peer) in REFERENCE_RUNS:
            jobs.append((label, conf, mode, kf, peer, (), (SIZE_SUITE[mode] + "/**",), ()))
            jobs.append((label + "-msgsize", conf, mode, kf, peer, (SIZE_SUITE[mode] + "/HTTPVersion:2/**/TLS:false/**",), (), ()))
        for (label, conf, mode, kf, peer) in GRPC_RUNS:
            jobs.append((label, conf, mode, kf, peer, (), (), ()))
        with cf.ThreadPoolExecutor(2) as ex:
            list(ex.map(lambda j: _c01_one(ctx, bins, j[0], j[1], j[2], j[3], j[4], j[5], j[6], j[7], stats=stats), jobs))
        rbins = e2e.build_all(ctx, race=True)
        if rbins:
            for (label, conf, mode, kf, peer) in REFERENCE_RUNS:
                _c01_one(ctx, rbins, label + "-race", conf, mode, kf, peer, ("Basic/**", "Duplicate Metadata/**", "TLS Client Certs/**", "Connect with GET/**"), (), (), race_label="c01-race-" + label, stats=stats)
        ctx.extra["not_exhaustive"] = True
    else:
        jobs = [(l, c, m, k, p, (), (), ()) for (l, c, m, k, p) in REFERENCE_RUNS + GRPC_RUNS]
        with cf.ThreadPoolExecutor(2) as ex:
            list(ex.map(lambda j: _c01_one(ctx, bins, j[0], j[1], j[2], j[3], j[4], j[5], j[6], j[7], stats=stats), jobs))
        rbins = e2e.build_all(ctx, race=True)
        if rbins:
            for ms in ("1", "8"):
                for (label, conf, mode, kf, peer) in REFERENCE_RUNS:
                    _c01_one(ctx, rbins, "%s-race-ms%s" % (label, ms), conf, mode, kf, peer, (), (SIZE_SUITE[mode] + "/**",), ("--max-servers", ms), race_label="c01-race-%s-%s" % (label, ms), stats=stats)
    ctx.extra["samples"] = [{"run": k, **{kk: vv for kk, vv in v.items() if kk != "flaky_reruns"}} for k, v in list(stats.items())[:6]]
    ctx.extra["exhaustive_note"] = "thorough tier enumerates the complete permutation space of all five runs"


# ---------------------------------------------------------------- C02

C02_RUNS = [
    # label, config, mode, command builder
    ("server", "testing/reference-impls-config.yaml", "server", lambda b: ["--", b["referenceserver"]]),
    ("client", "testing/reference-impls-config.yaml", "client", lambda b: ["--", b["referenceclient"]]),
    ("both", "testing/reference-impls-config.yaml", "both", lambda b: ["--", b["referenceclient"], "----", b["referenceserver"]]),
    ("grpcserver", "testing/grpc-impls-config.yaml", "server", lambda b: ["--", b["grpcserver"]]),
    ("grpcserver-web", "testing/grpc-web-server-impl-config.yaml", "server", lambda b: ["--", b["grpcserver"]]),
    ("grpcclient", "testing/grpc-impls-config.yaml", "client", lambda b: ["--", b["grpcclient"]]),
]


def _c02_failure_class(name, detail, shapes):
    import re as _re
    simple = "/".join(name.split("/")[-2:])
    shape = shapes.get(simple, "?")
    first = (detail.split("\n")[0] if detail else "")
    first = _re.sub(r'"[^"]*"', '"…"', first)
    first = _re.sub(r"\d+", "N", first)[:70]
    marker = "grpc-client" if "(grpc client impl)" in name else ("grpc-server" if "(grpc server impl)" in name else "ref")
    proto = "?"
    m = _re.search(r"Protocol:PROTOCOL_(\w+)", name)
    if m:
        proto = m.group(1).lower()
    return "%s/%s/%s/%s" % (shape, marker, proto, first)


def c02(ctx):
    import e2e, os, json, subprocess, concurrent.futures as cf
    ctx.gotest("cc", "^TestVerifC02Loader$", race=False, timeout=2400)
    bins = e2e.build_all(ctx, race=False)
    if not bins:
        return
    gdir = os.path.join(ctx.W, "c02")
    os.makedirs(gdir)
    ncases = 40 if ctx.tier == "quick" else 600
    binp = ctx.build_test("internal/app/connectconformance", False, "cc")
    env = dict(ctx.env, VERIF_C02_DIR=gdir, VERIF_C02_CASES=str(ncases), VERIF_C02_PER_FILE="20")
    p = subprocess.run([binp, "-test.run", "^TestVerifC02Generate$"], cwd=os.path.join(e2e.REPO, "internal/app/connectconformance"), env=env, stdout=subprocess.PIPE, stderr=subprocess.STDOUT)
    files = sorted(f for f in os.listdir(gdir) if f.endswith(".yaml"))
    if p.returncode != 0 or not files:
        ctx.inconclusive.append("C02 generator failed: " + p.stdout.decode(errors="replace")[-1500:])
        return
    shapes = dict(l.rstrip("\n").split("\t") for l in open(os.path.join(gdir, "shapes.tsv")) if l.strip())
    stats = {"generated_cases": len(shapes), "suite_files": len(files), "runs": {}}
    ctx.extra["c02"] = stats
    ctx.extra["rule"] = "seeded generator of well-formed cases in the deterministic fragment (5 stream types, 0-4 requests and responses incl. more/fewer responses than requests, payloads empty/1 byte/all 256 values/4 KB, 0-3 mixed-case multi-valued and -bin headers and trailers, errors with any code, hostile messages and 0-3 details; plus side-effect-free unary calls sent with Connect GET whose request data has 0 ... 7000 bytes) x every permutation of the shipped reference and gRPC configs, modes server, client, both, grpcserver (gRPC and gRPC-Web config) and grpcclient; distinct = permutations that passed"
    jobs = []
    for f in files:
        for (label, conf, mode, cmd) in C02_RUNS:
            if f.startswith("get-") and label.startswith("grpc"):
                continue  # Connect GET cases do not exist under the gRPC-only configurations
            jobs.append((f, label, conf, mode, cmd))

    def one(job):
        f, label, conf, mode, cmd = job
        args = ["--conf", os.path.join(e2e.REPO, conf), "--mode", mode, "--test-file", os.path.join(gdir, f)] + cmd(bins)
        rc, to, text = e2e.run_runner(ctx, bins, args, "c02-%s-%s" % (label, f), timeout=1800)
        return job, rc, to, text, args

    failures = {}   # class -> list of (file, label, name, detail, args)
    with cf.ThreadPoolExecutor(3) as ex:
        for job, rc, to, text, args in ex.map(one, jobs):
            f, label, conf, mode, cmd = job
            out = e2e.parse_output(text)
            st = stats["runs"].setdefault(label, {"cases": 0, "passed": 0, "failed": 0, "invocations": 0, "hung": 0})
            st["invocations"] += 1
            if "no test cases apply" in text and out["total"] is None:
                continue
            if out["total"] is None:
                if "panic:" in text or "goroutine " in text:
                    import re as _re
                    m = _re.search(r"connectrpc\.com/conformance/(\S+?)\(", text[text.find("panic:"):])
                    site = m.group(1) if m else "unknown"
                    ctx.add_violation("c02/runner-crash/" + site, "the runner crashed on a generated suite (%s, %s)" % (f, label), {"suite": open(os.path.join(gdir, f)).read()[:20000], "argv": " ".join(args), "tail": text[-3000:]})
                elif "failed to" in text or "error" in text.lower():
                    ctx.add_violation("c02/suite-rejected/" + label, "a well-formed generated suite was rejected by the runner: " + text.strip()[-300:], {"suite": open(os.path.join(gdir, f)).read()[:20000], "argv": " ".join(args), "tail": text[-2000:]})
                else:
                    ctx.inconclusive.append("C02 run %s %s printed no summary: %s" % (label, f, text[-500:]))
                continue
            st["cases"] += out["total"]
            st["passed"] += out["passed"] or 0
            st["failed"] += out["nfailed"] or 0
            hung = "timed out waiting for result" in text
            st["hung"] += 1 if hung else 0
            for name, detail in out["failed"].items():
                failures.setdefault(_c02_failure_class(name, detail, shapes), []).append((f, label, conf, mode, name, detail, hung))
            if out["could_not_run"]:
                failures.setdefault("could-not-run/" + label, []).append((f, label, conf, mode, "(%d cases)" % out["could_not_run"], text[-800:], hung))
    # triage: re-run one representative per class alone (isolates hang cascades and load flakes), then report
    for cls, items in sorted(failures.items()):
        f, label, conf, mode, name, detail, hung = items[0]
        cmd = [c for c in C02_RUNS if c[0] == label][0][3]
        confirmed = None
        if not name.startswith("("):
            # a failure class is reported only if its representative fails again on its own, every time: twice in a row,
            # and - when the text is a transport-level refusal/time-out, which an overloaded machine produces by itself
            # (e.g. quic-go answers CONNECTION_REFUSED when its accept queue is full) - five times with pauses in between
            import time as _time
            transportish = any(t in detail for t in ("CONNECTION_REFUSED", "connection refused", "i/o timeout", "handshake", "connection reset", "no recent network activity", "broken pipe", "unexpected EOF", "use of closed network connection"))
            need = 5 if transportish else 2
            fails = 0
            for attempt in range(need):
                if attempt >= 2:
                    _time.sleep(8)
                args = ["--conf", os.path.join(e2e.REPO, conf), "--mode", mode, "--test-file", os.path.join(gdir, f), "--run", name, "--max-servers", "1"] + cmd(bins)
                rc, to, text = e2e.run_runner(ctx, bins, args, "c02-rerun", timeout=300)
                o2 = e2e.parse_output(text)
                if rc != 0 or o2["failed"] or o2["total"] is None:
                    fails += 1
                else:
                    break
            confirmed = fails == need
        if confirmed is False:
            stats.setdefault("flaky_reruns", []).append({"class": cls, "name": name})
            continue
        suite = json.load(open(os.path.join(gdir, f)))
        simple = "/".join(name.split("/")[-2:])
        case = [tc for tc in suite.get("testCases", []) if tc.get("request", {}).get("testName") == simple]
        ctx.add_violation("c02/" + cls, "generated case %r fails deterministically as %r (%d permutations in this class): %s" % (simple, name, len(items), detail[:400]),
                          {"permutation": name, "run": label, "failing_permutations_in_class": len(items), "error": detail[:3000], "test_case": case[:1], "suite_file": f})
    total = sum(v["cases"] for v in stats["runs"].values())
    ctx.extra["evaluations"] = ctx.extra.get("evaluations", 0) + total
    ctx.extra["distinct_nontrivial"] = ctx.extra.get("distinct_nontrivial", 0) + sum(v["passed"] for v in stats["runs"].values())
    ctx.extra["samples"] = [{"generated_case": json.load(open(os.path.join(gdir, files[0])))["testCases"][0], "expanded_to": "every permutation of the shipped configs in 6 run set-ups"}]
    ctx.extra["not_exhaustive"] = True


def c04(ctx):
    ctx.gotest("cc", "^TestVerifC04", race=True, timeout=3000)
    if _os.environ.get("VERIF_DEV_SKIP_L2"):  # development aid only: never set by the registered commands
        ctx.inconclusive.append("level 2 skipped (VERIF_DEV_SKIP_L2)")
        return
    c04_level2(ctx)


def c04_level2(ctx):
    import e2e, c04l2
    bins = e2e.build_all(ctx, race=False)
    peer = ctx.build_bin("cmd/verifpeer", False)
    if not bins or not peer:
        return
    c04l2.run(ctx, bins, peer, ctx.tier)
    # a server that leaves in the middle of a large batch of known-failing cases: the cases that could not be
    # run count against success (same scenario machinery as C05; decided on exit status and FAILED lines)
    import c05 as c05mod
    st = {}
    ctx.extra["level2_server_leaves"] = st
    for j, code in enumerate((0, 1) if ctx.tier == "quick" else (0, 1, 3)):
        c05mod.server_leaves_run(ctx, bins, peer, j, code, 150, st, known_failing=True, prefix="l2/server-left")
    if st.get("server_leaves_decided", 0) < 1:
        ctx.inconclusive.append("l2/server-left: no scenario was decidable")
    # a client that dies while batches are still to be started: the run fails and the totals still account for every case
    for j, (ms_, after) in enumerate([(2, 6), (2, 9)] if ctx.tier == "quick" else [(2, 6), (2, 9), (3, 10), (1, 4)]):
        c05mod.client_fault_run(ctx, bins, peer, 100 + j, ms_, after, st, prefix="l2")
    if st.get("client_fault_totals_checked", 0) < 1:
        ctx.inconclusive.append("l2/client-fault: no scenario took place")


def c05(ctx):
    import e2e, c05 as c05mod
    bins = e2e.build_all(ctx, race=True)
    peer = ctx.build_bin("cmd/verifpeer", False)
    if not bins or not peer:
        return
    c05mod.run(ctx, bins, peer, ctx.tier)


SPECS = {
    "C05": {"fn": c05, "level": "exploration",
            "technique": "runtime monitoring at process boundaries under the race detector: offline checker over a monotonic event log written by scriptable helper peers (exactly-once dispatch, matching and alive server, overlap bound, cleanup) plus the runner's output, against the selection computed by independent models",
            "text": "The race-built runner is executed with helper peers that log, at their own boundary, every ServerCompatRequest, ClientCompatRequest and arriving RPC; the checker requires the multiset of issued permutations to equal the independently computed selection (minus those whose server was scripted not to start, which must be reported), each request to address a live server whose logged configuration equals the permutation's axes (probed by TCP/TLS/QUIC handshake or observed by the very instance that received the RPC), the test-name header, at most --max-servers overlapping server lifetimes, a stop for every started server and termination. Dedicated scenarios let one server instance end on its own (exit status 0 and non-zero) in the middle of a large TLS batch whose hand-over is paced by a slow-reading helper client: the bytes handed to the client after the logged exit must not exceed what the stdin pipe (capacity logged by the client) could already hold, and every permutation is either handed over once or reported. The check is inconclusive unless client-certificate permutations were actually dispatched and checked. Further scenarios: helper servers that ignore SIGTERM (process lifetimes sampled from /proc: none may outlive the run, never more than --max-servers alive at once), raw-request suites in server mode (test name header also on raw requests), and client mode, where a slow helper client dials every server address it has been told so far at each request: never more than --max-servers in-process servers may accept connections (reference and grpc-go passes together); and a helper client that exits with status 1 after k answers while several batches are in flight and the helper servers need 20 ms or 1.2 s to leave after the stop request: every started server has logged its exit (CLOCK_MONOTONIC) before the runner's own exit was observed, none is alive in /proc right after it, and the run is a failure.",
            "note": "Interleavings of the batch goroutines are sampled by varying --max-servers, GOMAXPROCS and peer latencies; alive intervals are logged subsets of real lifetimes (the bound check cannot raise a false alarm).",
            "assumptions": ["CLOCK_MONOTONIC is shared by all processes of a run", "model_*_test.go compute the selected set"]},
    "C04": {"fn": c04, "level": "exploration",
            "technique": "runtime monitoring: truth-table oracle over (a) the real testResults driven through its entry points from concurrent goroutines and (b) the real runner binary with scripted helper peers realising each outcome kind; observed: report() value / process exit status, FAILED and INFO lines, summary totals",
            "text": "Every assignment of outcome kind x marking x feedback to 1-2 cases (3 cases stratified/complete) and random assignments to 4-12 cases are applied to the real results object and the printed report is compared with the truth table (verdict, naming of every failing case, accounting of every case exactly once). The same rows are realised end to end with the real binary and a scripted client/server (verifpeer). A further process-level scenario lets a helper server exit (status 0 and non-zero) in the middle of a batch of several hundred cases that are all marked known-failing: the run must fail and the cases that were never handed to a client must be reported. A client-fate part composes the real clientProcessRunner, runTestCasesForServer, closeSend, waitForResponses and report() exactly as run() does, with an in-process client that reads r and answers k of n requests and then ends cleanly or with an error.",
            "note": "For could-not-run / no-outcome rows the success verdict is taken at the process level only (report() && err == nil).",
            "assumptions": ["truth table of DESIGN.md C04"]},
    "C02": {"fn": c02, "level": "exploration",
            "technique": "runtime monitoring end to end: seeded generator of well-formed test cases run through the real runner against the real reference and gRPC peers in every mode; the runner's per-permutation verdict and peer feedback are the observation; in-process crash monitor (recover + input on disk) for suite loading",
            "text": "Generated cases (deterministic fragment of the schema) are expanded by the real runner over the full shipped matrix and executed against the reference server, the reference client, both as external processes, and the grpc-go peers; any FAILED line, feedback or crash is a disagreement between the derived expectation and the peers; each failure class is re-run alone twice before it counts. 10^4-10^5 arbitrary parseable suites are fed to parseTestSuites/newTestCaseLibrary and must yield an error or a library, never a panic. Later messages may carry decoy response definitions (servers read the definition from the first message only) and header values include empty list elements.",
            "note": "Excluded from the fragment (protocol limits): header values with leading/trailing whitespace or non-visible bytes, error messages with leading/trailing space, two Header entries with the same name, details of unknown types. Zero-request client/bidi streams run in suite files of their own because grpc-go never delivers EOF for them (known third-party finding).",
            "assumptions": ["the runner's per-case verdict (subject of C03/C04)"]},
    "C01": {"fn": c01, "level": "exploration",
            "technique": "runtime monitoring of the real binaries end to end (also race-built): the runner's printed verdicts, totals and expected-failure lines are checked by an offline oracle against the permutation set computed by independent models; failing permutations are re-run in isolation before being called deviations",
            "text": "The five `make runconformance` invocations are executed with binaries built from the tree; the oracle requires zero unexpected failures, an expected-failure set exactly equal to what the shipped known-failing lists match, totals that add up, and a case count equal to the number of permutations the independent config/suite/filter models derive from the same YAML. Quick covers everything except the two message-size suites on the full matrix (those run on HTTP/2 x {identity, gzip} x cleartext) plus a race-built pass; thorough enumerates the whole space and adds race-built runs with --max-servers 1 and 8. The quick tier runs the two message-size suites on HTTP/2 without TLS under every protocol, codec and compression (the thorough tier runs everything).",
            "note": "Load-dependent failures (timing suites, QUIC accept backlog) are re-run alone twice and only deterministic failures count; grpc-web-client-impl-config.yaml needs a browser-driven client and is not run.",
            "assumptions": ["loopback networking incl. UDP for HTTP/3 works in the sandbox", "the runner's per-case verdict is itself the subject of C03/C04"]},
    "C17": {"fn": c17, "level": "exploration",
            "technique": "runtime monitoring on the wire: plain HTTP/1.1 and h2c client against the real reference server, plain capturing server against the real reference client, random raw-payload definitions; oracle = independent encoder/decoder of the definition",
            "text": "Random RawHTTPResponse definitions are attached to unary, client-stream, server-stream and bidi requests sent to the real reference server over HTTP/1.1 and h2c; the observed status, headers, trailers and body bytes must equal an independent encoding of the definition and contain nothing the handler would have produced. Random RawHTTPRequest definitions are sent by the real reference client to a capturing server. WriteRawMessageContents/WriteRawStreamContents are checked to be invertible by independent decoders. Raw responses also use one field name in headers and trailers, and trailers named like well-known headers (judged over HTTP/1.1); raw requests also declare their own Content-Length under any spelling and use percent-escapes in the path, which must reach the server as written.",
            "note": "Infrastructure headers (CORS, Vary, Trailer, transfer coding, Content-Length, sniffed Content-Type) are whitelisted; 1xx/204/304 statuses are not generated (HTTP forbids a body).",
            "assumptions": ["net/http and x/net/http2 as observer of the wire"]},
    "C19": {"fn": c19, "level": "exploration",
            "technique": "runtime monitoring: invariant oracle on the real expandRequestData (size == limit+delta, only the padding field differs, else error) over enumerated offsets around every varint boundary; crafted third-party peers exchange messages of exact serialized size limit-1/limit/limit+1 with the real reference server and client",
            "text": "expandRequestData is run for all five message types, several contents and every offset in windows around zero and around each length-varint growth point; the result must be exactly limit+delta bytes with nothing but request_data changed, or an error - never a panic. Sharpness is observed on the wire: messages of exactly limit-1, limit and limit+1 serialized bytes under every protocol and compression against the real reference server (and reference client for responses). Limits include the runner's own 200 KiB (server) and 1 MiB (client) values; client streams are also sent after a first message that configures an error response. The loader is exercised with suite files whose directives sit in suites with and without the receive-limit flag (fields other than the padding field must be as written), a buffered multi-message body with a declared Content-Length must be accepted when every message is within the limit, and Connect GET requests at limit-1/limit/limit+1 are sent with the message in the URL.",
            "note": "connect-go compares the compressed envelope with the limit before decompressing: messages whose compressed form exceeds the limit while the uncompressed size does not are rejected by the library (known finding, third-party).",
            "assumptions": ["proto.Size is the serialized size", "connect-go (no limit configured) as crafted peer"]},
    "C13": {"fn": c13, "level": "exploration",
            "technique": "runtime monitoring: the reference client's real wire-capture + trace + examineWireDetails chain observed on synthetic and real responses; spec-written independent encoders and the reference server's own encoders supply well-formed inputs, one-malformation-at-a-time generators and seeded structure-aware fuzzing supply bad ones",
            "text": "Thousands of errors (all codes, hostile messages, details, metadata) are rendered as Connect error JSON, Connect end-stream, gRPC-Web trailer blocks and gRPC trailers by an independent spec encoder and by the reference server's own encoder functions, and pushed through the real capture/trace/examine chain: no feedback is allowed. Each malformation class the checks name is injected alone and must produce feedback. 10^4-10^5 mutated/random inputs must not panic. Each examined response is delivered through a rotating transport variant (single read, 1/3/7-byte reads, end-of-stream message gzip-compressed in the negotiated encoding, trailers-only response that announces trailer names it never sends); the verdict must not depend on it. Debug data in google.protobuf.Any form with multi-segment type URLs, numbered code names (code_N) and folded or blank first lines of trailer blocks are among the classes.",
            "note": "Messages with leading/trailing whitespace are excluded (HTTP field parsing trims them; gRPC does not escape 0x20) - a protocol limit; live wire output of the reference server is covered by C01/C02 feedback (any feedback line fails those runs).",
            "assumptions": ["the spec encoder in harness/refserver/c13_wire_test.go follows the Connect and gRPC protocol documents"]},
    "C15": {"fn": c15, "level": "exploration",
            "technique": "runtime monitoring under the race detector: scripted inner net.Conn (every Read/Write result logged) around the real TracingHTTP2Conn; generated multi-stream HTTP/2 exchanges re-interleaved and re-partitioned, compared with an independent per-stream trace model; seeded structure-aware mutation and ordering faults for the no-crash/transparency clause",
            "text": "Well-formed exchanges (1-6 concurrent streams, HEADERS/CONTINUATION, DATA cutting envelopes anywhere, request/response trailers, RST_STREAM from either side, REFUSED_STREAM+retry, GOAWAY, shared HPACK state) are fed through the real connection tracer on client and server side under 4 schedules and random Read/Write partitions; each named stream must yield exactly one trace equal to the model (request line, own headers, messages in order, status, trailers, end/reset). 10^4-10^6 mutated, random and mis-ordered streams must never panic and every Read/Write must return exactly what the inner conn did. The last bytes of a connection are also delivered together with io.EOF, and a retry-timer part drives the 3 s hold-back of refused streams with real, generously spaced delays (double refusal chain, retry followed by silence, refusal never retried); schedules stretched by the machine are inconclusive. A real-traffic part runs golang.org/x/net/http2's own Transport and Server over loopback TCP with the tracer wrapped around both connection ends (concurrent calls, messages beyond the flow-control window, handler aborts, client cancels) and requires, on both sides, exactly one trace per call whose message events equal the messages the applications exchanged. Real traffic also covers asymmetric HPACK table sizes (only one endpoint advertises 64 KB and its peer's encoder uses it) with sizeable headers; a listener part interleaves two connections accepted from one TracingHTTP2Listener, one of which ends while the other is between a refusal and its retry.",
            "note": "Real grpc-go traffic through the tracer is exercised by C01's --trace runs on race-built binaries; a stream cut exactly after an envelope prefix may or may not report a zero-length partial event.",
            "assumptions": ["x/net/http2 Framer and hpack encoder generate well-formed frames"]},
    "C11": {"fn": c11, "level": "fault_enumeration",
            "technique": "runtime monitoring under the race detector: fault enumeration over the real runTestCasesForServer with a scripted server process (every byte-offset truncation of its response, write/close errors, exit after k sends, stall) and a scripted client runner; oracle over results.outcomes at quiescence",
            "text": "The real runTestCasesForServer is run against scripted processStarter/process/clientRunner objects; server faults are enumerated over every position (each byte offset of the response, each k of n sends, each stdin offset sampled) and combined with client faults and answer kinds delivered before, during and after the server's death; the oracle checks one outcome per case, verdict preservation for answered cases (token-tagged), setup errors for the rest, abort on every started process, stderr attribution and bounded termination. Real OS-process servers that answer the handshake and then ignore SIGTERM (idle, or writing to stderr) must not keep the batch from returning; answered cases keep their verdict. (The stderr reader's last, unterminated line and SIGTERM-ignoring server commands are part of the enumeration.)",
            "note": "Checked at quiescence (the call returned and every accepted callback fired - the server-death path returns without waiting for in-flight requests); an empty but well-formed server response is not treated as a fault.",
            "assumptions": ["progress bound 75 s", "the scripted client runner fires each accepted callback exactly once, as C10 establishes for the real one"]},
    "C10": {"fn": c10, "level": "fault_enumeration",
            "technique": "runtime monitoring under the race detector: offline exactly-once checker over recorded histories (send returns, client reads/writes with unique answer tokens, callbacks) of the real client multiplexer driven by a scripted hostile client with injected delays; every byte-offset cut of answer streams",
            "text": "The real clientProcessRunner (runClient over runInProcess, real io.Pipe plumbing) is driven by 1-4 concurrent senders and a scripted client that reorders, omits, duplicates, garbles, truncates (after every byte offset), oversizes, stops reading, answers early, exits or stalls; the recorded history is checked for: exactly one callback per accepted request with the token of the client's first complete answer or an error, no callback for refused sends, refusal of late sends, isRunning()==false, termination within the progress bound, no data race. One scripted client kind emits garbage and keeps consuming its stdin, dying only some time after it was aborted, so that senders queued behind an in-progress write are still served. Further histories: a name handed to the client again after its earlier use completed (each use must get its own answer), and a quiet spell longer than the runner's 20 s read timeout followed by another request (refused, or answered with the client's own answer - never an error for a correctly answered request).",
            "note": "Interleavings are sampled (delays 0-2 ms inside the stdin reads and before answers, GOMAXPROCS 1/4/16 in thorough); stalled-client histories use the real 20 s timeout and are few.",
            "assumptions": ["progress bound 90 s = 3 x (20 s read timeout + 3 s wait + 5 s abort grace)"]},
    "C16": {"fn": c16, "level": "exploration",
            "technique": "runtime monitoring under the race detector: porcupine linearizability checking of recorded Init/Complete/Await/Clear histories (partitioned by test name) against a sequential slot model, exhaustive sequential operation orders with provably-blocked waiters, and an online exactly-once/prefix-closed monitor on builder completion",
            "text": "Every operation order up to length 5 (thorough 6) over up to 3 names and 2 waiters is executed against the real Tracer with waiters that are provably blocked before the next operation; thousands of concurrent histories with unique completion ids are recorded at the API boundary and checked with porcupine; the real builder / TracingRoundTripper / TracingHandler are driven by racing producer goroutines and the Collector counts completions and inspects the delivered event list. Round trips include bodies closed by a second goroutine while the first still reads, and calls whose response streams carry 1 to 70000 messages (around 4096 and 8192 densely). Both consumers of completed traces are driven too: the runner's testResults.fetchTrace (a failing case whose trace was completed shows it in a report() that follows immediately) and the reference client's examineWireDetails waiter (live, cancelled and expired call contexts, late hand-over); client round trips include body-less responses under a context that stays live.",
            "note": "Waiters orphaned by Clear/Init while blocked are only required not to outlive their context and not to see a foreign trace; porcupine Unknown is inconclusive.",
            "assumptions": ["porcupine v1.3.0 is a correct linearizability checker", "time.Since on one process is a monotonic clock"]},
    "C20": {"fn": c20, "level": "exploration",
            "technique": "runtime monitoring: pool-protocol histories (connect-go's reset/close/reuse discipline) with injected corrupt and truncated streams on the real compressor/decompressor instances; independent use of each named algorithm as oracle; wire exchange with the real reference peers",
            "text": "For each of the six encodings one pooled compressor and decompressor instance is driven through every history of length 4 over {valid, bit-flip, cut, garbage, empty, independent-encoder} (longer random ones in thorough), plus every single-bit flip and cut of short streams followed by a valid decode; every valid decode must be exact. Compressor output must be decodable by an independent implementation of the algorithm the name denotes - for the enum, the registered constructors, tracer.GetDecompressor (any letter case), the raw-payload encoder, and the real reference server on the wire. Compressor instances are additionally driven through histories with abandoned messages (Reset without Close), failing sinks and repeated Resets, and decompressors obtained from the wire tracer are used interleaved and concurrently (race detector) to show that every caller owns its instance. Several pooled decompressor instances are interleaved in one goroutine, multi-MiB messages are decoded by instances that were closed and parked before (from *bytes.Buffer and other sources), and the body tracer is shown a damaged compressed end-of-stream message followed by an intact one. The instance histories of the compression package are repeated with GOMAXPROCS 2 (thorough: 1, 2, 3, 5), and one decompressor obtained from the tracer is driven over 48 (thorough 160) messages up to 512 KiB - 12 MiB and more of cumulative output - each of which must still decode exactly.",
            "note": "Corruption detection is not claimed (brotli/identity have no integrity check) - only that later valid input decodes correctly and nothing crashes.",
            "assumptions": ["stdlib gzip/zlib, andybalholm/brotli, klauspost/zstd and golang/snappy used directly are the meaning of the encoding names"]},
    "C18": {"fn": c18, "level": "exploration",
            "technique": "runtime monitoring: round-trip (inverse) laws evaluated on the real conversion functions and strict codecs over seeded random values and an exhaustive length<=2 slice for percent-encoding",
            "text": "The exported conversion functions are executed on 10^4-10^6 generated errors (all codes, UTF-8 messages, details with canonical and deliberately non-canonical encodings), header lists (mixed case, repeated keys, binary keys), all byte strings of length <=2 plus random ones, and random conformance messages; the oracle is the inverse law of each pair, input immutability and rejection of unknown fields. Codec checks include encodings held across later Marshal calls and decoding into destinations that already hold a message or just rejected one.",
            "note": "Detail type is compared by message name (the prefix before the last slash is a resolver convention); -bin values are generated as unpadded base64 (the form the protocol uses).",
            "assumptions": ["net/url.PathUnescape is standard percent-decoding"]},
    "C03": {"fn": c03, "level": "exploration",
            "technique": "runtime monitoring: metamorphic oracle over the real testResults.assert - echo and documented-leniency rewrites must keep the verdict, every single deviation at every position must fail and be named",
            "text": "For hundreds to thousands of expected results (expanded corpus + synthetic shapes) the real assert is run on the exact echo, on each leniency-preserving rewrite alone and combined, and on every single deviation at every position (n-th payload, detail, header, value, echoed request); the recorded outcome and its text are the observation. Values regrouped across the same number of physical values, empty list elements, deviations repeated on top of leniency-rewritten results, and merged metadata on stream types without the merge leniency are covered.",
            "note": "The relation 'leniency => same verdict, deviation => failure naming it' is the statement itself; an entirely absent query-parameter list is treated as the documented leniency of service.proto (server unable to report GET info); partially merged metadata is a deviation.",
            "assumptions": ["error text names a discrepancy when it contains the lower-cased header name, the 1-based position, or the class keyword"]},
    "C14": {"fn": c14, "level": "fault_enumeration",
            "technique": "runtime monitoring under the race detector: scripted reader/writer partitions and every truncation point through the real tracingReader / TracingHandler with a recording Collector; oracle = envelope event model + differential run without tracing",
            "text": "Generated envelope sequences (all flag values, zero lengths, end-stream compressed or not in each of the six encodings, Connect/gRPC/gRPC-Web/non-stream content types) are pushed through the real tracing reader and response writer under seven partition plans and every cut/fail offset; the delivered Trace.Events are compared with an independent event model and the application-visible bytes, (n, err) results, status, headers and trailers with an untraced run. A close-race part reads a traced body to its end in one goroutine while another closes it: exactly one body-end event and one completion callback. The request as the traced handler sees it (method, URL, headers, content length, body) is compared with the untraced run, also for body-less GET requests, and reads after the end of a body or after Close must pass the inner reader's results through.",
            "note": "A cut exactly after a complete prefix is unconstrained (statement says part-way); an empty end-stream yields no content event; independent decompression uses the algorithm libraries directly.",
            "assumptions": ["envelope event model in harness/tracer/c14_body_test.go"]},
    "C09": {"fn": c09, "level": "fault_enumeration",
            "technique": "runtime monitoring under the race detector: scripted hostile reader (partition plans, every truncation offset, oversize prefixes, stall points) feeding the real ReadDelimitedMessage / StreamDecoders; oracle = framing model",
            "text": "For each sampled message sequence every truncation offset of the byte stream is injected under seven partition plans (with data+EOF and (0,nil) reads), through the runner's ReadDelimitedMessage and both StreamDecoder variants; oversize prefixes must be rejected with <1MB allocated and only the prefix consumed; stall points must yield a timeout no earlier than configured that reports the exact progress. Fault enumeration is exhaustive over offsets per sequence; sequences are sampled. The writer side is covered by encoding messages of every serialized size 0..1200 and around each power of two up to 2^17 with WriteDelimitedMessage and both stream encoders and parsing the bytes back independently. The reference client's own request loop (binary and -json) is driven through the same partition plans and cuts, and JSON/binary streams of up to 40 MiB (thorough 150 MiB) are read back completely.",
            "note": "protoDecoder has no configurable limit, so the before-allocating clause is checked on ReadDelimitedMessage only; stall upper bound is a watchdog (inconclusive), the lower bound and the progress text are verdicts.",
            "assumptions": ["time.After cannot fire early"]},
    "C12": {"fn": c12, "level": "exploration",
            "technique": "runtime monitoring: the real referenceServerChecks middleware and real reference servers (HTTP/1.1, h2c, TLS, mTLS) observed under the full expected x actual matrix and a timeout-grammar model (regular expression + big-integer conversion)",
            "text": "Every realisable actual request shape is sent against every expected tuple (466k handler calls, exhaustive) and the feedback lines are compared with the set of differing aspects; timeout strings are enumerated exhaustively at the length/unit boundaries and sampled beyond, compared with a grammar + exact-conversion model; wire runs repeat the aspect check through real listeners with a plain HTTP client. The timeout really echoed by createRequestInfo is compared (not only the context value), and simultaneous repeated requests for one test case (2-8 goroutines behind a barrier, race detector on) must be numbered #2..#k exactly once each. Every expectation is also sent through the BidiStream procedure (the server presents HTTP/1.1 bidi requests as HTTP/2 to the RPC library) and, for a third of them, with HTTP request trailers; the real servers run with and without a wire tracer; test-case names contain percent signs, format verbs and colons.",
            "note": "Feedback lines are classified by the aspect keyword they contain; trusts net/http for HTTP/1.1/h2c/TLS transport.",
            "assumptions": ["feedback lines are attributed to aspects by keyword (http version, http method, protocol, codec, compression, tls/plain-text, client cert)"]},
    "C07": {"fn": c07, "level": "exploration",
            "technique": "runtime monitoring: reference-model monitor (independent selection/naming/population model) compared with the real newTestCaseLibrary/allPermutations/casesByServer on generated suite sets, repeated expansions and a second process",
            "text": "newTestCaseLibrary is executed on thousands of generated suite sets x config-case sets x modes (each 5 times, and once more in a second process to vary map iteration order) and on the embedded corpus x shipped configs; an independent model decides existence, full name, request axes, TLS markers, default service/method, single server group, gRPC-peer applicability and marked names, and which suite sets must be rejected. The same parsed suite objects are expanded repeatedly with other configurations in between; relevance lists come in any order; twin suites share simple test names with the raw-ness of every case flipped; test names that recur in the suite name or an axis component are included.",
            "note": "Trusts harness/cc/model_library_test.go as the meaning of docs/authoring_test_cases.md; connectVersionMode is left unspecified; names that path.Join would rewrite are not generated here.",
            "assumptions": ["model_library_test.go is the specification of suite expansion"]},
    "C06": {"fn": c06, "level": "exploration",
            "technique": "runtime monitoring: reference-model monitor (declarative set comprehension) compared with the real parseConfig on a bounded-exhaustive feature slice and seeded random configs",
            "text": "parseConfig is executed on every feature block of a 4.5M-config slice (thorough: complete, 16 shards; quick: 1/64 stratified) and on 60k-1.1M random configs with include/exclude entries; an independent comprehension of the documented semantics decides set equality, possibility of every returned case, and the must/may-error rule. Feature lists are given in any order and with repeated elements.",
            "note": "Trusts the comprehension in harness/cc/model_config_test.go as the meaning of docs/configuring_and_running_tests.md; entries denoting the empty set may (but need not) be rejected; YAML syntax is protoyaml's business (inputs are protojson).",
            "assumptions": ["model_config_test.go is the specification of config expansion"]},
    "C08": {"fn": c08, "level": "exploration",
            "technique": "runtime monitoring: reference-model monitor (independent glob matcher) evaluated next to the real trie/filter/flag collection on bounded-exhaustive and seeded random inputs",
            "text": "The real parsePatterns/matchPattern, testCaseFilter, tryMatchPatterns, run() ambiguity check and argsToPatterns are executed on every pattern set of a bounded alphabet (all single patterns of length<=4, all pairs of length<=3, sampled triples, random longer ones) and on every split of a pattern list across flags and @files; an independent 10-line glob model is the oracle. Exhaustive over the small slice where every matcher branch is reachable, sampled beyond. The real cobra binding (bind) is exercised with pattern values that contain commas, quotes, brackets and leading dashes: each flag's slice must equal the values given on the command line.",
            "note": "Trusts the glob model as the documented semantics; the trie's shadowing of lower-priority patterns in the unmatched report is counted but not a violation (statement is one-directional).",
            "assumptions": ["the 10-line recursive glob matcher in harness/cc/model_glob_test.go is the meaning of the documented pattern language"]},
}
