"""Per-property check definitions for /verif/check."""


def c08(ctx):
    ctx.gotest("cc", "^TestVerifC08", race=False, timeout=900)
    ctx.gotest("cmdcc", "^TestVerifC08", race=False, timeout=300)


SPECS = {
    "C08": {"fn": c08, "level": "exploration",
            "technique": "runtime monitoring: reference-model monitor (independent glob matcher) evaluated next to the real trie/filter/flag collection on bounded-exhaustive and seeded random inputs",
            "text": "The real parsePatterns/matchPattern, testCaseFilter, tryMatchPatterns, run() ambiguity check and argsToPatterns are executed on every pattern set of a bounded alphabet (all single patterns of length<=4, all pairs of length<=3, sampled triples, random longer ones) and on every split of a pattern list across flags and @files; an independent 10-line glob model is the oracle. Exhaustive over the small slice where every matcher branch is reachable, sampled beyond.",
            "note": "Trusts the glob model as the documented semantics; the trie's shadowing of lower-priority patterns in the unmatched report is counted but not a violation (statement is one-directional).",
            "assumptions": ["the 10-line recursive glob matcher in harness/cc/model_glob_test.go is the meaning of the documented pattern language"]},
}
