"""C04 level 2: the real runner binary with scripted helper peers realises each row of the truth table."""
import concurrent.futures as cf
import itertools
import json
import os
import random

import e2e

CONF = """features:
  versions: [HTTP_VERSION_1]
  protocols: [PROTOCOL_CONNECT]
  codecs: [CODEC_PROTO]
  compressions: [COMPRESSION_IDENTITY]
  stream_types: [STREAM_TYPE_UNARY]
  supports_tls: false
  supports_h2c: false
  supports_connect_get: false
  supports_message_receive_limit: false
"""
PREFIX = "L2/HTTPVersion:1/Protocol:PROTOCOL_CONNECT/Codec:CODEC_PROTO/Compression:COMPRESSION_IDENTITY/TLS:false/"

# row kinds realisable with a scripted client in mode client
CLIENT_KINDS = {"pass": "delegate", "assertion-failure": "wrong", "client-error": "error", "never-answered": "never", "feedback": "flipcodec"}
MARKS = ["unmarked", "known-failing", "known-flaky"]


def suite_yaml(n):
    cases = []
    for i in range(n):
        cases.append({"request": {"testName": "c%d" % i, "streamType": "STREAM_TYPE_UNARY",
                                  "requestMessages": [{"@type": "type.googleapis.com/connectrpc.conformance.v1.UnaryRequest",
                                                       "responseDefinition": {"responseData": "dGVzdA=="}}]}})
    return json.dumps({"name": "L2", "testCases": cases}, indent=1)


def meets(kind, mark):
    ran = kind in ("pass", "assertion-failure", "client-error", "feedback")
    failed = kind in ("assertion-failure", "client-error", "feedback")
    if not ran:
        return False
    if mark == "unmarked":
        return not failed
    if mark == "known-failing":
        return failed
    return True


def run_history(ctx, bins, peer, hid, rows, mode="client", client_script=None, server_script=None, expect_unsent=None):
    """rows: list of (kind, mark). Returns dict with what was observed + violations."""
    d = os.path.join(ctx.W, "l2-%s" % hid)
    os.makedirs(d, exist_ok=True)
    open(os.path.join(d, "conf.yaml"), "w").write(CONF)
    open(os.path.join(d, "suite.yaml"), "w").write(suite_yaml(len(rows)))
    names = [PREFIX + "c%d" % i for i in range(len(rows))]
    args = ["--conf", os.path.join(d, "conf.yaml"), "--mode", mode, "--test-file", os.path.join(d, "suite.yaml")]
    for (kind, mark), n in zip(rows, names):
        if mark == "known-failing":
            args += ["--known-failing", n]
        elif mark == "known-flaky":
            args += ["--known-flaky", n]
    cs = dict(client_script or {})
    cs.setdefault("actions", {})
    for (kind, mark), n in zip(rows, names):
        if kind in CLIENT_KINDS:
            cs["actions"][n] = CLIENT_KINDS[kind]
    env = {"VERIF_EVENTLOG": os.path.join(d, "events.jsonl")}
    if mode == "client":
        args += ["--", peer, "client"]
        env["VERIF_PEER_SCRIPT"] = json.dumps(cs)
    else:
        args += ["--", peer, "client", "----", peer, "server"]
        # one script for both roles (fields do not overlap)
        merged = dict(cs)
        merged.update(server_script or {})
        env["VERIF_PEER_SCRIPT"] = json.dumps(merged)
    rc, to, text = e2e.run_runner(ctx, bins, args, "l2-%s" % hid, timeout=150, env=env)
    out = e2e.parse_output(text)
    return {"rc": rc, "timed_out": to, "text": text, "out": out, "names": names, "args": args, "script": env["VERIF_PEER_SCRIPT"]}


def check_history(ctx, res, rows, hid, desc, stats, not_sent=()):
    """Truth-table oracle. not_sent: indexes of cases the scenario prevents from being sent/answered
    (early client exit, server start failure) - these never meet expectation."""
    names, out, rc = res["names"], res["out"], res["rc"]
    w = {"history": hid, "rows": ["%s/%s" % r for r in rows], "scenario": desc, "argv": " ".join(res["args"]), "script": res["script"], "exit": rc, "output_tail": res["text"][-2500:]}
    stats["histories"] = stats.get("histories", 0) + 1
    if res["timed_out"]:
        ctx.add_violation("l2/not-terminating/" + desc.split(":")[0], "runner did not exit", w)
        return
    want_ok = True
    for i, (kind, mark) in enumerate(rows):
        m = meets(kind, mark) and i not in not_sent
        stats["row:%s/%s" % (kind if i not in not_sent else "could-not-run", mark)] = stats.get("row:%s/%s" % (kind if i not in not_sent else "could-not-run", mark), 0) + 1
        if not m:
            want_ok = False
    ok = rc == 0
    rowkey = "+".join(sorted(set("%s/%s" % (k if i not in not_sent else "could-not-run", mk) for i, (k, mk) in enumerate(rows) if not (meets(k, mk) and i not in not_sent)))) or "all-meet"
    peer_failed = '"exit_code": 1' in res["script"]
    if ok != want_ok and not (want_ok and peer_failed):
        # (a peer process that itself exits non-zero may fail the run even if all its answers were fine)
        ctx.add_violation("l2/exit-status/" + rowkey[:80], "runner exit status %s, truth table says %s for %s (%s)" % (rc, "success" if want_ok else "failure", w["rows"], desc), w)
    if out["total"] is None:
        if want_ok:
            ctx.add_violation("l2/no-summary", "no summary printed although every case meets its expectation", w)
        # an aborted run (client died) may end with an error instead of a report only if it also fails
        return
    # naming of failing cases that have an outcome
    failed_names = set(out["failed"]) | set(out["unexpected_pass"])
    for i, (kind, mark) in enumerate(rows):
        n = names[i]
        m = meets(kind, mark) and i not in not_sent
        if m and n in failed_names:
            ctx.add_violation("l2/passing-case-named-failed/%s/%s" % (kind, mark), "case %s (%s/%s) meets its expectation but is reported FAILED" % (n, kind, mark), w)
        if not m and i not in not_sent and kind != "never-answered" and n not in failed_names:
            ctx.add_violation("l2/failing-case-not-named/%s/%s" % (kind, mark), "case %s (%s/%s) does not meet its expectation but no FAILED line names it" % (n, kind, mark), w)
        if not m and (i in not_sent or kind == "never-answered") and n not in failed_names and out["could_not_run"] == 0:
            ctx.add_violation("l2/unrun-case-not-accounted/%s" % mark, "case %s was never run/answered but is neither FAILED nor counted as could-not-run" % n, w)
    total = (out["passed"] or 0) + (out["nfailed"] or 0) + out["expected_failures"] + out["could_not_run"]
    if total != len(rows):
        ctx.add_violation("l2/accounting", "passed %s + failed %s + failed-as-expected %s + could-not-run %s != %d selected cases" % (out["passed"], out["nfailed"], out["expected_failures"], out["could_not_run"], len(rows)), w)


def run(ctx, bins, peer, tier):
    stats = {}
    ctx.extra["level2"] = stats
    jobs = []
    kinds = list(CLIENT_KINDS)
    rows1 = [(k, m) for k in kinds for m in MARKS]
    hid = 0
    # exhaustive: 1 and 2 cases
    for r in rows1:
        hid += 1
        jobs.append(("rows", hid, [r], "client", None, None, ()))
    pairs = list(itertools.product(rows1, rows1))
    rnd = random.Random(ctx.seed)
    if tier == "quick":
        pairs = rnd.sample(pairs, 60)
    for a, b in pairs:
        hid += 1
        jobs.append(("rows", hid, [a, b], "client", None, None, ()))
    # random 3-6 cases
    for _ in range(10 if tier == "quick" else 300):
        hid += 1
        k = rnd.randint(3, 6)
        jobs.append(("rows", hid, [rnd.choice(rows1) if rnd.random() < 0.5 else ("pass", "unmarked") for _ in range(k)], "client", None, None, ()))
    # client exits early: exit code 0 and 1, after k answers / after k reads, incl. exit 0 before anything was sent
    for n in ((2,) if tier == "quick" else (2, 3)):
        for code in (0, 1):
            for k in range(0, n + 1):
                for mark in (MARKS[:2] if tier == "quick" else MARKS):
                    hid += 1
                    rows = [("pass", "unmarked")] * (n - 1) + [("pass", mark)]
                    jobs.append(("exit-after-%d-answers:code %d" % (k, code), hid, rows, "client", {"exit_after_answers": k, "exit_code": code}, None, "answers"))
                    if k < n:
                        hid += 1
                        jobs.append(("exit-after-%d-reads:code %d" % (k, code), hid, rows, "client", {"exit_after_reads": k, "exit_code": code}, None, "reads"))
    # server cannot be started (mode both): every case is a setup error, whatever its marking
    for mark in MARKS:
        for n in (1, 2):
            hid += 1
            jobs.append(("server-start-failure", hid, [("pass", mark)] * n, "both", None, {"fail_start_for": ["all"]}, "all"))
        hid += 1
        jobs.append(("server-no-cert-garbage", hid, [("pass", mark)], "both", None, {"garbage": True}, "all"))
    # healthy mode both (client and server are external processes)
    for r in rows1[:6]:
        hid += 1
        jobs.append(("rows-both", hid, [r, ("pass", "unmarked")], "both", None, None, ()))

    def one(job):
        desc, h, rows, mode, cs, ss, unsent = job
        res = run_history(ctx, bins, peer, h, rows, mode, cs, ss)
        not_sent = ()
        if unsent == "all":
            not_sent = tuple(range(len(rows)))
        elif unsent in ("answers", "reads"):
            # which cases were answered is read from the helper's event log (order of dispatch is the runner's business)
            answered = set()
            evp = os.path.join(ctx.W, "l2-%s" % h, "events.jsonl")
            if os.path.exists(evp):
                for line in open(evp):
                    try:
                        e = json.loads(line)
                    except ValueError:
                        continue
                    if e.get("ev") == "client_answer":
                        answered.add(e.get("name"))
            not_sent = tuple(i for i, n in enumerate(res["names"]) if n not in answered)
        return job, res, not_sent

    with cf.ThreadPoolExecutor(8) as ex:
        for job, res, not_sent in ex.map(one, jobs):
            desc, h, rows, mode, cs, ss, unsent = job
            check_history(ctx, res, rows, h, desc, stats, not_sent)
    ctx.extra["evaluations"] = ctx.extra.get("evaluations", 0) + len(jobs)
    ctx.extra["distinct_nontrivial"] = ctx.extra.get("distinct_nontrivial", 0) + len(jobs)
    ctx.extra.setdefault("samples", []).append({"level2_history": {"rows": ["client-error/known-failing", "pass/unmarked"], "scenario": "client exits 0 after 1 answer", "expect": "exit != 0; the unanswered case counted as could not be run"}})
