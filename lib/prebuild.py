#!/usr/bin/env python3
"""Warms the Go build cache: builds every monitor binary once (no monitor is run)."""
import concurrent.futures as cf, os, subprocess, sys
sys.path.insert(0, os.path.dirname(os.path.abspath(__file__)))
import checks
root = os.path.join(os.path.dirname(os.path.abspath(__file__)), "..")
env = dict(os.environ, VERIF_BUILD_ONLY="1")
def build(pid):
    p = subprocess.run([os.path.join(root, "check"), pid, "quick"], env=env, cwd=root, stdout=subprocess.PIPE, stderr=subprocess.STDOUT)
    return pid, p.returncode, p.stdout.decode(errors="replace")[-1500:]
with cf.ThreadPoolExecutor(4) as ex:
    for pid, rc, out in ex.map(build, sorted(checks.SPECS)):
        print("prebuild", pid, "ok" if rc == 0 else "FAILED\n" + out, flush=True)
