//go:build verif

package main

import (
	"fmt"
	"os"
	"path/filepath"
	"sort"
	"strings"
	"testing"

	"connectrpc.com/conformance/internal/verifkit"
	"github.com/spf13/cobra"
)

// TestVerifC08Args: every pattern supplied by repeated flags, by @files or
// by both takes part: argsToPatterns(args) as a set == union of literal args
// and the pattern lines of every referenced file.
func TestVerifC08Args(t *testing.T) {
	rep := verifkit.Begin("C08", "args", "all ways of splitting a pattern list of length 1-4 across literal flag values and @files (every assignment of each pattern to {literal, file1, file2}, every interleaving order kept, files decorated with comments/blank lines/whitespace), plus random longer lists; distinct = (args, file contents)")
	defer rep.Write()
	dir := t.TempDir()
	rng := verifkit.Stream("c08args")
	// (one pattern is far longer than any fixed line buffer: 70 KB)
	pats := []string{"Suite A/**", "**/name with space", "S/*/x", "S/HTTPVersion:1/**/y", "plain", "a/b/c", "**", "*/q", "Long/" + strings.Repeat("x", 70000) + "/**"}
	fileNo := 0
	check := func(list []string, assign []int) {
		// assign[i]: 0 literal, 1.. file index; order of first appearance defines arg order
		files := map[int][]string{}
		var args []string
		seenFile := map[int]bool{}
		var fileContents []string
		for i, p := range list {
			if assign[i] == 0 {
				args = append(args, p)
				continue
			}
			files[assign[i]] = append(files[assign[i]], p)
			if !seenFile[assign[i]] {
				seenFile[assign[i]] = true
				args = append(args, fmt.Sprintf("@FILE%d", assign[i]))
			}
		}
		for k, lines := range files {
			fileNo++
			fn := filepath.Join(dir, fmt.Sprintf("p%d.txt", fileNo))
			var sb strings.Builder
			if rng.Bool() {
				sb.WriteString("# comment line\n\n")
			}
			for _, l := range lines {
				switch rng.Intn(4) {
				case 0:
					sb.WriteString("  " + l + "  \n")
				case 1:
					sb.WriteString("\t" + l + "\n\n")
				case 2:
					sb.WriteString(l + "\n   # indented comment\n")
				default:
					sb.WriteString(l + "\n")
				}
			}
			content := sb.String()
			if rng.Bool() {
				content = strings.TrimSuffix(content, "\n")
			}
			_ = os.WriteFile(fn, []byte(content), 0o644)
			fileContents = append(fileContents, content)
			for i := range args {
				if args[i] == fmt.Sprintf("@FILE%d", k) {
					args[i] = "@" + fn
				}
			}
		}
		want := map[string]bool{}
		for _, p := range list {
			want[p] = true
		}
		rep.Eval(1)
		rep.DistinctKey(list, assign)
		w := map[string]any{"patterns": list, "assignment(0=literal,k=file k)": assign, "args": args, "files": fileContents}
		rep.InFlight(w)
		var got []string
		var err error
		if p := verifkit.Catch(func() { got, err = argsToPatterns(args) }); p != nil {
			rep.Violation("args/panic/"+p.Site, p.Value, w)
			return
		}
		if err != nil {
			rep.Violation("args/error", "unexpected error: "+err.Error(), w)
			return
		}
		gotSet := map[string]bool{}
		for _, g := range got {
			gotSet[g] = true
		}
		var missing, extra []string
		for p := range want {
			if !gotSet[p] {
				missing = append(missing, p)
			}
		}
		for g := range gotSet {
			if !want[g] {
				extra = append(extra, g)
			}
		}
		sort.Strings(missing)
		sort.Strings(extra)
		nFiles, nLit := len(files), 0
		for _, a := range assign {
			if a == 0 {
				nLit++
			}
		}
		shape := fmt.Sprintf("files=%d,literals=%s", nFiles, map[bool]string{true: "some", false: "none"}[nLit > 0])
		rep.Count("shape:"+shape, 1)
		if len(missing) > 0 {
			rep.Violation("args/dropped/"+shape, fmt.Sprintf("supplied patterns %q are missing from the collected set %q (args %q)", missing, got, args), w)
		}
		if len(extra) > 0 {
			rep.Violation("args/extra/"+shape, fmt.Sprintf("collected %q which were never supplied", extra), w)
		}
	}
	// exhaustive: lists of length 1..4 (prefixes of a shuffled pattern pool), all assignments over {0,1,2}
	for l := 1; l <= 4; l++ {
		perm := rng.Perm(len(pats))
		list := make([]string, l)
		for i := range list {
			list[i] = pats[perm[i]]
		}
		total := 1
		for i := 0; i < l; i++ {
			total *= 3
		}
		for code := 0; code < total; code++ {
			assign := make([]int, l)
			c := code
			for i := range assign {
				assign[i] = c % 3
				c /= 3
			}
			check(list, assign)
		}
	}
	n := verifkit.Scale(500, 100000)
	for i := 0; i < n; i++ {
		l := 1 + rng.Intn(8)
		list := make([]string, l)
		assign := make([]int, l)
		for j := range list {
			list[j] = fmt.Sprintf("%s/%d", verifkit.Pick(rng, pats), rng.Intn(4))
			assign[j] = rng.Intn(4)
		}
		check(list, assign)
	}
	// "@" alone denotes an empty file; a missing file is an error (not silently ignored)
	if got, err := argsToPatterns([]string{"@/nonexistent/verif/file"}); err == nil {
		rep.Violation("args/missing-file-accepted", fmt.Sprintf("missing @file accepted, got %q", got), nil)
	}
	rep.Eval(1)
	rep.Sample(map[string]any{"args": []string{"a", "@file(c,d)", "b"}, "want_set": []string{"a", "b", "c", "d"}})
	rep.Exhaustive = false
}

// TestVerifC08FlagBinding: what the command line gives to the four pattern
// flags arrives, value by value, in the flags struct (the real cobra binding).
func TestVerifC08FlagBinding(t *testing.T) {
	rep := verifkit.Begin("C08", "flag-binding", "the real bind() on a cobra command; argv with 0-4 occurrences each of --run/--skip/--known-failing/--known-flaky in '--flag value' and '--flag=value' form, values from a pool incl. commas, quotes, spaces, brackets, backslashes, leading dashes (in = form), empty string; oracle: each flag's slice equals the given values in order; distinct = argv")
	defer rep.Write()
	rng := verifkit.Stream("c08bind")
	pool := []string{"plain", "Suite A/**", "a,b/**", "x, y", "**/comma,in,name", `"quoted"`, `say "hi", ok`, "[bracket]", `back\slash`, "-leading-dash", "", "*/q", "trailing,"}
	names := []string{runFlagName, skipFlagName, knownFailingFlagName, knownFlakyFlagName}
	n := verifkit.Scale(600, 20000)
	for it := 0; it < n; it++ {
		want := map[string][]string{}
		var argv []string
		for k := rng.Intn(9); k > 0; k-- {
			name := verifkit.Pick(rng, names)
			val := verifkit.Pick(rng, pool)
			want[name] = append(want[name], val)
			if rng.Bool() || strings.HasPrefix(val, "-") {
				argv = append(argv, "--"+name+"="+val)
			} else {
				argv = append(argv, "--"+name, val)
			}
		}
		rep.Eval(1)
		rep.DistinctKey(argv)
		fl := &flags{}
		cmd := &cobra.Command{Use: "connectconformance"}
		bind(cmd, fl)
		w := map[string]any{"argv": argv}
		if err := cmd.Flags().Parse(argv); err != nil {
			rep.Violation("binding/parse-error", err.Error(), w)
			continue
		}
		got := map[string][]string{runFlagName: fl.runPatterns, skipFlagName: fl.skipPatterns, knownFailingFlagName: fl.knownFailingPatterns, knownFlakyFlagName: fl.knownFlakyPatterns}
		for _, name := range names {
			if fmt.Sprintf("%q", got[name]) != fmt.Sprintf("%q", want[name]) && !(len(got[name]) == 0 && len(want[name]) == 0) {
				w["flag"], w["got"], w["want"] = name, got[name], want[name]
				rep.Violation("binding/values-altered/"+name, fmt.Sprintf("--%s received %q, the command line gave %q", name, got[name], want[name]), w)
			}
		}
		rep.Count("argv_checked", 1)
	}
	rep.Sample(map[string]any{"argv": []string{"--known-flaky", "a,b/**", "--run=x, y"}, "expect": "knownFlaky = [\"a,b/**\"], run = [\"x, y\"]"})
}
