//go:build verif

package compression

import (
	"bytes"
	"errors"
	"fmt"
	"io"
	"net/http"
	"testing"

	conformancev1 "connectrpc.com/conformance/internal/gen/proto/go/connectrpc/conformance/v1"
	"connectrpc.com/conformance/internal/verifkit"
	"connectrpc.com/connect"
)

var vfEncNames = map[conformancev1.Compression]string{1: "identity", 2: "gzip", 3: "br", 4: "zstd", 5: "deflate", 6: "snappy"}

// vfPool mimics connect-go's compressionPool discipline for one pooled
// compressor and one pooled decompressor instance.
type vfPool struct {
	enc      conformancev1.Compression
	comp     connect.Compressor
	dec      connect.Decompressor
	newComp  func() connect.Compressor
	newDec   func() connect.Decompressor
	History  []string
	Fresh    int
	// KeepAfterResetError: a user that does not drop an instance whose Reset
	// failed (the statement covers reuse "right after the same instance failed")
	KeepAfterResetError bool
	// WriteEvenWhenEmpty: a user that calls Write(nil) for an empty message (the default mimics bytes.Buffer.WriteTo: no call)
	WriteEvenWhenEmpty bool
}

func (p *vfPool) compress(in []byte) ([]byte, error) {
	if p.comp == nil {
		p.comp = p.newComp()
	}
	var buf bytes.Buffer
	p.comp.Reset(&buf)
	var werr error
	if len(in) > 0 || p.WriteEvenWhenEmpty {
		// connect-go hands the message over with bytes.Buffer.WriteTo, which makes no Write call at all for an empty message
		_, werr = p.comp.Write(in)
	}
	// putCompressor: Close, Reset(io.Discard)
	cerr := p.comp.Close()
	if cerr != nil {
		p.comp = nil // dropped
	} else {
		p.comp.Reset(io.Discard)
	}
	if werr != nil {
		return nil, werr
	}
	return buf.Bytes(), cerr
}

// decompress: getDecompressor = Reset(src) (error => instance dropped);
// ReadFrom; putDecompressor = Close (error => dropped), Reset(http.NoBody).
func (p *vfPool) decompress(src []byte) ([]byte, error) {
	if p.dec == nil {
		p.dec = p.newDec()
		p.Fresh++
	}
	if err := p.dec.Reset(bytes.NewReader(src)); err != nil {
		if !p.KeepAfterResetError {
			p.dec = nil
		}
		return nil, fmt.Errorf("reset: %w", err)
	}
	var out bytes.Buffer
	_, rerr := out.ReadFrom(p.dec)
	if cerr := p.dec.Close(); cerr != nil {
		p.dec = nil
	} else {
		_ = p.dec.Reset(http.NoBody)
	}
	return out.Bytes(), rerr
}

func vfInputs(r *verifkit.Rand) [][]byte {
	big := r.Bytes(64 * 1024)
	return [][]byte{nil, {}, {0}, {0xff}, []byte("hello hello hello hello"), bytes.Repeat([]byte{0}, 64*1024), big, r.Bytes(300), bytes.Repeat([]byte("ab"), 5000)}
}

func vfConstructors(enc conformancev1.Compression) (func() connect.Compressor, func() connect.Decompressor) {
	byEnum := func() (func() connect.Compressor, func() connect.Decompressor) {
		return func() connect.Compressor { c, _ := GetCompressor(enc); return c }, func() connect.Decompressor { d, _ := GetDecompressor(enc); return d }
	}
	return byEnum()
}

// TestVerifC20Pool: pool-protocol histories of one compressor and one
// decompressor instance; every valid decode must be exact whatever preceded.
func TestVerifC20Pool(t *testing.T) {
	rep := verifkit.Begin("C20", "pool", "6 encodings x histories of one pooled compressor + decompressor instance (connect-go's discipline: Reset/Write/Close/Reset(io.Discard); Reset(src)[err->drop]/Read*/Close/Reset(http.NoBody)) of length 4 (thorough 8) with steps {valid, single-bit flip, cut, garbage, empty source}; plus, for short inputs, EVERY single-bit flip and EVERY cut offset followed by a valid decode on the same instance; distinct = (encoding, history)")
	defer rep.Write()
	rng := verifkit.Stream("c20pool")
	inputs := vfInputs(rng)
	steps := verifkit.Scale(4, 8)
	for enc := conformancev1.Compression(0); enc <= 6; enc++ {
		name := vfEncNames[enc]
		if enc == 0 {
			name = "identity"
		}
		nc, nd := vfConstructors(enc)
		keep := false
		run := func(plan []string, ins [][]byte, flipBit, cutAt int) {
			rep.Eval(1)
			rep.DistinctKey(enc, plan, flipBit, cutAt, len(ins[0]), keep)
			p := &vfPool{enc: enc, newComp: nc, newDec: nd, KeepAfterResetError: keep}
			w := map[string]any{"encoding": name, "history": plan, "flip_bit": flipBit, "cut_at": cutAt, "instance_kept_after_reset_error": keep}
			rep.InFlight(w)
			pn := verifkit.Catch(func() {
				for si, step := range plan {
					in := ins[si%len(ins)]
					data, err := p.compress(in)
					if err != nil {
						rep.Violation("compress/"+name+"/compress-error", fmt.Sprintf("step %d: compressing %d bytes failed: %v", si, len(in), err), w)
						return
					}
					// independent check that the encoding name denotes this algorithm
					if ind, ierr := verifkit.IndepDecompress(name, data); ierr != nil || !bytes.Equal(ind, in) {
						rep.Violation("compress/"+name+"/not-the-named-algorithm", fmt.Sprintf("step %d: output of the %s compressor is not decodable by an independent %s decoder (%v)", si, name, name, ierr), w)
						return
					}
					src := append([]byte(nil), data...)
					valid := false
					switch step {
					case "valid":
						valid = true
					case "flip":
						if len(src) > 0 {
							bit := flipBit
							if bit < 0 {
								bit = int(uint(si*7919+len(src)*31) % uint(len(src)*8))
							}
							src[bit/8] ^= 1 << (bit % 8)
						}
					case "cut":
						c := cutAt
						if c < 0 || c > len(src) {
							c = len(src) / 2
						}
						src = src[:c]
					case "garbage":
						src = bytes.Repeat([]byte{0xde, 0xad, 0xbe, 0xef}, 1+si)
					case "empty":
						src = nil
					case "indep":
						// a stream produced by an independent encoder of the named algorithm
						src, _ = verifkit.IndepCompress(name, in)
						valid = true
					}
					out, err := p.decompress(src)
					rep.Count("decode_"+step, 1)
					if valid {
						if err != nil || !bytes.Equal(out, in) {
							prev := "first-use"
							if si > 0 {
								prev = "after-" + plan[si-1]
							}
							rep.Violation("compress/"+name+"/valid-decode-wrong/"+prev, fmt.Sprintf("step %d (%s): decoding a valid %s stream of %d bytes gave %d bytes, err=%v", si, prev, name, len(in), len(out), err), w)
							return
						}
					}
				}
			})
			if pn != nil {
				rep.Violation("compress/"+name+"/panic/"+pn.Site, pn.Value, map[string]any{"input": w, "stack": verifkit.Trunc(pn.Stack, 3000)})
			}
		}
		kinds := []string{"valid", "flip", "cut", "garbage", "empty", "indep"}
		// all histories of length `steps` would be 6^4 = 1296 (quick) - run them all with rotating inputs
		total := 1
		for i := 0; i < steps && i < 4; i++ {
			total *= len(kinds)
		}
		for code := 0; code < total; code++ {
			plan := make([]string, 0, steps)
			c := code
			for i := 0; i < 4; i++ {
				plan = append(plan, kinds[c%len(kinds)])
				c /= len(kinds)
			}
			for i := 4; i < steps; i++ {
				plan = append(plan, kinds[rng.Intn(len(kinds))])
			}
			plan[len(plan)-1] = "valid"
			off := rng.Intn(len(inputs))
			ins := append(append([][]byte{}, inputs[off:]...), inputs[:off]...)
			keep = code%2 == 1
			run(plan, ins, -1, -1)
		}
		for _, k := range []bool{false, true} {
			keep = k
			for _, first := range []string{"garbage", "empty", "cut", "flip"} {
				run([]string{first, "valid", "valid"}, [][]byte{[]byte("hello hello hello")}, 3, 1)
				run([]string{first, first, "valid"}, [][]byte{[]byte("hello hello hello")}, 9, 0)
			}
		}
		keep = false
		// exhaustive single faults on short inputs, each followed by a valid decode on the same instance
		for _, in := range [][]byte{{}, []byte("hello hello"), rng.Bytes(24)} {
			data, _ := verifkit.IndepCompress(name, in)
			nbits := len(data) * 8
			strideB := 1
			if nbits > verifkit.Scale(400, 4000) {
				strideB = nbits/verifkit.Scale(400, 4000) + 1
			}
			p := &vfPool{enc: enc, newComp: nc, newDec: nd}
			_ = p
			for bit := 0; bit < nbits; bit += strideB {
				run([]string{"flip", "valid"}, [][]byte{in}, bit, -1)
			}
			for cut := 0; cut <= len(data)+3; cut++ {
				run([]string{"cut", "valid"}, [][]byte{in}, -1, cut)
			}
		}
	}
	rep.Sample(map[string]any{"encoding": "deflate", "history": []string{"garbage", "valid"}, "expect": "second decode returns exactly the original bytes"})
	rep.RequireMin("decode_valid", 1000)
	rep.RequireMin("decode_flip", 500)
}

// TestVerifC20Constructors: the exported constructors registered under a
// name by both peers implement that name's algorithm.
func TestVerifC20Constructors(t *testing.T) {
	rep := verifkit.Begin("C20", "constructors", "the exported constructor pairs registered by the reference peers (Brotli, Deflate, Snappy, Zstd) x inputs: constructor output decoded by an independent decoder of the name it is registered under, independent encoder output decoded by the constructor; distinct = (name, direction, input)")
	defer rep.Write()
	rng := verifkit.Stream("c20ctor")
	type pair struct {
		name string
		c    func() connect.Compressor
		d    func() connect.Decompressor
	}
	pairs := []pair{{Brotli, NewBrotliCompressor, NewBrotliDecompressor}, {Deflate, NewDeflateCompressor, NewDeflateDecompressor}, {Snappy, NewSnappyCompressor, NewSnappyDecompressor}, {Zstd, NewZstdCompressor, NewZstdDecompressor}}
	for _, nm := range []struct{ c, want string }{{Identity, "identity"}, {Gzip, "gzip"}, {Brotli, "br"}, {Deflate, "deflate"}, {Snappy, "snappy"}, {Zstd, "zstd"}} {
		rep.Eval(1)
		if nm.c != nm.want {
			rep.Violation("compress/name-constant/"+nm.want, fmt.Sprintf("name constant is %q, IANA name is %q", nm.c, nm.want), nil)
		}
	}
	for _, pr := range pairs {
		for _, in := range vfInputs(rng) {
			rep.Eval(2)
			rep.DistinctKey(pr.name, len(in), in)
			p := &vfPool{newComp: pr.c, newDec: pr.d}
			data, err := p.compress(in)
			ind, ierr := verifkit.IndepDecompress(pr.name, data)
			if err != nil || ierr != nil || !bytes.Equal(ind, in) {
				rep.Violation("compress/"+pr.name+"/constructor-not-the-named-algorithm", fmt.Sprintf("compressor registered as %q: output not decodable by an independent %s decoder (%v %v)", pr.name, pr.name, err, ierr), nil)
			}
			src, _ := verifkit.IndepCompress(pr.name, in)
			out, derr := p.decompress(src)
			if derr != nil || !bytes.Equal(out, in) {
				rep.Violation("compress/"+pr.name+"/constructor-decoder-not-the-named-algorithm", fmt.Sprintf("decompressor registered as %q cannot decode an independent %s stream (%v)", pr.name, pr.name, derr), nil)
			}
		}
	}
	rep.Sample(map[string]any{"name": "br", "law": "NewBrotliCompressor output is decoded by andybalholm/brotli used directly, and vice versa"})
}

// TestVerifC20CompressorReuse: compressor instances that are re-targeted
// (Reset) in the middle of a message, after a failed write, or many times in a
// row must encode exactly what was written since the last Reset.
func TestVerifC20CompressorReuse(t *testing.T) {
	rep := verifkit.Begin("C20", "compressor-reuse", "6 encodings x histories of one compressor instance over steps {message written and closed, message written and ABANDONED by the next Reset (no Close), empty message, message whose sink fails after k bytes, two Resets in a row}; after every Close the sink's bytes are decoded by an independent decoder; oracle: exactly the bytes written since the latest Reset; distinct = (encoding, history)")
	defer rep.Write()
	n := verifkit.Scale(150, 5000)
	for enc := conformancev1.Compression(1); enc <= 6; enc++ {
		name := verifkit.CompressionName(enc)
		newComp, _ := vfConstructors(enc)
		for h := 0; h < n; h++ {
			rng := verifkit.Stream("c20reuse", int(enc), h)
			comp := newComp()
			var hist []string
			steps := 2 + rng.Intn(5)
			for s := 0; s < steps; s++ {
				kind := verifkit.Pick(rng, []string{"closed", "closed", "abandoned", "empty", "sink-fails", "double-reset"})
				msg := rng.Bytes(verifkit.Pick(rng, []int{1, 42, 300, 20000}))
				copy(msg, []byte(fmt.Sprintf("MSG-%d-%d-", h, s)))
				hist = append(hist, fmt.Sprintf("%s(%d)", kind, len(msg)))
				w := map[string]any{"encoding": name, "history": append([]string(nil), hist...)}
				rep.Eval(1)
				pn := verifkit.Catch(func() {
					switch kind {
					case "abandoned":
						var sink bytes.Buffer
						comp.Reset(&sink)
						_, _ = comp.Write(msg)
						// no Close: the caller gave this message up; the next step Resets the instance
					case "sink-fails":
						comp.Reset(&vfFailingSink{left: rng.Intn(40)})
						_, _ = comp.Write(msg)
						_ = comp.Close()
					case "double-reset":
						var a, b bytes.Buffer
						comp.Reset(&a)
						comp.Reset(&b)
						_, _ = comp.Write(msg)
						if err := comp.Close(); err != nil {
							rep.Violation("compress/"+name+"/reuse/close-error", err.Error(), w)
							return
						}
						if a.Len() > 0 {
							rep.Violation("compress/"+name+"/reuse/wrote-to-abandoned-sink", fmt.Sprintf("%d bytes reached a sink that was replaced before anything was written", a.Len()), w)
						}
						vfCheckEncoded(rep, name, b.Bytes(), msg, w)
					default:
						if kind == "empty" {
							msg = nil
						}
						var sink bytes.Buffer
						comp.Reset(&sink)
						if len(msg) > 0 {
							half := len(msg) / 2
							_, _ = comp.Write(msg[:half])
							_, _ = comp.Write(msg[half:])
						}
						if err := comp.Close(); err != nil {
							rep.Violation("compress/"+name+"/reuse/close-error", err.Error(), w)
							return
						}
						vfCheckEncoded(rep, name, sink.Bytes(), msg, w)
					}
				})
				if pn != nil {
					rep.Violation("compress/"+name+"/reuse/panic/"+pn.Site, pn.Value, w)
					break
				}
			}
			rep.DistinctKey(name, hist)
		}
	}
	rep.Sample(map[string]any{"encoding": "zstd", "history": []string{"abandoned(300)", "closed(42)"}, "expect": "the second sink decodes to exactly the 42 bytes"})
	rep.RequireMin("reuse_decoded_ok", 500)
}

type vfFailingSink struct{ left int }

func (f *vfFailingSink) Write(p []byte) (int, error) {
	if len(p) > f.left {
		n := f.left
		f.left = 0
		return n, errors.New("sink full")
	}
	f.left -= len(p)
	return len(p), nil
}

func vfCheckEncoded(rep *verifkit.Report, name string, encoded, want []byte, w map[string]any) {
	got, err := verifkit.IndepDecompress(name, encoded)
	if len(want) == 0 && len(encoded) == 0 {
		rep.Count("reuse_decoded_ok", 1) // nothing written, nothing emitted
		return
	}
	if err != nil {
		rep.Violation("compress/"+name+"/reuse/not-decodable", fmt.Sprintf("independent %s decoder rejects the output: %v", name, err), w)
		return
	}
	if !bytes.Equal(got, want) {
		rep.Violation("compress/"+name+"/reuse/stale-or-missing-bytes", fmt.Sprintf("output decodes to %d bytes (starting %q), the %d bytes written since the last Reset start %q", len(got), verifkit.Trunc(string(got), 24), len(want), verifkit.Trunc(string(want), 24)), w)
		return
	}
	rep.Count("reuse_decoded_ok", 1)
}

// TestVerifC20ManyInstances: several decompressor (and compressor) instances
// of one encoding alive at once, each cycled the way connect-go's pools cycle
// them (Reset(src) / Read / Close / Reset(http.NoBody) / parked / Reset(src)
// ...), with their steps interleaved: nobody sees another instance's data.
func TestVerifC20ManyInstances(t *testing.T) {
	rep := verifkit.Begin("C20", "many-instances", "6 encodings x histories over 2-6 decompressor instances, single goroutine, random interleaving of the per-instance steps {Reset(own stream), read half, read rest, Close, Reset(http.NoBody)}; fresh instances are created while others are parked; every message carries its instance and round; oracle: each instance reads exactly its own current message; distinct = (encoding, history)")
	defer rep.Write()
	n := verifkit.Scale(120, 4000)
	for enc := conformancev1.Compression(1); enc <= 6; enc++ {
		name := verifkit.CompressionName(enc)
		_, newDec := vfConstructors(enc)
		for h := 0; h < n; h++ {
			rng := verifkit.Stream("c20many", int(enc), h)
			type inst struct {
				d     connect.Decompressor
				state int // 0 parked/new, 1 reset, 2 half read, 3 fully read, 4 closed
				round int
				msg   []byte
				got   []byte
			}
			k := 2 + rng.Intn(5)
			insts := make([]*inst, 0, k)
			var hist []string
			bad := false
			steps := 10 + rng.Intn(40)
			for s := 0; s < steps && !bad; s++ {
				if len(insts) < k && (len(insts) == 0 || rng.Chance(1, 4)) {
					insts = append(insts, &inst{d: newDec()})
					hist = append(hist, fmt.Sprintf("new#%d", len(insts)-1))
					continue
				}
				i := rng.Intn(len(insts))
				in := insts[i]
				w := map[string]any{"encoding": name, "history": append([]string(nil), hist...)}
				pn := verifkit.Catch(func() {
					switch in.state {
					case 0:
						in.round++
						in.msg = []byte(fmt.Sprintf("instance-%d-round-%d;", i, in.round))
						in.msg = bytes.Repeat(in.msg, 1+rng.Intn(40))
						z, _ := verifkit.IndepCompress(name, in.msg)
						hist = append(hist, fmt.Sprintf("reset#%d", i))
						if err := in.d.Reset(bytes.NewReader(z)); err != nil {
							rep.Violation("compress/"+name+"/many-instances/reset-error", err.Error(), w)
							bad = true
							return
						}
						in.got = nil
						in.state = 1
					case 1:
						hist = append(hist, fmt.Sprintf("half#%d", i))
						buf := make([]byte, len(in.msg)/2+1)
						m, _ := io.ReadFull(in.d, buf)
						in.got = append(in.got, buf[:m]...)
						in.state = 2
					case 2:
						hist = append(hist, fmt.Sprintf("rest#%d", i))
						rest, err := io.ReadAll(in.d)
						in.got = append(in.got, rest...)
						if err != nil || !bytes.Equal(in.got, in.msg) {
							w["history"] = append([]string(nil), hist...)
							rep.Violation("compress/"+name+"/many-instances/foreign-or-lost-data", fmt.Sprintf("instance %d read %d bytes starting %q, its own message has %d bytes starting %q (err %v)", i, len(in.got), verifkit.Trunc(string(in.got), 24), len(in.msg), verifkit.Trunc(string(in.msg), 24), err), w)
							bad = true
							return
						}
						rep.Count("many_instances_reads_ok", 1)
						in.state = 3
					case 3:
						hist = append(hist, fmt.Sprintf("close#%d", i))
						_ = in.d.Close()
						in.state = 4
					case 4:
						hist = append(hist, fmt.Sprintf("park#%d", i))
						_ = in.d.Reset(http.NoBody)
						in.state = 0
					}
				})
				if pn != nil {
					rep.Violation("compress/"+name+"/many-instances/panic/"+pn.Site, pn.Value, w)
					bad = true
				}
			}
			rep.Eval(1)
			rep.DistinctKey(name, hist)
		}
	}
	rep.Sample(map[string]any{"encoding": "snappy", "history": []string{"new#0", "reset#0", "half#0", "rest#0", "close#0", "new#1", "reset#1", "park#0", "reset#0", "half#1", "rest#1"}, "expect": "instance 1 reads its own message although instance 0 was closed, parked and reset in between"})
	rep.RequireMin("many_instances_reads_ok", 500)
}

// TestVerifC20LargeAfterReuse: size does not matter to a reused instance: a
// message that decodes to many MiB (but is small on the wire) is decoded by a
// decompressor that was closed and parked before, from the source types the
// RPC library uses.
func TestVerifC20LargeAfterReuse(t *testing.T) {
	rep := verifkit.Begin("C20", "large-after-reuse", "6 encodings x {fresh, used-closed-parked once, twice} decompressor x decoded sizes {1, 9, 33 MiB of zeros, 12 MiB of a repeating pattern} x source {*bytes.Buffer, *bytes.Reader, io.Reader wrapper}; the matching compressor instance is reused as well; oracle: decoded length and checksum equal the original; distinct = (encoding, history, size, source)")
	defer rep.Write()
	sizes := []int{1 << 20, 9 << 20, 33 << 20}
	if !verifkit.Thorough() {
		sizes = []int{9 << 20}
	}
	for enc := conformancev1.Compression(1); enc <= 6; enc++ {
		name := verifkit.CompressionName(enc)
		newComp, newDec := vfConstructors(enc)
		for _, size := range sizes {
			for pi, pattern := range [][]byte{{0}, []byte("0123456789abcdef-pattern;")} {
				if pi == 1 && size != 9<<20 {
					continue
				}
				msg := bytes.Repeat(pattern, size/len(pattern)+1)[:size]
				p := &vfPool{newComp: newComp, newDec: newDec}
				z, err := p.compress(msg)
				if err != nil {
					rep.Violation("compress/"+name+"/large/compress-error", err.Error(), nil)
					continue
				}
				for uses := 0; uses <= 2; uses++ {
					for _, srcKind := range []string{"bytes.Buffer", "bytes.Reader", "plain io.Reader"} {
						rep.Eval(1)
						rep.DistinctKey(name, uses, size, pi, srcKind)
						q := &vfPool{newComp: newComp, newDec: newDec}
						small, _ := verifkit.IndepCompress(name, []byte("warm-up"))
						for u := 0; u < uses; u++ {
							if out, err := q.decompress(small); err != nil || string(out) != "warm-up" {
								rep.Violation("compress/"+name+"/large/warm-up-failed", fmt.Sprint(err), nil)
							}
						}
						if q.dec == nil {
							q.dec = newDec()
						}
						var src io.Reader
						switch srcKind {
						case "bytes.Buffer":
							src = bytes.NewBuffer(append([]byte(nil), z...))
						case "bytes.Reader":
							src = bytes.NewReader(z)
						default:
							src = struct{ io.Reader }{bytes.NewReader(z)}
						}
						w := map[string]any{"encoding": name, "decoded_bytes": size, "compressed_bytes": len(z), "earlier_uses_of_the_instance": uses, "source": srcKind}
						var out bytes.Buffer
						var derr error
						pn := verifkit.Catch(func() {
							if derr = q.dec.Reset(src); derr == nil {
								_, derr = out.ReadFrom(q.dec)
							}
						})
						if pn != nil {
							rep.Violation("compress/"+name+"/large/panic/"+pn.Site, pn.Value, w)
							continue
						}
						if derr != nil || out.Len() != len(msg) || !bytes.Equal(out.Bytes(), msg) {
							rep.Violation("compress/"+name+"/large/decode-differs-after-reuse", fmt.Sprintf("%d MiB message (%d bytes on the wire) decoded by an instance used %d times before, from a %s: %d bytes, err %v", size>>20, len(z), uses, srcKind, out.Len(), derr), w)
						} else {
							rep.Count("large_decodes_ok", 1)
						}
					}
				}
			}
		}
	}
	rep.Sample(map[string]any{"encoding": "zstd", "decoded": "9 MiB of zeros (a few hundred bytes on the wire)", "instance": "closed and parked once", "source": "*bytes.Buffer", "expect": "9 MiB back"})
	rep.RequireMin("large_decodes_ok", 50)
}
