//go:build verif

package connectconformance

import (
	"crypto/sha256"
	"fmt"
	"reflect"
	"os"
	"path/filepath"
	"sort"
	"strings"
	"testing"

	"connectrpc.com/conformance/internal/app/connectconformance/testsuites"
	conformancev1 "connectrpc.com/conformance/internal/gen/proto/go/connectrpc/conformance/v1"
	"connectrpc.com/conformance/internal/verifkit"
	"google.golang.org/protobuf/proto"
	"google.golang.org/protobuf/reflect/protoreflect"
	"google.golang.org/protobuf/types/known/anypb"
)

type vfRes = conformancev1.ClientResponseResult

func vfAssert(tc *conformancev1.TestCase, actual *vfRes) error {
	r := newResults(1, &testTrie{}, &testTrie{}, nil)
	r.assert("T", tc, actual)
	return r.outcomes["T"].actualFailure
}

func vfCloneRes(m *vfRes) *vfRes { return proto.Clone(m).(*vfRes) }

// vfReqInfoRef gives mutable access to a RequestInfo inside a result, whether
// it sits in a payload or inside an error detail.
type vfReqInfoRef struct {
	where      string // "payload#i" or "detail#i"
	index      int
	headers    bool // headers/timeout/query params are verified at this position
	get        func(r *vfRes) *conformancev1.ConformancePayload_RequestInfo
	put        func(r *vfRes, ri *conformancev1.ConformancePayload_RequestInfo)
}

func vfReqInfos(e *vfRes) []vfReqInfoRef {
	var out []vfReqInfoRef
	for i, p := range e.Payloads {
		if p.RequestInfo == nil {
			continue
		}
		i := i
		out = append(out, vfReqInfoRef{where: fmt.Sprintf("payload#%d", i+1), index: i, headers: i == 0,
			get: func(r *vfRes) *conformancev1.ConformancePayload_RequestInfo { return r.Payloads[i].RequestInfo },
			put: func(r *vfRes, ri *conformancev1.ConformancePayload_RequestInfo) { r.Payloads[i].RequestInfo = ri }})
	}
	if e.Error != nil {
		for i, d := range e.Error.Details {
			if !d.MessageIs(&conformancev1.ConformancePayload_RequestInfo{}) {
				continue
			}
			i := i
			out = append(out, vfReqInfoRef{where: fmt.Sprintf("detail#%d", i+1), index: i, headers: true,
				get: func(r *vfRes) *conformancev1.ConformancePayload_RequestInfo {
					ri := &conformancev1.ConformancePayload_RequestInfo{}
					if err := r.Error.Details[i].UnmarshalTo(ri); err != nil {
						return nil
					}
					return ri
				},
				put: func(r *vfRes, ri *conformancev1.ConformancePayload_RequestInfo) {
					a, _ := anypb.New(ri)
					r.Error.Details[i] = a
				}})
		}
	}
	return out
}

func vfLowerNames(hs []*conformancev1.Header) map[string]int {
	m := map[string]int{}
	for _, h := range hs {
		m[strings.ToLower(h.Name)]++
	}
	return m
}

func vfHasDupNames(hs []*conformancev1.Header) bool {
	for _, c := range vfLowerNames(hs) {
		if c > 1 {
			return true
		}
	}
	return false
}

// vfReencodeAny returns the same message in another valid wire encoding: the length of its first
// (length-delimited) field is written as a non-minimal two-byte varint. nil when that is not possible.
func vfReencodeAny(d *anypb.Any) *anypb.Any {
	b := d.GetValue()
	if len(b) < 2 || b[0]&0x80 != 0 || b[0]&7 != 2 || b[1]&0x80 != 0 {
		return nil
	}
	nb := append([]byte{b[0], b[1] | 0x80, 0x00}, b[2:]...)
	re := &anypb.Any{TypeUrl: d.TypeUrl, Value: nb}
	m1, err1 := d.UnmarshalNew()
	m2, err2 := re.UnmarshalNew()
	if err1 != nil || err2 != nil || !proto.Equal(m1, m2) {
		return nil
	}
	return re
}

func vfFlipCase(s string) string {
	b := []byte(s)
	for i := range b {
		switch {
		case b[i] >= 'a' && b[i] <= 'z' && i%2 == 0:
			b[i] -= 32
		case b[i] >= 'A' && b[i] <= 'Z' && i%2 == 1:
			b[i] += 32
		}
	}
	return string(b)
}

// vfCanon is the documented comma leniency: values joined or split on commas
// (with an optional single space after/before a comma) are equivalent.
func vfCanon(vals []string) []string {
	var out []string
	for _, v := range vals {
		parts := strings.Split(v, ",")
		for i, p := range parts {
			if i > 0 && strings.HasPrefix(p, " ") {
				p = p[1:]
			}
			if i < len(parts)-1 && strings.HasSuffix(p, " ") {
				p = p[:len(p)-1]
			}
			out = append(out, p)
		}
	}
	return out
}

type vfHeaderList struct {
	what    string // keyword expected in the error text
	headers bool   // verified at this position
	get     func(r *vfRes) []*conformancev1.Header
	set     func(r *vfRes, hs []*conformancev1.Header)
}

func vfHeaderLists(e *vfRes) []vfHeaderList {
	out := []vfHeaderList{
		{"response headers", true, func(r *vfRes) []*conformancev1.Header { return r.ResponseHeaders }, func(r *vfRes, hs []*conformancev1.Header) { r.ResponseHeaders = hs }},
		{"response trailers", true, func(r *vfRes) []*conformancev1.Header { return r.ResponseTrailers }, func(r *vfRes, hs []*conformancev1.Header) { r.ResponseTrailers = hs }},
	}
	for _, ref := range vfReqInfos(e) {
		ref := ref
		if !ref.headers {
			continue
		}
		out = append(out, vfHeaderList{"request headers", true,
			func(r *vfRes) []*conformancev1.Header {
				if ri := ref.get(r); ri != nil {
					return ri.RequestHeaders
				}
				return nil
			},
			func(r *vfRes, hs []*conformancev1.Header) {
				ri := ref.get(r)
				ri.RequestHeaders = hs
				ref.put(r, ri)
			}})
		out = append(out, vfHeaderList{"query params", true,
			func(r *vfRes) []*conformancev1.Header {
				if ri := ref.get(r); ri != nil {
					return ri.GetConnectGetInfo().GetQueryParams()
				}
				return nil
			},
			func(r *vfRes, hs []*conformancev1.Header) {
				ri := ref.get(r)
				if ri.ConnectGetInfo == nil {
					ri.ConnectGetInfo = &conformancev1.ConformancePayload_ConnectGetInfo{}
				}
				ri.ConnectGetInfo.QueryParams = hs
				ref.put(r, ri)
			}})
	}
	return out
}

func vfCloneHeaders(hs []*conformancev1.Header) []*conformancev1.Header {
	out := make([]*conformancev1.Header, len(hs))
	for i, h := range hs {
		out[i] = proto.Clone(h).(*conformancev1.Header)
	}
	return out
}

// vfMutateMessage makes a semantic change to a message (for details and
// echoed requests): first bytes/string/int scalar field found, else adds an
// unknown... (no: protocmp ignores nothing, but we prefer a real field).
func vfMutateMessage(m proto.Message) bool {
	rm := m.ProtoReflect()
	fds := rm.Descriptor().Fields()
	for i := 0; i < fds.Len(); i++ {
		fd := fds.Get(i)
		if fd.IsList() || fd.IsMap() {
			continue
		}
		switch fd.Kind() {
		case protoreflect.BytesKind:
			rm.Set(fd, protoreflect.ValueOfBytes(append(append([]byte{}, rm.Get(fd).Bytes()...), 0x5a)))
			return true
		case protoreflect.StringKind:
			rm.Set(fd, protoreflect.ValueOfString(rm.Get(fd).String()+"~"))
			return true
		case protoreflect.Int32Kind, protoreflect.Sint32Kind, protoreflect.Sfixed32Kind:
			rm.Set(fd, protoreflect.ValueOfInt32(int32(rm.Get(fd).Int())+1))
			return true
		case protoreflect.Int64Kind, protoreflect.Sint64Kind, protoreflect.Sfixed64Kind:
			rm.Set(fd, protoreflect.ValueOfInt64(rm.Get(fd).Int()+1))
			return true
		case protoreflect.Uint32Kind, protoreflect.Fixed32Kind:
			rm.Set(fd, protoreflect.ValueOfUint32(uint32(rm.Get(fd).Uint())+1))
			return true
		case protoreflect.BoolKind:
			rm.Set(fd, protoreflect.ValueOfBool(!rm.Get(fd).Bool()))
			return true
		}
	}
	return false
}

func vfMutateAny(a *anypb.Any) *anypb.Any {
	m, err := a.UnmarshalNew()
	if err == nil && vfMutateMessage(m) {
		if out, err := anypb.New(m); err == nil {
			return out
		}
	}
	out, _ := anypb.New(&conformancev1.Header{Name: "verif-replaced-detail", Value: []string{a.TypeUrl}})
	return out
}

type vfAssertCtx struct {
	rep  *verifkit.Report
	tc   *conformancev1.TestCase
	desc string
}

func (c *vfAssertCtx) witness(kind string, actual *vfRes) map[string]any {
	return map[string]any{"case": c.desc, "rewrite": kind, "stream_type": c.tc.Request.StreamType.String(),
		"expected": verifkit.Trunc(c.tc.ExpectedResponse.String(), 1500), "actual": verifkit.Trunc(actual.String(), 1500),
		"other_allowed_codes": fmt.Sprint(c.tc.OtherAllowedErrorCodes)}
}

// mustPass: a leniency-preserving rewrite.
func (c *vfAssertCtx) mustPass(kind string, actual *vfRes) {
	c.rep.Eval(1)
	c.rep.Count("leniency:"+kind, 1)
	var err error
	if p := verifkit.Catch(func() { err = vfAssert(c.tc, actual) }); p != nil {
		c.rep.Violation("assert/panic/"+p.Site, p.Value, c.witness(kind, actual))
		return
	}
	if err != nil {
		c.rep.Violation("assert/leniency-rejected/"+kind, "documented leniency rejected: "+verifkit.Trunc(err.Error(), 300), c.witness(kind, actual))
	}
}

// mustFail: a single deviation; the error text must name it (any of hints).
func (c *vfAssertCtx) mustFail(kind string, actual *vfRes, hints ...string) {
	c.rep.Eval(1)
	c.rep.Count("deviation:"+kind, 1)
	var err error
	if p := verifkit.Catch(func() { err = vfAssert(c.tc, actual) }); p != nil {
		c.rep.Violation("assert/panic/"+p.Site, p.Value, c.witness(kind, actual))
		return
	}
	if err == nil {
		c.rep.Violation("assert/deviation-passed/"+kind, "a result deviating from the expectation ("+kind+") was accepted", c.witness(kind, actual))
		return
	}
	if len(hints) > 0 {
		txt := strings.ToLower(err.Error())
		ok := false
		for _, h := range hints {
			if strings.Contains(txt, strings.ToLower(h)) {
				ok = true
			}
		}
		if !ok {
			w := c.witness(kind, actual)
			w["error_text"] = verifkit.Trunc(err.Error(), 600)
			w["expected_to_mention_one_of"] = hints
			c.rep.Violation("assert/discrepancy-not-named/"+kind, fmt.Sprintf("failure text does not name the discrepancy (none of %q): %s", hints, verifkit.Trunc(err.Error(), 200)), w)
		}
	}
}

func vfMergeable(tc *conformancev1.TestCase) bool {
	e := tc.ExpectedResponse
	st := tc.Request.StreamType
	return len(e.Payloads) == 0 && e.Error != nil && (st == conformancev1.StreamType_STREAM_TYPE_UNARY || st == conformancev1.StreamType_STREAM_TYPE_CLIENT_STREAM)
}

// vfExerciseExpected applies the echo, every leniency rewrite and every
// single deviation, at every position, to one expected result.
func vfExerciseExpected(rep *verifkit.Report, tc *conformancev1.TestCase, desc string) {
	c := &vfAssertCtx{rep: rep, tc: tc, desc: desc}
	E := tc.ExpectedResponse
	// ---- echo
	rep.Eval(1)
	if err := vfAssert(tc, vfCloneRes(E)); err != nil {
		rep.Violation("assert/echo-rejected", "the expected result itself does not pass: "+verifkit.Trunc(err.Error(), 300), c.witness("echo", E))
		return
	}
	lists := vfHeaderLists(E)
	mergeable := vfMergeable(tc)
	combined := vfCloneRes(E)

	// ---- leniencies
	for li, hl := range lists {
		hs := hl.get(E)
		if len(hs) == 0 {
			continue
		}
		if hl.what == "query params" {
			// all query params absent: a server may be unable to report them (service.proto)
			a := vfCloneRes(E)
			hl.set(a, nil)
			c.mustPass("query-params-all-absent", a)
		}
		a := vfCloneRes(E)
		nh := vfCloneHeaders(hs)
		for _, h := range nh {
			h.Name = vfFlipCase(h.Name)
		}
		hl.set(a, nh)
		c.mustPass("name-case", a)
		a = vfCloneRes(E)
		hl.set(a, append(vfCloneHeaders(hs), &conformancev1.Header{Name: "x-verif-extra", Value: []string{"1", "2"}}))
		c.mustPass("extra-metadata", a)
		// joined / split values
		for hi, h := range hs {
			if len(h.Value) > 1 {
				for _, sep := range []string{",", ", "} {
					a = vfCloneRes(E)
					nh = vfCloneHeaders(hs)
					nh[hi].Value = []string{strings.Join(h.Value, sep)}
					hl.set(a, nh)
					c.mustPass("values-joined", a)
				}
			}
			if canon := vfCanon(h.Value); len(canon) > len(h.Value) {
				a = vfCloneRes(E)
				nh = vfCloneHeaders(hs)
				nh[hi].Value = canon
				hl.set(a, nh)
				c.mustPass("values-split", a)
				// same number of physical values, other grouping / other spacing around the commas
				g := len(h.Value)
				for _, bigFirst := range []bool{true, false} {
					var regrouped []string
					big := len(canon) - (g - 1)
					if bigFirst {
						regrouped = append(regrouped, strings.Join(canon[:big], ", "))
						regrouped = append(regrouped, canon[big:]...)
					} else {
						regrouped = append(regrouped, canon[:g-1]...)
						regrouped = append(regrouped, strings.Join(canon[g-1:], ","))
					}
					if len(regrouped) == g && !reflect.DeepEqual(regrouped, h.Value) && reflect.DeepEqual(vfCanon(regrouped), canon) {
						a = vfCloneRes(E)
						nh = vfCloneHeaders(hs)
						nh[hi].Value = regrouped
						hl.set(a, nh)
						c.mustPass("values-regrouped-same-count", a)
					}
				}
			}
		}
		// contribute to the all-combined rewrite
		ch := vfCloneHeaders(hl.get(combined))
		for _, h := range ch {
			h.Name = vfFlipCase(h.Name)
			if len(h.Value) > 1 && li%2 == 0 {
				h.Value = []string{strings.Join(h.Value, ", ")}
			}
		}
		hl.set(combined, append(ch, &conformancev1.Header{Name: "X-Verif-Extra", Value: []string{"z"}}))
	}
	if len(E.ResponseHeaders) == 0 {
		a := vfCloneRes(E)
		a.ResponseHeaders = []*conformancev1.Header{{Name: "x-verif-extra", Value: []string{"1"}}}
		a.ResponseTrailers = append(a.ResponseTrailers, &conformancev1.Header{Name: "x-verif-extra-t", Value: []string{"1"}})
		c.mustPass("extra-metadata", a)
	}
	if mergeable && (len(E.ResponseHeaders) > 0 || len(E.ResponseTrailers) > 0) {
		// merged per name: header values first, then trailer values
		merged := map[string][]string{}
		var order []string
		for _, h := range append(vfCloneHeaders(E.ResponseHeaders), vfCloneHeaders(E.ResponseTrailers)...) {
			k := strings.ToLower(h.Name)
			if _, ok := merged[k]; !ok {
				order = append(order, k)
			}
			merged[k] = append(merged[k], h.Value...)
		}
		if !vfHasDupNames(E.ResponseHeaders) && !vfHasDupNames(E.ResponseTrailers) {
			var all []*conformancev1.Header
			for _, k := range order {
				all = append(all, &conformancev1.Header{Name: k, Value: merged[k]})
			}
			a := vfCloneRes(E)
			a.ResponseHeaders, a.ResponseTrailers = nil, all
			c.mustPass("metadata-merged-into-trailers", a)
			a = vfCloneRes(E)
			a.ResponseHeaders, a.ResponseTrailers = all, nil
			c.mustPass("metadata-merged-into-headers", a)
		}
	}
	if !mergeable && len(E.Payloads) == 0 && E.Error != nil && !vfHasDupNames(E.ResponseHeaders) && !vfHasDupNames(E.ResponseTrailers) {
		// the merge leniency is for unary and client-stream errors only: on the other stream types an
		// implementation that reports all metadata on one side has lost the other side
		all := append(vfCloneHeaders(E.ResponseHeaders), vfCloneHeaders(E.ResponseTrailers)...)
		if len(E.ResponseHeaders) > 0 {
			a := vfCloneRes(E)
			a.ResponseHeaders, a.ResponseTrailers = nil, all
			c.mustFail("metadata-merged-into-trailers-on-"+strings.ToLower(strings.TrimPrefix(tc.Request.StreamType.String(), "STREAM_TYPE_")), a, strings.ToLower(E.ResponseHeaders[0].Name))
		}
		if len(E.ResponseTrailers) > 0 {
			a := vfCloneRes(E)
			a.ResponseHeaders, a.ResponseTrailers = all, nil
			c.mustFail("metadata-merged-into-headers-on-"+strings.ToLower(strings.TrimPrefix(tc.Request.StreamType.String(), "STREAM_TYPE_")), a, strings.ToLower(E.ResponseTrailers[0].Name))
		}
	}
	if E.Error != nil {
		for _, code := range tc.OtherAllowedErrorCodes {
			a := vfCloneRes(E)
			a.Error.Code = code
			c.mustPass("other-allowed-code", a)
			combined.Error.Code = code
		}
		if E.Error.Message == nil {
			a := vfCloneRes(E)
			a.Error.Message = proto.String("any message at all")
			c.mustPass("unspecified-message", a)
			combined.Error.Message = proto.String("whatever")
		}
		// details are messages: the same detail in another valid wire encoding (a length written as a
		// two-byte varint) is the same detail
		for i, d := range E.Error.Details {
			if re := vfReencodeAny(d); re != nil {
				a := vfCloneRes(E)
				a.Error.Details[i] = re
				c.mustPass("detail-in-another-valid-encoding", a)
			}
		}
	}
	for _, ref := range vfReqInfos(E) {
		ri := ref.get(E)
		if ri == nil || !ref.headers || ri.TimeoutMs == nil {
			continue
		}
		t0 := ri.GetTimeoutMs()
		for _, tv := range []int64{t0, t0 - 1, t0 - 250, t0 - 500} {
			if tv < 0 {
				continue
			}
			a := vfCloneRes(E)
			r2 := ref.get(a)
			r2.TimeoutMs = proto.Int64(tv)
			ref.put(a, r2)
			c.mustPass("timeout-in-grace-window", a)
		}
	}
	a := vfCloneRes(E)
	if E.HttpStatusCode != nil {
		a.HttpStatusCode = nil
	} else {
		a.HttpStatusCode = proto.Int32(418)
	}
	c.mustPass("http-status-absent-on-one-side", a)
	combined.HttpStatusCode = a.HttpStatusCode
	a = vfCloneRes(E)
	a.NumUnsentRequests = 5
	c.mustPass("unsent-request-count", a)
	combined.NumUnsentRequests = 9
	a = vfCloneRes(E)
	a.Feedback = []string{"some feedback line"}
	c.mustPass("feedback-present", a)
	combined.Feedback = []string{"fb"}
	c.mustPass("all-combined", combined)

	// ---- a deviation stays a deviation when a leniency applies at the same time: the cheap deviations are
	// repeated on top of the combined rewrite and (for unary / client-stream errors) on top of the merged-metadata forms
	bases := map[string]*vfRes{"combined-leniencies": combined}
	if mergeable && (len(E.ResponseHeaders) > 0 || len(E.ResponseTrailers) > 0) && !vfHasDupNames(E.ResponseHeaders) && !vfHasDupNames(E.ResponseTrailers) {
		merged := map[string][]string{}
		var order []string
		for _, h := range append(vfCloneHeaders(E.ResponseHeaders), vfCloneHeaders(E.ResponseTrailers)...) {
			k := strings.ToLower(h.Name)
			if _, ok := merged[k]; !ok {
				order = append(order, k)
			}
			merged[k] = append(merged[k], h.Value...)
		}
		var all []*conformancev1.Header
		for _, k := range order {
			all = append(all, &conformancev1.Header{Name: k, Value: merged[k]})
		}
		mt, mh := vfCloneRes(E), vfCloneRes(E)
		mt.ResponseHeaders, mt.ResponseTrailers = nil, all
		mh.ResponseHeaders, mh.ResponseTrailers = vfCloneHeaders(all), nil
		bases["metadata-merged-into-trailers"], bases["metadata-merged-into-headers"] = mt, mh
	}
	for bname, base := range bases {
		if E.HttpStatusCode != nil && bname != "combined-leniencies" {
			a := vfCloneRes(base)
			a.HttpStatusCode = proto.Int32(*E.HttpStatusCode + 1)
			c.mustFail("http-status-differs+"+bname, a, "status")
		}
		if E.Error != nil {
			allowed := map[conformancev1.Code]bool{E.Error.Code: true}
			for _, oc := range tc.OtherAllowedErrorCodes {
				allowed[oc] = true
			}
			for code := conformancev1.Code(1); code <= 16; code++ {
				if !allowed[code] {
					a := vfCloneRes(base)
					a.Error = proto.Clone(base.Error).(*conformancev1.Error)
					a.Error.Code = code
					c.mustFail("code-outside-allowed-set+"+bname, a, "code")
					break
				}
			}
			if E.Error.Message != nil {
				a := vfCloneRes(base)
				a.Error = proto.Clone(base.Error).(*conformancev1.Error)
				a.Error.Message = proto.String(E.Error.GetMessage() + " altered")
				c.mustFail("message-altered+"+bname, a, "message")
			}
		} else {
			a := vfCloneRes(base)
			a.Error = &conformancev1.Error{Code: conformancev1.Code_CODE_INTERNAL}
			c.mustFail("error-added+"+bname, a, "unexpected error")
		}
		a := vfCloneRes(base)
		a.Payloads = append(a.Payloads, &conformancev1.ConformancePayload{Data: []byte("surplus")})
		c.mustFail("payload-added+"+bname, a, "response messages")
	}

	// ---- deviations
	if E.Error == nil {
		a = vfCloneRes(E)
		a.Error = &conformancev1.Error{Code: conformancev1.Code_CODE_INTERNAL, Message: proto.String("boom")}
		c.mustFail("error-added", a, "unexpected error")
	} else {
		a = vfCloneRes(E)
		a.Error = nil
		c.mustFail("error-removed", a, "expecting an error", "error")
		allowed := map[conformancev1.Code]bool{E.Error.Code: true}
		for _, oc := range tc.OtherAllowedErrorCodes {
			allowed[oc] = true
		}
		for code := conformancev1.Code(1); code <= 16; code++ {
			if allowed[code] {
				continue
			}
			a = vfCloneRes(E)
			a.Error.Code = code
			c.mustFail("code-outside-allowed-set", a, fmt.Sprintf("code: %d", int32(code)), "code")
		}
		if E.Error.Message != nil {
			a = vfCloneRes(E)
			a.Error.Message = proto.String(E.Error.GetMessage() + "!")
			c.mustFail("message-altered", a, "message")
			a = vfCloneRes(E)
			a.Error.Message = nil
			if E.Error.GetMessage() != "" {
				c.mustFail("message-dropped", a, "message")
			}
		}
		a = vfCloneRes(E)
		extra, _ := anypb.New(&conformancev1.Header{Name: "extra-detail"})
		a.Error.Details = append(a.Error.Details, extra)
		c.mustFail("detail-added", a, "details", "detail")
		for i, d := range E.Error.Details {
			a = vfCloneRes(E)
			a.Error.Details = append(append([]*anypb.Any{}, a.Error.Details[:i]...), a.Error.Details[i+1:]...)
			c.mustFail("detail-removed", a, "details", "detail")
			if !d.MessageIs(&conformancev1.ConformancePayload_RequestInfo{}) {
				a = vfCloneRes(E)
				a.Error.Details[i] = vfMutateAny(d)
				c.mustFail("detail-altered", a, fmt.Sprintf("detail #%d", i+1), "detail")
			}
		}
		for i := 0; i+1 < len(E.Error.Details); i++ {
			if !proto.Equal(E.Error.Details[i], E.Error.Details[i+1]) {
				a = vfCloneRes(E)
				a.Error.Details[i], a.Error.Details[i+1] = a.Error.Details[i+1], a.Error.Details[i]
				c.mustFail("details-reordered", a, "detail", "request")
			}
		}
	}
	// payloads
	a = vfCloneRes(E)
	a.Payloads = append(a.Payloads, &conformancev1.ConformancePayload{Data: []byte("surplus")})
	c.mustFail("payload-added", a, fmt.Sprintf("%d response messages", len(E.Payloads)), "response messages")
	for i, p := range E.Payloads {
		big := len(p.Data) > 16*1024
		a = vfCloneRes(E)
		a.Payloads = append(append([]*conformancev1.ConformancePayload{}, a.Payloads[:i]...), a.Payloads[i+1:]...)
		if i == len(E.Payloads)-1 || !proto.Equal(E.Payloads[i], E.Payloads[i+1]) {
			c.mustFail("payload-removed", a)
		}
		a = vfCloneRes(E)
		if len(p.Data) == 0 {
			a.Payloads[i].Data = []byte{1}
		} else {
			a.Payloads[i].Data = append([]byte{}, p.Data...)
			pos := (i * 7) % len(p.Data)
			a.Payloads[i].Data[pos] ^= 0x01
		}
		c.mustFail("payload-byte-flipped", a, fmt.Sprintf("response #%d", i+1))
		if len(p.Data) > 1 {
			for _, pos := range []int{len(p.Data) - 1, len(p.Data) / 2, (len(p.Data) * 3) / 4} {
				a = vfCloneRes(E)
				a.Payloads[i].Data = append([]byte{}, p.Data...)
				a.Payloads[i].Data[pos] ^= 0x80
				c.mustFail("payload-byte-flipped-far", a, fmt.Sprintf("response #%d", i+1))
			}
			a = vfCloneRes(E)
			a.Payloads[i].Data = append([]byte{}, p.Data[:len(p.Data)-1]...)
			c.mustFail("payload-last-byte-dropped", a, fmt.Sprintf("response #%d", i+1))
		}
		if big {
			continue
		}
		if p.RequestInfo == nil {
			// nothing is expected to be echoed in this response: echoed requests / an echoed timeout are deviations
			surplus, _ := anypb.New(&conformancev1.UnaryRequest{RequestData: []byte("not expected here")})
			a = vfCloneRes(E)
			a.Payloads[i].RequestInfo = &conformancev1.ConformancePayload_RequestInfo{Requests: []*anypb.Any{surplus}}
			c.mustFail("echoed-request-where-none-expected", a, "request")
			if i == 0 {
				// (headers, timeout and query parameters are compared on the first response only - that is where peers echo them)
				a = vfCloneRes(E)
				a.Payloads[i].RequestInfo = &conformancev1.ConformancePayload_RequestInfo{TimeoutMs: proto.Int64(1234)}
				c.mustFail("echoed-timeout-where-none-expected", a, "timeout")
			}
		}
		a = vfCloneRes(E)
		a.Payloads[i].Data = append(append([]byte{}, p.Data...), 0)
		c.mustFail("payload-byte-appended", a, fmt.Sprintf("response #%d", i+1))
		for j := i + 1; j < len(E.Payloads); j++ {
			if string(E.Payloads[i].Data) != string(E.Payloads[j].Data) {
				a = vfCloneRes(E)
				a.Payloads[i], a.Payloads[j] = a.Payloads[j], a.Payloads[i]
				c.mustFail("payloads-swapped", a, fmt.Sprintf("response #%d", i+1))
				break
			}
		}
	}
	// echoed requests, at every RequestInfo and every position
	for _, ref := range vfReqInfos(E) {
		ri := ref.get(E)
		if ri == nil {
			continue
		}
		addReq, _ := anypb.New(&conformancev1.UnaryRequest{RequestData: []byte("not sent")})
		a = vfCloneRes(E)
		r2 := ref.get(a)
		r2.Requests = append(r2.Requests, addReq)
		ref.put(a, r2)
		c.mustFail("echoed-request-added", a, "request messages", "request")
		for k, rq := range ri.Requests {
			if len(rq.Value) > 16*1024 {
				continue
			}
			a = vfCloneRes(E)
			r2 = ref.get(a)
			r2.Requests = append(append([]*anypb.Any{}, r2.Requests[:k]...), r2.Requests[k+1:]...)
			ref.put(a, r2)
			c.mustFail("echoed-request-dropped", a, "request")
			a = vfCloneRes(E)
			r2 = ref.get(a)
			r2.Requests[k] = vfMutateAny(rq)
			ref.put(a, r2)
			c.mustFail("echoed-request-altered", a, fmt.Sprintf("request #%d", k+1))
			// same bytes, another message type (the four request types share their field numbers)
			other := "type.googleapis.com/connectrpc.conformance.v1.ServerStreamRequest"
			if strings.HasSuffix(rq.TypeUrl, "ServerStreamRequest") {
				other = "type.googleapis.com/connectrpc.conformance.v1.UnaryRequest"
			}
			a = vfCloneRes(E)
			r2 = ref.get(a)
			r2.Requests[k] = &anypb.Any{TypeUrl: other, Value: append([]byte(nil), rq.Value...)}
			ref.put(a, r2)
			c.mustFail("echoed-request-of-another-type", a, fmt.Sprintf("request #%d", k+1))
		}
		if !ref.headers {
			continue
		}
		// echoed timeout
		if ri.TimeoutMs != nil {
			t0 := ri.GetTimeoutMs()
			a = vfCloneRes(E)
			r2 = ref.get(a)
			r2.TimeoutMs = proto.Int64(t0 + 1)
			ref.put(a, r2)
			c.mustFail("timeout-above", a, "timeout")
			if t0-501 >= 0 {
				a = vfCloneRes(E)
				r2 = ref.get(a)
				r2.TimeoutMs = proto.Int64(t0 - 501)
				ref.put(a, r2)
				c.mustFail("timeout-below-grace-window", a, "timeout")
			}
			a = vfCloneRes(E)
			r2 = ref.get(a)
			r2.TimeoutMs = nil
			ref.put(a, r2)
			c.mustFail("timeout-missing", a, "timeout")
		} else {
			a = vfCloneRes(E)
			r2 = ref.get(a)
			r2.TimeoutMs = proto.Int64(1000)
			ref.put(a, r2)
			c.mustFail("timeout-unexpected", a, "timeout")
		}
	}
	// metadata: every list, every header, every value
	for _, hl := range lists {
		hs := hl.get(E)
		if len(hs) == 0 || vfHasDupNames(hs) {
			continue
		}
		kind := strings.ReplaceAll(hl.what, " ", "-")
		otherHas := func(name string) bool {
			// on mergeable results a name present on the other side could legitimately satisfy the merged check
			if !mergeable {
				return false
			}
			return vfLowerNames(E.ResponseHeaders)[name]+vfLowerNames(E.ResponseTrailers)[name] > 1
		}
		for hi, h := range hs {
			lname := strings.ToLower(h.Name)
			if otherHas(lname) {
				continue
			}
			if !(hl.what == "query params" && len(hs) == 1) {
				a = vfCloneRes(E)
				nh := vfCloneHeaders(hs)
				nh = append(nh[:hi], nh[hi+1:]...)
				hl.set(a, nh)
				c.mustFail(kind+"-entry-removed", a, lname)
			}
			for vi := range h.Value {
				a = vfCloneRes(E)
				nh := vfCloneHeaders(hs)
				nh[hi].Value[vi] = nh[hi].Value[vi] + "x"
				hl.set(a, nh)
				c.mustFail(kind+"-value-altered", a, lname)
				// field values are case-sensitive (only names are not)
				if flipped := vfFlipCase(h.Value[vi]); flipped != h.Value[vi] {
					a = vfCloneRes(E)
					nh = vfCloneHeaders(hs)
					nh[hi].Value[vi] = flipped
					hl.set(a, nh)
					c.mustFail(kind+"-value-letter-case-changed", a, lname)
				}
				if len(h.Value) > 1 {
					a = vfCloneRes(E)
					nh = vfCloneHeaders(hs)
					nh[hi].Value = append(append([]string{}, nh[hi].Value[:vi]...), nh[hi].Value[vi+1:]...)
					hl.set(a, nh)
					c.mustFail(kind+"-value-dropped", a, lname)
				}
			}
			if len(h.Value) > 1 {
				// white space at the edge of a separate value is part of that value (only around commas inside one value is it optional)
				for vi := range h.Value {
					for _, edge := range []string{"lead", "trail"} {
						if (edge == "lead" && vi == 0) || (edge == "trail" && vi == len(h.Value)-1) {
							continue // (HTTP itself strips white space at the outer edges of a field line)
						}
						a = vfCloneRes(E)
						nh := vfCloneHeaders(hs)
						if edge == "lead" {
							nh[hi].Value[vi] = " " + nh[hi].Value[vi]
						} else {
							nh[hi].Value[vi] = nh[hi].Value[vi] + " "
						}
						if !reflect.DeepEqual(vfCanon(nh[hi].Value), vfCanon(h.Value)) {
							hl.set(a, nh)
							c.mustFail(kind+"-value-edge-space-"+edge, a, lname)
						}
					}
				}
			}
			a = vfCloneRes(E)
			nh := vfCloneHeaders(hs)
			nh[hi].Value = append(nh[hi].Value, "surplus")
			hl.set(a, nh)
			c.mustFail(kind+"-value-added", a, lname)
			canon := vfCanon(h.Value)
			for x := 0; x+1 < len(canon); x++ {
				if canon[x] != canon[x+1] {
					sw := append([]string{}, canon...)
					sw[x], sw[x+1] = sw[x+1], sw[x]
					a = vfCloneRes(E)
					nh = vfCloneHeaders(hs)
					nh[hi].Value = sw
					hl.set(a, nh)
					c.mustFail(kind+"-values-reordered", a, lname)
					break
				}
			}
		}
	}
	// HTTP status
	if E.HttpStatusCode != nil {
		a = vfCloneRes(E)
		a.HttpStatusCode = proto.Int32(E.GetHttpStatusCode() + 1)
		c.mustFail("http-status-differs", a, "status")
	}
}

func vfExpectedKey(tc *conformancev1.TestCase) string {
	b, _ := proto.MarshalOptions{Deterministic: true}.Marshal(tc.ExpectedResponse)
	h := sha256.Sum256(append(b, []byte(fmt.Sprint(tc.Request.StreamType, tc.OtherAllowedErrorCodes))...))
	return fmt.Sprintf("%x", h[:10])
}

// vfSynthExpected generates definitions with the shapes the corpus is thin
// on (multi-valued and comma-containing headers, many details, timeouts,
// query params, allowed codes, HTTP status).
func vfSynthExpected(r *verifkit.Rand, i int) *conformancev1.TestCase {
	st := conformancev1.StreamType(1 + r.Intn(5))
	hdr := func(prefix string) []*conformancev1.Header {
		var hs []*conformancev1.Header
		for k := r.Intn(4); k > 0; k-- {
			h := &conformancev1.Header{Name: fmt.Sprintf("X-%s-%d", prefix, len(hs))}
			for v := 1 + r.Intn(3); v > 0; v-- {
				h.Value = append(h.Value, verifkit.Pick(r, []string{"a", "b", "c d", "e,f", "g, h", "", "Zz", "a, ,b", "x,,y", ",", " , ", "k,"}))
			}
			hs = append(hs, h)
		}
		return hs
	}
	mkReq := func(k int) *anypb.Any {
		var m proto.Message
		data := r.Bytes(r.Intn(12))
		switch st {
		case 1:
			m = &conformancev1.UnaryRequest{RequestData: data}
		case 2:
			m = &conformancev1.ClientStreamRequest{RequestData: data}
		case 3:
			m = &conformancev1.ServerStreamRequest{RequestData: data}
		default:
			m = &conformancev1.BidiStreamRequest{RequestData: data, FullDuplex: st == 5}
		}
		a, _ := anypb.New(m)
		return a
	}
	reqInfo := func(withHeaders bool) *conformancev1.ConformancePayload_RequestInfo {
		ri := &conformancev1.ConformancePayload_RequestInfo{}
		for k := r.Intn(4); k > 0; k-- {
			ri.Requests = append(ri.Requests, mkReq(k))
		}
		if withHeaders {
			ri.RequestHeaders = hdr("Req")
			if r.Bool() {
				ri.TimeoutMs = proto.Int64(int64(verifkit.Pick(r, []int{0, 100, 500, 501, 2000, 100000})))
			}
			if st == 1 && r.Chance(1, 3) {
				ri.ConnectGetInfo = &conformancev1.ConformancePayload_ConnectGetInfo{QueryParams: []*conformancev1.Header{{Name: "encoding", Value: []string{"proto"}}, {Name: "connect", Value: []string{"v1"}}}}
			}
		}
		return ri
	}
	e := &vfRes{ResponseHeaders: hdr("Hdr"), ResponseTrailers: hdr("Trl")}
	if r.Chance(1, 4) && len(e.ResponseHeaders) > 0 {
		// same name in headers and trailers
		nm := e.ResponseHeaders[0].Name
		nm = verifkit.Pick(r, []string{nm, strings.ToLower(nm), strings.ToUpper(nm), vfFlipCase(nm)})
		e.ResponseTrailers = append(e.ResponseTrailers, &conformancev1.Header{Name: nm, Value: []string{"trailer-side"}})
	}
	nPay := r.Intn(4)
	if st == 1 || st == 2 {
		nPay = r.Intn(2)
	}
	for k := 0; k < nPay; k++ {
		p := &conformancev1.ConformancePayload{Data: r.Bytes(verifkit.Pick(r, []int{0, 1, 5, 9, 9, 600, 5000}))}
		if k == 0 || st == 5 || r.Bool() {
			p.RequestInfo = reqInfo(k == 0)
		}
		e.Payloads = append(e.Payloads, p)
	}
	tc := &conformancev1.TestCase{Request: &conformancev1.ClientCompatRequest{TestName: fmt.Sprintf("synth/%d", i), StreamType: st}, ExpectedResponse: e}
	if nPay == 0 || r.Chance(1, 3) {
		e.Error = &conformancev1.Error{Code: conformancev1.Code(1 + r.Intn(16))}
		if r.Bool() {
			e.Error.Message = proto.String(verifkit.Pick(r, []string{"", "oops", "ünï"}))
		}
		for k := r.Intn(3); k > 0; k-- {
			d, _ := anypb.New(&conformancev1.Header{Name: fmt.Sprintf("detail-%d", k), Value: []string{"v"}})
			e.Error.Details = append(e.Error.Details, d)
		}
		if nPay == 0 && r.Chance(2, 3) {
			d, _ := anypb.New(reqInfo(true))
			e.Error.Details = append(e.Error.Details, d)
		}
		for k := r.Intn(3); k > 0; k-- {
			oc := conformancev1.Code(1 + r.Intn(16))
			if oc != e.Error.Code {
				tc.OtherAllowedErrorCodes = append(tc.OtherAllowedErrorCodes, oc)
			}
		}
	}
	if r.Chance(1, 3) {
		e.HttpStatusCode = proto.Int32(int32(verifkit.Pick(r, []int{200, 400, 404, 500, 503})))
	}
	return tc
}

// TestVerifC03Assert: metamorphic relations of testResults.assert.
func TestVerifC03Assert(t *testing.T) {
	rep := verifkit.Begin("C03", "assert", "expected results = distinct expected responses of the expanded embedded corpus (reference config, both modes; sampled) + synthetic definitions (multi-valued/comma-containing headers, same name in headers and trailers, details, timeouts, query params, allowed codes, HTTP status); per expected result: echo, every documented leniency rewrite alone and combined (must pass), every single deviation at every position (must fail and name the discrepancy); distinct = expected results exercised")
	defer rep.Write()
	data, err := testsuites.LoadTestSuites()
	if err != nil {
		t.Fatal(err)
	}
	suites, err := parseTestSuites(data)
	if err != nil {
		t.Fatal(err)
	}
	cfgData, err := os.ReadFile(filepath.Join(os.Getenv("VERIF_REPO"), "testing/reference-impls-config.yaml"))
	if err != nil {
		t.Fatal(err)
	}
	cases, err := parseConfig("ref", cfgData)
	if err != nil {
		t.Fatal(err)
	}
	rng := verifkit.Stream("c03assert")
	seen := map[string]bool{}
	var defs []*conformancev1.TestCase
	var descs []string
	for _, mode := range []conformancev1.TestSuite_TestMode{conformancev1.TestSuite_TEST_MODE_CLIENT, conformancev1.TestSuite_TEST_MODE_SERVER} {
		lib, err := newTestCaseLibrary(vfCloneSuitesC03(suites), cases, mode)
		if err != nil {
			t.Fatal(err)
		}
		names := make([]string, 0, len(lib.testCases))
		for n := range lib.testCases {
			names = append(names, n)
		}
		sort.Strings(names)
		for _, n := range names {
			tc := lib.testCases[n]
			k := vfExpectedKey(tc)
			if seen[k] {
				continue
			}
			seen[k] = true
			defs = append(defs, tc)
			descs = append(descs, n)
		}
	}
	rep.Note("distinct expected results in the expanded corpus: %d", len(defs))
	// sample the corpus part
	budget := verifkit.Scale(220, 4000)
	bigBudget := verifkit.Scale(3, 40)
	perm := rng.Perm(len(defs))
	used := 0
	for _, idx := range perm {
		if used >= budget {
			break
		}
		tc := defs[idx]
		if proto.Size(tc.ExpectedResponse) > 16*1024 {
			if bigBudget == 0 {
				continue
			}
			bigBudget--
			rep.Count("large_expected_results", 1)
		}
		used++
		rep.DistinctKey("corpus", vfExpectedKey(tc))
		rep.Count("corpus_expected_results", 1)
		vfExerciseExpected(rep, tc, descs[idx])
	}
	nSynth := verifkit.Scale(400, 6000)
	for i := 0; i < nSynth; i++ {
		tc := vfSynthExpected(rng, i)
		rep.DistinctKey("synth", vfExpectedKey(tc))
		rep.Count("synthetic_expected_results", 1)
		vfExerciseExpected(rep, tc, tc.Request.TestName)
	}
	rep.Sample(map[string]any{"expected": "error{code: 5, details:[X, RequestInfo]} headers{X-A:[a,b]} (unary)", "leniency": "all metadata reported as trailers, X-A joined as 'a, b'", "deviation": "X-A values reordered -> must fail naming x-a"})
	for _, k := range []string{"leniency:metadata-merged-into-trailers", "leniency:values-joined", "leniency:values-split", "leniency:other-allowed-code", "leniency:timeout-in-grace-window", "leniency:query-params-all-absent",
		"deviation:payload-byte-flipped", "deviation:payloads-swapped", "deviation:detail-altered", "deviation:echoed-request-altered", "deviation:timeout-below-grace-window", "deviation:query-params-entry-removed", "deviation:response-trailers-values-reordered", "deviation:http-status-differs"} {
		rep.RequireMin(k, 5)
	}
}

func vfCloneSuitesC03(suites map[string]*conformancev1.TestSuite) map[string]*conformancev1.TestSuite {
	cl := map[string]*conformancev1.TestSuite{}
	for k, v := range suites {
		cl[k] = proto.Clone(v).(*conformancev1.TestSuite)
	}
	return cl
}
