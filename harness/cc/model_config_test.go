//go:build verif

package connectconformance

import (
	conformancev1 "connectrpc.com/conformance/internal/gen/proto/go/connectrpc/conformance/v1"
)

type vfFeat struct {
	V                                       []conformancev1.HTTPVersion
	P                                       []conformancev1.Protocol
	C                                       []conformancev1.Codec
	Z                                       []conformancev1.Compression
	S                                       []conformancev1.StreamType
	H2C, TLS, CC, Trailers, HalfH1, Get, Lim bool
}

func vfTri(b *bool, def bool) bool {
	if b == nil {
		return def
	}
	return *b
}
func vfHas[T comparable](s []T, x T) bool {
	for _, e := range s {
		if e == x {
			return true
		}
	}
	return false
}

// Independent set-comprehension model of config expansion, written from
// docs/configuring_and_running_tests.md and the statement of C06.
// model of feature resolution; returns contradiction reason or ""
func vfResolve(f *conformancev1.Features) (vfFeat, string) {
	r := vfFeat{V: f.Versions, P: f.Protocols, C: f.Codecs, Z: f.Compressions, S: f.StreamTypes,
		H2C: vfTri(f.SupportsH2C, true), TLS: vfTri(f.SupportsTls, true), CC: vfTri(f.SupportsTlsClientCerts, false),
		Trailers: vfTri(f.SupportsTrailers, true), HalfH1: vfTri(f.SupportsHalfDuplexBidiOverHttp1, false),
		Get: vfTri(f.SupportsConnectGet, true), Lim: vfTri(f.SupportsMessageReceiveLimit, true)}
	if r.CC && !r.TLS {
		return r, "client certs without TLS"
	}
	if len(r.V) == 0 {
		if r.TLS || r.H2C {
			r.V = []conformancev1.HTTPVersion{1, 2}
		} else {
			r.V = []conformancev1.HTTPVersion{1}
		}
	} else if f.SupportsH2C != nil && *f.SupportsH2C && !vfHas(r.V, 2) {
		return r, "h2c declared without http2"
	}
	if vfHas(r.V, 3) && !r.TLS {
		return r, "h3 without tls"
	}
	if vfHas(r.V, 2) && !r.TLS && !r.H2C {
		return r, "h2 without h2c or tls"
	}
	if vfHas(r.P, 2) && !r.Trailers {
		return r, "grpc without trailers"
	}
	if vfHas(r.P, 2) && !vfHas(r.V, 2) {
		return r, "grpc without h2"
	}
	if len(r.P) == 0 {
		if r.Trailers && vfHas(r.V, 2) {
			r.P = []conformancev1.Protocol{1, 2, 3}
		} else {
			r.P = []conformancev1.Protocol{1, 3}
		}
	}
	if len(r.C) == 0 {
		r.C = []conformancev1.Codec{1, 2}
	}
	if len(r.Z) == 0 {
		r.Z = []conformancev1.Compression{1, 2}
	}
	onlyH1 := !vfHas(r.V, 2) && !vfHas(r.V, 3)
	if vfHas(r.S, 5) && onlyH1 {
		return r, "full duplex only h1"
	}
	if vfHas(r.S, 4) && onlyH1 && !r.HalfH1 {
		return r, "half duplex only h1 unsupported"
	}
	if len(r.S) == 0 {
		r.S = []conformancev1.StreamType{1, 2, 3}
		if !onlyH1 || r.HalfH1 {
			r.S = append(r.S, 4)
		}
		if !onlyH1 {
			r.S = append(r.S, 5)
		}
	}
	return r, ""
}

func vfBoolsOf(spec *bool, supported bool) []bool {
	if spec != nil {
		return []bool{*spec}
	}
	if supported {
		return []bool{false, true}
	}
	return []bool{false}
}

// set comprehension; e == nil means plain features
func vfCases(r vfFeat, e *conformancev1.ConfigCase) map[configCase]struct{} {
	V, P, C, Z, S := r.V, r.P, r.C, r.Z, r.S
	var tls, cc, lim *bool
	if e != nil {
		if e.Version != 0 {
			V = []conformancev1.HTTPVersion{e.Version}
		}
		if e.Protocol != 0 {
			P = []conformancev1.Protocol{e.Protocol}
		}
		if e.Codec != 0 {
			C = []conformancev1.Codec{e.Codec}
		}
		if e.Compression != 0 {
			Z = []conformancev1.Compression{e.Compression}
		}
		if e.StreamType != 0 {
			S = []conformancev1.StreamType{e.StreamType}
		}
		tls, cc, lim = e.UseTls, e.UseTlsClientCerts, e.UseMessageReceiveLimit
	}
	out := map[configCase]struct{}{}
	for _, v := range V {
		for _, p := range P {
			for _, c := range C {
				if c == 3 {
					continue
				}
				for _, z := range Z {
					for _, s := range S {
						for _, t := range vfBoolsOf(tls, r.TLS) {
							for _, k := range vfBoolsOf(cc, r.CC) {
								for _, g := range []bool{false, true} {
									for _, l := range vfBoolsOf(lim, r.Lim) {
										if p == 2 && v != 2 {
											continue
										}
										if v == 3 && !t {
											continue
										}
										if v == 2 && !t && !r.H2C {
											continue
										}
										if k && !t {
											continue
										}
										if s == 5 && v == 1 {
											continue
										}
										if s == 4 && v == 1 && !r.HalfH1 {
											continue
										}
										if g && !(p == 1 && r.Get) {
											continue
										}
										out[configCase{Version: v, Protocol: p, Codec: c, Compression: z, StreamType: s, UseTLS: t, UseTLSClientCerts: k, UseConnectGET: g, UseMessageReceiveLimit: l}] = struct{}{}
									}
								}
							}
						}
					}
				}
			}
		}
	}
	return out
}


// vfConfigModel evaluates the declarative specification. contradiction != ""
// means the feature block contradicts itself (must error). Otherwise want is
// (F ∪ ⋃include) \ ⋃exclude and emptyEntry tells whether some include/exclude
// entry denotes the empty set (the implementation may reject those).
func vfConfigModel(cfg *conformancev1.Config) (want map[configCase]struct{}, contradiction string, emptyEntry bool) {
	f := cfg.GetFeatures()
	if f == nil {
		f = &conformancev1.Features{}
	}
	feat, why := vfResolve(f)
	if why != "" {
		return nil, why, false
	}
	want = vfCases(feat, nil)
	for _, e := range cfg.IncludeCases {
		s := vfCases(feat, e)
		if len(s) == 0 {
			emptyEntry = true
		}
		for c := range s {
			want[c] = struct{}{}
		}
	}
	for _, e := range cfg.ExcludeCases {
		s := vfCases(feat, e)
		if len(s) == 0 {
			emptyEntry = true
		}
		for c := range s {
			delete(want, c)
		}
	}
	return want, "", emptyEntry
}

// vfPossible is the "internally possible" predicate of the statement, on a
// single case, given the resolved support flags.
func vfPossible(c configCase, h2c, halfH1, get bool) string {
	switch {
	case c.Protocol == 2 && c.Version != 2:
		return "gRPC not over HTTP/2"
	case c.Version == 3 && !c.UseTLS:
		return "HTTP/3 without TLS"
	case c.Version == 2 && !c.UseTLS && !h2c:
		return "cleartext HTTP/2 without H2C support"
	case c.UseTLSClientCerts && !c.UseTLS:
		return "client certs without TLS"
	case c.StreamType == 5 && c.Version == 1:
		return "full-duplex over HTTP/1.1"
	case c.StreamType == 4 && c.Version == 1 && !halfH1:
		return "half-duplex over HTTP/1.1 not declared"
	case c.UseConnectGET && (c.Protocol != 1 || !get):
		return "GET without Connect / without GET support"
	}
	return ""
}


// vfEntryContradiction: an include/exclude entry that asks for something the
// statement calls impossible (given the version scope it applies to) is a
// contradictory configuration: it must be rejected, not resolved to nothing.
func vfEntryContradiction(r vfFeat, e *conformancev1.ConfigCase) string {
	V := r.V
	if e.Version != 0 {
		V = []conformancev1.HTTPVersion{e.Version}
	}
	has := func(v conformancev1.HTTPVersion) bool {
		for _, x := range V {
			if x == v {
				return true
			}
		}
		return false
	}
	onlyH1 := len(V) > 0
	for _, x := range V {
		onlyH1 = onlyH1 && x == 1
	}
	tlsFalse := e.UseTls != nil && !*e.UseTls
	switch {
	case e.Protocol == 2 && !has(2):
		return "grpc-entry-without-http2"
	case e.Version == 3 && tlsFalse:
		return "http3-entry-without-tls"
	case e.UseTlsClientCerts != nil && *e.UseTlsClientCerts && tlsFalse:
		return "client-certs-entry-without-tls"
	case e.StreamType == 5 && onlyH1:
		return "full-duplex-entry-with-only-http1"
	case e.StreamType == 4 && onlyH1 && !r.HalfH1:
		return "half-duplex-entry-with-only-http1"
	}
	return ""
}
