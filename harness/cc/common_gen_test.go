//go:build verif

package connectconformance

import (
	conformancev1 "connectrpc.com/conformance/internal/gen/proto/go/connectrpc/conformance/v1"
	"connectrpc.com/conformance/internal/verifkit"
	"google.golang.org/protobuf/proto"
)

// Generators shared by several monitors.

func vfTriBool(code int) *bool {
	switch code {
	case 0:
		return nil
	case 1:
		return proto.Bool(false)
	}
	return proto.Bool(true)
}

func vfSubsetBits[T ~int32](bits, n int) []T {
	var out []T
	for i := 0; i < n; i++ {
		if bits&(1<<i) != 0 {
			out = append(out, T(i+1))
		}
	}
	return out
}

func vfRandCase(r *verifkit.Rand) *conformancev1.ConfigCase {
	e := &conformancev1.ConfigCase{}
	if r.Bool() {
		e.Version = conformancev1.HTTPVersion(1 + r.Intn(3))
	}
	if r.Bool() {
		e.Protocol = conformancev1.Protocol(1 + r.Intn(3))
	}
	if r.Chance(1, 3) {
		e.Codec = conformancev1.Codec(1 + r.Intn(3)) // incl. deprecated TEXT
	}
	if r.Chance(1, 3) {
		e.Compression = conformancev1.Compression(1 + r.Intn(6))
	}
	if r.Bool() {
		e.StreamType = conformancev1.StreamType(1 + r.Intn(5))
	}
	e.UseTls, e.UseTlsClientCerts, e.UseMessageReceiveLimit = vfTriBool(r.Intn(3)), vfTriBool(r.Intn(3)), vfTriBool(r.Intn(3))
	return e
}

func vfRandSubset[T ~int32](r *verifkit.Rand, n int) []T {
	if r.Chance(1, 3) {
		return nil
	}
	out := vfSubsetBits[T](r.Intn(1<<n), n)
	// the lists are sets written down by a user: any order, possibly with a repeated element
	if r.Bool() {
		for i := len(out) - 1; i > 0; i-- {
			j := r.Intn(i + 1)
			out[i], out[j] = out[j], out[i]
		}
	}
	if len(out) > 0 && r.Chance(1, 10) {
		out = append(out, out[r.Intn(len(out))])
	}
	return out
}

func vfRandConfig(r *verifkit.Rand) *conformancev1.Config {
	cfg := &conformancev1.Config{Features: &conformancev1.Features{
		Versions: vfRandSubset[conformancev1.HTTPVersion](r, 3), Protocols: vfRandSubset[conformancev1.Protocol](r, 3),
		Codecs: vfRandSubset[conformancev1.Codec](r, 3), Compressions: vfRandSubset[conformancev1.Compression](r, 6),
		StreamTypes: vfRandSubset[conformancev1.StreamType](r, 5),
		SupportsH2C: vfTriBool(r.Intn(3)), SupportsTls: vfTriBool(r.Intn(3)), SupportsTlsClientCerts: vfTriBool(r.Intn(3)),
		SupportsTrailers: vfTriBool(r.Intn(3)), SupportsHalfDuplexBidiOverHttp1: vfTriBool(r.Intn(3)),
		SupportsConnectGet: vfTriBool(r.Intn(3)), SupportsMessageReceiveLimit: vfTriBool(r.Intn(3))}}
	if r.Chance(1, 20) {
		cfg.Features = nil
	}
	// mostly-permissive feature blocks make include/exclude arithmetic observable
	if r.Chance(1, 3) && cfg.Features != nil {
		cfg.Features.SupportsTls, cfg.Features.SupportsH2C, cfg.Features.SupportsTrailers = nil, nil, nil
		cfg.Features.Versions, cfg.Features.Protocols = nil, nil
	}
	for k := r.Intn(5); k > 0; k-- {
		cfg.IncludeCases = append(cfg.IncludeCases, vfRandCase(r))
	}
	for k := r.Intn(5); k > 0; k-- {
		cfg.ExcludeCases = append(cfg.ExcludeCases, vfRandCase(r))
	}
	return cfg
}
