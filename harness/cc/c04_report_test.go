//go:build verif

package connectconformance

import (
	"errors"
	"fmt"
	"regexp"
	"strconv"
	"strings"
	"sync"
	"testing"

	"connectrpc.com/conformance/internal"
	conformancev1 "connectrpc.com/conformance/internal/gen/proto/go/connectrpc/conformance/v1"
	"connectrpc.com/conformance/internal/verifkit"
)

const (
	vfKPass = iota
	vfKAssertFail
	vfKClientErr
	vfKSetupErr
	vfKCouldNotRun
	vfKNever     // no answer ever arrived: failRemaining marks it
	vfKNoOutcome // nothing recorded at all (client gone before the case was even tried)
	vfKKinds
)

var vfKindNames = []string{"pass", "assertion-failure", "client-error", "setup-error", "could-not-run", "never-answered", "no-outcome"}
var vfMarkNames = []string{"unmarked", "known-failing", "known-flaky"}

type vfRow struct{ Kind, Mark, FB int }

func (r vfRow) String() string {
	fb := ""
	if r.FB == 1 {
		fb = "+feedback"
	}
	return vfKindNames[r.Kind] + "/" + vfMarkNames[r.Mark] + fb
}

var vfTotalRE = regexp.MustCompile(`Total cases: (\d+)\n(\d+) passed, (\d+) failed`)
var vfAnotherRE = regexp.MustCompile(`Another (\d+) could not be run`)
var vfExpectedRE = regexp.MustCompile(`\(Another (\d+) failed as expected`)

// vfRunReportHistory drives the real testResults through its entry points
// (concurrently, in shuffled order when rng != nil) and compares report()
// with the truth table.
func vfRunReportHistory(rep *verifkit.Report, cases []vfRow, rng *verifkit.Rand) {
	rep.Eval(1)
	var kf, kfl []string
	names := make([]string, len(cases))
	for i, c := range cases {
		names[i] = fmt.Sprintf("Suite/group %d/case%d", i%2, i)
		switch c.Mark {
		case 1:
			kf = append(kf, names[i])
		case 2:
			kfl = append(kfl, names[i])
		}
	}
	tf, tfl := parsePatterns(kf), parsePatterns(kfl)
	if tf == nil {
		tf = &testTrie{}
	}
	if tfl == nil {
		tfl = &testTrie{}
	}
	res := newResults(len(cases), tf, tfl, nil)
	tcs := make([]*conformancev1.TestCase, len(cases))
	for i := range cases {
		tcs[i] = &conformancev1.TestCase{Request: &conformancev1.ClientCompatRequest{TestName: names[i]}, ExpectedResponse: &conformancev1.ClientResponseResult{Payloads: []*conformancev1.ConformancePayload{{Data: []byte("x")}}}}
	}
	apply := func(i int) {
		c := cases[i]
		switch c.Kind {
		case vfKPass:
			res.assert(names[i], tcs[i], &conformancev1.ClientResponseResult{Payloads: []*conformancev1.ConformancePayload{{Data: []byte("x")}}})
		case vfKAssertFail:
			res.assert(names[i], tcs[i], &conformancev1.ClientResponseResult{Payloads: []*conformancev1.ConformancePayload{{Data: []byte("y")}}})
		case vfKClientErr:
			// a client-reported error is a failure whatever its text is (also none at all)
			res.failed(names[i], &conformancev1.ClientErrorResult{Message: []string{"client says no", "", " \n\t ", "multi\nline\n\nmessage"}[(i+len(cases))%4]})
		case vfKSetupErr:
			if i%2 == 0 {
				res.setOutcome(names[i], true, errors.New("server process terminated unexpectedly"))
			} else {
				res.failedToStart([]*conformancev1.TestCase{tcs[i]}, errors.New("error starting server"))
			}
		case vfKCouldNotRun:
			res.setOutcome(names[i], true, &couldNotRunError{errors.New("could not send request: client stdin is closed")})
		}
		if c.FB == 1 {
			res.recordSideband(names[i], "expected protocol X; instead got Y")
		}
	}
	if rng == nil {
		for i := range cases {
			apply(i)
		}
	} else {
		order := rng.Perm(len(cases))
		var wg sync.WaitGroup
		for _, i := range order {
			wg.Add(1)
			go func(i int) { defer wg.Done(); apply(i) }(i)
		}
		wg.Wait()
	}
	var never []*conformancev1.TestCase
	for i, c := range cases {
		if c.Kind == vfKNever {
			never = append(never, tcs[i])
		}
	}
	// failRemaining is given the whole batch, as the runner does: it must only touch cases without an outcome
	batch := append([]*conformancev1.TestCase{}, never...)
	for i, c := range cases {
		if c.Kind != vfKNever && c.Kind != vfKNoOutcome {
			batch = append(batch, tcs[i])
		}
	}
	res.failRemaining(batch, &failedToGetResultError{errNoOutcome})
	p := &internal.SimplePrinter{}
	var ok bool
	if pn := verifkit.Catch(func() { ok = res.report(p) }); pn != nil {
		rep.Violation("report/panic/"+pn.Site, pn.Value, fmt.Sprint(cases))
		return
	}
	out := strings.Join(p.Messages, "")
	w := map[string]any{"cases": fmt.Sprint(cases), "report_returned": ok, "output": verifkit.Trunc(out, 2500)}
	wantOK, decided := true, true
	wantPassed, wantFailed, wantExpected, wantNotRun := 0, 0, 0, 0
	for i, c := range cases {
		ran := c.Kind == vfKPass || c.Kind == vfKAssertFail || c.Kind == vfKClientErr
		failedCase := c.Kind == vfKAssertFail || c.Kind == vfKClientErr || c.FB == 1
		meets := false
		if ran {
			switch c.Mark {
			case 0:
				meets = !failedCase
			case 1:
				meets = failedCase
			case 2:
				meets = true
			}
		}
		named := strings.Contains(out, "FAILED: "+names[i]+":") || strings.Contains(out, "FAILED: "+names[i]+" was expected to fail")
		switch {
		case c.Kind == vfKCouldNotRun || (c.Kind == vfKNoOutcome && c.FB == 0):
			// the exit status for these rows also depends on the error returned next to the results (level 2)
			decided = false
			wantNotRun++
		case !meets:
			wantOK = false
			wantFailed++
			if !named {
				rep.Violation("report/failing-case-not-named/"+c.String(), fmt.Sprintf("case %s (%s) does not meet its expectation but no FAILED line names it", names[i], c), w)
			}
		default:
			if named {
				rep.Violation("report/passing-case-named-failed/"+c.String(), fmt.Sprintf("case %s (%s) meets its expectation but is reported FAILED", names[i], c), w)
			}
			if failedCase {
				wantExpected++
				if !strings.Contains(out, "INFO: "+names[i]+" failed (as expected)") {
					rep.Violation("report/expected-failure-not-listed/"+c.String(), fmt.Sprintf("case %s failed as expected but has no INFO line", names[i]), w)
				}
			} else {
				wantPassed++
			}
		}
		rep.Count("row:"+c.String(), 1)
	}
	if decided && ok != wantOK {
		var key []string
		for _, c := range cases {
			if (c.Kind >= vfKSetupErr || c.FB == 1) && c.Mark != 0 {
				key = append(key, c.String())
			}
		}
		k := "mixed"
		if len(key) == 1 {
			k = key[0]
		}
		rep.Violation("report/verdict/"+k, fmt.Sprintf("report() returned %v, the truth table says %v for cases %v", ok, wantOK, cases), w)
	}
	if !decided && ok && !wantOK {
		rep.Violation("report/verdict-success-despite-failure", fmt.Sprintf("report() returned true although a case that ran does not meet its expectation: %v", cases), w)
	}
	// accounting: every case exactly once
	m := vfTotalRE.FindStringSubmatch(out)
	if m == nil {
		rep.Violation("report/no-summary", "summary lines missing", w)
		return
	}
	total, _ := strconv.Atoi(m[1])
	passed, _ := strconv.Atoi(m[2])
	failed, _ := strconv.Atoi(m[3])
	notRun, expected := 0, 0
	if a := vfAnotherRE.FindStringSubmatch(out); a != nil {
		notRun, _ = strconv.Atoi(a[1])
	}
	if a := vfExpectedRE.FindStringSubmatch(out); a != nil {
		expected, _ = strconv.Atoi(a[1])
	}
	if passed+failed+expected+notRun != len(cases) {
		rep.Violation("report/accounting-sum", fmt.Sprintf("passed %d + failed %d + failed-as-expected %d + could-not-run %d != %d selected cases", passed, failed, expected, notRun, len(cases)), w)
	}
	if passed != wantPassed || failed != wantFailed || expected != wantExpected || notRun != wantNotRun {
		rep.Violation("report/accounting-classes", fmt.Sprintf("printed passed/failed/expected/not-run = %d/%d/%d/%d, truth table %d/%d/%d/%d", passed, failed, expected, notRun, wantPassed, wantFailed, wantExpected, wantNotRun), w)
	}
	_ = total
	rep.DistinctKey(fmt.Sprint(cases))
}

// TestVerifC04Report: level 1 - exhaustive for up to 3 cases, random beyond.
func TestVerifC04Report(t *testing.T) {
	rep := verifkit.Begin("C04", "report-level1", "assignments of {pass, assertion failure, client-reported error, setup error, could-not-run, never answered, no outcome} x {unmarked, known-failing, known-flaky} x {with, without peer feedback} to the selected cases, driven through the real assert/failed/setOutcome/failedToStart/failRemaining/recordSideband/report: every assignment for 1 and 2 cases, every assignment for 3 cases in thorough (stratified third in quick), random 4-12 cases issued from concurrent goroutines in shuffled order; distinct = assignments")
	defer rep.Write()
	var rows []vfRow
	for k := 0; k < vfKKinds; k++ {
		for m := 0; m < 3; m++ {
			for f := 0; f < 2; f++ {
				rows = append(rows, vfRow{k, m, f})
			}
		}
	}
	for _, a := range rows {
		vfRunReportHistory(rep, []vfRow{a}, nil)
		for _, b := range rows {
			vfRunReportHistory(rep, []vfRow{a, b}, nil)
		}
	}
	stride := verifkit.Scale(3, 1)
	off := int(verifkit.Seed() % uint64(stride))
	idx := 0
	for _, a := range rows {
		for _, b := range rows {
			for _, c := range rows {
				idx++
				if idx%stride != off {
					continue
				}
				vfRunReportHistory(rep, []vfRow{a, b, c}, nil)
			}
		}
	}
	rng := verifkit.Stream("c04report")
	n := verifkit.Scale(3000, 60000)
	for i := 0; i < n; i++ {
		k := 4 + rng.Intn(9)
		cs := make([]vfRow, k)
		for j := range cs {
			cs[j] = verifkit.Pick(rng, rows)
			if rng.Chance(1, 2) {
				cs[j] = vfRow{Kind: vfKPass} // mostly passing runs, a few deviating cases
			}
		}
		vfRunReportHistory(rep, cs, rng)
	}
	rep.Exhaustive = false
	rep.Note("1- and 2-case assignments complete (42 + 1764); 3-case assignments stride %d of 74088", stride)
	rep.Sample(map[string]any{"cases": "[never-answered/known-failing+feedback pass/unmarked]", "expect": "report() false; FAILED names case0; totals 1 passed, 1 failed"})
}
