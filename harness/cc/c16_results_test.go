//go:build verif

package connectconformance

import (
	"fmt"
	"net/http/httptest"
	"strings"
	"testing"

	"connectrpc.com/conformance/internal"
	conformancev1 "connectrpc.com/conformance/internal/gen/proto/go/connectrpc/conformance/v1"
	"connectrpc.com/conformance/internal/tracer"
	"connectrpc.com/conformance/internal/verifkit"
)

// TestVerifC16ResultsTrace: the runner's own consumer of completed traces
// (testResults.fetchTrace): a failing case whose trace was completed shows
// that trace in the report, however quickly report() follows the outcomes.
func TestVerifC16ResultsTrace(t *testing.T) {
	rep := verifkit.Begin("C16", "results-trace", "real testResults with a real Tracer: 1-60 cases per history; per case the trace slot is initialised, the trace is completed {before the outcome is recorded, never}, the outcome is {unexpected failure, pass, known-failing failure, setup error}; report() is called immediately after the last outcome; oracle: every unmarked failing case whose trace had been completed has an HTTP trace block under its FAILED line, no other case has one, report() returns; distinct = (cases, mix)")
	defer rep.Write()
	n := verifkit.Scale(300, 10000)
	for h := 0; h < n; h++ {
		rng := verifkit.Stream("c16results", h)
		k := 1 + rng.Intn(60)
		tr := &tracer.Tracer{}
		names := make([]string, k)
		kinds := make([]int, k) // 0 failure+trace, 1 failure without trace, 2 pass+trace, 3 known-failing failure+trace, 4 setup error+trace
		var kf []string
		for i := range names {
			names[i] = fmt.Sprintf("Trace/%d/case %d", h, i)
			kinds[i] = rng.Intn(5)
			if kinds[i] == 1 && h%150 != 0 {
				kinds[i] = 0 // a case whose trace never arrives makes report() wait out the 5 s trace timeout: only in a few histories
			}
			if kinds[i] == 3 {
				kf = append(kf, names[i])
			}
		}
		tf := parsePatterns(kf)
		if tf == nil {
			tf = &testTrie{}
		}
		res := newResults(k, tf, &testTrie{}, tr)
		for i, name := range names {
			tr.Init(name)
			if kinds[i] != 1 {
				req := httptest.NewRequest("POST", "/svc/M", nil)
				req.Header.Set("X-Test-Case-Name", name)
				tr.Complete(tracer.Trace{TestName: name, Request: req})
			}
		}
		for i, name := range names {
			tc := &conformancev1.TestCase{Request: &conformancev1.ClientCompatRequest{TestName: name}, ExpectedResponse: &conformancev1.ClientResponseResult{Payloads: []*conformancev1.ConformancePayload{{Data: []byte("x")}}}}
			switch kinds[i] {
			case 0, 1, 3:
				res.failed(name, &conformancev1.ClientErrorResult{Message: "client says no"})
			case 2:
				res.assert(name, tc, &conformancev1.ClientResponseResult{Payloads: []*conformancev1.ConformancePayload{{Data: []byte("x")}}})
			case 4:
				res.setOutcome(name, true, fmt.Errorf("could not start server"))
			}
		}
		p := &internal.SimplePrinter{}
		pn := verifkit.Catch(func() { res.report(p) })
		rep.Eval(1)
		rep.DistinctKey(k, fmt.Sprint(kinds))
		if pn != nil {
			rep.Violation("handoff/results/panic/"+pn.Site, pn.Value, nil)
			continue
		}
		lines := p.Messages
		w := map[string]any{"cases": k, "kinds(0=failure+trace,1=failure,2=pass+trace,3=known-failing+trace,4=setup-error+trace)": fmt.Sprint(kinds)}
		for i, name := range names {
			hasTrace := false
			for li, l := range lines {
				if strings.HasPrefix(l, "FAILED: "+name+":") && li+1 < len(lines) && strings.Contains(lines[li+1], "HTTP Trace") {
					hasTrace = true
				}
			}
			switch {
			case kinds[i] == 0 && !hasTrace:
				w["case"] = name
				rep.Violation("handoff/results/completed-trace-missing-from-report", fmt.Sprintf("case %d of %d failed unexpectedly and its trace had been completed before, but the report shows no trace for it", i, k), w)
			case kinds[i] != 0 && hasTrace:
				w["case"] = name
				rep.Violation("handoff/results/trace-shown-for-wrong-case", fmt.Sprintf("case %d (kind %d) is shown with a trace", i, kinds[i]), w)
			case kinds[i] == 0:
				rep.Count("results_traces_shown", 1)
			}
		}
	}
	rep.Sample(map[string]any{"cases": 3, "kinds": "failure+trace, pass+trace, failure", "expect": "a trace block under the first FAILED line only"})
	rep.RequireMin("results_traces_shown", 500)
}
