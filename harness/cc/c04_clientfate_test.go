//go:build verif

package connectconformance

import (
	"context"
	"encoding/binary"
	"errors"
	"fmt"
	"io"
	"strings"
	"testing"
	"time"

	"connectrpc.com/conformance/internal"
	conformancev1 "connectrpc.com/conformance/internal/gen/proto/go/connectrpc/conformance/v1"
	"connectrpc.com/conformance/internal/verifkit"
	"google.golang.org/protobuf/proto"
)

func vfC04Frame(m proto.Message) []byte {
	b, _ := proto.Marshal(m)
	out := make([]byte, 4+len(b))
	binary.BigEndian.PutUint32(out, uint32(len(b)))
	copy(out[4:], b)
	return out
}

func vfC04ReadFrame(r io.Reader) ([]byte, error) {
	var pre [4]byte
	if _, err := io.ReadFull(r, pre[:]); err != nil {
		return nil, err
	}
	b := make([]byte, binary.BigEndian.Uint32(pre[:]))
	_, err := io.ReadFull(r, b)
	return b, err
}

// TestVerifC04ClientFate: the verdict of a run whose (in-process) client
// leaves early - composed exactly as run() composes it: the real
// clientProcessRunner, the real runTestCasesForServer, closeSend,
// waitForResponses, report().
func TestVerifC04ClientFate(t *testing.T) {
	rep := verifkit.Begin("C04", "client-fate", "real clientProcessRunner over an in-process client that reads r of n requests (n 1-5), answers the first k <= r correctly and then ends cleanly (status 0) or with an error; real runTestCasesForServer against an in-process server; verdict = report() && waitForResponses()==nil as in run(); every marking of the unanswered cases; oracle: success iff every case was answered and met its expectation; totals account for every case once; an unanswered case is never listed as passed or failed-as-expected; distinct = (n, reads, answers, exit, markings)")
	defer rep.Write()
	for n := 1; n <= 5; n++ {
		for reads := 0; reads <= n; reads++ {
			for k := 0; k <= reads; k++ {
				for _, exitErr := range []bool{false, true} {
					marksets := [][]int{make([]int, n)}
					for m := 1; m <= 2; m++ {
						ms := make([]int, n)
						for i := k; i < n; i++ {
							ms[i] = m // unanswered cases marked known-failing / known-flaky
						}
						marksets = append(marksets, ms)
					}
					if !verifkit.Thorough() && n > 3 {
						marksets = marksets[1:2]
					}
					for _, marks := range marksets {
						vfC04ClientFateOne(rep, n, reads, k, exitErr, marks)
					}
				}
			}
		}
	}
	rep.Sample(map[string]any{"cases": 3, "client_reads": 3, "client_answers": 2, "client_exit": "status 0", "third_case": "known-flaky", "expect": "run fails; totals 2 passed + 1 failed/could-not-run"})
	rep.RequireMin("client_fate_histories", 50)
}

func vfC04ClientFateOne(rep *verifkit.Report, n, reads, k int, exitErr bool, marks []int) {
	rep.Eval(1)
	rep.DistinctKey(n, reads, k, exitErr, marks)
	names := make([]string, n)
	var kf, kfl []string
	tcs := make([]*conformancev1.TestCase, n)
	for i := range names {
		names[i] = fmt.Sprintf("Fate/%d-%d-%d-%v/case %d", n, reads, k, exitErr, i)
		switch marks[i] {
		case 1:
			kf = append(kf, names[i])
		case 2:
			kfl = append(kfl, names[i])
		}
		tcs[i] = &conformancev1.TestCase{Request: &conformancev1.ClientCompatRequest{TestName: names[i], StreamType: conformancev1.StreamType_STREAM_TYPE_UNARY},
			ExpectedResponse: &conformancev1.ClientResponseResult{Payloads: []*conformancev1.ConformancePayload{{Data: []byte(names[i])}}}}
	}
	tf, tfl := parsePatterns(kf), parsePatterns(kfl)
	if tf == nil {
		tf = &testTrie{}
	}
	if tfl == nil {
		tfl = &testTrie{}
	}
	results := newResults(n, tf, tfl, nil)
	ctx, cancel := context.WithCancel(context.Background())
	defer cancel()
	clientImpl := func(_ context.Context, _ []string, in io.ReadCloser, out, _ io.WriteCloser) error {
		for i := 0; i < reads; i++ {
			b, err := vfC04ReadFrame(in)
			if err != nil {
				return nil
			}
			req := &conformancev1.ClientCompatRequest{}
			if proto.Unmarshal(b, req) != nil {
				return errors.New("bad request")
			}
			if i < k {
				resp := &conformancev1.ClientCompatResponse{TestName: req.TestName, Result: &conformancev1.ClientCompatResponse_Response{Response: &conformancev1.ClientResponseResult{Payloads: []*conformancev1.ConformancePayload{{Data: []byte(req.TestName)}}}}}
				if _, err := out.Write(vfC04Frame(resp)); err != nil {
					return nil
				}
			}
		}
		if exitErr {
			return errors.New("client under test exits with an error")
		}
		return nil
	}
	serverImpl := func(ctx context.Context, _ []string, in io.ReadCloser, out, _ io.WriteCloser) error {
		if _, err := vfC04ReadFrame(in); err != nil {
			return err
		}
		if _, err := out.Write(vfC04Frame(&conformancev1.ServerCompatResponse{Host: "127.0.0.1", Port: 9})); err != nil {
			return err
		}
		<-ctx.Done()
		return nil
	}
	w := map[string]any{"cases": n, "client_reads": reads, "client_answers": k, "client_exits_with_error": exitErr, "markings(0=unmarked,1=known-failing,2=known-flaky)": marks}
	rep.InFlight(w)
	type res struct {
		ok   bool
		werr error
		out  string
		pn   *verifkit.Panic
	}
	done := make(chan res, 1)
	go func() {
		var r res
		r.pn = verifkit.Catch(func() {
			client, err := runClient(ctx, runInProcess([]string{"client-under-test"}, clientImpl))
			if err != nil {
				r.werr = err
				return
			}
			discardP := internal.NewPrinter(io.Discard)
			runTestCasesForServer(ctx, false, false, serverInstance{protocol: conformancev1.Protocol_PROTOCOL_CONNECT, httpVersion: conformancev1.HTTPVersion_HTTP_VERSION_1}, tcs, nil, nil,
				runInProcess([]string{"server"}, serverImpl), discardP, discardP, results, client, nil, false)
			client.closeSend()
			r.werr = client.waitForResponses()
			p := &internal.SimplePrinter{}
			r.ok = results.report(p)
			r.out = strings.Join(p.Messages, "")
		})
		done <- r
	}()
	var r res
	select {
	case r = <-done:
	case <-time.After(90 * time.Second):
		rep.Violation("fate/not-terminating", "the composed run did not finish within the progress bound", w)
		return
	}
	if r.pn != nil {
		rep.Violation("fate/panic/"+r.pn.Site, r.pn.Value, w)
		return
	}
	rep.Count("client_fate_histories", 1)
	verdict := r.ok && r.werr == nil
	w["report_returned"], w["wait_error"], w["output"] = r.ok, fmt.Sprint(r.werr), verifkit.Trunc(r.out, 2000)
	wantOK := k == n // every case answered (correctly, and all answered cases are unmarked)
	key := fmt.Sprintf("answered-%v/exit-error-%v", k == n, exitErr)
	if verdict && !wantOK {
		unans := map[int]int{}
		for i := k; i < n; i++ {
			unans[marks[i]]++
		}
		rep.Violation("fate/run-succeeds-with-unanswered-cases/"+key, fmt.Sprintf("%d of %d cases never got an answer (client read %d, answered %d, exit error=%v) but report() && no run error", n-k, n, reads, k, exitErr), w)
	}
	if !verdict && wantOK && !exitErr {
		rep.Violation("fate/run-fails-although-all-answered", "every case was answered correctly and the client ended cleanly, but the run is a failure", w)
	}
	if m := vfTotalRE.FindStringSubmatch(r.out); m != nil {
		var total, passed, failed, another, expected int
		fmt.Sscan(m[1], &total)
		fmt.Sscan(m[2], &passed)
		fmt.Sscan(m[3], &failed)
		if a := vfAnotherRE.FindStringSubmatch(r.out); a != nil {
			fmt.Sscan(a[1], &another)
		}
		if e := vfExpectedRE.FindStringSubmatch(r.out); e != nil {
			fmt.Sscan(e[1], &expected)
		}
		if passed > k {
			rep.Violation("fate/unanswered-case-counted-as-passed", fmt.Sprintf("%d passed, only %d were answered", passed, k), w)
		}
		if expected > 0 {
			rep.Violation("fate/unanswered-case-failed-as-expected", fmt.Sprintf("%d cases are listed as failed-as-expected although the only failures are cases that never ran", expected), w)
		}
		if passed+failed+another+expected != n {
			rep.Violation("fate/accounting", fmt.Sprintf("passed %d + failed %d + failed-as-expected %d + could-not-run %d != %d cases", passed, failed, expected, another, n), w)
		}
	} else {
		rep.Violation("fate/no-summary", "report() printed no totals", w)
	}
}
