//go:build verif

package connectconformance

import (
	"fmt"
	"sort"
	"strings"
	"testing"

	"connectrpc.com/conformance/internal"
	conformancev1 "connectrpc.com/conformance/internal/gen/proto/go/connectrpc/conformance/v1"
	"connectrpc.com/conformance/internal/verifkit"
)

// all sequences of length 1..maxLen over the alphabet, joined with "/"
func vfSeqs(alphabet []string, maxLen int) []string {
	var out []string
	var rec func(cur []string)
	rec = func(cur []string) {
		if len(cur) > 0 {
			out = append(out, strings.Join(cur, "/"))
		}
		if len(cur) == maxLen {
			return
		}
		for _, a := range alphabet {
			rec(append(append([]string{}, cur...), a))
		}
	}
	rec(nil)
	return out
}

func vfTestCases(names []string) []*conformancev1.TestCase {
	out := make([]*conformancev1.TestCase, len(names))
	for i, n := range names {
		out[i] = &conformancev1.TestCase{Request: &conformancev1.ClientCompatRequest{TestName: n}}
	}
	return out
}

// TestVerifC08Glob: trie matching == glob semantics, singly and for sets of
// patterns sharing one trie (bounded-exhaustive + random longer ones).
func TestVerifC08Glob(t *testing.T) {
	rep := verifkit.Begin("C08", "glob", "every pattern set (single: all of length<=4 over {a,b,*,**}; pairs: all of length<=3, thorough <=4 sampled rows; triples sampled; random longer incl. empty components) x every name of length<=4 over {a,b} (+random); distinct = (pattern set, name) where the glob model matches or some pattern shares a first component with the name")
	defer rep.Write()
	pats := vfSeqs([]string{"a", "b", "*", "**"}, 4)
	pats3 := vfSeqs([]string{"a", "b", "*", "**"}, 3)
	names := vfSeqs([]string{"a", "b"}, 4)
	check := func(set []string, name string) {
		rep.Eval(1)
		want := vfGlobAny(set, name)
		var got bool
		rep.InFlight(map[string]any{"patterns": set, "name": name})
		if p := verifkit.Catch(func() { got = parsePatterns(set).matchPattern(name) }); p != nil {
			rep.Violation("glob/panic/"+p.Site, "matchPattern panicked: "+p.Value, map[string]any{"patterns": set, "name": name, "stack": p.Stack})
			return
		}
		if want {
			rep.DistinctKey(set, "|", name)
			rep.Count("model_match", 1)
		} else {
			rep.Count("model_nomatch", 1)
		}
		if got != want {
			kind := "missed"
			if got {
				kind = "spurious"
			}
			// witness key: the shape of the first pattern that decides (wildcards kept, literals abstracted)
			rep.Violation("glob/"+kind+"/"+vfShape(set, name), fmt.Sprintf("patterns %q vs name %q: trie=%v glob=%v", set, name, got, want),
				map[string]any{"patterns": set, "name": name, "trie": got, "glob": want})
		}
	}
	for _, p := range pats {
		for _, n := range names {
			check([]string{p}, n)
		}
	}
	rep.Count("single_patterns", len(pats))
	// pairs
	pairPats := pats3
	for i, p := range pairPats {
		for j, q := range pairPats {
			if i == j {
				continue
			}
			for _, n := range names {
				check([]string{p, q}, n)
			}
		}
	}
	rep.Count("pair_pattern_sets", len(pairPats)*(len(pairPats)-1))
	rng := verifkit.Stream("c08glob")
	// sampled pairs/triples over the length-4 space
	nTrip := verifkit.Scale(20000, 2000000)
	for i := 0; i < nTrip; i++ {
		k := 2 + rng.Intn(2)
		set := make([]string, k)
		for j := range set {
			set[j] = verifkit.Pick(rng, pats)
		}
		check(set, verifkit.Pick(rng, names))
	}
	// random longer patterns and names, with empty components and a third literal
	alpha := []string{"a", "b", "c", "*", "**", "", "x y", "TLS:false"}
	nalpha := []string{"a", "b", "c", "", "x y", "TLS:false"}
	nLong := verifkit.Scale(30000, 1500000)
	for i := 0; i < nLong; i++ {
		k := 1 + rng.Intn(4)
		set := make([]string, k)
		for j := range set {
			l := 1 + rng.Intn(7)
			c := make([]string, l)
			for x := range c {
				c[x] = verifkit.Pick(rng, alpha)
			}
			set[j] = strings.Join(c, "/")
		}
		l := 1 + rng.Intn(7)
		c := make([]string, l)
		for x := range c {
			c[x] = verifkit.Pick(rng, nalpha)
		}
		name := strings.Join(c, "/")
		if rng.Chance(1, 3) {
			// derive a name from a pattern so that matches are frequent
			comps := strings.Split(set[0], "/")
			var nc []string
			for _, pc := range comps {
				switch pc {
				case "*":
					nc = append(nc, verifkit.Pick(rng, nalpha))
				case "**":
					for z := rng.Intn(3); z > 0; z-- {
						nc = append(nc, verifkit.Pick(rng, nalpha))
					}
				default:
					nc = append(nc, pc)
				}
			}
			if len(nc) > 0 {
				name = strings.Join(nc, "/")
			}
		}
		check(set, name)
	}
	rep.Sample(map[string]any{"patterns": []string{"a/**/b", "*/a"}, "name": "a/b", "glob": vfGlobAny([]string{"a/**/b", "*/a"}, "a/b")})
	rep.Exhaustive = false // the bounded slices are complete, the random part is not
	rep.Note("bounded-exhaustive slices complete: %d single patterns x %d names; %d ordered pattern pairs x %d names", len(pats), len(names), len(pairPats)*(len(pairPats)-1), len(names))
}

func vfShape(set []string, name string) string {
	// abstract literals so that one defect class maps to few keys
	var shapes []string
	for _, p := range set {
		if vfGlob(p, name) || true {
			c := strings.Split(p, "/")
			for i := range c {
				if c[i] != "*" && c[i] != "**" {
					c[i] = "L"
				}
			}
			shapes = append(shapes, strings.Join(c, "/"))
		}
	}
	sort.Strings(shapes)
	s := strings.Join(shapes, ",")
	// collapse runs of literals
	for strings.Contains(s, "L/L") {
		s = strings.ReplaceAll(s, "L/L", "L")
	}
	if strings.Contains(s, "**/**") || strings.HasSuffix(s, "**") {
		// classes of the trailing/adjacent double-wildcard family
		if strings.Contains(s, "**/**") {
			return "adjacent-doublestar"
		}
	}
	if len(s) > 40 {
		s = s[:40]
	}
	return s
}

// TestVerifC08Filter: accept == (no run patterns or run-match) and not
// skip-match; marking == match; unmatched patterns are reported.
func TestVerifC08Filter(t *testing.T) {
	rep := verifkit.Begin("C08", "filter", "random run/skip/known pattern sets (0-3 patterns each, derived from a random name universe with * and ** substitutions or unrelated) x universes of 1-12 names; distinct = (sets, universe)")
	defer rep.Write()
	rng := verifkit.Stream("c08filter")
	lit := []string{"S", "T", "HTTPVersion:1", "HTTPVersion:2", "TLS:false", "x", "y"}
	n := verifkit.Scale(20000, 1500000)
	for i := 0; i < n; i++ {
		// universe
		un := 1 + rng.Intn(12)
		seen := map[string]bool{}
		var names []string
		for len(names) < un {
			l := 1 + rng.Intn(5)
			c := make([]string, l)
			for x := range c {
				c[x] = verifkit.Pick(rng, lit)
			}
			nm := strings.Join(c, "/")
			if !seen[nm] {
				seen[nm] = true
				names = append(names, nm)
			}
		}
		mk := func() []string {
			k := rng.Intn(4)
			var out []string
			for j := 0; j < k; j++ {
				if rng.Chance(1, 5) {
					out = append(out, "nomatch/"+verifkit.Pick(rng, lit))
					continue
				}
				if j > 0 && rng.Chance(1, 4) {
					// a pattern nested below (or above) another one of the same set
					base := verifkit.Pick(rng, out)
					if rng.Bool() {
						out = append(out, base+"/"+verifkit.Pick(rng, []string{"typo", "*", "**", "x", "typo/z"}))
					} else {
						out = append(out, verifkit.Pick(rng, []string{"typo", "*", "**", "S"})+"/"+base)
					}
					continue
				}
				c := strings.Split(verifkit.Pick(rng, names), "/")
				// substitute wildcards
				var pc []string
				for x := 0; x < len(c); x++ {
					switch rng.Intn(6) {
					case 0:
						pc = append(pc, "*")
					case 1:
						pc = append(pc, "**")
						x += rng.Intn(3)
					case 2:
						pc = append(pc, "**", c[x])
					default:
						pc = append(pc, c[x])
					}
				}
				out = append(out, strings.Join(pc, "/"))
			}
			return out
		}
		run, skip, kf := mk(), mk(), mk()
		rep.Eval(1)
		rep.DistinctKey(run, skip, kf, names)
		w := map[string]any{"run": run, "skip": skip, "known": kf, "names": names}
		rep.InFlight(w)
		p := verifkit.Catch(func() {
			f := newFilter(parsePatterns(run), parsePatterns(skip))
			tcs := vfTestCases(names)
			var wantAcc []string
			for _, nm := range names {
				want := (len(run) == 0 || vfGlobAny(run, nm)) && !vfGlobAny(skip, nm)
				if want {
					wantAcc = append(wantAcc, nm)
				}
				got := f.accept(&conformancev1.TestCase{Request: &conformancev1.ClientCompatRequest{TestName: nm}})
				rep.Count("accept_checked", 1)
				if got != want {
					rep.Violation("filter/accept", fmt.Sprintf("accept(%q)=%v, want %v with run=%q skip=%q", nm, got, want, run, skip), w)
				}
			}
			var gotAcc []string
			for _, tc := range f.apply(tcs) {
				gotAcc = append(gotAcc, tc.Request.TestName)
			}
			if strings.Join(gotAcc, "\n") != strings.Join(wantAcc, "\n") {
				rep.Violation("filter/apply", fmt.Sprintf("apply gave %q want %q", gotAcc, wantAcc), w)
			}
			// known-failing / flaky marking: results.go consults the trie by matchPattern
			if len(kf) > 0 {
				trie := parsePatterns(kf)
				res := newResults(len(names), trie, nil, nil)
				for _, nm := range names {
					want := vfGlobAny(kf, nm)
					got := res.knownFailing.matchPattern(nm)
					rep.Count("marking_checked", 1)
					if got != want {
						rep.Violation("filter/marking", fmt.Sprintf("known-failing marking of %q = %v want %v (patterns %q)", nm, got, want, kf), w)
					}
				}
				// unmatched reporting on a fresh trie
				trie2 := parsePatterns(kf)
				cnt, err := tryMatchPatterns("known failing", trie2, tcs)
				wantCnt := 0
				for _, nm := range names {
					if vfGlobAny(kf, nm) {
						wantCnt++
					}
				}
				if cnt != wantCnt {
					rep.Violation("filter/matchcount", fmt.Sprintf("tryMatchPatterns counted %d, model %d", cnt, wantCnt), w)
				}
				errText := ""
				if err != nil {
					errText = err.Error()
				}
				lines := map[string]bool{}
				for _, l := range strings.Split(errText, "\n") {
					lines[l] = true
				}
				uniq := map[string]bool{}
				for _, pt := range kf {
					if uniq[pt] {
						continue
					}
					uniq[pt] = true
					matchesSome := false
					for _, nm := range names {
						if vfGlob(pt, nm) {
							matchesSome = true
							break
						}
					}
					if !matchesSome {
						rep.Count("pattern_matching_nothing", 1)
						if !lines[pt] {
							rep.Violation("filter/unmatched-not-reported", fmt.Sprintf("pattern %q matches no name but is not reported (err=%q)", pt, errText), w)
						}
					} else if lines[pt] {
						rep.Count("shadowed_reported", 1) // allowed: one-directional statement
					}
				}
			}
		})
		if p != nil {
			rep.Violation("filter/panic/"+p.Site, p.Value, map[string]any{"input": w, "stack": p.Stack})
		}
	}
	rep.Sample(map[string]any{"run": []string{"S/**"}, "skip": []string{"**/x"}, "name": "S/T/x", "accept": false})
	rep.RequireMin("pattern_matching_nothing", 10)
}

// TestVerifC08Ambiguity: a name matched by both the known-failing and the
// known-flaky list is rejected by run(); disjoint lists are not.
func TestVerifC08Ambiguity(t *testing.T) {
	rep := verifkit.Begin("C08", "ambiguity", "random known-failing x known-flaky pattern pairs over the permutation names of a 3-test suite x 3 config cases (incl. the gRPC-peer marked names), through run() with an unstartable server command; distinct = pattern pair")
	defer rep.Write()
	suite := &conformancev1.TestSuite{Name: "S", TestCases: []*conformancev1.TestCase{
		{Request: &conformancev1.ClientCompatRequest{TestName: "u/one", StreamType: conformancev1.StreamType_STREAM_TYPE_UNARY}},
		{Request: &conformancev1.ClientCompatRequest{TestName: "u/two", StreamType: conformancev1.StreamType_STREAM_TYPE_UNARY}},
		{Request: &conformancev1.ClientCompatRequest{TestName: "three", StreamType: conformancev1.StreamType_STREAM_TYPE_UNARY}},
	}}
	cases := []configCase{
		{Version: 1, Protocol: 1, Codec: 1, Compression: 1, StreamType: 1},
		{Version: 1, Protocol: 3, Codec: 1, Compression: 1, StreamType: 1},
		// a gRPC case: its permutations also exist in a "(grpc client impl)"-marked form
		{Version: 2, Protocol: 2, Codec: 1, Compression: 1, StreamType: 1},
	}
	lib, err := newTestCaseLibrary(map[string]*conformancev1.TestSuite{"s.yaml": suite}, cases, conformancev1.TestSuite_TEST_MODE_SERVER)
	if err != nil {
		t.Fatal(err)
	}
	var names []string
	for _, tc := range lib.allPermutations(true, false) {
		names = append(names, tc.Request.TestName)
	}
	sort.Strings(names)
	rep.Note("universe: %q", names)
	rng := verifkit.Stream("c08amb")
	mk := func() []string {
		k := 1 + rng.Intn(2)
		var out []string
		for j := 0; j < k; j++ {
			c := strings.Split(verifkit.Pick(rng, names), "/")
			var pc []string
			for x := 0; x < len(c); x++ {
				switch rng.Intn(5) {
				case 0:
					pc = append(pc, "*")
				case 1:
					pc = append(pc, "**")
					x += rng.Intn(3)
				default:
					pc = append(pc, c[x])
				}
			}
			out = append(out, strings.Join(pc, "/"))
		}
		return out
	}
	n := verifkit.Scale(300, 15000)
	for i := 0; i < n; i++ {
		kf, kl := mk(), mk()
		// both lists must be free of unmatched patterns or the earlier check fires first
		ok := true
		for _, set := range [][]string{kf, kl} {
			for _, p := range set {
				if !vfGlobAny([]string{p}, names[0]) {
					m := false
					for _, nm := range names {
						m = m || vfGlob(p, nm)
					}
					ok = ok && m
				}
			}
		}
		if !ok {
			continue
		}
		var both []string
		for _, nm := range names {
			if vfGlobAny(kf, nm) && vfGlobAny(kl, nm) {
				both = append(both, nm)
			}
		}
		rep.Eval(1)
		rep.DistinctKey(kf, kl)
		w := map[string]any{"known_failing": kf, "known_flaky": kl, "names": names, "matched_by_both": both}
		rep.InFlight(w)
		var runErr error
		p := verifkit.Catch(func() {
			flags := &Flags{ServerCommand: []string{"/nonexistent/verif-no-such-server"}, MaxServers: 2, Parallelism: 2}
			// a --run / --skip selection does not change which names are ambiguous
			var runPats, skipPats *testTrie
			switch i % 4 {
			case 1:
				runPats = parsePatterns([]string{names[(i/4)%len(names)]})
			case 2:
				skipPats = parsePatterns([]string{names[(i/4)%len(names)]})
			case 3:
				runPats, skipPats = parsePatterns([]string{"S/**"}), parsePatterns([]string{names[(i/4)%len(names)], names[(i/4+1)%len(names)]})
			}
			_, runErr = run(cases, parsePatterns(kf), parsePatterns(kl), runPats, skipPats,
				map[string]*conformancev1.TestSuite{"s.yaml": suite}, internal.NewPrinter(discard{}), internal.NewPrinter(discard{}), flags)
		})
		if p != nil {
			rep.Violation("ambiguity/panic/"+p.Site, p.Value, map[string]any{"input": w, "stack": p.Stack})
			continue
		}
		isAmb := runErr != nil && strings.Contains(runErr.Error(), "ambiguous")
		unm := runErr != nil && strings.Contains(runErr.Error(), "unmatched")
		if unm {
			rep.Count("shadowed_unmatched_error", 1) // trie shadowing between patterns of one list; not decided here
			continue
		}
		onlyMarked := len(both) > 0
		for _, nm := range both {
			onlyMarked = onlyMarked && strings.Contains(nm, "(grpc ")
		}
		if onlyMarked {
			rep.Count("ambiguous_only_on_grpc_marked_names", 1)
		}
		if len(both) > 0 {
			rep.Count("ambiguous_sets", 1)
			if !isAmb {
				rep.Violation("ambiguity/not-rejected", fmt.Sprintf("names %q are matched by both lists but run() did not reject (err=%v)", both, runErr), w)
			} else {
				for _, nm := range both {
					if !strings.Contains(runErr.Error(), nm) {
						rep.Violation("ambiguity/name-missing", fmt.Sprintf("conflict %q not named in the error", nm), w)
					}
				}
			}
		} else {
			rep.Count("disjoint_sets", 1)
			if isAmb {
				rep.Violation("ambiguity/spurious", fmt.Sprintf("disjoint lists rejected as ambiguous: %v", runErr), w)
			}
		}
	}
	rep.Sample(map[string]any{"known_failing": []string{"S/**"}, "known_flaky": []string{"**/three"}, "expect": "rejected as ambiguous"})
	rep.RequireMin("ambiguous_sets", 10)
	rep.RequireMin("ambiguous_only_on_grpc_marked_names", 3)
	rep.RequireMin("disjoint_sets", 10)
}

// TestVerifC08UnmatchedLists: run() refuses to start when any of its four pattern lists (--run, --skip,
// known failing, known flaky) holds a pattern that matches no permutation - whichever other lists are
// given along with it - and names that pattern.
func TestVerifC08UnmatchedLists(t *testing.T) {
	rep := verifkit.Begin("C08", "unmatched-lists", "run() with an unstartable server command over a 3-test suite x 3 config cases; each of the four lists is absent / holds matching patterns / holds one pattern that matches nothing (every combination, 81); oracle: an error naming the unmatched pattern iff some list holds one; distinct = combination")
	defer rep.Write()
	suite := &conformancev1.TestSuite{Name: "S", TestCases: []*conformancev1.TestCase{
		{Request: &conformancev1.ClientCompatRequest{TestName: "u/one", StreamType: conformancev1.StreamType_STREAM_TYPE_UNARY}},
		{Request: &conformancev1.ClientCompatRequest{TestName: "u/two", StreamType: conformancev1.StreamType_STREAM_TYPE_UNARY}},
		{Request: &conformancev1.ClientCompatRequest{TestName: "three", StreamType: conformancev1.StreamType_STREAM_TYPE_UNARY}},
	}}
	cases := []configCase{
		{Version: 1, Protocol: 1, Codec: 1, Compression: 1, StreamType: 1},
		{Version: 1, Protocol: 3, Codec: 1, Compression: 1, StreamType: 1},
		{Version: 2, Protocol: 2, Codec: 1, Compression: 1, StreamType: 1},
	}
	// disjoint matching patterns per list so that no other refusal (ambiguity) interferes
	matching := [4][]string{{"S/**"}, {"**/three"}, {"**/u/one"}, {"**/u/two"}}
	bogus := [4]string{"S/**/no-such-run", "Nope/**", "S/*/never-failing", "**/never-flaky/x"}
	what := [4]string{"--run", "--skip", "known failing", "known flaky"}
	for combo := 0; combo < 81; combo++ {
		var lists [4][]string
		var wantUnmatched []string
		desc := map[string]any{}
		c := combo
		for li := 0; li < 4; li++ {
			switch c % 3 {
			case 1:
				lists[li] = matching[li]
			case 2:
				lists[li] = append(append([]string{}, matching[li]...), bogus[li])
				wantUnmatched = append(wantUnmatched, bogus[li])
			}
			desc[what[li]] = lists[li]
			c /= 3
		}
		rep.Eval(1)
		rep.DistinctKey(combo)
		trie := func(ps []string, nilWhenEmpty bool) *testTrie {
			if len(ps) == 0 && nilWhenEmpty {
				return nil
			}
			if t := parsePatterns(ps); t != nil {
				return t
			}
			return &testTrie{}
		}
		var runErr error
		p := verifkit.Catch(func() {
			flags := &Flags{ServerCommand: []string{"/nonexistent/verif-no-such-server"}, MaxServers: 2, Parallelism: 2}
			_, runErr = run(cases, trie(lists[2], false), trie(lists[3], false), trie(lists[0], true), trie(lists[1], true),
				map[string]*conformancev1.TestSuite{"s.yaml": suite}, internal.NewPrinter(discard{}), internal.NewPrinter(discard{}), flags)
		})
		if p != nil {
			rep.Violation("unmatched/panic/"+p.Site, p.Value, map[string]any{"input": desc, "stack": p.Stack})
			continue
		}
		isUnm := runErr != nil && strings.Contains(runErr.Error(), "unmatched")
		if len(wantUnmatched) == 0 {
			rep.Count("all_patterns_match", 1)
			if isUnm {
				rep.Violation("unmatched/spurious", fmt.Sprintf("every pattern matches some permutation, yet: %v", runErr), desc)
			}
			continue
		}
		rep.Count("some_pattern_unmatched", 1)
		if !isUnm {
			rep.Violation("unmatched/not-reported", fmt.Sprintf("patterns %q match no permutation but run() did not refuse them (err=%v)", wantUnmatched, runErr), desc)
			continue
		}
		named := false
		for _, u := range wantUnmatched {
			named = named || strings.Contains(runErr.Error(), u)
		}
		if !named {
			rep.Violation("unmatched/not-named", fmt.Sprintf("the refusal names none of the unmatched patterns %q: %v", wantUnmatched, runErr), desc)
		}
	}
	rep.Exhaustive = true
	rep.Sample(map[string]any{"--run": []string{"S/**", "S/**/no-such-run"}, "--skip": []string{"**/three"}, "expect": "refused: run patterns: unmatched ... S/**/no-such-run"})
	rep.RequireMin("some_pattern_unmatched", 60)
	rep.RequireMin("all_patterns_match", 10)
}

type discard struct{}

func (discard) Write(p []byte) (int, error) { return len(p), nil }
