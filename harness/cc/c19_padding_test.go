//go:build verif

package connectconformance

import (
	"bytes"
	"encoding/json"
	"fmt"
	"testing"

	conformancev1 "connectrpc.com/conformance/internal/gen/proto/go/connectrpc/conformance/v1"
	"connectrpc.com/conformance/internal/verifkit"
	"google.golang.org/protobuf/encoding/protojson"
	"google.golang.org/protobuf/proto"
	"google.golang.org/protobuf/reflect/protoreflect"
	"google.golang.org/protobuf/types/known/anypb"
)

func vfReqOfType(kind int, data []byte, extra int, r *verifkit.Rand) proto.Message {
	hdrs := func() []*conformancev1.Header {
		var hs []*conformancev1.Header
		for i := 0; i < extra; i++ {
			hs = append(hs, &conformancev1.Header{Name: fmt.Sprintf("x-h%d", i), Value: []string{string(bytes.Repeat([]byte("v"), 1+r.Intn(40)))}})
		}
		return hs
	}
	switch kind {
	case 0:
		m := &conformancev1.UnaryRequest{RequestData: data}
		if extra > 0 {
			m.ResponseDefinition = &conformancev1.UnaryResponseDefinition{ResponseHeaders: hdrs(), Response: &conformancev1.UnaryResponseDefinition_ResponseData{ResponseData: r.Bytes(extra * 7)}}
		}
		return m
	case 1:
		m := &conformancev1.IdempotentUnaryRequest{RequestData: data}
		if extra > 0 {
			m.ResponseDefinition = &conformancev1.UnaryResponseDefinition{ResponseTrailers: hdrs()}
		}
		return m
	case 2:
		m := &conformancev1.ClientStreamRequest{RequestData: data}
		if extra > 0 {
			m.ResponseDefinition = &conformancev1.UnaryResponseDefinition{ResponseHeaders: hdrs()}
		}
		return m
	case 3:
		m := &conformancev1.ServerStreamRequest{RequestData: data}
		if extra > 0 {
			m.ResponseDefinition = &conformancev1.StreamResponseDefinition{ResponseData: [][]byte{r.Bytes(extra), {}}, ResponseDelayMs: 3}
		}
		return m
	default:
		m := &conformancev1.BidiStreamRequest{RequestData: data, FullDuplex: extra%2 == 1}
		if extra > 0 {
			m.ResponseDefinition = &conformancev1.StreamResponseDefinition{ResponseHeaders: hdrs()}
		}
		return m
	}
}

func vfClearRequestData(m proto.Message) proto.Message {
	c := proto.Clone(m)
	rm := c.ProtoReflect()
	if fd := rm.Descriptor().Fields().ByName("request_data"); fd != nil {
		rm.Clear(fd)
	}
	return c
}

func vfGetRequestData(m proto.Message) []byte {
	rm := m.ProtoReflect()
	if fd := rm.Descriptor().Fields().ByName("request_data"); fd != nil {
		return rm.Get(fd).Bytes()
	}
	return nil
}

var _ = protoreflect.ValueOfBytes

// TestVerifC19Padding: expandRequestData pads to exactly limit+delta or
// rejects; nothing but request_data changes; never panics.
func TestVerifC19Padding(t *testing.T) {
	rep := verifkit.Begin("C19", "padding", "all five request message types x other-field contents (none, small, large) x existing request_data of length 0,1,127,128,16383,16384 x offsets: every value in a window around 0, around each total at which the request_data length varint grows (128, 16384, 2^21), around total 0, beyond the int32/limit edges; 1-3 messages per case with absent / present directives; oracle: error, or proto.Size == 204800+delta and equality outside request_data; distinct = (type, contents, offset)")
	defer rep.Write()
	rng := verifkit.Stream("c19pad")
	limit := int64(serverReceiveLimit)
	check := func(kind, extra int, existing int, delta int64) {
		rep.Eval(1)
		rep.DistinctKey(kind, extra, existing, delta)
		orig := vfReqOfType(kind, bytes.Repeat([]byte{0xab}, existing), extra, rng)
		a, _ := anypb.New(orig)
		other, _ := anypb.New(vfReqOfType(kind, []byte("untouched"), 1, rng))
		tc := &conformancev1.TestCase{Request: &conformancev1.ClientCompatRequest{TestName: "pad", RequestMessages: []*anypb.Any{a, other}},
			ExpandRequests: []*conformancev1.TestCase_ExpandedSize{{SizeRelativeToLimit: proto.Int32(int32(delta))}, {}}}
		otherBefore := proto.Clone(other)
		w := map[string]any{"message_type": string(orig.ProtoReflect().Descriptor().FullName()), "other_fields": extra, "existing_request_data_len": existing, "size_relative_to_limit": delta, "size_before": proto.Size(orig)}
		rep.InFlight(w)
		var err error
		if p := verifkit.Catch(func() { err = expandRequestData(tc) }); p != nil {
			cls := "negative-offset"
			if delta >= 0 {
				cls = "non-negative-offset"
			}
			rep.Violation("padding/panic/"+cls+"/"+p.Site, fmt.Sprintf("expandRequestData panicked (%s) for offset %d on a %d-byte %s", p.Value, delta, proto.Size(orig), w["message_type"]), w)
			return
		}
		if err != nil {
			rep.Count("rejected", 1)
			// a rejection must not be possible for sizes that are plainly reachable: far from varint
			// boundaries and at least the size of the other fields
			base := int64(proto.Size(vfClearRequestData(orig)))
			target := limit + delta
			payload := target - base
			reachable := payload >= 3 && target <= 1<<31
			for _, b := range []int64{128, 16384, 2097152, 268435456} {
				if payload >= b-2 && payload <= b+6 {
					reachable = false // tag+length growth makes some totals unreachable here
				}
			}
			if reachable && payload > 10 {
				rep.Violation("padding/reachable-size-rejected", fmt.Sprintf("offset %d (total %d, other fields %d bytes) is reachable but was rejected: %v", delta, target, base, err), w)
			}
			return
		}
		rep.Count("expanded", 1)
		got, uerr := tc.Request.RequestMessages[0].UnmarshalNew()
		if uerr != nil {
			rep.Violation("padding/result-unparseable", uerr.Error(), w)
			return
		}
		if sz := int64(proto.Size(got)); sz != limit+delta {
			rep.Violation("padding/wrong-size", fmt.Sprintf("expanded message has %d bytes, requested %d (limit %d %+d)", sz, limit+delta, limit, delta), w)
		}
		if int64(len(tc.Request.RequestMessages[0].Value)) != int64(proto.Size(got)) {
			rep.Violation("padding/any-not-updated", "the Any's value does not match the expanded message", w)
		}
		if !proto.Equal(vfClearRequestData(got), vfClearRequestData(orig)) {
			rep.Violation("padding/other-field-changed", "a field other than request_data differs after expansion", w)
		}
		// (request_data is the padding field: its own content may change in any way)
		if !proto.Equal(tc.Request.RequestMessages[1], otherBefore) {
			rep.Violation("padding/undirected-message-changed", "a message without a size directive was modified", w)
		}
	}
	existingLens := []int{0, 1, 127, 128, 16383, 16384}
	for kind := 0; kind < 5; kind++ {
		for _, extra := range []int{0, 2, 40} {
			for ei, existing := range existingLens {
				base := int64(proto.Size(vfClearRequestData(vfReqOfType(kind, nil, extra, verifkit.NewRand(1)))))
				var offs []int64
				win := int64(verifkit.Scale(12, 300))
				for d := -win; d <= win; d++ {
					offs = append(offs, d)
				}
				// totals at which the length prefix of request_data grows
				for _, b := range []int64{128, 16384, 2097152} {
					center := base + b + 2 - limit
					for d := int64(-8); d <= 8; d++ {
						offs = append(offs, center+d)
					}
				}
				for d := int64(-6); d <= 40; d++ {
					offs = append(offs, -limit+d) // total around zero / smaller than the other fields
				}
				offs = append(offs, -limit-1, -limit-1000, -1<<31, 1<<31-1)
				if ei > 1 && !verifkit.Thorough() {
					offs = offs[:len(offs)/3] // quick: fewer offsets for the long-existing-data variants
				}
				for _, d := range offs {
					if d > 3000000 && !(kind == 0 && extra == 0) {
						continue // 2 GB padding only once
					}
					if d > 1<<30 {
						continue // legitimately tries to build a 2 GB message; out of the resource guard
					}
					check(kind, extra, existing, d)
				}
			}
		}
	}
	// directive list longer than the message list must be rejected
	a, _ := anypb.New(&conformancev1.UnaryRequest{})
	tc := &conformancev1.TestCase{Request: &conformancev1.ClientCompatRequest{RequestMessages: []*anypb.Any{a}}, ExpandRequests: []*conformancev1.TestCase_ExpandedSize{{SizeRelativeToLimit: proto.Int32(0)}, {SizeRelativeToLimit: proto.Int32(0)}}}
	rep.Eval(1)
	if p := verifkit.Catch(func() {
		if err := expandRequestData(tc); err == nil {
			rep.Violation("padding/too-many-directives-accepted", "two directives for one message accepted", nil)
		}
	}); p != nil {
		rep.Violation("padding/panic/too-many-directives/"+p.Site, p.Value, nil)
	}
	// a message type without request_data must be rejected, not crash
	b, _ := anypb.New(&conformancev1.Header{Name: "x"})
	tc = &conformancev1.TestCase{Request: &conformancev1.ClientCompatRequest{RequestMessages: []*anypb.Any{b}}, ExpandRequests: []*conformancev1.TestCase_ExpandedSize{{SizeRelativeToLimit: proto.Int32(0)}}}
	rep.Eval(1)
	if p := verifkit.Catch(func() {
		if err := expandRequestData(tc); err == nil {
			rep.Violation("padding/no-padding-field-accepted", "message without request_data accepted", nil)
		}
	}); p != nil {
		rep.Violation("padding/panic/no-padding-field/"+p.Site, p.Value, nil)
	}
	rep.Sample(map[string]any{"message_type": "UnaryRequest", "existing_request_data_len": 128, "size_relative_to_limit": -188414, "expect": "proto.Size == 16386 or an error"})
	rep.RequireMin("expanded", 500)
	rep.RequireMin("rejected", 50)
}

// TestVerifC19LoaderPadding: the expansion directive as the suite loader
// applies it (parseTestSuites), for suites of every kind.
func TestVerifC19LoaderPadding(t *testing.T) {
	rep := verifkit.Begin("C19", "loader-padding", "suite files (YAML) with expandRequests directives through parseTestSuites: suites with and without reliesOnMessageReceiveLimit, every mode, 1-3 test cases of all five stream types, 1-3 request messages with present/absent directives at offsets {-1000,-1,0,1,5,1000}; oracle: every loaded request message with a directive has proto.Size == 204800+offset (or the loader rejects the file), messages without a directive are unchanged; distinct = (suite flags, stream type, offsets)")
	defer rep.Write()
	rng := verifkit.Stream("c19loader")
	n := verifkit.Scale(150, 3000)
	for it := 0; it < n; it++ {
		relies := rng.Bool()
		mode := rng.Intn(3)
		suite := map[string]any{"name": fmt.Sprintf("Sizes %d", it), "relevantCodecs": []string{"CODEC_PROTO"}}
		if relies {
			suite["reliesOnMessageReceiveLimit"] = true
		}
		if mode > 0 {
			suite["mode"] = []string{"", "TEST_MODE_CLIENT", "TEST_MODE_SERVER"}[mode]
		}
		type want struct {
			name    string
			offsets []*int
			before  []int
			others  []string // the message without request_data, as JSON (Any form)
		}
		var wants []want
		var tcs []any
		for k := 1 + rng.Intn(3); k > 0; k-- {
			st := 1 + rng.Intn(5)
			stName := []string{"", "STREAM_TYPE_UNARY", "STREAM_TYPE_CLIENT_STREAM", "STREAM_TYPE_SERVER_STREAM", "STREAM_TYPE_HALF_DUPLEX_BIDI_STREAM", "STREAM_TYPE_FULL_DUPLEX_BIDI_STREAM"}[st]
			typ := []string{"", "UnaryRequest", "ClientStreamRequest", "ServerStreamRequest", "BidiStreamRequest", "BidiStreamRequest"}[st]
			nmsg := 1
			if st == 2 || st >= 4 {
				nmsg = 1 + rng.Intn(3)
			}
			wn := want{name: fmt.Sprintf("case-%d-%d", it, k)}
			var msgs, dirs []any
			for m := 0; m < nmsg; m++ {
				data := rng.Bytes(rng.Intn(20))
				msg := map[string]any{"@type": "type.googleapis.com/connectrpc.conformance.v1." + typ, "requestData": data}
				// other fields differ from message to message: nothing but the padding field may change
				if m == 0 && rng.Bool() {
					if st == 1 || st == 2 {
						msg["responseDefinition"] = map[string]any{"responseData": "AAEC", "responseHeaders": []any{map[string]any{"name": "x-first", "value": []string{"1"}}}}
					} else {
						msg["responseDefinition"] = map[string]any{"responseData": []string{"AAEC", "AwQ="}, "responseDelayMs": 7}
					}
				}
				if st >= 4 && m == 0 {
					msg["fullDuplex"] = st == 5
				}
				msgs = append(msgs, msg)
				orig := map[string]any{}
				for k2, v2 := range msg {
					if k2 != "requestData" {
						orig[k2] = v2
					}
				}
				oj, _ := json.Marshal(orig)
				wn.others = append(wn.others, string(oj))
				wn.before = append(wn.before, len(data))
				if rng.Chance(2, 3) {
					off := verifkit.Pick(rng, []int{-1000, -1, 0, 1, 5, 1000})
					wn.offsets = append(wn.offsets, &off)
					dirs = append(dirs, map[string]any{"sizeRelativeToLimit": off})
				} else {
					wn.offsets = append(wn.offsets, nil)
					dirs = append(dirs, map[string]any{})
				}
			}
			tcs = append(tcs, map[string]any{"request": map[string]any{"testName": wn.name, "streamType": stName, "requestMessages": msgs}, "expandRequests": dirs})
			wants = append(wants, wn)
		}
		suite["testCases"] = tcs
		js, _ := json.Marshal(suite)
		rep.Eval(1)
		rep.DistinctKey(relies, mode, string(js))
		w := map[string]any{"suite_file": verifkit.Trunc(string(js), 1500)}
		var parsed map[string]*conformancev1.TestSuite
		var err error
		if p := verifkit.Catch(func() { parsed, err = parseTestSuites(map[string][]byte{"sizes.yaml": js}) }); p != nil {
			rep.Violation("padding/loader/panic/"+p.Site, p.Value, w)
			continue
		}
		if err != nil {
			rep.Count("loader_rejected", 1)
			rep.Violation("padding/loader/rejected", "a suite with ordinary expansion directives was rejected: "+err.Error(), w)
			continue
		}
		for _, s := range parsed {
			for _, tc := range s.TestCases {
				for _, wn := range wants {
					if wn.name != tc.Request.TestName {
						continue
					}
					for i, a := range tc.Request.RequestMessages {
						m, uerr := a.UnmarshalNew()
						if uerr != nil {
							rep.Violation("padding/loader/undecodable", uerr.Error(), w)
							continue
						}
						// everything but request_data is as written in the suite
						want, _ := anypb.New(m.ProtoReflect().New().Interface())
						if uerr := protojson.Unmarshal([]byte(wn.others[i]), want); uerr == nil {
							wm, _ := want.UnmarshalNew()
							got := proto.Clone(m)
							got.ProtoReflect().Clear(got.ProtoReflect().Descriptor().Fields().ByName("request_data"))
							if !proto.Equal(wm, got) {
								rep.Violation("padding/loader/other-fields-changed", fmt.Sprintf("%s message #%d: fields other than request_data differ from the suite file after expansion: %v vs %v", wn.name, i+1, verifkit.Trunc(fmt.Sprint(got), 200), verifkit.Trunc(fmt.Sprint(wm), 200)), w)
							} else {
								rep.Count("loader_other_fields_intact", 1)
							}
						}
						size := proto.Size(m)
						if wn.offsets[i] == nil {
							rd := m.ProtoReflect().Get(m.ProtoReflect().Descriptor().Fields().ByName("request_data")).Bytes()
							if len(rd) != wn.before[i] {
								rep.Violation("padding/loader/undirected-message-changed", fmt.Sprintf("%s message #%d has no directive but its request_data went from %d to %d bytes", wn.name, i+1, wn.before[i], len(rd)), w)
							}
							continue
						}
						target := int(serverReceiveLimit) + *wn.offsets[i]
						rep.Count("loader_directives_checked", 1)
						if size != target {
							flag := "without"
							if relies {
								flag = "with"
							}
							rep.Violation("padding/loader/not-expanded/suite-"+flag+"-receive-limit-flag", fmt.Sprintf("%s message #%d: directive %+d gives %d bytes, loaded message has %d (suite %s reliesOnMessageReceiveLimit)", wn.name, i+1, *wn.offsets[i], target, size, flag), w)
						}
					}
				}
			}
		}
	}
	rep.Sample(map[string]any{"suite": "reliesOnMessageReceiveLimit unset, client stream, directives [+1, none]", "expect": "message 1 is 204801 bytes, message 2 untouched"})
	rep.RequireMin("loader_directives_checked", 100)
}
