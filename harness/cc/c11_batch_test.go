//go:build verif

package connectconformance

import (
	"bytes"
	"context"
	"encoding/binary"
	"errors"
	"fmt"
	"io"
	"sort"
	"strings"
	"sync"
	"sync/atomic"
	"testing"
	"time"

	"connectrpc.com/conformance/internal"
	conformancev1 "connectrpc.com/conformance/internal/gen/proto/go/connectrpc/conformance/v1"
	"connectrpc.com/conformance/internal/verifkit"
	"google.golang.org/protobuf/proto"
)

// ---- scripted server process ----

type vfSrvPlan struct {
	StartErr         bool
	StdinFailAt      int // <0 never: byte offset at which stdin.Write fails
	StdinCloseErr    bool
	Stdout           []byte // what the server writes to stdout (possibly cut / garbage / oversize)
	StdoutStall      bool   // block after Stdout instead of EOF (real 10 s timeout)
	DieAfterSends    int    // <0 never: server exits when the client runner sees its k-th send call
	DieAfterResponse bool   // server exits right after its response was read, before any request is sent
	DieCleanly       bool   // the exit (DieAfterSends / DieAfterResponse) is a clean one: status 0, no error reported
	Stderr           string
	Desc             string
}

type vfSrvCtl struct {
	mu        sync.Mutex
	done      chan struct{}
	doneOnce  sync.Once
	aborts    int
	callbacks []func(error)
	started   bool
	clean     bool // an exit on its own reports no error (status 0)
	aborted   bool
	abortSeq  int64 // logical time of the first abort (0: never)
}

// vfSeq is a logical clock shared by the scripted server and client of a batch.
var vfSeq atomic.Int64

func (c *vfSrvCtl) die() {
	c.doneOnce.Do(func() {
		close(c.done)
		c.mu.Lock()
		cbs := append([]func(error){}, c.callbacks...)
		c.mu.Unlock()
		c.mu.Lock()
		var err error = errors.New("server exited")
		if c.clean && !c.aborted {
			err = nil
		}
		c.mu.Unlock()
		for _, cb := range cbs {
			cb(err)
		}
	})
}
func (c *vfSrvCtl) result() error {
	select {
	case <-c.done:
		return nil
	case <-time.After(30 * time.Second):
		return context.DeadlineExceeded
	}
}
func (c *vfSrvCtl) abort() {
	c.mu.Lock()
	c.aborts++
	c.aborted = true
	if c.abortSeq == 0 {
		c.abortSeq = vfSeq.Add(1)
	}
	c.mu.Unlock()
	c.die()
}
func (c *vfSrvCtl) whenDone(f func(error)) {
	c.mu.Lock()
	c.callbacks = append(c.callbacks, f)
	c.mu.Unlock()
	select {
	case <-c.done:
		c.mu.Lock()
		var err error = errors.New("server exited")
		if c.clean && !c.aborted {
			err = nil
		}
		c.mu.Unlock()
		f(err)
	default:
	}
}

type vfFailWriter struct {
	failAt   int
	closeErr bool
	n        int
	buf      bytes.Buffer
	closed   bool
	failed   bool
}

func (w *vfFailWriter) Write(p []byte) (int, error) {
	if w.failAt >= 0 && w.n+len(p) > w.failAt {
		k := w.failAt - w.n
		if k < 0 {
			k = 0
		}
		w.buf.Write(p[:k])
		w.n += k
		w.failed = true
		return k, io.ErrClosedPipe
	}
	w.buf.Write(p)
	w.n += len(p)
	return len(p), nil
}
func (w *vfFailWriter) Close() error {
	w.closed = true
	if w.closeErr {
		return errors.New("close failed")
	}
	return nil
}

type vfStallReader struct {
	r     io.Reader
	stall bool
	done  chan struct{}
	left  int
	onEnd func()
}

func (s *vfStallReader) Read(p []byte) (int, error) {
	n, err := s.r.Read(p)
	s.left -= n
	if s.left == 0 && n > 0 && s.onEnd != nil {
		s.onEnd() // the process exits as soon as its answer has been consumed
		s.onEnd = nil
	}
	if err == io.EOF && s.stall {
		if n > 0 {
			return n, nil
		}
		<-s.done
		return 0, io.EOF
	}
	return n, err
}

// ---- scripted client runner ----

type vfCaseScript struct {
	Kind     string // pass | mismatch | clienterror | noresult | neither
	Async    int    // microseconds of delay; 0 = callback inside sendRequest
	Feedback bool   // a pass / mismatch answer also carries a feedback remark (what a reference client adds about the wire)
}

type vfFakeClient struct {
	mu             sync.Mutex
	scripts        map[string]vfCaseScript
	sendErrAt      int // <0 never: the k-th sendRequest call returns an error
	calls          int
	srv            *vfSrvCtl
	dieAfter       int
	cbWG           sync.WaitGroup
	fired          map[string]int
	accepted       []string
	reqs           map[string]*conformancev1.ClientCompatRequest
	expected       map[string]*conformancev1.ClientResponseResult
	sentAfterDeath []string
	lastFireSeq    int64 // logical time at which the last answer was handed to the runner
}

func (f *vfFakeClient) sendRequest(req *conformancev1.ClientCompatRequest, whenDone func(string, *conformancev1.ClientCompatResponse, error)) error {
	f.mu.Lock()
	if f.srv != nil {
		select {
		case <-f.srv.done:
			f.sentAfterDeath = append(f.sentAfterDeath, req.TestName)
		default:
		}
	}
	k := f.calls
	f.calls++
	if f.dieAfter >= 0 && k == f.dieAfter && f.srv != nil {
		f.mu.Unlock()
		f.srv.die() // the server exits just as this request is about to be sent
		f.mu.Lock()
	}
	if f.sendErrAt >= 0 && k == f.sendErrAt {
		f.mu.Unlock()
		return errClosed
	}
	sc := f.scripts[req.TestName]
	f.accepted = append(f.accepted, req.TestName)
	f.reqs[req.TestName] = req
	f.mu.Unlock()
	name := req.TestName
	fire := func() {
		defer f.cbWG.Done()
		f.mu.Lock()
		f.fired[name]++
		f.lastFireSeq = vfSeq.Add(1)
		f.mu.Unlock()
		switch sc.Kind {
		case "pass":
			r := proto.Clone(f.expected[name]).(*conformancev1.ClientResponseResult)
			if sc.Feedback {
				r.Feedback = []string{"wire remark/" + name}
			}
			whenDone(name, &conformancev1.ClientCompatResponse{TestName: name, Result: &conformancev1.ClientCompatResponse_Response{Response: r}}, nil)
		case "mismatch":
			r := proto.Clone(f.expected[name]).(*conformancev1.ClientResponseResult)
			if sc.Feedback {
				r.Feedback = []string{"wire remark/" + name}
			}
			r.Payloads = append(r.Payloads, &conformancev1.ConformancePayload{Data: []byte("surplus")})
			whenDone(name, &conformancev1.ClientCompatResponse{TestName: name, Result: &conformancev1.ClientCompatResponse_Response{Response: r}}, nil)
		case "clienterror":
			whenDone(name, &conformancev1.ClientCompatResponse{TestName: name, Result: &conformancev1.ClientCompatResponse_Error{Error: &conformancev1.ClientErrorResult{Message: "client-error-token/" + name}}}, nil)
		case "neither":
			whenDone(name, &conformancev1.ClientCompatResponse{TestName: name}, nil)
		default: // noresult
			whenDone(name, nil, &failedToGetResultError{errNoOutcome})
		}
	}
	f.cbWG.Add(1)
	if sc.Async == 0 {
		fire()
	} else {
		go func() {
			time.Sleep(time.Duration(sc.Async) * time.Microsecond)
			fire()
		}()
	}
	return nil
}
func (f *vfFakeClient) closeSend()              {}
func (f *vfFakeClient) waitForResponses() error { return nil }
func (f *vfFakeClient) isRunning() bool         { return true }
func (f *vfFakeClient) stop()                   {}

type vfLinePrinter struct {
	mu    sync.Mutex
	lines []string
}

func (p *vfLinePrinter) Printf(msg string, args ...any) {
	p.mu.Lock()
	p.lines = append(p.lines, fmt.Sprintf(msg, args...))
	p.mu.Unlock()
}
func (p *vfLinePrinter) PrefixPrintf(prefix, msg string, args ...any) {
	p.mu.Lock()
	p.lines = append(p.lines, prefix+": "+fmt.Sprintf(msg, args...))
	p.mu.Unlock()
}

func vfServerResponseBytes(host string, port uint32, cert []byte) []byte {
	b, _ := proto.Marshal(&conformancev1.ServerCompatResponse{Host: host, Port: port, PemCert: cert})
	out := make([]byte, 4+len(b))
	binary.BigEndian.PutUint32(out, uint32(len(b)))
	copy(out[4:], b)
	return out
}

var vfBatchHangSeen atomic.Bool

type vfBatchScenario struct {
	N           int
	RefServer   bool
	RefClient   bool
	TLS         bool
	Srv         vfSrvPlan
	Scripts     []vfCaseScript
	SendErrAt   int
	ServerFault string
}

func vfRunBatch(rep *verifkit.Report, sc *vfBatchScenario, id string) {
	rep.Eval(1)
	names := make([]string, sc.N)
	var tcs []*conformancev1.TestCase
	fc := &vfFakeClient{scripts: map[string]vfCaseScript{}, sendErrAt: sc.SendErrAt, dieAfter: sc.Srv.DieAfterSends, fired: map[string]int{}, reqs: map[string]*conformancev1.ClientCompatRequest{}, expected: map[string]*conformancev1.ClientResponseResult{}}
	for i := range names {
		names[i] = fmt.Sprintf("Batch/%s/case %d", id, i)
		exp := &conformancev1.ClientResponseResult{Payloads: []*conformancev1.ConformancePayload{{Data: []byte("payload-" + names[i])}}}
		tcs = append(tcs, &conformancev1.TestCase{Request: &conformancev1.ClientCompatRequest{TestName: names[i], StreamType: conformancev1.StreamType_STREAM_TYPE_UNARY}, ExpectedResponse: exp})
		fc.scripts[names[i]] = sc.Scripts[i%len(sc.Scripts)]
		fc.expected[names[i]] = exp
	}
	ctl := &vfSrvCtl{done: make(chan struct{}), clean: sc.Srv.DieCleanly}
	fc.srv = ctl
	stdin := &vfFailWriter{failAt: sc.Srv.StdinFailAt, closeErr: sc.Srv.StdinCloseErr}
	starts := 0
	starter := func(ctx context.Context, pipeStderr bool) (*process, error) {
		starts++
		if sc.Srv.StartErr {
			return nil, errors.New("exec: no such file")
		}
		ctl.started = true
		return &process{processController: ctl, stdin: stdin,
			stdout: func() io.Reader {
				r := &vfStallReader{r: bytes.NewReader(sc.Srv.Stdout), stall: sc.Srv.StdoutStall, done: ctl.done, left: len(sc.Srv.Stdout)}
				if sc.Srv.DieAfterResponse {
					r.onEnd = ctl.die
				}
				return r
			}(),
			stderr: strings.NewReader(sc.Srv.Stderr)}, nil
	}
	results := newResults(sc.N, &testTrie{}, &testTrie{}, nil)
	logP, errP := &vfLinePrinter{}, &vfLinePrinter{}
	w := map[string]any{"scenario": id, "cases": sc.N, "reference_server": sc.RefServer, "tls": sc.TLS, "server_fault": sc.ServerFault + " " + sc.Srv.Desc, "send_error_at": sc.SendErrAt, "die_after_sends": sc.Srv.DieAfterSends, "exit_is_clean": sc.Srv.DieCleanly, "scripts": sc.Scripts}
	rep.InFlight(w)
	done := make(chan *verifkit.Panic, 1)
	go func() {
		done <- verifkit.Catch(func() {
			var creds, ccreds *conformancev1.TLSCreds
			if sc.TLS {
				creds = &conformancev1.TLSCreds{Cert: []byte("CERT"), Key: []byte("KEY")}
			}
			runTestCasesForServer(context.Background(), sc.RefClient, sc.RefServer, serverInstance{protocol: 1, httpVersion: 1, useTLS: sc.TLS}, tcs, creds, ccreds, starter, logP, errP, results, fc, nil, false)
		})
	}()
	bound := 75 * time.Second // 3 x (10 s server read + 5 + 5 s abort grace + slack)
	if vfBatchHangSeen.Load() {
		bound = 25 * time.Second
	}
	select {
	case p := <-done:
		if p != nil {
			rep.Violation("batch/panic/"+p.Site, p.Value, map[string]any{"input": w, "stack": verifkit.Trunc(p.Stack, 3000)})
			return
		}
	case <-time.After(bound):
		vfBatchHangSeen.Store(true)
		rep.Violation("batch/not-terminating/"+sc.ServerFault, "runTestCasesForServer did not return within the progress bound", w)
		ctl.die()
		return
	}
	// quiescence: every callback the client runner accepted has fired (C10 guarantees that for the real one)
	fc.cbWG.Wait()
	results.mu.Lock()
	defer results.mu.Unlock()
	fc.mu.Lock()
	defer fc.mu.Unlock()
	accepted := map[string]bool{}
	for _, n := range fc.accepted {
		accepted[n] = true
	}
	inBatch := map[string]bool{}
	for _, n := range names {
		inBatch[n] = true
	}
	for n := range results.outcomes {
		if !inBatch[n] {
			rep.Violation("batch/foreign-outcome", fmt.Sprintf("outcome recorded for %q which is not in the batch", n), w)
		}
	}
	sig := []string{sc.ServerFault}
	for _, n := range names {
		o, ok := results.outcomes[n]
		script := fc.scripts[n]
		ww := func() map[string]any {
			m := map[string]any{}
			for k, v := range w {
				m[k] = v
			}
			m["case"] = n
			m["answered_by_client"] = accepted[n]
			m["script"] = script
			if ok {
				m["outcome"] = fmt.Sprintf("setupError=%v failure=%v", o.setupError, o.actualFailure)
			}
			return m
		}
		if !ok {
			rep.Violation("batch/missing-outcome/"+sc.ServerFault, fmt.Sprintf("no outcome for %q after the batch ended", n), ww())
			continue
		}
		if accepted[n] {
			rep.Count("cases_answered", 1)
			// keeps the verdict of its own answer
			switch script.Kind {
			case "pass":
				if o.actualFailure != nil || o.setupError {
					rep.Violation("batch/answered-case-lost-verdict/pass", fmt.Sprintf("%q was answered with a matching result but is recorded as %v (setup=%v)", n, o.actualFailure, o.setupError), ww())
				}
				sig = append(sig, "P")
			case "mismatch":
				if o.actualFailure == nil || o.setupError {
					rep.Violation("batch/answered-case-lost-verdict/mismatch", fmt.Sprintf("%q was answered with a deviating result but is recorded as %v (setup=%v)", n, o.actualFailure, o.setupError), ww())
				}
				sig = append(sig, "M")
			case "clienterror":
				if o.actualFailure == nil || o.setupError || !strings.Contains(o.actualFailure.Error(), "client-error-token/"+n) {
					rep.Violation("batch/answered-case-lost-verdict/clienterror", fmt.Sprintf("%q: client reported its own error but outcome is %v (setup=%v)", n, o.actualFailure, o.setupError), ww())
				}
				sig = append(sig, "C")
			case "neither":
				if o.actualFailure == nil {
					rep.Violation("batch/empty-answer-passes", fmt.Sprintf("%q: answer with neither result nor error recorded as pass", n), ww())
				}
				sig = append(sig, "0")
			default:
				if o.actualFailure == nil || !o.setupError {
					rep.Violation("batch/no-result-not-setup-error", fmt.Sprintf("%q: client delivered no result but outcome is %v (setup=%v)", n, o.actualFailure, o.setupError), ww())
				}
				sig = append(sig, "N")
			}
			if fc.fired[n] != 1 {
				rep.Inconcl(fmt.Sprintf("harness: callback for %s fired %d times", n, fc.fired[n]))
			}
		} else {
			rep.Count("cases_not_run", 1)
			if o.actualFailure == nil || !o.setupError {
				rep.Violation("batch/unrun-case-not-setup-error/"+sc.ServerFault, fmt.Sprintf("%q was never handed to the client (server fault %q, send error at %d) but is recorded as failure=%v setup=%v", n, sc.ServerFault, sc.SendErrAt, o.actualFailure, o.setupError), ww())
			}
			sig = append(sig, "S")
		}
	}
	if len(fc.sentAfterDeath) > 0 {
		rep.Violation("batch/sent-after-server-death/"+sc.ServerFault, fmt.Sprintf("cases %q were handed to the client although the server process had already exited; they are affected by the server's death and must be setup errors", fc.sentAfterDeath), w)
	}
	// the server is asked to stop
	ctl.mu.Lock()
	aborts := ctl.aborts
	ctl.mu.Unlock()
	if ctl.started && aborts == 0 {
		rep.Violation("batch/server-not-stopped/"+sc.ServerFault, "a server process was started but abort() was never called", w)
	}
	if starts != 1 {
		rep.Violation("batch/start-count", fmt.Sprintf("server started %d times", starts), w)
	}
	// a faulty start must not hand any case to the client
	faulty := sc.Srv.StartErr || stdin.failed || sc.Srv.StdinCloseErr || strings.HasPrefix(sc.ServerFault, "response-")
	if faulty && sc.ServerFault != "response-empty-message" && len(fc.accepted) > 0 {
		rep.Violation("batch/cases-sent-despite-server-fault/"+sc.ServerFault, fmt.Sprintf("%d cases were sent to the client although the server never came up (%s)", len(fc.accepted), sc.ServerFault), w)
	}
	// feedback of a reference client is recorded for the case it came with (and only then)
	for _, n := range fc.accepted {
		script := fc.scripts[n]
		if !script.Feedback || (script.Kind != "pass" && script.Kind != "mismatch") || fc.fired[n] == 0 {
			continue
		}
		got, ok := results.serverSideband[n]
		switch {
		case sc.RefClient && !ok:
			rep.Violation("batch/reference-client-feedback-dropped", fmt.Sprintf("the reference client's answer for %q carried feedback, nothing was recorded for the case", n), w)
		case sc.RefClient:
			rep.Count("client_feedback_recorded", 1)
		default:
			rep.Count("client_feedback_of_a_client_under_test(not judged)", 1)
			_ = got
		}
	}
	// stderr attribution (reference server only, when it was started and the run got past the start)
	if sc.RefServer && ctl.started && sc.Srv.Stderr != "" && !faulty && sc.Srv.DieAfterSends < 0 {
		wantSide := map[string]string{}
		var wantPass []string
		for _, line := range strings.Split(sc.Srv.Stderr, "\n") {
			t := strings.TrimSpace(line)
			if t == "" {
				continue
			}
			parts := strings.SplitN(t, ": ", 2)
			if len(parts) == 2 && inBatch[parts[0]] {
				wantSide[parts[0]] = parts[1]
			} else {
				wantPass = append(wantPass, t)
			}
		}
		for n, msg := range wantSide {
			if fb := fc.scripts[n]; sc.RefClient && fb.Feedback {
				// both reference peers remark on the same case (only possible when neither peer is under test):
				// one remark per case is kept, which one is not specified
				if _, ok := results.serverSideband[n]; ok {
					continue
				}
			}
			if got, ok := results.serverSideband[n]; !ok || got != msg {
				rep.Violation("batch/feedback-not-attributed", fmt.Sprintf("feedback %q for %q not recorded (got %q)", msg, n, got), w)
			}
		}
		for n := range results.serverSideband {
			if fb := fc.scripts[n]; sc.RefClient && fb.Feedback {
				continue // (the reference client's own remark about this case)
			}
			if _, ok := wantSide[n]; !ok {
				rep.Violation("batch/feedback-misattributed", fmt.Sprintf("sideband entry for %q which the server never named / is outside the batch", n), w)
			}
		}
		errP.mu.Lock()
		all := strings.Join(errP.lines, "\n")
		errP.mu.Unlock()
		for _, l := range wantPass {
			if !strings.Contains(all, l) {
				rep.Violation("batch/stderr-line-swallowed", fmt.Sprintf("stderr line %q (%d bytes) was neither attributed nor passed through", verifkit.Trunc(l, 80), len(l)), w)
			}
		}
		rep.Count("stderr_scripts_checked", 1)
	}
	// the server is asked to stop AFTERWARDS: while it is alive and answers are still outstanding it is not aborted
	ctl.mu.Lock()
	abortSeq := ctl.abortSeq
	ctl.mu.Unlock()
	lastFire := fc.lastFireSeq // fc.mu is held (deferred above)
	if ctl.started && !faulty && sc.Srv.DieAfterSends < 0 && !sc.Srv.DieAfterResponse && abortSeq != 0 && lastFire > abortSeq {
		rep.Violation("batch/server-stopped-while-answers-outstanding", fmt.Sprintf("the server was asked to stop (logical time %d) before the last answer of an accepted request had arrived (%d)", abortSeq, lastFire), w)
	}
	rep.DistinctKey(sig, sc.RefServer, sc.TLS, sc.SendErrAt, sc.Srv.DieAfterSends)
	rep.Count("fault:"+sc.ServerFault, 1)
}

// TestVerifC11Batch: fault enumeration over runTestCasesForServer.
func TestVerifC11Batch(t *testing.T) {
	rep := verifkit.Begin("C11", "batch", "batches of 1-8 cases x server faults {none, start error, stdin write error at every byte offset, stdin close error, response truncated at EVERY byte offset, oversize prefix, garbage, empty message, missing certificate under TLS, exit after k of n sends for all k, stall (real 10 s timeout)} x client faults {sendRequest error at send k for all k; answers pass / deviating / client error / no result / neither; delivered inside sendRequest or 0-3 ms later, i.e. before, during and after the server's death} x stderr scripts (in-batch and out-of-batch names, free text, partial last line); oracle at quiescence; distinct = (fault, per-case outcome signature, flags)")
	defer rep.Write()
	rng := verifkit.Stream("c11batch")
	goodResp := vfServerResponseBytes("127.0.0.1", 4242, nil)
	goodTLS := vfServerResponseBytes("127.0.0.1", 4242, []byte("PEMCERT"))
	mkScripts := func(n int) []vfCaseScript {
		out := make([]vfCaseScript, n)
		for i := range out {
			out[i] = vfCaseScript{Kind: verifkit.Pick(rng, []string{"pass", "pass", "mismatch", "clienterror", "noresult", "neither"}), Async: []int{0, 0, 50, 400, 3000}[rng.Intn(5)], Feedback: rng.Chance(1, 4)}
		}
		return out
	}
	base := func() *vfBatchScenario {
		n := 1 + rng.Intn(8)
		tls := rng.Chance(1, 3)
		sc := &vfBatchScenario{N: n, RefServer: rng.Bool(), RefClient: rng.Bool(), TLS: tls, Scripts: mkScripts(n), SendErrAt: -1, ServerFault: "none"}
		sc.Srv = vfSrvPlan{StdinFailAt: -1, DieAfterSends: -1, Stdout: goodResp}
		if tls {
			sc.Srv.Stdout = goodTLS
		}
		return sc
	}
	id := 0
	run := func(sc *vfBatchScenario) {
		id++
		vfRunBatch(rep, sc, fmt.Sprint(id))
	}
	rounds := verifkit.Scale(40, 1200)
	for r := 0; r < rounds; r++ {
		// no fault (+ stderr scripts)
		for k := 0; k < 4; k++ {
			sc := base()
			sc.RefServer = true
			names := []string{}
			for i := 0; i < sc.N; i++ {
				names = append(names, fmt.Sprintf("Batch/%d/case %d", id+1, i))
			}
			var sb strings.Builder
			for j := rng.Intn(6); j >= 0; j-- {
				switch rng.Intn(6) {
				case 5:
					// a very long line (a stack dump, a hex dump): longer than any fixed line buffer
					sb.WriteString("goroutine dump: " + strings.Repeat("x", verifkit.Pick(rng, []int{5000, 65535, 65536, 70000, 300000})) + " END-OF-LONG-LINE\n")
				case 0:
					sb.WriteString(verifkit.Pick(rng, names) + verifkit.Pick(rng, []string{": expected protocol X; instead got Y\n", ": expected header 'te: trailers'; instead got te: gzip\n", ": a: b: c\n"}))
				case 1:
					sb.WriteString("Some Other Suite/case 9: not in this batch\n")
				case 2:
					sb.WriteString(verifkit.Pick(rng, []string{"2026/01/01 http: TLS handshake error from 127.0.0.1\n", "progress 100% for 3 of 5 %s items %d %v %!\n", "path /a%2Fb/%41 escaped\n"}))
				case 3:
					sb.WriteString("   \n")
				default:
					sb.WriteString("panic: something: with colons: inside\n")
				}
			}
			if rng.Bool() {
				sb.WriteString("partial last line without newline")
			}
			sc.Srv.Stderr = sb.String()
			run(sc)
		}
		// start error / stdin faults
		sc := base()
		sc.Srv.StartErr, sc.ServerFault = true, "start-error"
		run(sc)
		for _, off := range []int{0, 1, 3, 4, 5, 9, 20} {
			sc = base()
			sc.Srv.StdinFailAt, sc.ServerFault = off, "stdin-write-error"
			run(sc)
		}
		sc = base()
		sc.Srv.StdinCloseErr, sc.ServerFault = true, "stdin-close-error"
		run(sc)
		// response truncated at every byte offset
		sc0 := base()
		full := sc0.Srv.Stdout
		for cut := 0; cut < len(full); cut++ {
			sc = base()
			sc.TLS = sc0.TLS
			sc.Srv.Stdout, sc.ServerFault = full[:cut], "response-truncated"
			sc.Srv.Desc = fmt.Sprintf("cut=%d/%d", cut, len(full))
			run(sc)
		}
		sc = base()
		sc.Srv.Stdout, sc.ServerFault = []byte{0x7f, 0xff, 0xff, 0xff, 1, 2, 3}, "response-oversize"
		run(sc)
		// a complete, well-formed answer that is merely larger than the 1 MiB a server may send: 1 MiB + a little, 2 MiB, 5 MiB
		for _, extra := range []int{1, 1 << 20, 4 << 20} {
			sc = base()
			big := vfServerResponseBytes("127.0.0.1", 1234, bytes.Repeat([]byte("C"), 1<<20+extra))
			sc.Srv.Stdout, sc.ServerFault = big, "response-oversize"
			sc.Srv.Desc = fmt.Sprintf("well-formed answer of %d bytes", len(big)-4)
			run(sc)
		}
		sc = base()
		sc.Srv.Stdout, sc.ServerFault = []byte{0, 0, 0, 6, 0xff, 0xff, 0xff, 0xff, 0xff, 0xff}, "response-garbage"
		run(sc)
		sc = base()
		sc.TLS = false
		sc.Srv.Stdout, sc.ServerFault = []byte{0, 0, 0, 0}, "response-empty-message"
		run(sc)
		sc = base()
		sc.TLS = true
		sc.Srv.Stdout, sc.ServerFault = goodResp, "response-missing-cert"
		run(sc)
		// server exits after k of n sends, all k; client send error at k, all k; and both
		sc = base()
		n := sc.N
		for k := 0; k <= n; k++ {
			s2 := base()
			s2.N, s2.Scripts = n, mkScripts(n)
			s2.Srv.DieAfterSends, s2.ServerFault = k, "server-exits-after-k-sends"
			s2.Srv.DieCleanly = (k+r)%2 == 0 // half of them leave with status 0
			run(s2)
			s3 := base()
			s3.N, s3.Scripts = n, mkScripts(n)
			s3.SendErrAt, s3.ServerFault = k, "client-send-error-at-k"
			run(s3)
		}
		s5 := base()
		s5.Srv.DieAfterResponse, s5.ServerFault = true, "server-exits-before-first-send"
		run(s5)
		for k := 0; k < 3; k++ {
			s4 := base()
			s4.Srv.DieAfterSends, s4.SendErrAt = rng.Intn(s4.N+1), rng.Intn(s4.N+1)
			s4.Srv.DieCleanly = rng.Bool()
			s4.ServerFault = "server-exit-and-client-send-error"
			run(s4)
		}
	}
	// stalled server: the real 10 s timeout must fire (few, in parallel)
	var wg sync.WaitGroup
	for k := 0; k < verifkit.Scale(2, 6); k++ {
		wg.Add(1)
		sc := base()
		sc.Srv.Stdout, sc.Srv.StdoutStall, sc.ServerFault = goodResp[:k*3%len(goodResp)], true, "response-stall"
		id++
		go func(sc *vfBatchScenario, id int) {
			defer wg.Done()
			vfRunBatch(rep, sc, fmt.Sprint(id))
		}(sc, id)
	}
	wg.Wait()
	rep.Sample(map[string]any{"cases": 4, "server_fault": "exits after 2 of 4 sends", "scripts": "case0 pass (sync), case1 clienterror (3 ms later)", "expect": "case0 pass, case1 its client error, case2/3 setup errors; abort called"})
	for _, k := range []string{"fault:response-truncated", "fault:server-exits-after-k-sends", "fault:client-send-error-at-k", "fault:response-missing-cert", "fault:response-stall", "stderr_scripts_checked", "client_feedback_recorded"} {
		rep.RequireMin(k, 2)
	}
	_ = sort.Strings
	_ = internal.DefaultHost
}

// TestVerifC11OSProcess: the same oracle with real OS processes as servers
// (runCommand): commands that exit before, while or after reading their
// request, or answer garbage.
func TestVerifC11OSProcess(t *testing.T) {
	rep := verifkit.Begin("C11", "os-process", "runTestCasesForServer with startServer = runCommand(sh -c script): exits at once, exits after a delay without reading, reads 2 bytes and exits, consumes the request and closes stdout, answers garbage, answers a truncated frame, exits non-zero after consuming; batches of 1-4 cases with a scripted client runner; oracle: returns within the progress bound, every case a setup error, nothing sent to the client; distinct = (script, batch size, repetition)")
	defer rep.Write()
	scripts := map[string]string{
		"exit-at-once":            "exit 0",
		"exit-nonzero-at-once":    "exit 3",
		"exit-late-without-read":  "sleep 0.03; exit 1",
		"read-2-bytes-then-exit":  "head -c 2 >/dev/null; exit 0",
		"consume-then-eof":        "cat >/dev/null",
		"consume-then-garbage":    "cat >/dev/null; printf '\\000\\000\\000\\005\\377\\377\\377\\377\\377'",
		"consume-then-truncated":  "cat >/dev/null; printf '\\000\\000\\000\\011ab'",
		"garbage-without-reading": "printf '\\000\\000\\000\\005\\377\\377\\377\\377\\377'; sleep 0.02",
	}
	reps := verifkit.Scale(3, 25)
	for _, name := range verifkit.SortedKeys(scripts) {
		for r := 0; r < reps; r++ {
			n := 1 + (r % 4)
			rep.Eval(1)
			rep.DistinctKey(name, n, r)
			var tcs []*conformancev1.TestCase
			fc := &vfFakeClient{scripts: map[string]vfCaseScript{}, sendErrAt: -1, dieAfter: -1, fired: map[string]int{}, reqs: map[string]*conformancev1.ClientCompatRequest{}, expected: map[string]*conformancev1.ClientResponseResult{}}
			for i := 0; i < n; i++ {
				nm := fmt.Sprintf("OS/%s/%d/case %d", name, r, i)
				exp := &conformancev1.ClientResponseResult{Payloads: []*conformancev1.ConformancePayload{{Data: []byte(nm)}}}
				tcs = append(tcs, &conformancev1.TestCase{Request: &conformancev1.ClientCompatRequest{TestName: nm, StreamType: 1}, ExpectedResponse: exp})
				fc.scripts[nm] = vfCaseScript{Kind: "pass"}
				fc.expected[nm] = exp
			}
			results := newResults(n, &testTrie{}, &testTrie{}, nil)
			w := map[string]any{"script": scripts[name], "name": name, "cases": n}
			rep.InFlight(w)
			done := make(chan *verifkit.Panic, 1)
			go func() {
				done <- verifkit.Catch(func() {
					// a large server credential makes the request bigger than one pipe write
					creds := &conformancev1.TLSCreds{Cert: bytes.Repeat([]byte("C"), 200000), Key: []byte("K")}
					runTestCasesForServer(context.Background(), false, r%2 == 0, serverInstance{protocol: 1, httpVersion: 1, useTLS: r%3 == 0}, tcs, creds, nil,
						runCommand([]string{"/bin/sh", "-c", scripts[name]}), &vfLinePrinter{}, &vfLinePrinter{}, results, fc, nil, false)
				})
			}()
			bound := 75 * time.Second
			if vfBatchHangSeen.Load() {
				bound = 25 * time.Second
			}
			select {
			case p := <-done:
				if p != nil {
					rep.Violation("batch/os/panic/"+p.Site, p.Value, w)
					continue
				}
			case <-time.After(bound):
				vfBatchHangSeen.Store(true)
				rep.Violation("batch/os/not-terminating/"+name, "runTestCasesForServer did not return within the progress bound with an OS-process server that "+name, w)
				continue
			}
			fc.cbWG.Wait()
			results.mu.Lock()
			for _, tc := range tcs {
				o, ok := results.outcomes[tc.Request.TestName]
				switch {
				case !ok:
					rep.Violation("batch/os/missing-outcome/"+name, "no outcome for "+tc.Request.TestName, w)
				case o.actualFailure == nil || !o.setupError:
					rep.Violation("batch/os/not-setup-error/"+name, fmt.Sprintf("%s: failure=%v setup=%v", tc.Request.TestName, o.actualFailure, o.setupError), w)
				}
			}
			results.mu.Unlock()
			fc.mu.Lock()
			if len(fc.accepted) > 0 {
				rep.Violation("batch/os/cases-sent-despite-server-fault/"+name, fmt.Sprintf("%d cases were sent", len(fc.accepted)), w)
			}
			fc.mu.Unlock()
			rep.Count("os:"+name, 1)
		}
	}
	rep.Sample(map[string]any{"script": "head -c 2 >/dev/null; exit 0", "expect": "returns promptly; every case a setup error"})
	rep.RequireMin("os:read-2-bytes-then-exit", 2)
}

// TestVerifC11StubbornServer: OS-process servers that answer the start-up
// handshake properly and then do not honour the stop request.
func TestVerifC11StubbornServer(t *testing.T) {
	rep := verifkit.Begin("C11", "stubborn-server", "runTestCasesForServer with startServer = runCommand(sh -c script) where the script answers a valid ServerCompatResponse and then {exits on SIGTERM, ignores SIGTERM and idles, ignores SIGTERM and keeps writing to stderr}; 3-case batch answered by a scripted client; oracle: the call returns within the progress bound (the stop escalates to a forced end), every case keeps its own verdict; distinct = script")
	defer rep.Write()
	respBytes, _ := proto.Marshal(&conformancev1.ServerCompatResponse{Host: "127.0.0.1", Port: 9})
	fr := make([]byte, 4+len(respBytes))
	binary.BigEndian.PutUint32(fr, uint32(len(respBytes)))
	copy(fr[4:], respBytes)
	esc := ""
	for _, b := range fr {
		esc += fmt.Sprintf("\\%03o", b)
	}
	scripts := map[string]string{
		"honours-sigterm":               "printf '" + esc + "'; exec sleep 40",
		"ignores-sigterm-idle":          "trap '' TERM; printf '" + esc + "'; exec sleep 40",
		"ignores-sigterm-writes-stderr": "trap '' TERM; printf '" + esc + "'; i=0; while [ $i -lt 400 ]; do echo still-here >&2; sleep 0.1; i=$((i+1)); done",
	}
	var wg sync.WaitGroup
	var mu sync.Mutex
	for _, name := range verifkit.SortedKeys(scripts) {
		wg.Add(1)
		go func(name string) {
			defer wg.Done()
			n := 3
			var tcs []*conformancev1.TestCase
			fc := &vfFakeClient{scripts: map[string]vfCaseScript{}, sendErrAt: -1, dieAfter: -1, fired: map[string]int{}, reqs: map[string]*conformancev1.ClientCompatRequest{}, expected: map[string]*conformancev1.ClientResponseResult{}}
			for i := 0; i < n; i++ {
				nm := fmt.Sprintf("Stubborn/%s/case %d", name, i)
				exp := &conformancev1.ClientResponseResult{Payloads: []*conformancev1.ConformancePayload{{Data: []byte(nm)}}}
				tcs = append(tcs, &conformancev1.TestCase{Request: &conformancev1.ClientCompatRequest{TestName: nm, StreamType: 1}, ExpectedResponse: exp})
				fc.scripts[nm] = vfCaseScript{Kind: "pass"}
				fc.expected[nm] = exp
			}
			results := newResults(n, &testTrie{}, &testTrie{}, nil)
			w := map[string]any{"script": scripts[name], "name": name, "cases": n}
			done := make(chan *verifkit.Panic, 1)
			start := time.Now()
			go func() {
				done <- verifkit.Catch(func() {
					runTestCasesForServer(context.Background(), false, false, serverInstance{protocol: 1, httpVersion: 1}, tcs, nil, nil,
						runCommand([]string{"/bin/sh", "-c", scripts[name]}), &vfLinePrinter{}, &vfLinePrinter{}, results, fc, nil, false)
				})
			}()
			var p *verifkit.Panic
			timedOut := false
			select {
			case p = <-done:
			case <-time.After(28 * time.Second):
				timedOut = true
			}
			took := time.Since(start)
			fc.cbWG.Wait()
			mu.Lock()
			defer mu.Unlock()
			rep.Eval(1)
			rep.DistinctKey(name)
			w["returned_after_ms"] = took.Milliseconds()
			switch {
			case timedOut:
				rep.Violation("batch/os/not-terminating/"+name, "runTestCasesForServer did not return within the progress bound (28 s) with a server command that "+name+"; the stop request must escalate", w)
				return
			case p != nil:
				rep.Violation("batch/os/panic/"+p.Site, p.Value, w)
				return
			}
			rep.Count("stubborn:"+name, 1)
			rep.Note("%s: returned after %v", name, took.Round(100*time.Millisecond))
			results.mu.Lock()
			for _, tc := range tcs {
				o, ok := results.outcomes[tc.Request.TestName]
				switch {
				case !ok:
					rep.Violation("batch/os/missing-outcome/"+name, "no outcome for "+tc.Request.TestName, w)
				case o.actualFailure != nil:
					rep.Violation("batch/os/answered-case-lost-its-verdict/"+name, fmt.Sprintf("%s passed at the client but is recorded as %v", tc.Request.TestName, o.actualFailure), w)
				}
			}
			results.mu.Unlock()
		}(name)
	}
	wg.Wait()
	rep.Sample(map[string]any{"script": "trap '' TERM; <valid response>; exec sleep 40", "expect": "returns after the graceful period; 3 passing outcomes"})
	rep.RequireMin("stubborn:ignores-sigterm-idle", 1)
}
