//go:build verif

package connectconformance

import (
	"bytes"
	"context"
	"encoding/binary"
	"errors"
	"fmt"
	"io"
	"sort"
	"strings"
	"sync"
	"sync/atomic"
	"testing"
	"time"

	conformancev1 "connectrpc.com/conformance/internal/gen/proto/go/connectrpc/conformance/v1"
	"connectrpc.com/conformance/internal/verifkit"
	"google.golang.org/protobuf/proto"
)

// ---- the scripted hostile client (speaks its own framing code) ----

type vfCliStep struct {
	Action string // answer | defer | never | twice | ghost
}

type vfCliPlan struct {
	Steps       []vfCliStep // per request read, in read order (cyclic)
	FailKind    string      // none exit0 exit1 garbage oversize cut stopreading earlyanswer dupanswer
	FailAfter   int         // after this many requests were read
	CutAt       int         // for "cut": bytes of the next frame that are written before closing
	ReadDelays  []int       // microseconds before each stdin read call (cyclic)
	WriteDelays []int       // microseconds before each answer (cyclic)
	FlushOrder  []int       // permutation seed for deferred answers
	Stall       bool        // fail by going silent (real 20 s read timeout)
}

type vfCliLog struct {
	mu        sync.Mutex
	Read      []string // names in the order read
	Delivered []vfDelivered
	Events    []string
	BadFrame  string // what ended delivery (if anything)
}

type vfDelivered struct {
	Name  string
	Token string
}

func (l *vfCliLog) ev(s string) {
	l.mu.Lock()
	l.Events = append(l.Events, s)
	l.mu.Unlock()
}

func vfFrameResp(name, token string) []byte {
	b, _ := proto.Marshal(&conformancev1.ClientCompatResponse{TestName: name, Result: &conformancev1.ClientCompatResponse_Error{Error: &conformancev1.ClientErrorResult{Message: token}}})
	out := make([]byte, 4+len(b))
	binary.BigEndian.PutUint32(out, uint32(len(b)))
	copy(out[4:], b)
	return out
}

type vfDelayReader struct {
	in     io.Reader
	delays []int
	i      int
}

func (d *vfDelayReader) Read(p []byte) (int, error) {
	if len(d.delays) > 0 {
		if us := d.delays[d.i%len(d.delays)]; us > 0 {
			time.Sleep(time.Duration(us) * time.Microsecond)
		}
		d.i++
	}
	// small reads widen the window in which the runner's Write is in progress
	if len(p) > 7 {
		p = p[:7]
	}
	return d.in.Read(p)
}

// vfHostileClient returns the impl for runInProcess.
func vfHostileClient(plan *vfCliPlan, log *vfCliLog) func(ctx context.Context, args []string, in io.ReadCloser, out, errw io.WriteCloser) error {
	return func(ctx context.Context, _ []string, in io.ReadCloser, out, _ io.WriteCloser) error {
		rd := &vfDelayReader{in: in, delays: plan.ReadDelays}
		// an aborted process dies: its blocked reads and writes end (an OS process would get SIGTERM)
		dead := make(chan struct{})
		defer close(dead)
		go func() {
			select {
			case <-ctx.Done():
				if plan.FailKind == "garbagereading" || plan.FailKind == "eofreading" {
					// this one takes a while to die (a process that handles SIGTERM late)
					select {
					case <-time.After(20 * time.Millisecond):
					case <-dead:
						return
					}
				}
				_ = in.Close()
				_ = out.Close()
			case <-dead:
			}
		}()
		seq := 0
		write := func(name string, frame []byte, token string, complete bool) bool {
			if len(plan.WriteDelays) > 0 {
				if us := plan.WriteDelays[seq%len(plan.WriteDelays)]; us > 0 {
					time.Sleep(time.Duration(us) * time.Microsecond)
				}
			}
			seq++
			n, err := out.Write(frame)
			ok := err == nil && n == len(frame)
			log.mu.Lock()
			if ok && complete && log.BadFrame == "" {
				log.Delivered = append(log.Delivered, vfDelivered{name, token})
			}
			log.Events = append(log.Events, fmt.Sprintf("client_write(%s,%v)", name, ok))
			log.mu.Unlock()
			return ok
		}
		tokenN := 0
		tok := func(name string) string { tokenN++; return fmt.Sprintf("tok/%s/%d", name, tokenN) }
		answer := func(name string) bool {
			t := tok(name)
			return write(name, vfFrameResp(name, t), t, true)
		}
		markBad := func(what string) {
			log.mu.Lock()
			if log.BadFrame == "" {
				log.BadFrame = what
			}
			log.mu.Unlock()
		}
		var deferred []string
		flush := func() {
			order := make([]int, len(deferred))
			for i := range order {
				order[i] = i
			}
			for i := len(order) - 1; i > 0; i-- {
				j := 0
				if len(plan.FlushOrder) > 0 {
					j = plan.FlushOrder[i%len(plan.FlushOrder)] % (i + 1)
				}
				order[i], order[j] = order[j], order[i]
			}
			for _, i := range order {
				if !answer(deferred[i]) {
					return
				}
			}
			deferred = nil
		}
		fail := func() error {
			log.ev("client_fail(" + plan.FailKind + ")")
			switch plan.FailKind {
			case "exit0":
				return nil
			case "exit1":
				return errors.New("client exits with an error")
			case "garbage":
				markBad("garbage")
				_, _ = out.Write([]byte{0, 0, 0, 9, 0xff, 0xff, 0xff, 0xff, 0xff, 0xff, 0xff, 0xff, 0xff})
				flush()
				return nil
			case "eofreading":
				// closes its output (the runner sees a clean end) but keeps consuming its stdin until that is closed
				log.ev("client_closes_stdout")
				flush()
				_ = out.Close()
				for {
					var pre [4]byte
					if _, err := io.ReadFull(rd, pre[:]); err != nil {
						return nil
					}
					buf := make([]byte, binary.BigEndian.Uint32(pre[:]))
					if _, err := io.ReadFull(rd, buf); err != nil {
						return nil
					}
					log.mu.Lock()
					log.Read = append(log.Read, vfPeekName(buf))
					log.Events = append(log.Events, "client_read_after_closing_stdout")
					log.mu.Unlock()
				}
			case "garbagereading":
				// like a process that ignores the runner's abort for a while: emits garbage, then keeps
				// consuming its stdin (answering nothing) until the runner closes it
				markBad("garbage")
				_, _ = out.Write([]byte{0, 0, 0, 9, 0xff, 0xff, 0xff, 0xff, 0xff, 0xff, 0xff, 0xff, 0xff})
				for {
					var pre [4]byte
					if _, err := io.ReadFull(rd, pre[:]); err != nil {
						return nil
					}
					buf := make([]byte, binary.BigEndian.Uint32(pre[:]))
					if _, err := io.ReadFull(rd, buf); err != nil {
						return nil
					}
					log.mu.Lock()
					log.Read = append(log.Read, vfPeekName(buf))
					log.Events = append(log.Events, "client_read_after_garbage")
					log.mu.Unlock()
				}
			case "oversize":
				markBad("oversize")
				_, _ = out.Write([]byte{0x7f, 0xff, 0xff, 0xff, 1, 2, 3})
				flush()
				return nil
			case "cut":
				markBad("cut")
				f := vfFrameResp("cut-victim", "never-complete")
				c := plan.CutAt % len(f)
				_, _ = out.Write(f[:c])
				return nil // closing stdout truncates the frame (or ends cleanly when c == 0)
			case "ghost":
				markBad("unknown name")
				write("ghost/never-sent", vfFrameResp("ghost/never-sent", "ghost"), "ghost", false)
				flush()
				return nil
			case "stall":
				// go silent: keep stdin open, write nothing, until the runner gives up (20 s) and aborts
				<-ctx.Done()
				return nil
			}
			return nil
		}
		for {
			if plan.FailKind != "none" && plan.FailKind != "stopreading" && plan.FailKind != "dupanswer" && len(log.Read) >= plan.FailAfter {
				flushFirst := plan.FailKind == "exit0" || plan.FailKind == "exit1"
				if flushFirst && plan.CutAt%2 == 0 {
					flush()
				}
				return fail()
			}
			if plan.FailKind == "stopreading" && len(log.Read) >= plan.FailAfter {
				// stop reading stdin but keep answering what is owed, then leave
				log.ev("client_stops_reading")
				flush()
				return nil
			}
			var pre [4]byte
			if _, err := io.ReadFull(rd, pre[:]); err != nil {
				log.ev("client_stdin_eof")
				flush()
				return nil
			}
			size := binary.BigEndian.Uint32(pre[:])
			buf := make([]byte, size)
			if plan.FailKind == "earlyanswer" && len(log.Read) == plan.FailAfter-1 && size > 8 {
				// answer before the request was read completely, then close stdin
				if _, err := io.ReadFull(rd, buf[:size-3]); err != nil {
					flush()
					return nil
				}
				// the name sits at the start of the message (field 1); parse what we have
				name := vfPeekName(buf[:size-3])
				log.mu.Lock()
				log.Read = append(log.Read, name)
				log.mu.Unlock()
				answer(name)
				_ = in.Close()
				log.ev("client_closed_stdin_early")
				flush()
				return nil
			}
			if _, err := io.ReadFull(rd, buf); err != nil {
				flush()
				return nil
			}
			req := &conformancev1.ClientCompatRequest{}
			if err := proto.Unmarshal(buf, req); err != nil {
				return err
			}
			log.mu.Lock()
			idx := len(log.Read)
			log.Read = append(log.Read, req.TestName)
			log.Events = append(log.Events, "client_read("+req.TestName+")")
			log.mu.Unlock()
			step := plan.Steps[idx%len(plan.Steps)]
			switch step.Action {
			case "answer":
				if !answer(req.TestName) {
					return nil
				}
			case "defer":
				deferred = append(deferred, req.TestName)
				if len(deferred) >= 3 {
					flush()
				}
			case "never":
			case "twice":
				if plan.FailKind == "dupanswer" {
					if !answer(req.TestName) {
						return nil
					}
					markBad("duplicate answer")
					t := tok(req.TestName)
					write(req.TestName, vfFrameResp(req.TestName, t), t, false)
					flush()
					return nil
				}
				if !answer(req.TestName) {
					return nil
				}
			}
		}
	}
}

// vfPeekName extracts field 1 (test_name) from the start of a ClientCompatRequest.
func vfPeekName(b []byte) string {
	if len(b) < 2 || b[0] != 0x0a {
		return ""
	}
	l := int(b[1])
	if l >= 0x80 || 2+l > len(b) {
		return ""
	}
	return string(b[2 : 2+l])
}

// ---- one history ----

var vfDeadlockSeen atomic.Bool

type vfCallback struct {
	N     int
	Token string
	Err   string
	Send  int // id of the sendRequest call this callback was passed to (0: the shared late-send callback)
}

type vfSendRec struct {
	Name   string
	Sender int
	Err    string
	IsDup  bool
	ID     int
}

func vfRunMuxHistory(rep *verifkit.Report, h int, stall bool) {
	rng := verifkit.Stream("c10mux", h)
	nNames := 2 + rng.Intn(11)
	names := make([]string, nNames)
	for i := range names {
		names[i] = fmt.Sprintf("Suite %d/case-%d", h%7, i)
	}
	// never-answered names may be sent twice (deliberate duplicates)
	plan := &vfCliPlan{FailKind: verifkit.Pick(rng, []string{"none", "none", "exit0", "exit1", "garbage", "garbagereading", "garbagereading", "eofreading", "eofreading", "oversize", "cut", "cut", "ghost", "stopreading", "earlyanswer", "dupanswer"}),
		FailAfter: rng.Intn(nNames + 1), CutAt: rng.Intn(64)}
	if stall {
		plan.FailKind = "stall"
	}
	if plan.FailKind == "earlyanswer" && plan.FailAfter == 0 {
		plan.FailAfter = 1
	}
	dupOK := plan.FailKind == "none" || plan.FailKind == "exit0" || plan.FailKind == "cut"
	for i := 0; i < nNames+2; i++ {
		a := verifkit.Pick(rng, []string{"answer", "answer", "defer", "defer", "never"})
		if plan.FailKind == "dupanswer" && i == plan.FailAfter%nNames {
			a = "twice"
		}
		plan.Steps = append(plan.Steps, vfCliStep{Action: a})
	}
	for i := 0; i < 16; i++ {
		plan.ReadDelays = append(plan.ReadDelays, []int{0, 0, 0, 20, 200, 1500}[rng.Intn(6)])
		plan.WriteDelays = append(plan.WriteDelays, []int{0, 0, 50, 500, 2000}[rng.Intn(5)])
		plan.FlushOrder = append(plan.FlushOrder, rng.Intn(1000))
	}
	nSenders := 1 + rng.Intn(4)
	assign := make([][]string, nSenders)
	for _, n := range names {
		s := rng.Intn(nSenders)
		assign[s] = append(assign[s], n)
	}
	var dupNames []string
	if dupOK && rng.Chance(1, 3) {
		// a name that is sent by two senders (or twice by one)
		d := verifkit.Pick(rng, names)
		dupNames = append(dupNames, d)
		s := rng.Intn(nSenders)
		assign[s] = append(assign[s], d)
	}
	senderDelays := make([][]int, nSenders)
	for s := range senderDelays {
		for range assign[s] {
			senderDelays[s] = append(senderDelays[s], []int{0, 0, 30, 300, 2000}[rng.Intn(5)])
		}
	}
	closeAfterUS := -1
	if rng.Chance(1, 4) {
		closeAfterUS = rng.Intn(3000) // closeSend races with the senders
	}
	gomax := 0
	_ = gomax

	log := &vfCliLog{}
	ctx, cancel := context.WithCancel(context.Background())
	defer cancel()
	runner, err := runClient(ctx, runInProcess([]string{"hostile-client"}, vfHostileClient(plan, log)))
	if err != nil {
		rep.Inconcl("runClient failed: " + err.Error())
		return
	}
	var mu sync.Mutex
	callbacks := map[string][]vfCallback{}
	var sends []vfSendRec
	var sendIDs atomic.Int64
	mkcb := func(sendID int) func(name string, resp *conformancev1.ClientCompatResponse, err error) {
		return func(name string, resp *conformancev1.ClientCompatResponse, err error) {
			vfRecordCallback(&mu, callbacks, sendID, name, resp, err)
		}
	}
	cb := func(name string, resp *conformancev1.ClientCompatResponse, err error) {
		rec := vfCallback{}
		if err != nil {
			rec.Err = err.Error()
		} else if resp != nil {
			rec.Token = resp.GetError().GetMessage()
			if resp.TestName != name {
				rec.Err = "callback name " + name + " but response carries " + resp.TestName
			}
		}
		mu.Lock()
		callbacks[name] = append(callbacks[name], rec)
		mu.Unlock()
	}
	var wg sync.WaitGroup
	for s := 0; s < nSenders; s++ {
		wg.Add(1)
		go func(s int) {
			defer wg.Done()
			seen := map[string]bool{}
			for i, n := range assign[s] {
				if us := senderDelays[s][i]; us > 0 {
					time.Sleep(time.Duration(us) * time.Microsecond)
				}
				req := &conformancev1.ClientCompatRequest{TestName: n, Service: proto.String("connectrpc.conformance.v1.ConformanceService"), Method: proto.String("Unary")}
				id := int(sendIDs.Add(1))
				err := runner.sendRequest(req, mkcb(id))
				rec := vfSendRec{Name: n, Sender: s, IsDup: seen[n], ID: id}
				seen[n] = true
				if err != nil {
					rec.Err = err.Error()
				}
				mu.Lock()
				sends = append(sends, rec)
				mu.Unlock()
			}
		}(s)
	}
	if closeAfterUS >= 0 {
		wg.Add(1)
		go func() {
			defer wg.Done()
			time.Sleep(time.Duration(closeAfterUS) * time.Microsecond)
			runner.closeSend()
		}()
	}
	sendersDone := make(chan struct{})
	go func() { wg.Wait(); close(sendersDone) }()
	bound := 90 * time.Second // 3 x (20 s read timeout + 3 s wait + 5 s abort grace)
	if vfDeadlockSeen.Load() && !stall {
		bound = 12 * time.Second // a deadlock was already witnessed with the full bound; do not spend it on every history
	}
	w := func() map[string]any {
		mu.Lock()
		defer mu.Unlock()
		log.mu.Lock()
		defer log.mu.Unlock()
		cbs := map[string][]vfCallback{}
		for k, v := range callbacks {
			cbs[k] = append([]vfCallback(nil), v...)
		}
		return map[string]any{"history": h, "client_fail": plan.FailKind, "fail_after_reads": plan.FailAfter, "cut_at": plan.CutAt, "steps": plan.Steps, "senders": assign,
			"sends": append([]vfSendRec(nil), sends...), "callbacks": cbs, "client_read": append([]string(nil), log.Read...), "client_delivered": append([]vfDelivered(nil), log.Delivered...), "client_events": append([]string(nil), log.Events...), "close_send_after_us": closeAfterUS}
	}
	select {
	case <-sendersDone:
	case <-time.After(bound):
		vfDeadlockSeen.Store(true)
		rep.Violation("mux/send-deadlock/"+plan.FailKind, "sendRequest/closeSend did not return within the progress bound", w())
		return
	}
	runner.closeSend()
	waitErrC := make(chan error, 1)
	go func() { waitErrC <- runner.waitForResponses() }()
	var waitErr error
	select {
	case waitErr = <-waitErrC:
	case <-time.After(bound):
		vfDeadlockSeen.Store(true)
		rep.Violation("mux/wait-deadlock/"+plan.FailKind, "waitForResponses did not return within the progress bound", w())
		return
	}
	rep.Eval(1)
	// after completion: a further send must be refused
	lateErr := runner.sendRequest(&conformancev1.ClientCompatRequest{TestName: "late/after-wait"}, cb)
	if lateErr == nil {
		rep.Violation("mux/late-send-accepted/"+plan.FailKind, "sendRequest after the client finished/failed was accepted", w())
	}
	// the runner reports the client as no longer running (bounded wait: the exit notification is asynchronous)
	deadline := time.Now().Add(3 * time.Second)
	for runner.isRunning() && time.Now().Before(deadline) {
		time.Sleep(200 * time.Microsecond)
	}
	if runner.isRunning() {
		rep.Violation("mux/still-running-after-exit/"+plan.FailKind, "isRunning() is still true after the client process ended and waitForResponses returned", w())
	}
	runner.stop()

	// ---- exactly-once oracle ----
	mu.Lock()
	defer mu.Unlock()
	log.mu.Lock()
	defer log.mu.Unlock()
	firstAnswer := map[string]string{}
	for _, d := range log.Delivered {
		if _, ok := firstAnswer[d.Name]; !ok {
			firstAnswer[d.Name] = d.Token
		}
	}
	okSends := map[string]int{}
	errSends := map[string][]string{}
	for _, s := range sends {
		if s.Err == "" {
			okSends[s.Name]++
		} else {
			errSends[s.Name] = append(errSends[s.Name], s.Err)
		}
	}
	isDup := map[string]bool{}
	for _, d := range dupNames {
		isDup[d] = true
	}
	sig := []string{plan.FailKind, fmt.Sprint(len(log.Read)), fmt.Sprint(len(log.Delivered))}
	inFlight := 0
	for _, n := range names {
		cbs := callbacks[n]
		nOK := okSends[n]
		ww := func() map[string]any { m := wUnlocked(h, plan, assign, sends, callbacks, log, closeAfterUS); m["name"] = n; return m }
		switch {
		case !isDup[n] && nOK == 1:
			if len(cbs) != 1 {
				rep.Violation(fmt.Sprintf("mux/callback-count/%d/%s", len(cbs), plan.FailKind), fmt.Sprintf("request %q was accepted but its callback fired %d times", n, len(cbs)), ww())
				continue
			}
			c := cbs[0]
			if tokWant, answered := firstAnswer[n]; answered {
				if c.Token != tokWant {
					rep.Violation("mux/wrong-response/"+plan.FailKind, fmt.Sprintf("request %q: client's first answer was %q but the callback got token %q err %q", n, tokWant, c.Token, c.Err), ww())
				}
				sig = append(sig, "R")
			} else {
				inFlight++
				if c.Err == "" {
					rep.Violation("mux/response-from-nowhere/"+plan.FailKind, fmt.Sprintf("request %q was never answered (completely) by the client but the callback got a response %q", n, c.Token), ww())
				}
				sig = append(sig, "E")
			}
		case !isDup[n] && nOK == 0:
			if len(cbs) != 0 {
				rep.Violation("mux/callback-after-refused-send/"+plan.FailKind, fmt.Sprintf("sendRequest(%q) returned an error (%v) but its callback fired %d times", n, errSends[n], len(cbs)), ww())
			}
			sig = append(sig, "X")
		case isDup[n]:
			// two sends of one name: every accepted send gets exactly one callback; a send while the first is pending is refused as duplicate
			if len(cbs) != nOK {
				rep.Violation("mux/duplicate-name-callbacks/"+plan.FailKind, fmt.Sprintf("name %q sent twice: %d sends accepted, %d callbacks", n, nOK, len(cbs)), ww())
			}
			for _, e := range errSends[n] {
				if strings.Contains(e, "duplicate") {
					rep.Count("duplicate_refused", 1)
				}
			}
			sig = append(sig, fmt.Sprintf("D%d", nOK))
		default:
			rep.Violation("mux/unique-name-accepted-twice", fmt.Sprintf("name %q accepted %d times", n, nOK), ww())
		}
	}
	// every callback belongs to a sendRequest call that was accepted, and each accepted call has exactly one
	acceptedIDs, refusedIDs := map[int]string{}, map[int]string{}
	for _, sr := range sends {
		if sr.Err == "" {
			acceptedIDs[sr.ID] = sr.Name
		} else {
			refusedIDs[sr.ID] = sr.Name
		}
	}
	perSend := map[int]int{}
	for _, cbs := range callbacks {
		for _, c := range cbs {
			if c.Send != 0 {
				perSend[c.Send]++
			}
		}
	}
	for id, name := range refusedIDs {
		if perSend[id] > 0 {
			rep.Violation("mux/callback-of-refused-send-invoked/"+plan.FailKind, fmt.Sprintf("sendRequest(%q) #%d returned an error, but the callback passed to it was invoked %d times", name, id, perSend[id]), wUnlocked(h, plan, assign, sends, callbacks, log, closeAfterUS))
		}
	}
	for id, name := range acceptedIDs {
		if perSend[id] != 1 {
			rep.Violation(fmt.Sprintf("mux/accepted-send-callback-count/%d/%s", perSend[id], plan.FailKind), fmt.Sprintf("sendRequest(%q) #%d was accepted; the callback passed to it was invoked %d times", name, id, perSend[id]), wUnlocked(h, plan, assign, sends, callbacks, log, closeAfterUS))
		}
	}
	for n, cbs := range callbacks {
		known := n == "late/after-wait"
		for _, x := range names {
			known = known || x == n
		}
		if !known {
			rep.Violation("mux/callback-for-unknown-name", fmt.Sprintf("callback for %q which was never sent (%d)", n, len(cbs)), wUnlocked(h, plan, assign, sends, callbacks, log, closeAfterUS))
		}
	}
	if len(callbacks["late/after-wait"]) != 0 {
		rep.Violation("mux/callback-for-refused-late-send", "late send was refused but its callback fired", nil)
	}
	if plan.FailKind != "none" && plan.FailKind != "exit0" && plan.FailKind != "eofreading" && plan.FailKind != "stopreading" && plan.FailKind != "earlyanswer" && !(plan.FailKind == "cut" && plan.CutAt%len(vfFrameResp("cut-victim", "never-complete")) == 0) {
		// a failing client must surface as an error from waitForResponses
		if waitErr == nil && len(log.Read) >= plan.FailAfter && log.BadFrame != "" {
			rep.Violation("mux/failure-not-reported/"+plan.FailKind, "the client's output stream was malformed ("+log.BadFrame+") but waitForResponses returned nil", wUnlocked(h, plan, assign, sends, callbacks, log, closeAfterUS))
		}
	}
	rep.Count("fail:"+plan.FailKind, 1)
	rep.Count("send_ret_ok", len(names)-len(errSends))
	rep.Count("callbacks_response", vfCountCB(callbacks, false))
	rep.Count("callbacks_error", vfCountCB(callbacks, true))
	if inFlight > 0 {
		rep.DistinctKey(sig)
		rep.Count("histories_with_requests_in_flight_at_failure", 1)
	}
}

func vfCountCB(m map[string][]vfCallback, errs bool) int {
	n := 0
	for _, l := range m {
		for _, c := range l {
			if (c.Err != "") == errs {
				n++
			}
		}
	}
	return n
}

func wUnlocked(h int, plan *vfCliPlan, assign [][]string, sends []vfSendRec, callbacks map[string][]vfCallback, log *vfCliLog, closeAfterUS int) map[string]any {
	cbs := map[string][]vfCallback{}
	for k, v := range callbacks {
		cbs[k] = append([]vfCallback(nil), v...)
	}
	return map[string]any{"history": h, "client_fail": plan.FailKind, "fail_after_reads": plan.FailAfter, "cut_at": plan.CutAt, "steps": plan.Steps, "senders": assign,
		"sends": append([]vfSendRec(nil), sends...), "callbacks": cbs, "client_read": append([]string(nil), log.Read...), "client_delivered": append([]vfDelivered(nil), log.Delivered...), "client_events": append([]string(nil), log.Events...), "close_send_after_us": closeAfterUS, "bad_frame": log.BadFrame}
}

// TestVerifC10Mux: exactly-once oracle over recorded histories of the real
// clientProcessRunner with a scripted hostile client.
func TestVerifC10Mux(t *testing.T) {
	rep := verifkit.Begin("C10", "mux", "histories of runClient(runInProcess(hostile client)): 1-4 concurrent senders share 2-12 uniquely named requests (optionally one name sent twice), closeSend racing with senders; client script per request {answer, defer+reorder, never}, failure {none, exit 0/1 after j reads, garbage, garbage and then keeps consuming stdin, closes stdout and keeps consuming stdin, oversize prefix, frame cut after every byte offset, unknown name, duplicate answer, stops reading stdin, answers before the request is fully read then closes stdin}, 0-2 ms delays inside stdin reads and before answers; every answer carries a unique token; distinct = histories with a request in flight when the failure struck, by (failure, reads, delivered, per-request outcome) signature")
	defer rep.Write()
	vfStartIdleScenario()   // runs for ~22 s in the background; judged by TestVerifC10ZIdle
	vfStartLingerScenario() // ~10 s in the background; judged by TestVerifC10ZLinger
	n := verifkit.Scale(1500, 40000)
	var wg sync.WaitGroup
	sem := make(chan struct{}, 24)
	for h := 0; h < n; h++ {
		wg.Add(1)
		sem <- struct{}{}
		go func(h int) {
			defer wg.Done()
			defer func() { <-sem }()
			if p := verifkit.Catch(func() { vfRunMuxHistory(rep, h, false) }); p != nil {
				rep.Violation("mux/panic/"+p.Site, p.Value, map[string]any{"history": h, "stack": verifkit.Trunc(p.Stack, 3000)})
			}
		}(h)
	}
	// stalled clients: the real 20 s read timeout must fire; run a few in parallel with the rest
	for k := 0; k < verifkit.Scale(3, 8); k++ {
		wg.Add(1)
		go func(k int) {
			defer wg.Done()
			vfRunMuxHistory(rep, 1000000+k, true)
		}(k)
	}
	wg.Wait()
	rep.Sample(map[string]any{"senders": 2, "requests": []string{"a", "b", "c"}, "client": "answers b, then writes 5 bytes of the answer to a and closes stdout", "expect": "callback(b)=b's token; callback(a), callback(c) = error; later send refused; isRunning false"})
	rep.RequireMin("histories_with_requests_in_flight_at_failure", 100)
	rep.RequireMin("fail:cut", 50)
	rep.RequireMin("fail:stall", 1)
}

// TestVerifC10Cuts: the client's answer stream cut after EVERY byte offset.
func TestVerifC10Cuts(t *testing.T) {
	rep := verifkit.Begin("C10", "cuts", "answer streams for 3-6 requests cut after every byte offset of the stream (the client writes the prefix of the stream and closes stdout); oracle: requests whose answer frame lies completely before the cut get that answer, all others an error, each exactly once; distinct = (stream, cut offset)")
	defer rep.Write()
	nStreams := verifkit.Scale(12, 200)
	for s := 0; s < nStreams; s++ {
		rng := verifkit.Stream("c10cuts", s)
		k := 3 + rng.Intn(4)
		names := make([]string, k)
		var stream []byte
		var ends []int
		for i := range names {
			names[i] = fmt.Sprintf("cut/%d/%d", s, i)
		}
		order := rng.Perm(k)
		for _, i := range order {
			stream = append(stream, vfFrameResp(names[i], "tok-"+names[i])...)
			ends = append(ends, len(stream))
		}
		for cut := 0; cut <= len(stream); cut++ {
			rep.Eval(1)
			rep.DistinctKey(s, cut)
			impl := func(_ context.Context, _ []string, in io.ReadCloser, out, _ io.WriteCloser) error {
				// read all k requests first
				for i := 0; i < k; i++ {
					var pre [4]byte
					if _, err := io.ReadFull(in, pre[:]); err != nil {
						return nil
					}
					if _, err := io.CopyN(io.Discard, in, int64(binary.BigEndian.Uint32(pre[:]))); err != nil {
						return nil
					}
				}
				_, _ = out.Write(stream[:cut])
				return nil
			}
			ctx, cancel := context.WithCancel(context.Background())
			runner, err := runClient(ctx, runInProcess([]string{"cutting-client"}, impl))
			if err != nil {
				cancel()
				rep.Inconcl(err.Error())
				continue
			}
			var mu sync.Mutex
			got := map[string][]vfCallback{}
			for _, n := range names {
				if err := runner.sendRequest(&conformancev1.ClientCompatRequest{TestName: n}, func(name string, resp *conformancev1.ClientCompatResponse, err error) {
					c := vfCallback{}
					if err != nil {
						c.Err = err.Error()
					} else {
						c.Token = resp.GetError().GetMessage()
					}
					mu.Lock()
					got[name] = append(got[name], c)
					mu.Unlock()
				}); err != nil {
					rep.Violation("mux/cuts/send-refused", err.Error(), map[string]any{"stream": s, "cut": cut})
				}
			}
			runner.closeSend()
			done := make(chan error, 1)
			go func() { done <- runner.waitForResponses() }()
			select {
			case <-done:
			case <-time.After(90 * time.Second):
				rep.Violation("mux/cuts/wait-deadlock", "waitForResponses did not return", map[string]any{"stream": s, "cut": cut})
				cancel()
				continue
			}
			runner.stop()
			cancel()
			mu.Lock()
			for pos, i := range order {
				n := names[i]
				complete := ends[pos] <= cut
				w := map[string]any{"stream": s, "cut": cut, "frame_ends": ends, "answer_order": order, "name": n, "callbacks": got[n]}
				if len(got[n]) != 1 {
					rep.Violation(fmt.Sprintf("mux/cuts/callback-count/%d", len(got[n])), fmt.Sprintf("%q: %d callbacks", n, len(got[n])), w)
					continue
				}
				c := got[n][0]
				if complete && c.Token != "tok-"+n {
					rep.Violation("mux/cuts/complete-answer-lost", fmt.Sprintf("%q: the complete answer precedes the cut but the callback got %+v", n, c), w)
				}
				if !complete && c.Err == "" {
					rep.Violation("mux/cuts/truncated-answer-accepted", fmt.Sprintf("%q: answer frame is cut but the callback got a response", n), w)
				}
				if complete {
					rep.Count("answers_before_cut", 1)
				} else {
					rep.Count("answers_after_cut", 1)
				}
			}
			mu.Unlock()
		}
	}
	// an answer of exactly the maximum size is a valid answer
	for _, delta := range []int{0, -1} {
		name := "limit/exact"
		base := proto.Size(&conformancev1.ClientCompatResponse{TestName: name, Result: &conformancev1.ClientCompatResponse_Error{Error: &conformancev1.ClientErrorResult{Message: "x"}}})
		target := maxClientResponseSize + delta
		pad := target - base - 6 // room for the growth of the two length varints
		var resp *conformancev1.ClientCompatResponse
		for ; pad < target; pad++ {
			resp = &conformancev1.ClientCompatResponse{TestName: name, Result: &conformancev1.ClientCompatResponse_Error{Error: &conformancev1.ClientErrorResult{Message: strings.Repeat("p", pad)}}}
			if proto.Size(resp) >= target {
				break
			}
		}
		if proto.Size(resp) != target {
			rep.Note("could not build an answer of exactly %d bytes (got %d)", target, proto.Size(resp))
			continue
		}
		body, _ := proto.Marshal(resp)
		frame := make([]byte, 4+len(body))
		binary.BigEndian.PutUint32(frame, uint32(len(body)))
		copy(frame[4:], body)
		impl := func(_ context.Context, _ []string, in io.ReadCloser, out, _ io.WriteCloser) error {
			var pre [4]byte
			if _, err := io.ReadFull(in, pre[:]); err != nil {
				return nil
			}
			_, _ = io.CopyN(io.Discard, in, int64(binary.BigEndian.Uint32(pre[:])))
			_, _ = out.Write(frame)
			return nil
		}
		ctx, cancel := context.WithCancel(context.Background())
		runner, err := runClient(ctx, runInProcess([]string{"big-client"}, impl))
		if err != nil {
			cancel()
			continue
		}
		got := make(chan vfCallback, 2)
		_ = runner.sendRequest(&conformancev1.ClientCompatRequest{TestName: name}, func(_ string, r *conformancev1.ClientCompatResponse, err error) {
			c := vfCallback{}
			if err != nil {
				c.Err = err.Error()
			} else {
				c.N = len(r.GetError().GetMessage())
			}
			got <- c
		})
		runner.closeSend()
		_ = runner.waitForResponses()
		runner.stop()
		cancel()
		rep.Eval(1)
		select {
		case c := <-got:
			rep.Count("exact_limit_answers", 1)
			if c.Err != "" {
				rep.Violation("mux/answer-of-maximum-size-rejected", fmt.Sprintf("an answer of %d bytes (limit %d) was not delivered: %s", target, maxClientResponseSize, c.Err), map[string]any{"size": target})
			}
		default:
			rep.Violation("mux/cuts/callback-count/0", "no callback for the maximum-size answer", nil)
		}
	}
	sort.Strings(nil)
	rep.Sample(map[string]any{"stream": "3 frames of 24 bytes", "cut": 30, "expect": "first request answered, second and third get an error"})
	rep.RequireMin("answers_after_cut", 100)
}

// TestVerifC10OSProcess: the same exactly-once oracle with real OS processes
// as clients (runCommand): commands that exit before, while or after reading
// their requests.
func TestVerifC10OSProcess(t *testing.T) {
	rep := verifkit.Begin("C10", "os-process", "runClient(runCommand(sh -c script)) with scripts {exit at once, exit non-zero, read 2 bytes then exit, exit late without reading, consume everything and answer nothing, garbage without reading}; 1-4 requests, one of them 300 KB (larger than the pipe buffer) so that a send is in progress when the process dies; oracle: every accepted send gets exactly one (error) callback, refused sends none, waitForResponses returns within the progress bound, late sends refused, isRunning false; distinct = (script, request count, repetition)")
	defer rep.Write()
	scripts := map[string]string{
		"exit-at-once":            "exit 0",
		"exit-nonzero-at-once":    "exit 3",
		"read-2-bytes-then-exit":  "head -c 2 >/dev/null; exit 0",
		"exit-late-without-read":  "sleep 0.03; exit 1",
		"consume-answer-nothing":  "cat >/dev/null",
		"garbage-without-reading": "printf '\\000\\000\\000\\005\\377\\377\\377\\377\\377'; sleep 0.02",
	}
	reps := verifkit.Scale(3, 25)
	for _, name := range verifkit.SortedKeys(scripts) {
		for r := 0; r < reps; r++ {
			n := 1 + r%4
			rep.Eval(1)
			rep.DistinctKey(name, n, r)
			w := map[string]any{"script": scripts[name], "name": name, "requests": n}
			ctx, cancel := context.WithCancel(context.Background())
			runner, err := runClient(ctx, runCommand([]string{"/bin/sh", "-c", scripts[name]}))
			if err != nil {
				cancel()
				rep.Inconcl("cannot start /bin/sh: " + err.Error())
				continue
			}
			var mu sync.Mutex
			cbs := map[string]int{}
			cbResp := 0
			accepted := map[string]bool{}
			finished := make(chan struct{})
			go func() {
				defer close(finished)
				for i := 0; i < n; i++ {
					nm := fmt.Sprintf("os/%s/%d/%d", name, r, i)
					req := &conformancev1.ClientCompatRequest{TestName: nm}
					if i == n-1 {
						req.RequestMessages = nil
						req.ServerTlsCert = bytes.Repeat([]byte("X"), 300000)
					}
					err := runner.sendRequest(req, func(got string, resp *conformancev1.ClientCompatResponse, err error) {
						mu.Lock()
						cbs[got]++
						if err == nil {
							cbResp++
						}
						mu.Unlock()
					})
					mu.Lock()
					if err == nil {
						accepted[nm] = true
					} else {
						accepted[nm] = false
					}
					mu.Unlock()
				}
				runner.closeSend()
				_ = runner.waitForResponses()
			}()
			bound := 90 * time.Second
			if vfDeadlockSeen.Load() {
				bound = 25 * time.Second
			}
			select {
			case <-finished:
			case <-time.After(bound):
				vfDeadlockSeen.Store(true)
				rep.Violation("mux/os/not-terminating/"+name, "sendRequest/closeSend/waitForResponses did not return within the progress bound with an OS-process client that "+name, w)
				cancel()
				continue
			}
			if runner.sendRequest(&conformancev1.ClientCompatRequest{TestName: "late"}, func(string, *conformancev1.ClientCompatResponse, error) {}) == nil {
				rep.Violation("mux/os/late-send-accepted/"+name, "send after the client process ended was accepted", w)
			}
			deadline := time.Now().Add(3 * time.Second)
			for runner.isRunning() && time.Now().Before(deadline) {
				time.Sleep(time.Millisecond)
			}
			if runner.isRunning() {
				rep.Violation("mux/os/still-running-after-exit/"+name, "isRunning() true after the OS process ended", w)
			}
			runner.stop()
			cancel()
			mu.Lock()
			for nm, ok := range accepted {
				want := 0
				if ok {
					want = 1
				}
				if cbs[nm] != want {
					rep.Violation(fmt.Sprintf("mux/os/callback-count/%d-for-accepted-%v", cbs[nm], ok), fmt.Sprintf("%s: accepted=%v but %d callbacks", nm, ok, cbs[nm]), w)
				}
			}
			if cbResp > 0 {
				rep.Violation("mux/os/response-from-nowhere/"+name, "a callback received a response although the process never answered", w)
			}
			mu.Unlock()
			rep.Count("os:"+name, 1)
		}
	}
	rep.Sample(map[string]any{"script": "head -c 2 >/dev/null; exit 0", "requests": 2, "expect": "both sends either refused or answered with an error exactly once; wait returns"})
	rep.RequireMin("os:read-2-bytes-then-exit", 2)
}

// TestVerifC10Resend: a test name may be handed to the same client process
// again once its earlier use has completed (re-runs, the same name in a later
// batch): each use is answered on its own.
func TestVerifC10Resend(t *testing.T) {
	rep := verifkit.Begin("C10", "resend", "healthy in-process client that answers every request with a fresh token; histories of 6-30 sends over 2-4 names from 1-3 senders, a name being re-sent only after its previous use completed (waits for the callback), other names in flight meanwhile; oracle: every send accepted, k-th use of a name gets the client's k-th answer for it, exactly one callback per use, the client is still running, waitForResponses returns nil; distinct = history")
	defer rep.Write()
	n := verifkit.Scale(150, 4000)
	for h := 0; h < n; h++ {
		rng := verifkit.Stream("c10resend", h)
		var cmu sync.Mutex
		answers := map[string][]string{}
		impl := func(ctx context.Context, _ []string, in io.ReadCloser, out, _ io.WriteCloser) error {
			// an aborted process dies: its blocked reads and writes end (an OS process would be signalled)
			dead := make(chan struct{})
			defer close(dead)
			go func() {
				select {
				case <-ctx.Done():
					_ = in.Close()
					_ = out.Close()
				case <-dead:
				}
			}()
			seq := 0
			for {
				var pre [4]byte
				if _, err := io.ReadFull(in, pre[:]); err != nil {
					return nil
				}
				buf := make([]byte, binary.BigEndian.Uint32(pre[:]))
				if _, err := io.ReadFull(in, buf); err != nil {
					return nil
				}
				req := &conformancev1.ClientCompatRequest{}
				if err := proto.Unmarshal(buf, req); err != nil {
					return err
				}
				seq++
				tok := fmt.Sprintf("answer-%d-for-%s", seq, req.TestName)
				cmu.Lock()
				answers[req.TestName] = append(answers[req.TestName], tok)
				cmu.Unlock()
				if _, err := out.Write(vfFrameResp(req.TestName, tok)); err != nil {
					return nil
				}
			}
		}
		ctx, cancel := context.WithCancel(context.Background())
		runner, err := runClient(ctx, runInProcess([]string{"healthy-client"}, impl))
		if err != nil {
			cancel()
			rep.Inconcl("runClient: " + err.Error())
			continue
		}
		nNames := 2 + rng.Intn(3)
		nSenders := 1 + rng.Intn(3)
		type use struct {
			Name string
			K    int
			Err  string
			Tok  string
			CBs  int
		}
		var mu sync.Mutex
		var uses []*use
		var wg sync.WaitGroup
		// each sender owns its names (so that "re-sent only after completion" is under its control)
		for s := 0; s < nSenders; s++ {
			wg.Add(1)
			cnt := 2 + rng.Intn(9)
			seed := rng.Intn(1 << 30)
			go func(s, cnt, seed int) {
				defer wg.Done()
				lr := verifkit.Stream("c10resend-sender", h, s, seed)
				kOf := map[string]int{}
				for i := 0; i < cnt; i++ {
					name := fmt.Sprintf("Resend/%d/sender%d/name%d", h, s, lr.Intn(nNames))
					kOf[name]++
					u := &use{Name: name, K: kOf[name]}
					mu.Lock()
					uses = append(uses, u)
					mu.Unlock()
					done := make(chan struct{})
					var once sync.Once
					err := runner.sendRequest(&conformancev1.ClientCompatRequest{TestName: name}, func(_ string, resp *conformancev1.ClientCompatResponse, err error) {
						mu.Lock()
						u.CBs++
						if err != nil {
							u.Err = "callback error: " + err.Error()
						} else {
							u.Tok = resp.GetError().GetMessage()
						}
						mu.Unlock()
						once.Do(func() { close(done) })
					})
					if err != nil {
						mu.Lock()
						u.Err = "send refused: " + err.Error()
						mu.Unlock()
						continue
					}
					select {
					case <-done:
					case <-time.After(30 * time.Second):
						mu.Lock()
						u.Err = "no callback within 30 s"
						mu.Unlock()
						return
					}
				}
			}(s, cnt, seed)
		}
		wg.Wait()
		running := runner.isRunning()
		runner.closeSend()
		werr := runner.waitForResponses()
		runner.stop()
		cancel()
		rep.Eval(1)
		mu.Lock()
		cmu.Lock()
		var hist []string
		for _, u := range uses {
			hist = append(hist, fmt.Sprintf("%s#%d", u.Name[strings.LastIndex(u.Name, "/sender"):], u.K))
		}
		rep.DistinctKey(hist)
		w := map[string]any{"history": hist, "wait_error": fmt.Sprint(werr), "running_before_close": running}
		for _, u := range uses {
			want := ""
			if u.K <= len(answers[u.Name]) {
				want = answers[u.Name][u.K-1]
			}
			if u.Err != "" || u.CBs != 1 || u.Tok != want || want == "" {
				w["use"] = fmt.Sprintf("%+v", *u)
				w["client_answers_for_name"] = answers[u.Name]
				rep.Violation("mux/resend/use-not-answered-on-its-own", fmt.Sprintf("use #%d of %q: callbacks=%d token=%q err=%q; the client's answer to that use was %q", u.K, u.Name, u.CBs, u.Tok, u.Err, want), w)
				break
			}
			rep.Count("resend_uses_ok", 1)
			if u.K > 1 {
				rep.Count("resend_repeated_uses_ok", 1)
			}
		}
		if !running || werr != nil {
			rep.Violation("mux/resend/healthy-client-failed", fmt.Sprintf("the client answered everything correctly but isRunning=%v before close and waitForResponses=%v", running, werr), w)
		}
		cmu.Unlock()
		mu.Unlock()
	}
	rep.Sample(map[string]any{"history": []string{"X#1", "Y#1", "X#2"}, "expect": "X#2 gets the client's second answer for X"})
	rep.RequireMin("resend_repeated_uses_ok", 100)
}


// TestVerifC10Chain: a completion callback may itself hand the next request to the client
// (a serial driver: "send case i+1 when case i is complete"). With one request in flight and a
// client that is back at reading its input, that must neither deadlock nor lose a callback.
func TestVerifC10Chain(t *testing.T) {
	rep := verifkit.Begin("C10", "chain", "healthy in-process client; chains of 2-8 requests where the success callback of link i sends link i+1 synchronously (on the runner's reader goroutine), 1-2 chains after each other plus one ordinary send, then closeSend + waitForResponses; oracle: every send accepted, every link's callback fires exactly once with its own answer, the client is running before closeSend, waitForResponses returns nil, all within a generous progress bound; distinct = (chain lengths)")
	defer rep.Write()
	n := verifkit.Scale(120, 2500)
	for h := 0; h < n; h++ {
		rng := verifkit.Stream("c10chain", h)
		impl := func(ctx context.Context, _ []string, in io.ReadCloser, out, _ io.WriteCloser) error {
			dead := make(chan struct{})
			defer close(dead)
			go func() {
				select {
				case <-ctx.Done():
					_ = in.Close()
					_ = out.Close()
				case <-dead:
				}
			}()
			for {
				var pre [4]byte
				if _, err := io.ReadFull(in, pre[:]); err != nil {
					return nil
				}
				buf := make([]byte, binary.BigEndian.Uint32(pre[:]))
				if _, err := io.ReadFull(in, buf); err != nil {
					return nil
				}
				req := &conformancev1.ClientCompatRequest{}
				if err := proto.Unmarshal(buf, req); err != nil {
					return err
				}
				if _, err := out.Write(vfFrameResp(req.TestName, "answer-for-"+req.TestName)); err != nil {
					return nil
				}
			}
		}
		ctx, cancel := context.WithCancel(context.Background())
		runner, err := runClient(ctx, runInProcess([]string{"healthy-client"}, impl))
		if err != nil {
			cancel()
			rep.Inconcl("runClient: " + err.Error())
			continue
		}
		lens := []int{2 + rng.Intn(7)}
		if rng.Bool() {
			lens = append(lens, 2+rng.Intn(7))
		}
		rep.Eval(1)
		rep.DistinctKey(lens)
		var mu sync.Mutex
		fired := map[string]int{}
		problems := []string{}
		note := func(f string, a ...any) {
			mu.Lock()
			problems = append(problems, fmt.Sprintf(f, a...))
			mu.Unlock()
		}
		w := map[string]any{"chain_lengths": lens}
		stuck := false
		total := 0
		for ci, l := range lens {
			done := make(chan struct{})
			var link func(i int)
			link = func(i int) {
				name := fmt.Sprintf("Chain/%d/%d/link-%d", h, ci, i)
				err := runner.sendRequest(&conformancev1.ClientCompatRequest{TestName: name}, func(got string, resp *conformancev1.ClientCompatResponse, err error) {
					mu.Lock()
					fired[name]++
					mu.Unlock()
					if err != nil {
						note("%s: callback with error %v", name, err)
						close(done)
						return
					}
					if got != name || resp.GetError().GetMessage() != "answer-for-"+name {
						note("%s: callback got (%q, %q)", name, got, resp.GetError().GetMessage())
					}
					if i+1 < l {
						link(i + 1) // the next request, from inside the callback
					} else {
						close(done)
					}
				})
				if err != nil {
					note("%s: send refused: %v", name, err)
					close(done)
				}
			}
			total += l
			go link(0)
			select {
			case <-done:
			case <-time.After(60 * time.Second):
				stuck = true
			}
			if stuck {
				break
			}
		}
		if stuck {
			mu.Lock()
			w["callbacks_fired"], w["problems"] = fmt.Sprint(fired), problems
			mu.Unlock()
			rep.Violation("mux/chain/deadlock", "a chain of requests, each sent from the completion callback of the previous one to a healthy client, made no progress within the bound", w)
			cancel()
			break // every further history would wait out the bound as well
		}
		// one more ordinary send
		last := make(chan struct{})
		lname := fmt.Sprintf("Chain/%d/after", h)
		if err := runner.sendRequest(&conformancev1.ClientCompatRequest{TestName: lname}, func(string, *conformancev1.ClientCompatResponse, error) {
			mu.Lock()
			fired[lname]++
			mu.Unlock()
			close(last)
		}); err != nil {
			note("%s: send refused: %v", lname, err)
		} else {
			select {
			case <-last:
			case <-time.After(60 * time.Second):
				note("%s: no callback", lname)
			}
		}
		running := runner.isRunning()
		runner.closeSend()
		waited := make(chan error, 1)
		go func() { waited <- runner.waitForResponses() }()
		var werr error
		select {
		case werr = <-waited:
		case <-time.After(60 * time.Second):
			note("waitForResponses did not return")
		}
		runner.stop()
		cancel()
		mu.Lock()
		for name, c := range fired {
			if c != 1 {
				problems = append(problems, fmt.Sprintf("%s: %d callbacks", name, c))
			}
		}
		if len(fired) != total+1 {
			problems = append(problems, fmt.Sprintf("%d of %d requests completed", len(fired), total+1))
		}
		if !running || werr != nil {
			problems = append(problems, fmt.Sprintf("isRunning=%v before close, waitForResponses=%v", running, werr))
		}
		if len(problems) > 0 {
			sort.Strings(problems)
			w["problems"] = problems
			rep.Violation("mux/chain/not-exactly-once", problems[0], w)
		} else {
			rep.Count("chained_links_ok", total)
		}
		mu.Unlock()
	}
	rep.Sample(map[string]any{"chain": "callback(link-0) -> sendRequest(link-1) -> ...", "expect": "all links complete exactly once"})
	rep.RequireMin("chained_links_ok", 300)
}

// TestVerifC10SendErrorFirst: two-step histories on one client - first the SEND side records an error while
// the client stays alive (it closed its input, or a request cannot be encoded), afterwards the client's OUTPUT
// fails. The later failure must still end the client: not running any more, told to stop, callbacks drained.
func TestVerifC10SendErrorFirst(t *testing.T) {
	rep := verifkit.Begin("C10", "send-error-first", "in-process client that reads two requests, answers the first, then (variant input-closed) closes its input, waits, spoils its output (garbage / duplicate answer / unknown name / frame cut + close) and lingers until it is cancelled; the runner sends t1, t2, then a third request that fails on the send side (input closed, or a request with invalid UTF-8 that cannot be encoded; control: none), then lets the client spoil its output; oracle: isRunning() becomes false and the client is told to stop within the progress bound, t1 gets its own answer once, t2 exactly one error callback, the failed send fires no callback, later sends are refused, waitForResponses returns an error; distinct = (send-side step, output failure)")
	defer rep.Write()
	steps := []string{"none", "input-closed", "unencodable-request"}
	spoils := []string{"garbage", "duplicate", "unknown-name", "cut"}
	rounds := verifkit.Scale(2, 12)
	for round := 0; round < rounds; round++ {
		for _, step := range steps {
			for _, spoil := range spoils {
				rep.Eval(1)
				rep.DistinctKey(step, spoil)
				goAhead := make(chan struct{})
				told := make(chan struct{})
				readTwo := make(chan struct{})
				impl := func(ctx context.Context, _ []string, in io.ReadCloser, out, _ io.WriteCloser) error {
					var names []string
					for i := 0; i < 2; i++ {
						var pre [4]byte
						if _, err := io.ReadFull(in, pre[:]); err != nil {
							return nil
						}
						buf := make([]byte, binary.BigEndian.Uint32(pre[:]))
						if _, err := io.ReadFull(in, buf); err != nil {
							return nil
						}
						req := &conformancev1.ClientCompatRequest{}
						_ = proto.Unmarshal(buf, req)
						names = append(names, req.TestName)
					}
					_, _ = out.Write(vfFrameResp(names[0], "answer-for-"+names[0]))
					if step == "input-closed" {
						_ = in.Close()
					}
					close(readTwo)
					select {
					case <-goAhead:
					case <-ctx.Done():
						close(told)
						return nil
					}
					switch spoil {
					case "garbage":
						_, _ = out.Write([]byte{0, 0, 0, 6, 0xff, 0xff, 0xff, 0xff, 0xff, 0xff})
					case "duplicate":
						_, _ = out.Write(vfFrameResp(names[0], "again"))
					case "unknown-name":
						_, _ = out.Write(vfFrameResp("never/sent", "x"))
					default:
						f := vfFrameResp(names[1], "answer")
						_, _ = out.Write(f[:6])
						_ = out.Close()
					}
					<-ctx.Done() // lingers: only an abort ends it
					close(told)
					return nil
				}
				ctx, cancel := context.WithCancel(context.Background())
				runner, err := runClient(ctx, runInProcess([]string{"client"}, impl))
				if err != nil {
					cancel()
					rep.Inconcl("runClient: " + err.Error())
					continue
				}
				var mu sync.Mutex
				cbs := map[string][]string{}
				cb := func(name string) func(string, *conformancev1.ClientCompatResponse, error) {
					return func(_ string, resp *conformancev1.ClientCompatResponse, err error) {
						mu.Lock()
						defer mu.Unlock()
						if err != nil {
							cbs[name] = append(cbs[name], "error")
						} else {
							cbs[name] = append(cbs[name], resp.GetError().GetMessage())
						}
					}
				}
				pfx := fmt.Sprintf("SendErrFirst/%d/%s/%s/", round, step, spoil)
				var problems []string
				sendErrs := map[string]error{}
				for _, n := range []string{"t1", "t2"} {
					sendErrs[n] = runner.sendRequest(&conformancev1.ClientCompatRequest{TestName: pfx + n}, cb(pfx+n))
				}
				select {
				case <-readTwo:
				case <-time.After(30 * time.Second):
					problems = append(problems, "the client never got its two requests")
				}
				switch step {
				case "input-closed":
					sendErrs["t3"] = runner.sendRequest(&conformancev1.ClientCompatRequest{TestName: pfx + "t3"}, cb(pfx+"t3"))
				case "unencodable-request":
					sendErrs["t3"] = runner.sendRequest(&conformancev1.ClientCompatRequest{TestName: pfx + "t3", Host: "bad\xffhost"}, cb(pfx+"t3"))
				}
				if step != "none" && sendErrs["t3"] == nil {
					problems = append(problems, "the third request was accepted although it cannot reach the client")
				}
				close(goAhead)
				// bounded progress: the output failure ends the client
				deadline := time.Now().Add(20 * time.Second)
				for runner.isRunning() && time.Now().Before(deadline) {
					time.Sleep(2 * time.Millisecond)
				}
				stillRunning := runner.isRunning()
				toldToStop := false
				select {
				case <-told:
					toldToStop = true
				case <-time.After(time.Until(deadline)):
				}
				lateErr := runner.sendRequest(&conformancev1.ClientCompatRequest{TestName: pfx + "late"}, cb(pfx+"late"))
				waited := make(chan error, 1)
				go func() { waited <- runner.waitForResponses() }()
				var werr error
				select {
				case werr = <-waited:
				case <-time.After(30 * time.Second):
					problems = append(problems, "waitForResponses did not return")
				}
				runner.stop()
				cancel()
				mu.Lock()
				w := map[string]any{"send_side_step": step, "output_failure": spoil, "callbacks": fmt.Sprint(cbs), "send_errors": fmt.Sprint(sendErrs), "late_send": fmt.Sprint(lateErr), "wait_error": fmt.Sprint(werr)}
				if stillRunning {
					rep.Violation("mux/send-error-first/still-running/"+step, fmt.Sprintf("the client's output failed (%s) after a send-side error (%s), isRunning() is still true after the progress bound", spoil, step), w)
				}
				if !toldToStop {
					rep.Violation("mux/send-error-first/not-told-to-stop/"+step, fmt.Sprintf("the client's output failed (%s) after a send-side error (%s), the lingering client was never told to stop", spoil, step), w)
				}
				if got := cbs[pfx+"t1"]; len(got) != 1 || got[0] != "answer-for-"+pfx+"t1" {
					problems = append(problems, fmt.Sprintf("t1 callbacks %q", got))
				}
				if got := cbs[pfx+"t2"]; len(got) != 1 || got[0] != "error" {
					problems = append(problems, fmt.Sprintf("t2 callbacks %q, want one error", got))
				}
				if len(cbs[pfx+"t3"]) != 0 && sendErrs["t3"] != nil {
					problems = append(problems, fmt.Sprintf("refused t3 got callbacks %q", cbs[pfx+"t3"]))
				}
				if lateErr == nil || len(cbs[pfx+"late"]) != 0 {
					problems = append(problems, fmt.Sprintf("a send after the failure: err=%v callbacks=%q", lateErr, cbs[pfx+"late"]))
				}
				if werr == nil {
					problems = append(problems, "waitForResponses returned nil after the client failed")
				}
				if len(problems) > 0 {
					w["problems"] = problems
					rep.Violation("mux/send-error-first/history/"+step, problems[0], w)
				} else if !stillRunning && toldToStop {
					rep.Count("send_error_first_ok:"+step, 1)
				}
				mu.Unlock()
			}
		}
	}
	rep.Sample(map[string]any{"history": "t1 answered; client closes its input; t3 refused (send side); client writes garbage and lingers", "expect": "isRunning false, client cancelled, t2 one error callback"})
	rep.RequireMin("send_error_first_ok:input-closed", 4)
	rep.RequireMin("send_error_first_ok:unencodable-request", 4)
}

// ---- a quiet spell longer than the runner's read timeout ----

type vfIdleResult struct {
	firstTok, firstErr   string
	secondSendErr        string
	secondTok, secondErr string
	secondCBs            int
	clientAnswers        []string
	quiet                time.Duration
	done                 bool
}

var (
	vfIdleOnce sync.Once
	vfIdleCh   = make(chan *vfIdleResult, 1)
)

// vfStartIdleScenario: healthy client; request A answered; nothing happens for
// longer than the 20 s read timeout; request B.
func vfStartIdleScenario() {
	vfIdleOnce.Do(func() {
		go func() {
			res := &vfIdleResult{}
			defer func() { vfIdleCh <- res }()
			var cmu sync.Mutex
			impl := func(ctx context.Context, _ []string, in io.ReadCloser, out, _ io.WriteCloser) error {
				dead := make(chan struct{})
				defer close(dead)
				go func() {
					select {
					case <-ctx.Done():
						_ = in.Close()
						_ = out.Close()
					case <-dead:
					}
				}()
				for {
					var pre [4]byte
					if _, err := io.ReadFull(in, pre[:]); err != nil {
						return nil
					}
					buf := make([]byte, binary.BigEndian.Uint32(pre[:]))
					if _, err := io.ReadFull(in, buf); err != nil {
						return nil
					}
					req := &conformancev1.ClientCompatRequest{}
					if proto.Unmarshal(buf, req) != nil {
						return nil
					}
					tok := "answer-for-" + req.TestName
					if _, err := out.Write(vfFrameResp(req.TestName, tok)); err != nil {
						return nil
					}
					cmu.Lock()
					res.clientAnswers = append(res.clientAnswers, tok)
					cmu.Unlock()
				}
			}
			ctx, cancel := context.WithCancel(context.Background())
			defer cancel()
			runner, err := runClient(ctx, runInProcess([]string{"quiet-client"}, impl))
			if err != nil {
				return
			}
			first := make(chan struct{})
			_ = runner.sendRequest(&conformancev1.ClientCompatRequest{TestName: "Idle/first"}, func(_ string, resp *conformancev1.ClientCompatResponse, err error) {
				if err != nil {
					res.firstErr = err.Error()
				} else {
					res.firstTok = resp.GetError().GetMessage()
				}
				close(first)
			})
			select {
			case <-first:
			case <-time.After(15 * time.Second):
				res.firstErr = "no callback"
				return
			}
			start := time.Now()
			time.Sleep(21500 * time.Millisecond)
			res.quiet = time.Since(start)
			second := make(chan struct{}, 4)
			var smu sync.Mutex
			err = runner.sendRequest(&conformancev1.ClientCompatRequest{TestName: "Idle/second"}, func(_ string, resp *conformancev1.ClientCompatResponse, err error) {
				smu.Lock()
				res.secondCBs++
				if err != nil {
					res.secondErr = err.Error()
				} else {
					res.secondTok = resp.GetError().GetMessage()
				}
				smu.Unlock()
				second <- struct{}{}
			})
			if err != nil {
				res.secondSendErr = err.Error()
			} else {
				select {
				case <-second:
				case <-time.After(30 * time.Second):
					smu.Lock()
					res.secondErr = "no callback within 30 s"
					smu.Unlock()
				}
			}
			runner.closeSend()
			_ = runner.waitForResponses()
			runner.stop()
			cmu.Lock()
			res.done = true
			cmu.Unlock()
		}()
	})
}

// TestVerifC10ZIdle judges the scenario started at the beginning of the package's C10 tests.
func TestVerifC10ZIdle(t *testing.T) {
	rep := verifkit.Begin("C10", "idle", "healthy in-process client: request A is answered, then nothing is sent for 21.5 s (longer than the runner's 20 s read timeout), then request B; oracle: B is either refused at send time (the runner gave the client up) or, if it was accepted and the client answered it, its callback carries exactly that answer - never an error for a request the client answered correctly; distinct = outcome")
	defer rep.Write()
	vfStartIdleScenario()
	var res *vfIdleResult
	select {
	case res = <-vfIdleCh:
	case <-time.After(90 * time.Second):
		rep.Violation("mux/idle/not-terminating", "the idle scenario did not finish within 90 s", nil)
		return
	}
	rep.Eval(1)
	w := map[string]any{"first": res.firstTok + res.firstErr, "quiet_ms": res.quiet.Milliseconds(), "second_send_error": res.secondSendErr, "second_callbacks": res.secondCBs, "second_token": res.secondTok, "second_callback_error": res.secondErr, "client_answered": res.clientAnswers}
	if res.firstTok != "answer-for-Idle/first" {
		rep.Inconcl(fmt.Sprintf("idle scenario: the first request was not answered (%v)", w))
		return
	}
	answeredSecond := false
	for _, a := range res.clientAnswers {
		answeredSecond = answeredSecond || a == "answer-for-Idle/second"
	}
	switch {
	case res.secondSendErr != "":
		rep.DistinctKey("refused-after-quiet-spell")
		rep.Count("idle_second_refused", 1)
		if res.secondCBs != 0 {
			rep.Violation("mux/idle/callback-after-refused-send", "the send after the quiet spell was refused but its callback fired", w)
		}
	case res.secondCBs != 1:
		rep.Violation(fmt.Sprintf("mux/idle/callback-count/%d", res.secondCBs), "the request sent after the quiet spell was accepted but its callback did not fire exactly once", w)
	case answeredSecond && res.secondTok != "answer-for-Idle/second":
		rep.Violation("mux/idle/answered-request-reported-as-error", fmt.Sprintf("the client answered the request sent after a %v quiet spell correctly, but the callback got token %q / error %q", res.quiet.Round(time.Second), res.secondTok, res.secondErr), w)
	default:
		rep.DistinctKey("accepted-and-answered")
		rep.Count("idle_second_answered", 1)
	}
	rep.Note("after a %v quiet spell: send error %q, callbacks %d, token %q, callback error %q", res.quiet.Round(100*time.Millisecond), res.secondSendErr, res.secondCBs, res.secondTok, res.secondErr)
	rep.Sample(map[string]any{"history": "A answered; 21.5 s of silence; B", "expect": "B refused, or B answered with the client's own answer"})
}


func vfRecordCallback(mu *sync.Mutex, callbacks map[string][]vfCallback, sendID int, name string, resp *conformancev1.ClientCompatResponse, err error) {
	rec := vfCallback{Send: sendID}
	if err != nil {
		rec.Err = err.Error()
	} else if resp != nil {
		rec.Token = resp.GetError().GetMessage()
		if resp.TestName != name {
			rec.Err = "callback name " + name + " but response carries " + resp.TestName
		}
	}
	mu.Lock()
	callbacks[name] = append(callbacks[name], rec)
	mu.Unlock()
}


// ---- an in-process client whose output ends cleanly but whose goroutine lingers ----

type vfLingerResult struct {
	answered   bool
	waitErr    string
	waitTook   time.Duration
	waitDone   bool
	stopTook   time.Duration
	stopDone   bool
	lateRefuse bool
}

var (
	vfLingerOnce sync.Once
	vfLingerCh   = make(chan *vfLingerResult, 1)
)

func vfStartLingerScenario() {
	vfLingerOnce.Do(func() {
		go func() {
			res := &vfLingerResult{}
			defer func() { vfLingerCh <- res }()
			release := make(chan struct{})
			defer close(release)
			impl := func(_ context.Context, _ []string, in io.ReadCloser, out, _ io.WriteCloser) error {
				var pre [4]byte
				if _, err := io.ReadFull(in, pre[:]); err != nil {
					return nil
				}
				buf := make([]byte, binary.BigEndian.Uint32(pre[:]))
				if _, err := io.ReadFull(in, buf); err != nil {
					return nil
				}
				_, _ = out.Write(vfFrameResp("Linger/first", "answer-for-Linger/first"))
				_ = out.Close() // the output ends cleanly ...
				<-release       // ... but the goroutine lingers (a stuck RPC, a leaked worker) and ignores cancellation
				return nil
			}
			ctx, cancel := context.WithCancel(context.Background())
			defer cancel()
			runner, err := runClient(ctx, runInProcess([]string{"lingering-client"}, impl))
			if err != nil {
				return
			}
			first := make(chan struct{})
			_ = runner.sendRequest(&conformancev1.ClientCompatRequest{TestName: "Linger/first"}, func(_ string, resp *conformancev1.ClientCompatResponse, err error) {
				res.answered = err == nil && resp.GetError().GetMessage() == "answer-for-Linger/first"
				close(first)
			})
			select {
			case <-first:
			case <-time.After(15 * time.Second):
				return
			}
			runner.closeSend()
			start := time.Now()
			waitC := make(chan error, 1)
			go func() { waitC <- runner.waitForResponses() }()
			select {
			case err := <-waitC:
				res.waitDone, res.waitTook = true, time.Since(start)
				res.waitErr = fmt.Sprint(err)
			case <-time.After(40 * time.Second):
				res.waitTook = time.Since(start)
				return
			}
			res.lateRefuse = runner.sendRequest(&conformancev1.ClientCompatRequest{TestName: "Linger/late"}, func(string, *conformancev1.ClientCompatResponse, error) {}) != nil
			start = time.Now()
			stopC := make(chan struct{})
			go func() { runner.stop(); close(stopC) }()
			select {
			case <-stopC:
				res.stopDone, res.stopTook = true, time.Since(start)
			case <-time.After(40 * time.Second):
				res.stopTook = time.Since(start)
			}
		}()
	})
}

// TestVerifC10ZLinger judges the lingering-client scenario.
func TestVerifC10ZLinger(t *testing.T) {
	rep := verifkit.Begin("C10", "linger", "in-process client that answers one request, closes its output cleanly and then neither returns nor reacts to cancellation; closeSend, waitForResponses, a late send, stop; oracle: the request got its answer, waitForResponses and stop return within the progress bound (40 s; the graceful periods add up to about 8 s), the late send is refused; distinct = outcome")
	defer rep.Write()
	vfStartLingerScenario()
	var res *vfLingerResult
	select {
	case res = <-vfLingerCh:
	case <-time.After(120 * time.Second):
		rep.Violation("mux/linger/not-terminating", "the lingering-client scenario did not finish within 120 s", nil)
		return
	}
	rep.Eval(1)
	rep.DistinctKey(res.waitDone, res.stopDone)
	w := map[string]any{"answered": res.answered, "wait_returned": res.waitDone, "wait_took_ms": res.waitTook.Milliseconds(), "wait_error": res.waitErr, "stop_returned": res.stopDone, "stop_took_ms": res.stopTook.Milliseconds(), "late_send_refused": res.lateRefuse}
	if !res.answered {
		rep.Inconcl(fmt.Sprintf("linger scenario: the first request was not answered (%v)", w))
		return
	}
	if !res.waitDone {
		rep.Violation("mux/linger/wait-does-not-return", fmt.Sprintf("waitForResponses had not returned %v after the client's output ended cleanly (its goroutine lingers)", res.waitTook.Round(time.Second)), w)
		return
	}
	if !res.lateRefuse {
		rep.Violation("mux/linger/late-send-accepted", "a send after the client's output ended was accepted", w)
	}
	if !res.stopDone {
		rep.Violation("mux/linger/stop-does-not-return", "stop() did not return within the progress bound", w)
	}
	rep.Count("linger_wait_returned", 1)
	rep.Note("waitForResponses returned after %v (%s), stop after %v", res.waitTook.Round(100*time.Millisecond), res.waitErr, res.stopTook.Round(100*time.Millisecond))
	rep.Sample(map[string]any{"client": "answers, closes stdout, lingers", "expect": "waitForResponses returns after the graceful periods"})
}
