//go:build verif

package connectconformance

import (
	"crypto/sha256"
	"encoding/json"
	"fmt"
	"os"
	"path/filepath"
	"sort"
	"strings"
	"testing"

	"connectrpc.com/conformance/internal/app/connectconformance/testsuites"
	conformancev1 "connectrpc.com/conformance/internal/gen/proto/go/connectrpc/conformance/v1"
	"connectrpc.com/conformance/internal/verifkit"
	"google.golang.org/protobuf/encoding/protojson"
	"google.golang.org/protobuf/proto"
	"google.golang.org/protobuf/types/known/anypb"
)

func vfRandSuite(r *verifkit.Rand, name string) *conformancev1.TestSuite {
	s := &conformancev1.TestSuite{Name: name, Mode: conformancev1.TestSuite_TestMode(r.Intn(3))}
	pick := func(n int) []int32 {
		if r.Bool() {
			return nil
		}
		var out []int32
		for i := 1; i <= n; i++ {
			if r.Bool() {
				out = append(out, int32(i))
			}
		}
		// relevance lists are sets written down in any order
		if r.Bool() {
			for i := len(out) - 1; i > 0; i-- {
				j := r.Intn(i + 1)
				out[i], out[j] = out[j], out[i]
			}
		}
		return out
	}
	for _, v := range pick(3) {
		s.RelevantProtocols = append(s.RelevantProtocols, conformancev1.Protocol(v))
	}
	for _, v := range pick(3) {
		s.RelevantHttpVersions = append(s.RelevantHttpVersions, conformancev1.HTTPVersion(v))
	}
	for _, v := range pick(2) {
		s.RelevantCodecs = append(s.RelevantCodecs, conformancev1.Codec(v))
	}
	if r.Chance(1, 8) {
		// the deprecated text codec is still a value a suite file may list; no config case has it
		switch r.Intn(3) {
		case 0:
			s.RelevantCodecs = []conformancev1.Codec{conformancev1.Codec_CODEC_TEXT}
		case 1:
			s.RelevantCodecs = append(s.RelevantCodecs, conformancev1.Codec_CODEC_TEXT)
		default:
			s.RelevantCodecs = append([]conformancev1.Codec{conformancev1.Codec_CODEC_TEXT}, s.RelevantCodecs...)
		}
	}
	for _, v := range pick(6) {
		s.RelevantCompressions = append(s.RelevantCompressions, conformancev1.Compression(v))
	}
	s.ReliesOnTls = r.Chance(1, 3)
	s.ReliesOnTlsClientCerts = r.Chance(1, 4)
	if s.ReliesOnTlsClientCerts && r.Chance(3, 4) {
		s.ReliesOnTls = true
	}
	s.ReliesOnConnectGet = r.Chance(1, 5)
	if s.ReliesOnConnectGet && r.Chance(3, 4) {
		s.RelevantProtocols = []conformancev1.Protocol{conformancev1.Protocol_PROTOCOL_CONNECT}
	}
	s.ReliesOnMessageReceiveLimit = r.Chance(1, 4)
	stNames := []string{"unary", "cs", "ss", "half", "full"}
	for k := 1 + r.Intn(5); k > 0; k-- {
		st := conformancev1.StreamType(1 + r.Intn(5))
		req := &conformancev1.ClientCompatRequest{TestName: fmt.Sprintf("%s/t%d", stNames[st-1], r.Intn(5)), StreamType: st}
		switch r.Intn(12) {
		case 0: // explicit service+method
			req.Service, req.Method = proto.String("my.pkg.Service"), proto.String("Do")
		case 1:
			req.Service = proto.String("my.pkg.Service") // no method: invalid if expanded
		case 2:
			req.Method = proto.String("Do") // no service: invalid if expanded
		}
		if r.Chance(1, 8) {
			req.TestName = fmt.Sprintf("t%d", r.Intn(3)) // flat names too
		}
		if r.Chance(1, 10) {
			// names that also occur as (part of) a suite name or an axis component of the full name
			req.TestName = verifkit.Pick(r, []string{"2", "false", "true", "Suite", "CODEC_PROTO", "TLS:false", "1/2", "Protocol:PROTOCOL_GRPC/x"})
		}
		// fields the expansion owns may be pre-set in the YAML; they must be overwritten per permutation
		if r.Chance(1, 6) {
			req.ServerTlsCert = []byte("from-yaml")
		}
		if r.Chance(1, 6) {
			req.ClientTlsCreds = &conformancev1.TLSCreds{Cert: []byte("from-yaml"), Key: []byte("from-yaml")}
		}
		if r.Chance(1, 6) {
			req.HttpVersion, req.Protocol = conformancev1.HTTPVersion(1+r.Intn(3)), conformancev1.Protocol(1+r.Intn(3))
			req.Codec, req.Compression = conformancev1.Codec(1+r.Intn(2)), conformancev1.Compression(1+r.Intn(6))
		}
		tc := &conformancev1.TestCase{Request: req}
		// raw request/response shapes matter to the gRPC-peer filter
		if s.Mode == conformancev1.TestSuite_TEST_MODE_SERVER && r.Chance(1, 6) {
			req.RawRequest = &conformancev1.RawHTTPRequest{Verb: "POST", Uri: "/x"}
			tc.ExpectedResponse = &conformancev1.ClientResponseResult{}
		}
		if s.Mode == conformancev1.TestSuite_TEST_MODE_CLIENT && r.Chance(1, 6) {
			var m proto.Message
			raw := &conformancev1.RawHTTPResponse{StatusCode: 200}
			switch st {
			case 1:
				m = &conformancev1.UnaryRequest{ResponseDefinition: &conformancev1.UnaryResponseDefinition{RawResponse: raw}}
				if r.Bool() {
					m = &conformancev1.IdempotentUnaryRequest{ResponseDefinition: &conformancev1.UnaryResponseDefinition{RawResponse: raw}}
				}
			case 2:
				m = &conformancev1.ClientStreamRequest{ResponseDefinition: &conformancev1.UnaryResponseDefinition{RawResponse: raw}}
			case 3:
				m = &conformancev1.ServerStreamRequest{ResponseDefinition: &conformancev1.StreamResponseDefinition{RawResponse: raw}}
			default:
				m = &conformancev1.BidiStreamRequest{ResponseDefinition: &conformancev1.StreamResponseDefinition{RawResponse: raw}}
			}
			a, _ := anypb.New(m)
			req.RequestMessages = []*anypb.Any{a}
			tc.ExpectedResponse = &conformancev1.ClientResponseResult{}
		}
		s.TestCases = append(s.TestCases, tc)
	}
	return s
}

func vfOnly[T comparable](s []T, v T) bool {
	if len(s) == 0 {
		return false
	}
	for _, e := range s {
		if e != v {
			return false
		}
	}
	return true
}

// vfLibraryInvalid: the classes of suite sets that must be rejected.
func vfLibraryInvalid(suites map[string]*conformancev1.TestSuite, cases []configCase, mode conformancev1.TestSuite_TestMode) string {
	names := map[string]bool{}
	for _, s := range suites {
		if names[s.Name] {
			return "two files define the same suite name"
		}
		names[s.Name] = true
	}
	for _, s := range suites {
		if s.Mode != 0 && s.Mode != mode {
			continue
		}
		if s.ReliesOnTlsClientCerts && !s.ReliesOnTls {
			return "relies on client certs but not on TLS"
		}
		if s.ReliesOnConnectGet && !vfOnly(s.RelevantProtocols, conformancev1.Protocol_PROTOCOL_CONNECT) {
			return "relies on GET but is not Connect-only"
		}
	}
	perms, dup := vfPermutations(suites, cases, mode)
	if dup != "" {
		return "duplicate permutation name " + dup
	}
	for _, p := range perms {
		r := p.Test.Request
		if (r.GetService() == "") != (r.GetMethod() == "") {
			return "service without method or method without service in an expanded test"
		}
	}
	if len(perms) == 0 {
		return "nothing applies"
	}
	return ""
}

func vfCloneSuites(suites map[string]*conformancev1.TestSuite) map[string]*conformancev1.TestSuite {
	cl := map[string]*conformancev1.TestSuite{}
	for k, v := range suites {
		cl[k] = proto.Clone(v).(*conformancev1.TestSuite)
	}
	return cl
}

func vfDescribeSuites(suites map[string]*conformancev1.TestSuite) []string {
	var out []string
	for _, k := range verifkit.SortedKeys(suites) {
		j, _ := protojson.Marshal(suites[k])
		out = append(out, k+": "+verifkit.Trunc(string(j), 1500))
	}
	return out
}

// vfCheckLibrary compares one expansion with the model; returns a digest of
// the observable result (names + request fields + grouping).
func vfCheckLibrary(rep *verifkit.Report, suites map[string]*conformancev1.TestSuite, cases []configCase, mode conformancev1.TestSuite_TestMode, label string) string {
	return vfCheckLibraryLive(rep, suites, nil, cases, mode, label)
}

// vfCheckLibraryLive: live, when given, are the suite objects handed to the
// library (parsed once and expanded repeatedly, as TestRun and embedding
// programs do); the model always works from the pristine definitions.
func vfCheckLibraryLive(rep *verifkit.Report, suites, live map[string]*conformancev1.TestSuite, cases []configCase, mode conformancev1.TestSuite_TestMode, label string) string {
	rep.Eval(1)
	w := map[string]any{"suites": vfDescribeSuites(suites), "mode": mode.String(), "config_cases": len(cases), "cases_from": label}
	rep.InFlight(w)
	invalid := vfLibraryInvalid(suites, cases, mode)
	var lib *testCaseLibrary
	var err error
	if live == nil {
		live = vfCloneSuites(suites)
	}
	if p := verifkit.Catch(func() { lib, err = newTestCaseLibrary(live, cases, mode) }); p != nil {
		rep.Violation("library/panic/"+p.Site, "newTestCaseLibrary panicked: "+p.Value, map[string]any{"input": w, "stack": p.Stack})
		return "panic"
	}
	switch {
	case err != nil && invalid != "":
		rep.Count("agree_error", 1)
		return "error"
	case err != nil:
		rep.Violation("library/over-reject", "valid suite set rejected: "+err.Error(), w)
		return "error"
	case invalid != "":
		rep.Violation("library/invalid-accepted/"+strings.SplitN(invalid, " ", 4)[0]+"-"+strings.SplitN(invalid+" x x", " ", 4)[1], "invalid suite set accepted ("+invalid+")", w)
		return "accepted-invalid"
	}
	rep.Count("agree_set_checked", 1)
	model, _ := vfPermutations(suites, cases, mode)
	rep.DistinctKey(vfDescribeSuites(suites), mode, len(cases), label)
	bad := func(key, what string) {
		rep.Violation("library/"+key, what, w)
	}
	// 1. the set of names
	for n := range model {
		if _, ok := lib.testCases[n]; !ok {
			bad("missing-permutation", "permutation "+n+" should exist but was not produced")
			break
		}
	}
	for n := range lib.testCases {
		if _, ok := model[n]; !ok {
			bad("extra-permutation", "permutation "+n+" was produced but the directives do not admit it (or its name spells the wrong axes)")
			break
		}
	}
	// 2. request population
	var digest []string
	for n, tc := range lib.testCases {
		p, ok := model[n]
		if !ok {
			continue
		}
		rep.Count("permutations_checked", 1)
		r := tc.Request
		c := p.Case
		if r.TestName != n {
			bad("request-name", fmt.Sprintf("request of %q carries test name %q", n, r.TestName))
		}
		if r.HttpVersion != c.Version || r.Protocol != c.Protocol || r.Codec != c.Codec || r.Compression != c.Compression {
			bad("request-axes", fmt.Sprintf("%s: request carries (%v,%v,%v,%v), case is (%v,%v,%v,%v)", n, r.HttpVersion, r.Protocol, r.Codec, r.Compression, c.Version, c.Protocol, c.Codec, c.Compression))
		}
		if r.StreamType != c.StreamType {
			bad("request-stream-type", fmt.Sprintf("%s: stream type %v under case %v", n, r.StreamType, c.StreamType))
		}
		if (len(r.ServerTlsCert) > 0) != c.UseTLS {
			bad("tls-marker", fmt.Sprintf("%s: server cert marker present=%v but case TLS=%v", n, len(r.ServerTlsCert) > 0, c.UseTLS))
		}
		if (r.ClientTlsCreds != nil) != c.UseTLSClientCerts {
			bad("client-cert-marker", fmt.Sprintf("%s: client creds marker present=%v but case client certs=%v", n, r.ClientTlsCreds != nil, c.UseTLSClientCerts))
		}
		orig := p.Test.Request
		wantSvc, wantMeth := orig.GetService(), orig.GetMethod()
		if wantSvc == "" && wantMeth == "" {
			wantSvc, wantMeth = "connectrpc.conformance.v1.ConformanceService", vfDefaultMethod(orig.StreamType)
		}
		if r.GetService() != wantSvc || r.GetMethod() != wantMeth {
			bad("service-method", fmt.Sprintf("%s: service/method %q/%q, want %q/%q", n, r.GetService(), r.GetMethod(), wantSvc, wantMeth))
		}
		if lib.testCaseNames[n] != p.Simple {
			bad("simple-name", fmt.Sprintf("%s: recorded simple name %q want %q", n, lib.testCaseNames[n], p.Simple))
		}
		if tc.ExpectedResponse == nil {
			bad("no-expectation", n+": no expected response populated")
		}
		digest = append(digest, fmt.Sprintf("%s|%v|%v|%v|%v|%v|%v|%s|%s", n, r.HttpVersion, r.Protocol, r.Codec, r.Compression, len(r.ServerTlsCert) > 0, r.ClientTlsCreds != nil, r.GetService(), r.GetMethod()))
	}
	// 3. grouping: exactly one server instance per permutation, keyed by its axes
	seen := map[string]int{}
	for inst, tcs := range lib.casesByServer {
		if len(tcs) == 0 {
			bad("empty-server-group", fmt.Sprintf("server instance %+v has no cases", inst))
		}
		for _, tc := range tcs {
			n := tc.Request.TestName
			seen[n]++
			p, ok := model[n]
			if !ok {
				continue
			}
			want := serverInstance{protocol: p.Case.Protocol, httpVersion: p.Case.Version, useTLS: p.Case.UseTLS, useTLSClientCerts: p.Case.UseTLSClientCerts}
			if inst != want {
				bad("wrong-server-group", fmt.Sprintf("%s grouped under %+v, its case needs %+v", n, inst, want))
			}
			digest = append(digest, fmt.Sprintf("G|%s|%+v", n, inst))
		}
	}
	for n := range lib.testCases {
		if seen[n] != 1 {
			bad("group-count", fmt.Sprintf("%s appears in %d server groups", n, seen[n]))
		}
	}
	// 4. gRPC-peer permutations
	for _, flags := range [][2]bool{{false, false}, {true, false}, {false, true}} {
		got := map[string]int{}
		for _, tc := range lib.allPermutations(flags[0], flags[1]) {
			got[tc.Request.TestName]++
		}
		want := map[string]bool{}
		for n, p := range model {
			want[n] = true
			if (flags[0] || flags[1]) && vfGRPCApplies(p.Case, p.Test, flags[0], flags[1]) {
				want[vfGRPCMarkedName(n, p.Simple, flags[0], flags[1])] = true
				rep.Count("grpc_permutations", 1)
			}
		}
		for n := range want {
			if got[n] != 1 {
				bad("grpc-missing", fmt.Sprintf("allPermutations(grpcClient=%v,grpcServer=%v): %q issued %d times, want once", flags[0], flags[1], n, got[n]))
				break
			}
		}
		for n := range got {
			if !want[n] {
				bad("grpc-extra", fmt.Sprintf("allPermutations(grpcClient=%v,grpcServer=%v): %q issued but the gRPC peers do not support it / wrong marker", flags[0], flags[1], n))
				break
			}
		}
		for _, n := range verifkit.SortedKeys(got) {
			digest = append(digest, fmt.Sprintf("P%v%v|%s", flags[0], flags[1], n))
		}
	}
	sort.Strings(digest)
	h := sha256.Sum256([]byte(strings.Join(digest, "\n")))
	return fmt.Sprintf("%x", h[:8])
}

func vfModelCases(cfg *conformancev1.Config) []configCase {
	want, contradiction, _ := vfConfigModel(cfg)
	if contradiction != "" {
		return nil
	}
	out := make([]configCase, 0, len(want))
	for c := range want {
		out = append(out, c)
	}
	sort.Slice(out, func(i, j int) bool { return fmt.Sprint(out[i]) < fmt.Sprint(out[j]) })
	return out
}

// TestVerifC07Library: generated suite sets x config-case sets x modes, each
// expanded 5 times in this process; a digest per input is written so the
// driver can compare a second process (map iteration order differs).
func TestVerifC07Library(t *testing.T) {
	runIdx := verifkit.EnvInt("VERIF_RUNIDX", 0)
	rep := verifkit.Begin("C07", fmt.Sprintf("library-%d", runIdx), "generated suite sets (1-4 suites; every combination of mode, relevance lists, reliance directives; 1-5 tests of mixed stream types; explicit/implicit/half-specified service+method; raw request/response shapes; duplicate suite and test names) x config cases (default config, shipped reference config, model-expanded random configs, random subsets, singletons) x 3 run modes, each expanded 5x from the same parsed suite objects with expansions for other configurations in between; distinct = inputs on which a valid expansion was compared element-wise")
	defer rep.Write()
	defData, _ := protojson.Marshal(&conformancev1.Config{})
	defCases, err := parseConfig("default", defData)
	if err != nil {
		t.Fatal(err)
	}
	refData, err := os.ReadFile(filepath.Join(os.Getenv("VERIF_REPO"), "testing/reference-impls-config.yaml"))
	if err != nil {
		t.Fatal(err)
	}
	refCases, err := parseConfig("ref", refData)
	if err != nil {
		t.Fatal(err)
	}
	// parseConfig returns its set in map order; fix an order so that the seed determines the inputs
	for _, cs := range [][]configCase{defCases, refCases} {
		cs := cs
		sort.Slice(cs, func(i, j int) bool { return fmt.Sprint(cs[i]) < fmt.Sprint(cs[j]) })
	}
	rng := verifkit.Stream("c07lib")
	n := verifkit.Scale(2500, 60000)
	var digests []string
	for it := 0; it < n; it++ {
		suites := map[string]*conformancev1.TestSuite{}
		for k := 1 + rng.Intn(4); k > 0; k-- {
			suites[fmt.Sprintf("f%d.yaml", k)] = vfRandSuite(rng, fmt.Sprintf("Suite %d", rng.Intn(5)))
		}
		if rng.Chance(1, 4) {
			// a twin suite: same simple test names as an existing suite, client mode, raw-ness of every case flipped
			// (simple names are unique only within a suite; whatever is keyed by them must not leak across suites)
			for _, k := range verifkit.SortedKeys(suites) {
				src := suites[k]
				twin := proto.Clone(src).(*conformancev1.TestSuite)
				twin.Name = src.Name + " twin"
				twin.Mode = conformancev1.TestSuite_TEST_MODE_CLIENT
				for ti, tc := range twin.TestCases {
					tc.Request.RawRequest = nil
					_ = ti
					if len(tc.Request.RequestMessages) > 0 {
						tc.Request.RequestMessages = nil
						continue
					}
					var m proto.Message
					raw := &conformancev1.RawHTTPResponse{StatusCode: 200}
					switch tc.Request.StreamType {
					case 1:
						m = &conformancev1.UnaryRequest{ResponseDefinition: &conformancev1.UnaryResponseDefinition{RawResponse: raw}}
						if ti%2 == 1 {
							m = &conformancev1.IdempotentUnaryRequest{ResponseDefinition: &conformancev1.UnaryResponseDefinition{RawResponse: raw}}
						}
					case 2:
						m = &conformancev1.ClientStreamRequest{ResponseDefinition: &conformancev1.UnaryResponseDefinition{RawResponse: raw}}
					case 3:
						m = &conformancev1.ServerStreamRequest{ResponseDefinition: &conformancev1.StreamResponseDefinition{RawResponse: raw}}
					default:
						m = &conformancev1.BidiStreamRequest{ResponseDefinition: &conformancev1.StreamResponseDefinition{RawResponse: raw}}
					}
					a, _ := anypb.New(m)
					tc.Request.RequestMessages = []*anypb.Any{a}
					tc.ExpectedResponse = &conformancev1.ClientResponseResult{}
				}
				suites["twin-"+k] = twin
				rep.Count("twin_suites", 1)
				break
			}
		}
		var cases []configCase
		label := ""
		switch rng.Intn(5) {
		case 0:
			cases, label = defCases, "default"
		case 1:
			cases, label = refCases, "reference"
		case 2:
			cases, label = vfModelCases(vfRandConfig(rng)), "model(random config)"
		case 3:
			for _, c := range refCases {
				if rng.Chance(1, 20) {
					cases = append(cases, c)
				}
			}
			label = "random subset of reference"
		default:
			cases, label = []configCase{verifkit.Pick(rng, refCases)}, "singleton"
		}
		mode := conformancev1.TestSuite_TestMode(rng.Intn(3))
		first := ""
		// the same parsed suites are expanded again and again, with other configurations in between
		live := vfCloneSuites(suites)
		for rpt := 0; rpt < 5; rpt++ {
			if rpt > 0 && len(refCases) > 0 {
				var other []configCase
				switch rng.Intn(3) {
				case 0:
					other = []configCase{verifkit.Pick(rng, refCases)}
				case 1:
					other = vfModelCases(vfRandConfig(rng))
				default:
					for _, c := range refCases {
						if rng.Chance(1, 30) {
							other = append(other, c)
						}
					}
				}
				rep.Count("interleaved_other_config", 1)
				vfCheckLibraryLive(rep, suites, live, other, conformancev1.TestSuite_TestMode(rng.Intn(3)), "other configuration between repeats")
			}
			d := vfCheckLibraryLive(rep, suites, live, cases, mode, label)
			if rpt == 0 {
				first = d
			} else if d != first {
				rep.Violation("library/unstable", fmt.Sprintf("expansion #%d of the same input differs from the first (digest %s vs %s)", rpt+1, d, first),
					map[string]any{"suites": vfDescribeSuites(suites), "mode": mode.String(), "cases_from": label})
			}
		}
		digests = append(digests, first)
	}
	_ = os.WriteFile(filepath.Join(os.Getenv("VERIF_REPORT_DIR"), fmt.Sprintf("c07-digests-%d.txt", runIdx)), []byte(strings.Join(digests, "\n")), 0o644)
	rep.Sample(map[string]any{"suite": "name=S relevantProtocols=[CONNECT] reliesOnTls tests=[unary/t1]", "case": "HTTP/2 Connect proto gzip unary TLS", "expect_name": "S/HTTPVersion:2/Codec:CODEC_PROTO/Compression:COMPRESSION_GZIP/unary/t1"})
	rep.RequireMin("agree_set_checked", 200)
	rep.RequireMin("agree_error", 200)
	rep.RequireMin("grpc_permutations", 100)
}

// TestVerifC07Embedded: the embedded corpus x the shipped configs is one
// fixed input; also emits the independent permutation counts used by C01.
func TestVerifC07Embedded(t *testing.T) {
	rep := verifkit.Begin("C07", "embedded", "embedded suites x {reference, grpc, grpc-web-server} shipped configs x both modes, compared name-by-name and field-by-field with the model; distinct = permutations checked")
	defer rep.Write()
	data, err := testsuites.LoadTestSuites()
	if err != nil {
		t.Fatal(err)
	}
	suites, err := parseTestSuites(data)
	if err != nil {
		t.Fatal(err)
	}
	for _, run := range []struct {
		cfg  string
		mode conformancev1.TestSuite_TestMode
	}{
		{"testing/reference-impls-config.yaml", conformancev1.TestSuite_TEST_MODE_SERVER},
		{"testing/reference-impls-config.yaml", conformancev1.TestSuite_TEST_MODE_CLIENT},
		{"testing/grpc-impls-config.yaml", conformancev1.TestSuite_TEST_MODE_SERVER},
		{"testing/grpc-impls-config.yaml", conformancev1.TestSuite_TEST_MODE_CLIENT},
		{"testing/grpc-web-server-impl-config.yaml", conformancev1.TestSuite_TEST_MODE_SERVER},
	} {
		cfgData, err := os.ReadFile(filepath.Join(os.Getenv("VERIF_REPO"), run.cfg))
		if err != nil {
			t.Fatal(err)
		}
		cases, err := parseConfig(run.cfg, cfgData)
		if err != nil {
			rep.Violation("library/shipped-config-rejected", run.cfg+": "+err.Error(), nil)
			continue
		}
		before := rep.Counts["permutations_checked"]
		vfCheckLibrary(rep, suites, cases, run.mode, run.cfg)
		rep.Note("%s mode=%v: %d config cases, %d permutations checked", run.cfg, run.mode, len(cases), rep.Counts["permutations_checked"]-before)
		rep.DistinctKey(run.cfg, run.mode)
	}
	rep.Distinct = rep.Counts["permutations_checked"]
	rep.Exhaustive = true
	rep.Sample(map[string]any{"config": "testing/reference-impls-config.yaml", "mode": "server", "check": "every produced permutation name, request axes, TLS markers, service/method, server group, gRPC-peer marked twin"})
}

// TestVerifC07ParseModeRules: hand-crafted (raw) requests exist only in
// server-mode suites and raw responses only in client-mode suites; the loader
// enforces that whatever else the test case contains.
func TestVerifC07ParseModeRules(t *testing.T) {
	rep := verifkit.Begin("C07", "parse-mode-rules", "suite files through parseTestSuites: mode {unset, client, server} x raw payload {raw request, raw response in a unary / stream definition} x {with, without request messages; with extra ordinary cases before/after} x the five request message types (IdempotentUnaryRequest included) and stream types; oracle: accepted exactly when a raw request sits in a server-mode suite / a raw response in a client-mode suite; ordinary cases are accepted in every mode; distinct = (mode, payload, shape)")
	defer rep.Write()
	modes := []string{"", "TEST_MODE_CLIENT", "TEST_MODE_SERVER"}
	stNames := []string{"STREAM_TYPE_UNARY", "STREAM_TYPE_CLIENT_STREAM", "STREAM_TYPE_SERVER_STREAM", "STREAM_TYPE_HALF_DUPLEX_BIDI_STREAM", "STREAM_TYPE_FULL_DUPLEX_BIDI_STREAM", "STREAM_TYPE_UNARY"}
	msgTypes := []string{"UnaryRequest", "ClientStreamRequest", "ServerStreamRequest", "BidiStreamRequest", "BidiStreamRequest", "IdempotentUnaryRequest"}
	for mi, mode := range modes {
		for _, payload := range []string{"none", "raw-request", "raw-response"} {
			for st := 0; st < len(msgTypes); st++ {
				for _, withMsgs := range []bool{true, false} {
					for _, neighbours := range []bool{false, true} {
						if payload == "raw-response" && !withMsgs {
							continue // a raw response lives in the first request message
						}
						req := map[string]any{"testName": "crafted", "streamType": stNames[st]}
						if withMsgs {
							msg := map[string]any{"@type": "type.googleapis.com/connectrpc.conformance.v1." + msgTypes[st]}
							if payload == "raw-response" {
								msg["responseDefinition"] = map[string]any{"rawResponse": map[string]any{"statusCode": 200}}
							}
							req["requestMessages"] = []any{msg}
						}
						tc := map[string]any{"request": req}
						if payload == "raw-request" {
							req["rawRequest"] = map[string]any{"verb": "POST", "uri": "/x"}
						}
						if payload != "none" {
							tc["expectedResponse"] = map[string]any{}
						}
						cases := []any{tc}
						if neighbours {
							plain := func(n string) any {
								return map[string]any{"request": map[string]any{"testName": n, "streamType": stNames[st], "requestMessages": []any{map[string]any{"@type": "type.googleapis.com/connectrpc.conformance.v1." + msgTypes[st]}}}}
							}
							cases = []any{plain("before"), tc, plain("after")}
						}
						suite := map[string]any{"name": "Mode Rules", "testCases": cases}
						if mode != "" {
							suite["mode"] = mode
						}
						js, _ := json.Marshal(suite)
						rep.Eval(1)
						rep.DistinctKey(mi, payload, st, withMsgs, neighbours)
						w := map[string]any{"suite_file": string(js)}
						var err error
						if p := verifkit.Catch(func() { _, err = parseTestSuites(map[string][]byte{"mode.yaml": js}) }); p != nil {
							rep.Violation("library/parse/panic/"+p.Site, p.Value, w)
							continue
						}
						wantOK := payload == "none" || (payload == "raw-request" && mode == "TEST_MODE_SERVER") || (payload == "raw-response" && mode == "TEST_MODE_CLIENT")
						switch {
						case wantOK && err != nil:
							rep.Violation("library/parse/over-reject/"+payload, fmt.Sprintf("a %s case in a suite of mode %q is rejected: %v", payload, mode, err), w)
						case !wantOK && err == nil:
							shape := "with-messages"
							if !withMsgs {
								shape = "without-messages"
							}
							rep.Violation("library/parse/mode-rule-not-enforced/"+payload+"/"+shape, fmt.Sprintf("a %s case (%s) in a suite of mode %q was accepted", payload, shape, mode), w)
						default:
							rep.Count("parse_mode_rules_agree", 1)
						}
					}
				}
			}
		}
	}
	rep.Exhaustive = true
	rep.Sample(map[string]any{"mode": "TEST_MODE_CLIENT", "case": "rawRequest without requestMessages", "expect": "rejected"})
	rep.RequireMin("parse_mode_rules_agree", 50)
}
