//go:build verif

package connectconformance

import (
	"fmt"
	"os"
	"path/filepath"
	"strings"
	"testing"

	conformancev1 "connectrpc.com/conformance/internal/gen/proto/go/connectrpc/conformance/v1"
	"connectrpc.com/conformance/internal/verifkit"
	"google.golang.org/protobuf/encoding/protojson"
	"google.golang.org/protobuf/proto"
	"google.golang.org/protobuf/types/known/anypb"
)

// ---- generator of well-formed test cases in the deterministic fragment ----

func vfGenPayload(r *verifkit.Rand) []byte {
	switch r.Intn(6) {
	case 0:
		return nil
	case 1:
		return []byte{0}
	case 2:
		b := make([]byte, 256)
		for i := range b {
			b[i] = byte(i)
		}
		return b
	case 3:
		return r.Bytes(4096)
	case 4:
		return []byte{}
	}
	return []byte("hello")
}

func vfGenHeaders(r *verifkit.Rand, prefix string) []*conformancev1.Header {
	var out []*conformancev1.Header
	n := r.Intn(4)
	for i := 0; i < n; i++ {
		name := fmt.Sprintf("%s-%s-%d", verifkit.Pick(r, []string{"X", "x", "X-Mixed", "x-lower"}), prefix, i)
		var vals []string
		for k := 1 + r.Intn(3); k > 0; k-- {
			vals = append(vals, verifkit.Pick(r, []string{"a", "Value With Spaces", "v,with,commas", "", "z=1; q=\"x\"", "~!@#$%^&*()", "a, ,b", "x,,y", "one, two"}))
		}
		if r.Chance(1, 4) {
			name += verifkit.Pick(r, []string{"-bin", "-Bin"})
			vals = nil
			for k := 1 + r.Intn(2); k > 0; k-- {
				vals = append(vals, verifkit.RawB64(r.Bytes(r.Intn(7))))
			}
		}
		out = append(out, &conformancev1.Header{Name: name, Value: vals})
	}
	return out
}

func vfGenError(r *verifkit.Rand) *conformancev1.Error {
	e := &conformancev1.Error{Code: conformancev1.Code(1 + r.Intn(16))}
	switch r.Intn(7) {
	case 0:
	case 1:
		e.Message = proto.String("")
	case 2:
		e.Message = proto.String("plain ascii message")
	case 3:
		e.Message = proto.String("ünïcödé ✓ message")
	case 4:
		e.Message = proto.String("100% sure\tit's: \"quoted\"\nnewline")
	case 5:
		e.Message = proto.String(verifkit.Pick(r, []string{"trailing percent %", "1+1=2 & a+b; x=1&y=2+3", "under_score and +plus+"}))
	case 6:
		e.Message = proto.String("ctl\x01\x7f inside")
	}
	for k := r.Intn(4); k > 0; k-- {
		var m proto.Message
		if r.Bool() {
			m = &conformancev1.Header{Name: "detail", Value: []string{fmt.Sprint(k)}}
		} else {
			m = &conformancev1.ConformancePayload_RequestInfo{TimeoutMs: proto.Int64(int64(k))}
		}
		d, _ := anypb.New(m)
		e.Details = append(e.Details, d)
	}
	return e
}

func vfGenUnaryDef(r *verifkit.Rand) *conformancev1.UnaryResponseDefinition {
	def := &conformancev1.UnaryResponseDefinition{ResponseHeaders: vfGenHeaders(r, "rh"), ResponseTrailers: vfGenHeaders(r, "rt")}
	switch r.Intn(3) {
	case 0:
		def.Response = &conformancev1.UnaryResponseDefinition_ResponseData{ResponseData: vfGenPayload(r)}
	case 1:
		def.Response = &conformancev1.UnaryResponseDefinition_Error{Error: vfGenError(r)}
	}
	return def
}

func vfGenStreamDef(r *verifkit.Rand, nresp int) *conformancev1.StreamResponseDefinition {
	def := &conformancev1.StreamResponseDefinition{ResponseHeaders: vfGenHeaders(r, "rh"), ResponseTrailers: vfGenHeaders(r, "rt")}
	for j := 0; j < nresp; j++ {
		def.ResponseData = append(def.ResponseData, vfGenPayload(r))
	}
	if r.Bool() {
		def.Error = vfGenError(r)
	}
	return def
}

// vfGenCase returns one test case and a shape label (used to isolate shapes
// with known third-party hangs into runs of their own).
func vfGenCase(r *verifkit.Rand, i int) (*conformancev1.TestCase, string) {
	st := conformancev1.StreamType(1 + r.Intn(5))
	stName := strings.ToLower(strings.TrimPrefix(st.String(), "STREAM_TYPE_"))
	req := &conformancev1.ClientCompatRequest{TestName: fmt.Sprintf("%s/case-%d", stName, i), StreamType: st, RequestHeaders: vfGenHeaders(r, "req")}
	var msgs []proto.Message
	shape := stName
	switch st {
	case conformancev1.StreamType_STREAM_TYPE_UNARY:
		m := &conformancev1.UnaryRequest{RequestData: vfGenPayload(r)}
		if !r.Chance(1, 5) {
			m.ResponseDefinition = vfGenUnaryDef(r)
		}
		msgs = append(msgs, m)
	case conformancev1.StreamType_STREAM_TYPE_CLIENT_STREAM:
		n := r.Intn(5)
		for k := 0; k < n; k++ {
			m := &conformancev1.ClientStreamRequest{RequestData: vfGenPayload(r)}
			if k == 0 && !r.Chance(1, 3) {
				m.ResponseDefinition = vfGenUnaryDef(r)
			} else if k > 0 && (r.Chance(1, 4) || (msgs[0].(*conformancev1.ClientStreamRequest).ResponseDefinition == nil && r.Chance(2, 3))) {
				// a definition in a later message is a decoy: servers read it from the first message only
				// (most tempting when the first message has none)
				m.ResponseDefinition = vfGenUnaryDef(r)
			}
			msgs = append(msgs, m)
		}
		if n == 0 {
			shape += "/zero-requests"
		}
	case conformancev1.StreamType_STREAM_TYPE_SERVER_STREAM:
		m := &conformancev1.ServerStreamRequest{RequestData: vfGenPayload(r)}
		if !r.Chance(1, 5) {
			m.ResponseDefinition = vfGenStreamDef(r, r.Intn(5))
		}
		msgs = append(msgs, m)
	default:
		nreq := r.Intn(5)
		for k := 0; k < nreq; k++ {
			m := &conformancev1.BidiStreamRequest{RequestData: vfGenPayload(r), FullDuplex: st == conformancev1.StreamType_STREAM_TYPE_FULL_DUPLEX_BIDI_STREAM}
			if k == 0 && !r.Chance(1, 5) {
				nresp := r.Intn(5)
				m.ResponseDefinition = vfGenStreamDef(r, nresp)
				switch {
				case nresp == 0 && nreq > 1 && m.FullDuplex && m.ResponseDefinition.Error != nil:
					// known finding (see known-findings.json): expectation echoes all requests, the spec'd server only the first
					shape += "/error-no-responses-several-requests"
				case nresp > nreq:
					shape += "/more-responses-than-requests"
				case nresp < nreq:
					shape += "/fewer-responses-than-requests"
				}
			}
			if k > 0 && (r.Chance(1, 4) || (msgs[0].(*conformancev1.BidiStreamRequest).ResponseDefinition == nil && r.Chance(2, 3))) {
				m.ResponseDefinition = vfGenStreamDef(r, r.Intn(3)) // decoy, see above
			}
			msgs = append(msgs, m)
		}
		if nreq == 0 {
			shape += "/zero-requests"
		}
	}
	for _, m := range msgs {
		a, _ := anypb.New(m)
		req.RequestMessages = append(req.RequestMessages, a)
	}
	return &conformancev1.TestCase{Request: req}, shape
}

// TestVerifC02Generate writes generated suites for the process-level driver:
// $VERIF_C02_DIR/main-<k>.json (cases whose shape has no known third-party
// hang) and zero-<k>.json (zero-request client/bidi streams, run apart).
func TestVerifC02Generate(t *testing.T) {
	dir := os.Getenv("VERIF_C02_DIR")
	if dir == "" {
		t.Skip("helper for the C02 driver")
	}
	n := verifkit.EnvInt("VERIF_C02_CASES", 40)
	perFile := verifkit.EnvInt("VERIF_C02_PER_FILE", 20)
	rng := verifkit.Stream("c02gen")
	files := map[string]*conformancev1.TestSuite{}
	shapes := map[string]string{}
	add := func(kind string, tc *conformancev1.TestCase) {
		for k := 0; ; k++ {
			key := fmt.Sprintf("%s-%d", kind, k)
			s := files[key]
			if s == nil {
				s = &conformancev1.TestSuite{Name: fmt.Sprintf("Generated %s %d (seed %d)", kind, k, verifkit.Seed())}
				files[key] = s
			}
			if len(s.TestCases) < perFile {
				s.TestCases = append(s.TestCases, tc)
				return
			}
		}
	}
	for i := 0; i < n; i++ {
		tc, shape := vfGenCase(rng, i)
		shapes[tc.Request.TestName] = shape
		if strings.Contains(shape, "zero-requests") {
			add("zero", tc)
		} else {
			add("main", tc)
		}
	}
	// side-effect-free unary calls sent with Connect GET: the request message travels in the URL, whatever its size
	nGet := 2 + n/10
	for i := 0; i < nGet; i++ {
		size := []int{0, 50, 7000, 2000, 5000}[i%5]
		data := make([]byte, size)
		for k := range data {
			data[k] = byte(rng.Intn(256))
		}
		m := &conformancev1.IdempotentUnaryRequest{RequestData: data}
		if !rng.Chance(1, 5) {
			m.ResponseDefinition = vfGenUnaryDef(rng)
		}
		a, _ := anypb.New(m)
		req := &conformancev1.ClientCompatRequest{TestName: fmt.Sprintf("idempotent_unary_get/case-%d", i), StreamType: conformancev1.StreamType_STREAM_TYPE_UNARY,
			Service: proto.String("connectrpc.conformance.v1.ConformanceService"), Method: proto.String("IdempotentUnary"), UseGetHttpMethod: true,
			RequestHeaders: vfGenHeaders(rng, "req"), RequestMessages: []*anypb.Any{a}}
		shapes[req.TestName] = fmt.Sprintf("idempotent_unary_get/%d-bytes", size)
		add("get", &conformancev1.TestCase{Request: req})
	}
	for key, s := range files {
		if strings.HasPrefix(key, "get-") {
			s.ReliesOnConnectGet = true
			s.RelevantProtocols = []conformancev1.Protocol{conformancev1.Protocol_PROTOCOL_CONNECT}
			s.RelevantCompressions = []conformancev1.Compression{conformancev1.Compression_COMPRESSION_IDENTITY} // (as the shipped GET suite: the reference client compresses GET requests only above a size of its own)
		}
		data, err := protojson.MarshalOptions{Multiline: true}.Marshal(s)
		if err != nil {
			t.Fatal(err)
		}
		// JSON is YAML, except that YAML forbids a raw DEL: spell it as an escape
		data = []byte(strings.ReplaceAll(string(data), "\x7f", `\u007f`))
		if err := os.WriteFile(filepath.Join(dir, key+".yaml"), data, 0o644); err != nil {
			t.Fatal(err)
		}
	}
	var sb strings.Builder
	for _, k := range verifkit.SortedKeys(shapes) {
		fmt.Fprintf(&sb, "%s\t%s\n", k, shapes[k])
	}
	_ = os.WriteFile(filepath.Join(dir, "shapes.tsv"), []byte(sb.String()), 0o644)
}

// ---- loader crash monitor ----

func vfAnyForLoader(r *verifkit.Rand) *anypb.Any {
	var m proto.Message
	big := make([]byte, verifkit.Pick(r, []int{0, 1, 127, 128, 300}))
	switch r.Intn(8) {
	case 0:
		m = &conformancev1.UnaryRequest{RequestData: big, ResponseDefinition: vfGenUnaryDef(r)}
	case 1:
		m = &conformancev1.ClientStreamRequest{RequestData: big}
	case 2:
		m = &conformancev1.ServerStreamRequest{RequestData: big, ResponseDefinition: vfGenStreamDef(r, r.Intn(4))}
	case 3:
		m = &conformancev1.BidiStreamRequest{FullDuplex: r.Bool(), ResponseDefinition: vfGenStreamDef(r, r.Intn(5))}
	case 4:
		m = &conformancev1.Header{Name: "not-a-request"}
	case 5:
		m = &conformancev1.IdempotentUnaryRequest{RequestData: big}
	case 6:
		return &anypb.Any{TypeUrl: "type.googleapis.com/does.not.Exist", Value: []byte{1, 2, 3}}
	case 7:
		raw := &conformancev1.RawHTTPResponse{StatusCode: 200}
		m = &conformancev1.UnaryRequest{ResponseDefinition: &conformancev1.UnaryResponseDefinition{RawResponse: raw}}
	}
	a, _ := anypb.New(m)
	if r.Chance(1, 15) {
		a.Value = append(a.Value, 0xff) // corrupt
	}
	return a
}

// TestVerifC02Loader: loading and expanding any parseable suite never crashes.
func TestVerifC02Loader(t *testing.T) {
	rep := verifkit.Begin("C02", "loader", "arbitrary parseable TestSuite documents (missing/odd names incl. a//b and ../x, any stream type incl. unspecified, wrong and unknown Any types, corrupt payloads, service/method mismatches, test cases without a request, raw payloads in any mode, expand directives around every boundary within +-1 MB, duplicate names, any directive combination) through parseTestSuites + newTestCaseLibrary in all three modes x default config; oracle: an error or a library, never a panic; distinct = suites")
	defer rep.Write()
	n := verifkit.Scale(12000, 300000)
	defData, _ := protojson.Marshal(&conformancev1.Config{})
	cfgCases, err := parseConfig("default", defData)
	if err != nil {
		t.Fatal(err)
	}
	for it := 0; it < n; it++ {
		r := verifkit.Stream("c02loader", it)
		suite := &conformancev1.TestSuite{Name: verifkit.Pick(r, []string{"S", "S", "S", "", "S/T", "S "})}
		suite.Mode = conformancev1.TestSuite_TestMode(r.Intn(3))
		if r.Chance(1, 3) {
			suite.RelevantCodecs = []conformancev1.Codec{1}
		}
		if r.Chance(1, 6) {
			suite.RelevantProtocols = []conformancev1.Protocol{conformancev1.Protocol(1 + r.Intn(3))}
		}
		suite.ReliesOnMessageReceiveLimit = r.Chance(1, 3)
		suite.ReliesOnTls, suite.ReliesOnTlsClientCerts, suite.ReliesOnConnectGet = r.Chance(1, 6), r.Chance(1, 8), r.Chance(1, 8)
		for k := r.Intn(4); k > 0; k-- {
			req := &conformancev1.ClientCompatRequest{TestName: verifkit.Pick(r, []string{"a", "b/c", "", "a//b", "../x", "a", "./a"}), StreamType: conformancev1.StreamType(r.Intn(6))}
			if r.Chance(1, 8) {
				req.Service = proto.String("svc")
			}
			if r.Chance(1, 8) {
				req.Method = proto.String("M")
			}
			for j := r.Intn(5); j > 0; j-- {
				req.RequestMessages = append(req.RequestMessages, vfAnyForLoader(r))
			}
			if r.Chance(1, 10) {
				req.RawRequest = &conformancev1.RawHTTPRequest{Verb: "POST", Uri: "/x"}
			}
			if r.Chance(1, 10) {
				req.UseGetHttpMethod = true
			}
			tc := &conformancev1.TestCase{Request: req}
			if r.Chance(1, 25) {
				tc.Request = nil // parseable: a test case without a request
			}
			if r.Chance(1, 3) {
				for j := r.Intn(4); j > 0; j-- {
					es := &conformancev1.TestCase_ExpandedSize{}
					if !r.Chance(1, 4) {
						es.SizeRelativeToLimit = proto.Int32(verifkit.Pick(r, []int32{0, 1, -1, 10, -204800, -204700, -204799, -204801, -300000, 127, 128, -188414, 1 << 20, -(1 << 20)}))
					}
					tc.ExpandRequests = append(tc.ExpandRequests, es)
				}
			}
			if r.Chance(1, 8) {
				tc.ExpectedResponse = &conformancev1.ClientResponseResult{}
			}
			suite.TestCases = append(suite.TestCases, tc)
		}
		data, err := protojson.Marshal(suite)
		if err != nil {
			continue
		}
		rep.Eval(1)
		rep.DistinctKey(string(data))
		if it%2000 == 0 {
			rep.InFlightDisk(map[string]any{"loader_inputs": fmt.Sprintf("%d..", it)})
		}
		rep.InFlight(string(data))
		p := verifkit.Catch(func() {
			suites, err := parseTestSuites(map[string][]byte{"f.yaml": data})
			if err != nil {
				rep.Count("rejected_by_parser", 1)
				return
			}
			for _, mode := range []conformancev1.TestSuite_TestMode{0, 1, 2} {
				cl := map[string]*conformancev1.TestSuite{}
				for k, v := range suites {
					cl[k] = proto.Clone(v).(*conformancev1.TestSuite)
				}
				if _, err := newTestCaseLibrary(cl, cfgCases, mode); err != nil {
					rep.Count("rejected_by_library", 1)
				} else {
					rep.Count("loaded", 1)
				}
			}
		})
		if p != nil {
			rep.Violation("loader/panic/"+p.Site, "loading a parseable suite crashed: "+p.Value, map[string]any{"suite_json": verifkit.Trunc(string(data), 4000), "stack": verifkit.Trunc(p.Stack, 2500)})
		}
	}
	rep.Sample(map[string]any{"suite": "{name:S, testCases:[{request:{testName:'a', streamType:FULL_DUPLEX, requestMessages:[BidiStreamRequest{responseDefinition:{responseData:[x,x,x]}}]}}]}", "expect": "error or library, no panic"})
	rep.RequireMin("loaded", 100)
	rep.RequireMin("rejected_by_library", 100)
}
