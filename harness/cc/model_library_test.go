//go:build verif

package connectconformance

import (
	"fmt"
	"strings"

	conformancev1 "connectrpc.com/conformance/internal/gen/proto/go/connectrpc/conformance/v1"
)

// Independent model of suite expansion (C07), written from
// docs/authoring_test_cases.md and the statement.

func vfAdmits[T comparable](rel []T, v T) bool {
	if len(rel) == 0 {
		return true
	}
	for _, r := range rel {
		if r == v {
			return true
		}
	}
	return false
}

// vfSuiteAdmits: does the suite (ignoring stream type) admit the config case?
func vfSuiteAdmits(s *conformancev1.TestSuite, c configCase) bool {
	if !vfAdmits(s.RelevantProtocols, c.Protocol) || !vfAdmits(s.RelevantHttpVersions, c.Version) ||
		!vfAdmits(s.RelevantCodecs, c.Codec) || !vfAdmits(s.RelevantCompressions, c.Compression) {
		return false
	}
	if s.ReliesOnTls && !c.UseTLS {
		return false
	}
	return s.ReliesOnTlsClientCerts == c.UseTLSClientCerts && s.ReliesOnConnectGet == c.UseConnectGET &&
		s.ReliesOnMessageReceiveLimit == c.UseMessageReceiveLimit && s.ConnectVersionMode == c.ConnectVersionMode
}

func vfPermName(s *conformancev1.TestSuite, c configCase, simple string) string {
	parts := []string{s.Name}
	if len(s.RelevantHttpVersions) != 1 {
		parts = append(parts, fmt.Sprintf("HTTPVersion:%d", int32(c.Version)))
	}
	if len(s.RelevantProtocols) != 1 {
		parts = append(parts, "Protocol:"+c.Protocol.String())
	}
	if len(s.RelevantCodecs) != 1 {
		parts = append(parts, "Codec:"+c.Codec.String())
	}
	if len(s.RelevantCompressions) != 1 {
		parts = append(parts, "Compression:"+c.Compression.String())
	}
	if !s.ReliesOnTls {
		parts = append(parts, fmt.Sprintf("TLS:%v", c.UseTLS))
	}
	parts = append(parts, simple)
	return strings.Join(parts, "/")
}

type vfPerm struct {
	Case   configCase
	Suite  *conformancev1.TestSuite
	Test   *conformancev1.TestCase
	Simple string
}

// vfPermutations: name -> permutation for suites x cases x mode. dup reports a
// full name produced twice (an invalid suite set).
func vfPermutations(suites map[string]*conformancev1.TestSuite, cases []configCase, mode conformancev1.TestSuite_TestMode) (out map[string]vfPerm, dup string) {
	out = map[string]vfPerm{}
	seenCase := map[configCase]bool{}
	for _, s := range suites {
		if s.Mode != conformancev1.TestSuite_TEST_MODE_UNSPECIFIED && s.Mode != mode {
			continue
		}
		for k := range seenCase {
			delete(seenCase, k)
		}
		for _, c := range cases {
			if seenCase[c] {
				continue // the config case list is a set
			}
			seenCase[c] = true
			if !vfSuiteAdmits(s, c) {
				continue
			}
			for _, tc := range s.TestCases {
				if tc.Request.StreamType != c.StreamType {
					continue
				}
				n := vfPermName(s, c, tc.Request.TestName)
				if _, ok := out[n]; ok {
					dup = n
				}
				out[n] = vfPerm{Case: c, Suite: s, Test: tc, Simple: tc.Request.TestName}
			}
		}
	}
	return out, dup
}

// vfGRPCApplies: which permutations are also issued against the gRPC peers.
func vfGRPCApplies(c configCase, tc *conformancev1.TestCase, clientIsGRPC, serverIsGRPC bool) bool {
	if c.Protocol == conformancev1.Protocol_PROTOCOL_CONNECT {
		return false
	}
	if clientIsGRPC && c.Protocol != conformancev1.Protocol_PROTOCOL_GRPC {
		return false // grpc-go client speaks gRPC only
	}
	if c.Protocol == conformancev1.Protocol_PROTOCOL_GRPC_WEB && c.Version == conformancev1.HTTPVersion_HTTP_VERSION_3 {
		return false
	}
	if c.Protocol == conformancev1.Protocol_PROTOCOL_GRPC && c.Version != conformancev1.HTTPVersion_HTTP_VERSION_2 {
		return false
	}
	if c.Codec != conformancev1.Codec_CODEC_PROTO {
		return false
	}
	if c.Compression != conformancev1.Compression_COMPRESSION_IDENTITY && c.Compression != conformancev1.Compression_COMPRESSION_GZIP {
		return false
	}
	if c.UseTLS {
		return false
	}
	if clientIsGRPC && tc.Request.RawRequest != nil {
		return false
	}
	if serverIsGRPC && vfHasRawResponse(tc) {
		return false
	}
	return true
}

func vfHasRawResponse(tc *conformancev1.TestCase) bool {
	if len(tc.Request.RequestMessages) == 0 {
		return false
	}
	m, err := tc.Request.RequestMessages[0].UnmarshalNew()
	if err != nil {
		return false
	}
	switch m := m.(type) {
	case *conformancev1.UnaryRequest:
		return m.GetResponseDefinition().GetRawResponse() != nil
	case *conformancev1.IdempotentUnaryRequest:
		return m.GetResponseDefinition().GetRawResponse() != nil
	case *conformancev1.ClientStreamRequest:
		return m.GetResponseDefinition().GetRawResponse() != nil
	case *conformancev1.ServerStreamRequest:
		return m.GetResponseDefinition().GetRawResponse() != nil
	case *conformancev1.BidiStreamRequest:
		return m.GetResponseDefinition().GetRawResponse() != nil
	}
	return false
}

func vfGRPCMarkedName(full, simple string, clientIsGRPC, serverIsGRPC bool) string {
	marker := "(grpc impls)"
	switch {
	case clientIsGRPC && !serverIsGRPC:
		marker = "(grpc client impl)"
	case serverIsGRPC && !clientIsGRPC:
		marker = "(grpc server impl)"
	}
	return strings.TrimSuffix(full, simple) + marker + "/" + simple
}

func vfDefaultMethod(st conformancev1.StreamType) string {
	switch st {
	case conformancev1.StreamType_STREAM_TYPE_UNARY:
		return "Unary"
	case conformancev1.StreamType_STREAM_TYPE_CLIENT_STREAM:
		return "ClientStream"
	case conformancev1.StreamType_STREAM_TYPE_SERVER_STREAM:
		return "ServerStream"
	}
	return "BidiStream"
}

// vfSelectedNames: the names a run of the runner issues: base permutations
// (client/server under test vs. reference peer) plus the gRPC-peer ones, then
// filtered by run/skip patterns.
func vfSelectedNames(suites map[string]*conformancev1.TestSuite, cases []configCase, mode conformancev1.TestSuite_TestMode, useRefClient, useRefServer bool, run, skip []string) map[string]vfPerm {
	perms, _ := vfPermutations(suites, cases, mode)
	all := map[string]vfPerm{}
	for n, p := range perms {
		all[n] = p
		if useRefClient && vfGRPCApplies(p.Case, p.Test, true, false) {
			all[vfGRPCMarkedName(n, p.Simple, true, false)] = p
		}
		if useRefServer && vfGRPCApplies(p.Case, p.Test, false, true) {
			all[vfGRPCMarkedName(n, p.Simple, false, true)] = p
		}
	}
	out := map[string]vfPerm{}
	for n, p := range all {
		if (len(run) == 0 || vfGlobAny(run, n)) && !vfGlobAny(skip, n) {
			out[n] = p
		}
	}
	return out
}
