//go:build verif

package connectconformance

import (
	"fmt"
	"strings"
	"testing"

	conformancev1 "connectrpc.com/conformance/internal/gen/proto/go/connectrpc/conformance/v1"
	"connectrpc.com/conformance/internal/verifkit"
	"google.golang.org/protobuf/encoding/protojson"
)



func vfErrClass(err error) string {
	s := err.Error()
	if i := strings.Index(s, ": "); i >= 0 && i < 40 {
		s = s[i+2:]
	}
	// abstract indices ("include case #2")
	for _, d := range "0123456789" {
		s = strings.ReplaceAll(s, string(d), "N")
	}
	for _, pre := range []string{"include case #N: ", "include case #NN: ", "exclude case #N: ", "exclude case #NN: "} {
		s = strings.TrimPrefix(s, pre)
	}
	if len(s) > 90 {
		s = s[:90]
	}
	return s
}

// vfCheckConfig runs the real parseConfig next to the model and applies the
// must/may-error rule of DESIGN.md (C06).
func vfCheckConfig(rep *verifkit.Report, cfg *conformancev1.Config) {
	data, err := protojson.Marshal(cfg)
	if err != nil {
		rep.Inconcl("cannot marshal config: " + err.Error())
		return
	}
	rep.Eval(1)
	rep.InFlight(string(data))
	var got []configCase
	var perr error
	if p := verifkit.Catch(func() { got, perr = parseConfig("verif.yaml", data) }); p != nil {
		rep.Violation("config/panic/"+p.Site, "parseConfig panicked: "+p.Value, map[string]any{"config": string(data), "stack": p.Stack})
		return
	}
	want, contradiction, emptyEntry := vfConfigModel(cfg)
	w := func(extra map[string]any) map[string]any {
		m := map[string]any{"config": string(data)}
		for k, v := range extra {
			m[k] = v
		}
		return m
	}
	mustErr := contradiction != "" || len(want) == 0
	entryWhy := ""
	if contradiction == "" {
		ff0 := cfg.GetFeatures()
		if ff0 == nil {
			ff0 = &conformancev1.Features{}
		}
		if feat0, why0 := vfResolve(ff0); why0 == "" {
			for _, e := range append(append([]*conformancev1.ConfigCase{}, cfg.IncludeCases...), cfg.ExcludeCases...) {
				if entryWhy = vfEntryContradiction(feat0, e); entryWhy != "" {
					break
				}
			}
		}
	}
	if entryWhy != "" {
		rep.Count("contradictory_entries", 1)
		if perr == nil {
			rep.Violation("config/contradictory-entry-accepted/"+entryWhy, fmt.Sprintf("an include/exclude entry that is impossible in its version scope (%s) was accepted (it resolves to nothing)", entryWhy), w(nil))
			return
		}
	}
	switch {
	case perr != nil && mustErr:
		rep.Count("agree_error", 1)
	case perr != nil && emptyEntry:
		rep.Count("agree_error_empty_entry", 1)
	case perr != nil:
		rep.Count("over_reject", 1)
		rep.Violation("config/over-reject/"+vfErrClass(perr), "a consistent, non-empty configuration is rejected: "+perr.Error(),
			w(map[string]any{"model_set_size": len(want)}))
	case contradiction != "":
		rep.Violation("config/contradiction-accepted/"+contradiction, fmt.Sprintf("contradictory features (%s) accepted, %d cases returned", contradiction, len(got)), w(nil))
	case len(want) == 0:
		rep.Violation("config/empty-set-accepted", fmt.Sprintf("configuration denotes the empty set but no error was returned (%d cases)", len(got)), w(nil))
	default:
		rep.Count("agree_set_checked", 1)
		rep.DistinctKey(string(data))
		gotSet := map[configCase]struct{}{}
		for _, c := range got {
			if _, dup := gotSet[c]; dup {
				rep.Violation("config/duplicate-case", fmt.Sprintf("case returned twice: %+v", c), w(nil))
			}
			gotSet[c] = struct{}{}
		}
		ff := cfg.GetFeatures()
		if ff == nil {
			ff = &conformancev1.Features{}
		}
		feat, _ := vfResolve(ff)
		var missing, extra []string
		for c := range want {
			if _, ok := gotSet[c]; !ok && len(missing) < 3 {
				missing = append(missing, fmt.Sprintf("%+v", c))
			}
		}
		for c := range gotSet {
			if _, ok := want[c]; !ok && len(extra) < 3 {
				extra = append(extra, fmt.Sprintf("%+v", c))
			}
			if why := vfPossible(c, feat.H2C, feat.HalfH1, feat.Get); why != "" {
				rep.Violation("config/impossible-case/"+why, fmt.Sprintf("returned case is not internally possible (%s): %+v", why, c), w(nil))
			}
		}
		if len(missing) > 0 || len(extra) > 0 {
			kind := "missing"
			if len(missing) == 0 {
				kind = "extra"
			} else if len(extra) > 0 {
				kind = "missing+extra"
			}
			rep.Violation("config/set-differs/"+kind, fmt.Sprintf("config case set differs from the specification: |impl|=%d |spec|=%d missing e.g. %v extra e.g. %v", len(gotSet), len(want), missing, extra),
				w(map[string]any{"missing_examples": missing, "extra_examples": extra}))
		}
	}
}

// TestVerifC06Slice: bounded-exhaustive slice - every subset of versions x
// protocols x stream types with every tri-state of the seven flags (codecs
// and compressions fixed). Sharded: VERIF_SHARD/VERIF_SHARDS; the quick tier
// takes a 1/64 stratified sample.
func TestVerifC06Slice(t *testing.T) {
	shard, shards := verifkit.EnvInt("VERIF_SHARD", 0), verifkit.EnvInt("VERIF_SHARDS", 1)
	stride := verifkit.Scale(64, 1)
	rep := verifkit.Begin("C06", fmt.Sprintf("slice-%d", shard), fmt.Sprintf("feature blocks: every subset of 3 versions x 3 protocols x 5 stream types x 3^7 tri-states of the support flags (4,478,976 configs), stride %d (1 = complete), shard %d/%d; distinct = configs on which both sides return a set that is then compared element-wise", stride, shard, shards))
	defer rep.Write()
	offset := int(verifkit.Seed() % uint64(stride))
	idx := 0
	for vb := 0; vb < 8; vb++ {
		for pb := 0; pb < 8; pb++ {
			for sb := 0; sb < 32; sb++ {
				for fl := 0; fl < 2187; fl++ {
					idx++
					if idx%stride != offset || (idx/stride)%shards != shard {
						continue
					}
					f := fl
					next := func() *bool { b := vfTriBool(f % 3); f /= 3; return b }
					cfg := &conformancev1.Config{Features: &conformancev1.Features{
						Versions:    vfSubsetBits[conformancev1.HTTPVersion](vb, 3),
						Protocols:   vfSubsetBits[conformancev1.Protocol](pb, 3),
						StreamTypes: vfSubsetBits[conformancev1.StreamType](sb, 5),
						Codecs:      []conformancev1.Codec{1},
						Compressions: []conformancev1.Compression{1},
						SupportsH2C: next(), SupportsTls: next(), SupportsTlsClientCerts: next(), SupportsTrailers: next(),
						SupportsHalfDuplexBidiOverHttp1: next(), SupportsConnectGet: next(), SupportsMessageReceiveLimit: next(),
					}}
					vfCheckConfig(rep, cfg)
				}
			}
		}
	}
	rep.Exhaustive = stride == 1
	rep.Sample(map[string]any{"features": "versions={1,3} protocols={} stream_types={} supports_tls=true others unset", "expect": "set equality with the comprehension; bidi types present over HTTP/3"})
	rep.RequireMin("agree_set_checked", 100)
}




// TestVerifC06Random: full configs with 0-4 include and exclude entries,
// every field independently omitted or pinned.
func TestVerifC06Random(t *testing.T) {
	shard := verifkit.EnvInt("VERIF_SHARD", 0)
	rep := verifkit.Begin("C06", fmt.Sprintf("random-%d", shard), "random Config messages: feature subsets over all enum values (incl. deprecated CODEC_TEXT), tri-state flags, 0-4 include and 0-4 exclude entries with every field independently omitted/pinned; distinct = configs on which a set was compared")
	defer rep.Write()
	rng := verifkit.Stream("c06random", shard)
	n := verifkit.Scale(60000, 560000)
	for i := 0; i < n; i++ {
		vfCheckConfig(rep, vfRandConfig(rng))
	}
	// the shipped configurations are fixed inputs
	rep.Sample(map[string]any{"include": []string{"{version:2, use_tls:false}"}, "exclude": []string{"{protocol:GRPC_WEB}"}, "expect": "(F ∪ I) \\ E"})
	rep.RequireMin("agree_set_checked", 100)
	rep.RequireMin("agree_error", 100)
}
