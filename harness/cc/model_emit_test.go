//go:build verif

package connectconformance

import (
	"fmt"
	"os"
	"sort"
	"strings"
	"testing"

	"buf.build/go/protoyaml"
	"connectrpc.com/conformance/internal/app/connectconformance/testsuites"
	conformancev1 "connectrpc.com/conformance/internal/gen/proto/go/connectrpc/conformance/v1"
)

// TestVerifEmitSelection is a helper for the process-level checks (C01, C02,
// C04, C05): it prints the set of permutation names that the independent
// models (config comprehension, suite expansion, gRPC-peer applicability,
// glob filter) say a runner invocation must issue. It does not call the
// code under test for the decision (only the proto/YAML parsers).
//
//	VERIF_EMIT_CONF   config file ("" = default config)
//	VERIF_EMIT_MODE   client | server | both
//	VERIF_EMIT_RUN / VERIF_EMIT_SKIP   newline-separated patterns
//	VERIF_EMIT_TESTFILES  newline-separated suite files ("" = embedded)
//	VERIF_EMIT_OUT    output file: one "name\tprotocol\thttpVersion\ttls\tclientCerts\tstreamType" line per permutation
func TestVerifEmitSelection(t *testing.T) {
	out := os.Getenv("VERIF_EMIT_OUT")
	if out == "" {
		t.Skip("helper, not a monitor")
	}
	cfg := &conformancev1.Config{}
	if p := os.Getenv("VERIF_EMIT_CONF"); p != "" {
		data, err := os.ReadFile(p)
		if err != nil {
			t.Fatal(err)
		}
		if err := protoyaml.Unmarshal(data, cfg); err != nil {
			t.Fatal(err)
		}
	}
	want, contradiction, _ := vfConfigModel(cfg)
	if contradiction != "" {
		t.Fatalf("config contradicts itself: %s", contradiction)
	}
	cases := make([]configCase, 0, len(want))
	for c := range want {
		cases = append(cases, c)
	}
	var data map[string][]byte
	var err error
	if tf := strings.TrimSpace(os.Getenv("VERIF_EMIT_TESTFILES")); tf != "" {
		data, err = testsuites.LoadTestSuitesFromFiles(strings.Split(tf, "\n"))
	} else {
		data, err = testsuites.LoadTestSuites()
	}
	if err != nil {
		t.Fatal(err)
	}
	suites := map[string]*conformancev1.TestSuite{}
	for name, b := range data {
		s := &conformancev1.TestSuite{}
		if err := (protoyaml.UnmarshalOptions{Path: name}).Unmarshal(b, s); err != nil {
			t.Fatal(err)
		}
		suites[name] = s
	}
	var mode conformancev1.TestSuite_TestMode
	useRefClient, useRefServer := false, false
	switch os.Getenv("VERIF_EMIT_MODE") {
	case "client":
		mode, useRefServer = conformancev1.TestSuite_TEST_MODE_CLIENT, true
	case "server":
		mode, useRefClient = conformancev1.TestSuite_TEST_MODE_SERVER, true
	default:
		mode = conformancev1.TestSuite_TEST_MODE_UNSPECIFIED
	}
	split := func(s string) []string {
		var out []string
		for _, l := range strings.Split(s, "\n") {
			if strings.TrimSpace(l) != "" {
				out = append(out, strings.TrimSpace(l))
			}
		}
		return out
	}
	sel := vfSelectedNames(suites, cases, mode, useRefClient, useRefServer, split(os.Getenv("VERIF_EMIT_RUN")), split(os.Getenv("VERIF_EMIT_SKIP")))
	names := make([]string, 0, len(sel))
	for n := range sel {
		names = append(names, n)
	}
	sort.Strings(names)
	var sb strings.Builder
	for _, n := range names {
		c := sel[n].Case
		fmt.Fprintf(&sb, "%s\t%d\t%d\t%v\t%v\t%d\n", n, c.Protocol, c.Version, c.UseTLS, c.UseTLSClientCerts, c.StreamType)
	}
	if err := os.WriteFile(out, []byte(sb.String()), 0o644); err != nil {
		t.Fatal(err)
	}
}
