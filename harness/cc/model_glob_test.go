//go:build verif

package connectconformance

import "strings"

// vfGlob is the independent reading of the documented pattern language:
// components between slashes; a literal equals itself, "*" is exactly one
// component, "**" is zero or more components.
func vfGlob(pattern, name string) bool {
	return vfGlobC(strings.Split(pattern, "/"), strings.Split(name, "/"))
}

func vfGlobC(p, n []string) bool {
	if len(p) == 0 {
		return len(n) == 0
	}
	switch p[0] {
	case "**":
		for k := 0; k <= len(n); k++ {
			if vfGlobC(p[1:], n[k:]) {
				return true
			}
		}
		return false
	case "*":
		return len(n) > 0 && vfGlobC(p[1:], n[1:])
	default:
		return len(n) > 0 && n[0] == p[0] && vfGlobC(p[1:], n[1:])
	}
}

func vfGlobAny(patterns []string, name string) bool {
	for _, p := range patterns {
		if vfGlob(p, name) {
			return true
		}
	}
	return false
}
