//go:build verif

// Command verifpeer is the scriptable helper peer of the process-level
// monitors (C04, C05). It lives only in /verif and is compiled into the
// repository tree through the build overlay (cmd/verifpeer).
//
//	verifpeer client   conformance client: logs every ClientCompatRequest, then per
//	                   script delegates to the real reference client, deviates, or fails
//	verifpeer server   conformance server: logs the ServerCompatRequest, then per script
//	                   delegates to the real reference server or serves a logging endpoint
//
// Script: JSON in $VERIF_PEER_SCRIPT. Events: JSON lines appended to
// $VERIF_EVENTLOG, stamped with CLOCK_MONOTONIC (shared by all processes).
package main

import (
	"bytes"
	"context"
	"crypto/tls"
	"encoding/binary"
	"encoding/json"
	"errors"
	"fmt"
	"io"
	"net"
	"net/http"
	"os"
	"os/signal"
	"strconv"
	"strings"
	"sync"
	"syscall"
	"time"

	"connectrpc.com/conformance/internal"
	"connectrpc.com/conformance/internal/app/referenceclient"
	"connectrpc.com/conformance/internal/app/referenceserver"
	conformancev1 "connectrpc.com/conformance/internal/gen/proto/go/connectrpc/conformance/v1"
	"github.com/quic-go/quic-go"
	"github.com/quic-go/quic-go/http3"
	"golang.org/x/net/http2"
	"golang.org/x/net/http2/h2c"
	"golang.org/x/sys/unix"
	"google.golang.org/protobuf/proto"
)

func mono() int64 {
	var ts unix.Timespec
	_ = unix.ClockGettime(unix.CLOCK_MONOTONIC, &ts)
	return ts.Nano()
}

var logMu sync.Mutex

func logEv(ev string, extra map[string]any) {
	path := os.Getenv("VERIF_EVENTLOG")
	if path == "" {
		return
	}
	m := map[string]any{"t": mono(), "pid": os.Getpid(), "ev": ev}
	for k, v := range extra {
		m[k] = v
	}
	b, _ := json.Marshal(m)
	logMu.Lock()
	defer logMu.Unlock()
	f, err := os.OpenFile(path, os.O_APPEND|os.O_WRONLY|os.O_CREATE, 0o644)
	if err != nil {
		return
	}
	_, _ = f.Write(append(b, '\n')) // single write(2), O_APPEND
	_ = f.Close()
}

func readFrame(in io.Reader) ([]byte, error) {
	var pre [4]byte
	if _, err := io.ReadFull(in, pre[:]); err != nil {
		return nil, err
	}
	buf := make([]byte, binary.BigEndian.Uint32(pre[:]))
	if _, err := io.ReadFull(in, buf); err != nil {
		return nil, io.ErrUnexpectedEOF
	}
	return buf, nil
}

func frame(m proto.Message) []byte {
	b, _ := proto.Marshal(m)
	out := make([]byte, 4+len(b))
	binary.BigEndian.PutUint32(out, uint32(len(b)))
	copy(out[4:], b)
	return out
}

type script struct {
	// client
	Default          string            `json:"default"`
	Actions          map[string]string `json:"actions"` // exact test name -> action
	ExitAfterAnswers int               `json:"exit_after_answers"`
	ExitAfterReads   int               `json:"exit_after_reads"`
	ExitCode         int               `json:"exit_code"`
	AnswerDelayMaxMS int               `json:"answer_delay_max_ms"`
	Probe            bool              `json:"probe"`
	Seed             int64             `json:"seed"`
	// server
	Mode         string   `json:"mode"` // delegate | logging
	FailStartFor []string `json:"fail_start_for"`
	Garbage      bool     `json:"garbage"`
	NoCert       bool     `json:"no_cert"`
	// OmitHost: the ServerCompatResponse leaves the optional host field unset (the runner then assumes its default)
	OmitHost bool `json:"omit_host"`
	DieAfterRPCs int      `json:"die_after_rpcs"`
	// DieAfterMSFor: instance key -> milliseconds after "ready" at which that instance ends on its own
	DieAfterMSFor map[string]int `json:"die_after_ms_for"`
	DieExitCode   int            `json:"die_exit_code"`
	// client: pause after each request read from stdin (paces the runner's hand-over)
	ReadDelayMS int `json:"read_delay_ms"`
	// client: at every request, dial every server address seen so far and log how many accept (TCP servers only)
	ProbeKnownPorts bool `json:"probe_known_ports"`
	// client: fixed pause before every answer (keeps batches busy)
	AnswerDelayMS int `json:"answer_delay_ms"`
	// server: does not react to SIGTERM/SIGINT (logs that it was asked, then carries on); ends by itself after 60 s
	IgnoreSigterm bool `json:"ignore_sigterm"`
	StartDelayMS int      `json:"start_delay_ms"`
	StopDelayMS  int      `json:"stop_delay_ms"`
	StopDelayMSFor map[string]int `json:"stop_delay_ms_for"`
	OwnCert bool `json:"own_cert"` // the server ignores the offered credentials and serves (and reports) a certificate of its own
}

func loadScript() *script {
	s := &script{Default: "delegate", ExitAfterAnswers: -1, ExitAfterReads: -1, DieAfterRPCs: -1, Mode: "delegate", DieExitCode: 1}
	if raw := os.Getenv("VERIF_PEER_SCRIPT"); raw != "" {
		if err := json.Unmarshal([]byte(raw), s); err != nil {
			fmt.Fprintln(os.Stderr, "verifpeer: bad script:", err)
			os.Exit(3)
		}
	}
	return s
}

func main() {
	if len(os.Args) < 2 {
		fmt.Fprintln(os.Stderr, "usage: verifpeer client|server")
		os.Exit(2)
	}
	switch os.Args[1] {
	case "client":
		os.Exit(runClient(loadScript()))
	case "server":
		os.Exit(runServer(loadScript()))
	}
	os.Exit(2)
}

// ---------------------------------------------------------------- client

type lcg struct{ s uint64 }

func (l *lcg) next(n int) int {
	l.s = l.s*6364136223846793005 + 1442695040888963407
	if n <= 0 {
		return 0
	}
	return int((l.s >> 33) % uint64(n))
}

func probe(req *conformancev1.ClientCompatRequest) string {
	addr := net.JoinHostPort(req.Host, strconv.Itoa(int(req.Port)))
	if req.HttpVersion == conformancev1.HTTPVersion_HTTP_VERSION_3 {
		conf, err := internal.NewClientTLSConfig(req.ServerTlsCert, req.GetClientTlsCreds().GetCert(), req.GetClientTlsCreds().GetKey())
		if err != nil {
			return "tls-config-error: " + err.Error()
		}
		conf.NextProtos = []string{"h3"}
		conf.ServerName = req.Host
		ctx, cancel := context.WithTimeout(context.Background(), 3*time.Second)
		defer cancel()
		c, err := quic.DialAddr(ctx, addr, conf, &quic.Config{})
		if err != nil {
			return "quic-error: " + err.Error()
		}
		_ = c.CloseWithError(0, "")
		return "ok"
	}
	d := net.Dialer{Timeout: 3 * time.Second}
	conn, err := d.Dial("tcp", addr)
	if err != nil {
		return "tcp-error: " + err.Error()
	}
	defer conn.Close()
	if len(req.ServerTlsCert) == 0 {
		return "ok"
	}
	conf, err := internal.NewClientTLSConfig(req.ServerTlsCert, req.GetClientTlsCreds().GetCert(), req.GetClientTlsCreds().GetKey())
	if err != nil {
		return "tls-config-error: " + err.Error()
	}
	conf.ServerName = req.Host // (net/http derives it from the URL; a bare tls.Client must be told)
	if req.HttpVersion == conformancev1.HTTPVersion_HTTP_VERSION_2 {
		conf.NextProtos = []string{"h2"}
	} else {
		conf.NextProtos = []string{"http/1.1"}
	}
	tc := tls.Client(conn, conf)
	_ = tc.SetDeadline(time.Now().Add(3 * time.Second))
	if err := tc.Handshake(); err != nil {
		return "tls-error: " + err.Error()
	}
	return "ok alpn=" + tc.ConnectionState().NegotiatedProtocol
}

func runClient(sc *script) int {
	pipeSize, _, _ := syscall.Syscall(syscall.SYS_FCNTL, 0, 1032 /* F_GETPIPE_SZ */, 0)
	logEv("client_start", map[string]any{"stdin_pipe_bytes": int(pipeSize)})
	rng := &lcg{s: uint64(sc.Seed)*2654435761 + 12345}
	// the real reference client, in-process, behind pipes
	dinR, dinW := io.Pipe()
	doutR, doutW := io.Pipe()
	ctx, cancel := signal.NotifyContext(context.Background(), syscall.SIGTERM, syscall.SIGINT)
	defer cancel()
	go func() {
		_ = referenceclient.Run(ctx, []string{"referenceclient", "-p", "8"}, dinR, doutW, nopWC{os.Stderr})
		_ = doutW.Close()
	}()
	var outMu sync.Mutex
	answers := 0
	var wg sync.WaitGroup
	actionOf := map[string]string{}
	var actMu sync.Mutex
	writeAnswer := func(resp *conformancev1.ClientCompatResponse) {
		if sc.AnswerDelayMS > 0 {
			time.Sleep(time.Duration(sc.AnswerDelayMS) * time.Millisecond)
		}
		if sc.AnswerDelayMaxMS > 0 {
			outMu.Lock()
			d := rng.next(sc.AnswerDelayMaxMS + 1)
			outMu.Unlock()
			time.Sleep(time.Duration(d) * time.Millisecond)
		}
		outMu.Lock()
		defer outMu.Unlock()
		if sc.ExitAfterAnswers >= 0 && answers >= sc.ExitAfterAnswers {
			return
		}
		_, _ = os.Stdout.Write(frame(resp))
		answers++
		logEv("client_answer", map[string]any{"name": resp.TestName})
		if sc.ExitAfterAnswers >= 0 && answers >= sc.ExitAfterAnswers {
			logEv("client_exit", map[string]any{"code": sc.ExitCode, "why": "exit_after_answers"})
			os.Exit(sc.ExitCode)
		}
	}
	// relay answers of the delegate
	relayDone := make(chan struct{})
	go func() {
		defer close(relayDone)
		for {
			b, err := readFrame(doutR)
			if err != nil {
				return
			}
			resp := &conformancev1.ClientCompatResponse{}
			if proto.Unmarshal(b, resp) != nil {
				continue
			}
			actMu.Lock()
			act := actionOf[resp.TestName]
			actMu.Unlock()
			if act == "wrong" && resp.GetResponse() != nil {
				r := resp.GetResponse()
				r.Payloads = append(r.Payloads, &conformancev1.ConformancePayload{Data: []byte("verifpeer: deliberately wrong")})
			}
			wg.Add(1)
			go func() { defer wg.Done(); writeAnswer(resp) }()
		}
	}()
	reads := 0
	known := map[string]bool{}
	var knownMu sync.Mutex
	if sc.ExitAfterReads == 0 {
		logEv("client_exit", map[string]any{"code": sc.ExitCode, "why": "exit_after_reads"})
		os.Exit(sc.ExitCode)
	}
	for {
		b, err := readFrame(os.Stdin)
		if err != nil {
			logEv("client_stdin_end", map[string]any{"err": err.Error()})
			break
		}
		req := &conformancev1.ClientCompatRequest{}
		if err := proto.Unmarshal(b, req); err != nil {
			logEv("client_bad_request", map[string]any{"err": err.Error()})
			continue
		}
		reads++
		hdr := ""
		expect := map[string]string{} // the x-expect-* headers the runner adds for the reference server
		for _, h := range req.RequestHeaders {
			if strings.EqualFold(h.Name, "x-test-case-name") && len(h.Value) > 0 {
				hdr = h.Value[0]
			}
			if strings.HasPrefix(strings.ToLower(h.Name), "x-expect-") {
				expect[strings.ToLower(h.Name)] = strings.Join(h.Value, ",")
			}
		}
		ev := map[string]any{"name": req.TestName, "host": req.Host, "port": req.Port, "protocol": int(req.Protocol), "http_version": int(req.HttpVersion),
			"tls": len(req.ServerTlsCert) > 0, "client_cert": req.ClientTlsCreds != nil, "name_header": hdr, "stream_type": int(req.StreamType), "codec": int(req.Codec), "compression": int(req.Compression), "bytes": len(b) + 4, "expect": expect}
		if sc.Probe {
			ev["probe"] = probe(req)
		}
		if sc.ProbeKnownPorts && req.HttpVersion != conformancev1.HTTPVersion_HTTP_VERSION_3 {
			knownMu.Lock()
			known[net.JoinHostPort(req.Host, strconv.Itoa(int(req.Port)))] = true
			var addrs []string
			for a := range known {
				addrs = append(addrs, a)
			}
			knownMu.Unlock()
			alive := 0
			var aliveAddrs []string
			for _, a := range addrs {
				d := net.Dialer{Timeout: 500 * time.Millisecond}
				if c, err := d.Dial("tcp", a); err == nil {
					_ = c.Close()
					alive++
					aliveAddrs = append(aliveAddrs, a)
				}
			}
			ev["known_servers_alive"] = alive
			ev["alive_addrs"] = aliveAddrs
		}
		logEv("client_recv", ev)
		if sc.ReadDelayMS > 0 {
			time.Sleep(time.Duration(sc.ReadDelayMS) * time.Millisecond)
		}
		act := sc.Default
		if a, ok := sc.Actions[req.TestName]; ok {
			act = a
		}
		actMu.Lock()
		actionOf[req.TestName] = act
		actMu.Unlock()
		switch act {
		case "never":
		case "error":
			resp := &conformancev1.ClientCompatResponse{TestName: req.TestName, Result: &conformancev1.ClientCompatResponse_Error{Error: &conformancev1.ClientErrorResult{Message: "verifpeer: client-reported error"}}}
			wg.Add(1)
			go func() { defer wg.Done(); writeAnswer(resp) }()
		case "canned":
			// answer without issuing the RPC (dispatch-only monitors)
			resp := &conformancev1.ClientCompatResponse{TestName: req.TestName, Result: &conformancev1.ClientCompatResponse_Response{Response: &conformancev1.ClientResponseResult{}}}
			wg.Add(1)
			go func() { defer wg.Done(); writeAnswer(resp) }()
		default:
			if act == "flipcodec" {
				// deviate from the test set-up: the reference server will give feedback
				if req.Codec == conformancev1.Codec_CODEC_PROTO {
					req.Codec = conformancev1.Codec_CODEC_JSON
				} else {
					req.Codec = conformancev1.Codec_CODEC_PROTO
				}
			}
			if _, err := dinW.Write(frame(req)); err != nil {
				logEv("client_delegate_error", map[string]any{"err": err.Error()})
			}
		}
		if sc.ExitAfterReads >= 0 && reads >= sc.ExitAfterReads {
			// die on the spot: nothing more may reach stdout (hold the output lock while exiting)
			outMu.Lock()
			logEv("client_exit", map[string]any{"code": sc.ExitCode, "why": "exit_after_reads"})
			os.Exit(sc.ExitCode)
		}
	}
	_ = dinW.Close()
	<-relayDone
	wg.Wait()
	logEv("client_exit", map[string]any{"code": 0, "why": "stdin closed"})
	return 0
}

type nopWC struct{ io.Writer }

func (nopWC) Close() error { return nil }

// ---------------------------------------------------------------- server

func instanceKey(req *conformancev1.ServerCompatRequest) string {
	return fmt.Sprintf("p%d/v%d/tls=%v/cc=%v", int(req.Protocol), int(req.HttpVersion), req.UseTls, len(req.ClientTlsCert) > 0)
}

func runServer(sc *script) int {
	raw, err := readFrame(os.Stdin)
	if err != nil {
		logEv("server_bad_stdin", map[string]any{"err": err.Error()})
		return 1
	}
	req := &conformancev1.ServerCompatRequest{}
	if err := proto.Unmarshal(raw, req); err != nil {
		return 1
	}
	key := instanceKey(req)
	logEv("server_start", map[string]any{"key": key, "protocol": int(req.Protocol), "http_version": int(req.HttpVersion), "tls": req.UseTls, "client_cert": len(req.ClientTlsCert) > 0,
		"has_creds": req.ServerCreds != nil, "limit": req.MessageReceiveLimit})
	for _, f := range sc.FailStartFor {
		if f == "all" || f == key {
			logEv("server_exit", map[string]any{"key": key, "why": "scripted start failure"})
			fmt.Fprintln(os.Stderr, "verifpeer: scripted start failure for", key)
			return 1
		}
	}
	if sc.StartDelayMS > 0 {
		time.Sleep(time.Duration(sc.StartDelayMS) * time.Millisecond)
	}
	ctx, cancel := signal.NotifyContext(context.Background(), syscall.SIGTERM, syscall.SIGINT)
	defer cancel()
	if sc.IgnoreSigterm {
		asked := ctx
		var cancel2 context.CancelFunc
		ctx, cancel2 = context.WithTimeout(context.Background(), 60*time.Second) // safety net only
		defer cancel2()
		go func() {
			<-asked.Done()
			logEv("server_stop_signal", map[string]any{"key": key, "ignored": true})
		}()
	}
	if sc.Garbage {
		_, _ = os.Stdout.Write([]byte{0, 0, 0, 5, 0xff, 0xff, 0xff, 0xff, 0xff})
		<-ctx.Done()
		logEv("server_exit", map[string]any{"key": key, "why": "signal"})
		return 0
	}
	stop := func(why string) int {
		logEv("server_stop_signal", map[string]any{"key": key})
		delay := sc.StopDelayMS
		if d, ok := sc.StopDelayMSFor[key]; ok {
			delay = d
		}
		if delay > 0 {
			time.Sleep(time.Duration(delay) * time.Millisecond)
		}
		logEv("server_exit", map[string]any{"key": key, "why": why})
		return 0
	}
	if sc.Mode == "logging" {
		return loggingServer(ctx, sc, req, key, stop)
	}
	// delegate: the real reference server in-process, its answer relayed
	inR, inW := io.Pipe()
	outR, outW := io.Pipe()
	done := make(chan error, 1)
	go func() {
		done <- referenceserver.Run(ctx, []string{"referenceserver", "-port", "0", "-bind", "127.0.0.1"}, inR, outW, nopWC{os.Stderr})
		_ = outW.Close()
	}()
	go func() { _, _ = inW.Write(frame(req)); _ = inW.Close() }()
	b, err := readFrame(outR)
	if err != nil {
		logEv("server_delegate_failed", map[string]any{"key": key, "err": err.Error()})
		return 1
	}
	resp := &conformancev1.ServerCompatResponse{}
	_ = proto.Unmarshal(b, resp)
	if sc.NoCert {
		resp.PemCert = nil
	}
	logEv("server_ready", map[string]any{"key": key, "host": resp.Host, "port": resp.Port, "has_cert": len(resp.PemCert) > 0})
	_, _ = os.Stdout.Write(frame(resp))
	select {
	case <-ctx.Done():
		code := stop("signal")
		<-done
		return code
	case err := <-done:
		logEv("server_exit", map[string]any{"key": key, "why": fmt.Sprint("delegate ended: ", err)})
		return 1
	}
}

// loggingServer serves its own plain endpoint for the requested HTTP version
// and TLS mode; every arriving RPC is logged by the instance it reached.
func loggingServer(ctx context.Context, sc *script, req *conformancev1.ServerCompatRequest, key string, stop func(string) int) int {
	var mu sync.Mutex
	rpcs := 0
	die := make(chan struct{})
	handler := http.HandlerFunc(func(w http.ResponseWriter, r *http.Request) {
		// (answer before consuming the body: a full-duplex client waits for a response between its messages)
		peer := ""
		if r.TLS != nil && len(r.TLS.PeerCertificates) > 0 {
			peer = r.TLS.PeerCertificates[0].Subject.CommonName
		}
		logEv("rpc", map[string]any{"key": key, "name": r.Header.Get("X-Test-Case-Name"), "proto_major": r.ProtoMajor, "tls": r.TLS != nil, "peer_cert": peer,
			"content_type": r.Header.Get("Content-Type"), "method": r.Method, "path": r.URL.Path})
		mu.Lock()
		rpcs++
		n := rpcs
		mu.Unlock()
		// a canned error: this monitor is about dispatch, not verdicts
		w.Header().Set("Content-Type", "application/json")
		w.WriteHeader(http.StatusServiceUnavailable)
		_, _ = w.Write([]byte(`{"code":"unavailable","message":"verifpeer logging server"}`))
		if f, ok := w.(http.Flusher); ok {
			f.Flush()
		}
		if sc.DieAfterRPCs >= 0 && n >= sc.DieAfterRPCs {
			mu.Lock()
			select {
			case <-die:
			default:
				close(die)
			}
			mu.Unlock()
		}
	})
	var tlsConf *tls.Config
	var certBytes []byte
	if req.UseTls {
		if req.ServerCreds == nil {
			logEv("server_no_creds", map[string]any{"key": key})
			return 1
		}
		certBytes = req.ServerCreds.Cert
		keyBytes := req.ServerCreds.Key
		if sc.OwnCert {
			var err error
			if certBytes, keyBytes, err = internal.NewServerCert(); err != nil {
				return 1
			}
		}
		cert, err := internal.ParseServerCert(certBytes, keyBytes)
		if err != nil {
			return 1
		}
		mode := tls.NoClientCert
		if len(req.ClientTlsCert) > 0 {
			mode = tls.RequireAndVerifyClientCert
		}
		tlsConf, err = internal.NewServerTLSConfig(cert, mode, req.ClientTlsCert)
		if err != nil {
			return 1
		}
	}
	var addr string
	var shutdown func()
	switch req.HttpVersion {
	case conformancev1.HTTPVersion_HTTP_VERSION_3:
		if tlsConf == nil {
			return 1
		}
		tc := http3.ConfigureTLSConfig(tlsConf)
		lis, err := quic.ListenAddrEarly("127.0.0.1:0", tc, &quic.Config{MaxIdleTimeout: 20 * time.Second})
		if err != nil {
			logEv("server_listen_error", map[string]any{"key": key, "err": err.Error()})
			return 1
		}
		srv := &http3.Server{Handler: handler, TLSConfig: tc}
		go func() { _ = srv.ServeListener(lis) }()
		addr = lis.Addr().String()
		shutdown = func() { _ = srv.Close() }
	default:
		lis, err := net.Listen("tcp", "127.0.0.1:0")
		if err != nil {
			return 1
		}
		var h http.Handler = handler
		srv := &http.Server{ReadHeaderTimeout: 5 * time.Second}
		if req.HttpVersion == conformancev1.HTTPVersion_HTTP_VERSION_1 {
			srv.TLSNextProto = map[string]func(*http.Server, *tls.Conn, http.Handler){}
		} else if tlsConf == nil {
			h = h2c.NewHandler(handler, &http2.Server{})
		}
		srv.Handler = h
		srv.TLSConfig = tlsConf
		go func() {
			if tlsConf != nil {
				_ = srv.ServeTLS(lis, "", "")
			} else {
				_ = srv.Serve(lis)
			}
		}()
		addr = lis.Addr().String()
		shutdown = func() { _ = srv.Close() }
	}
	host, portStr, _ := net.SplitHostPort(addr)
	port, _ := strconv.Atoi(portStr)
	resp := &conformancev1.ServerCompatResponse{Host: host, Port: uint32(port), PemCert: certBytes}
	if sc.NoCert {
		resp.PemCert = nil
	}
	if sc.OmitHost {
		resp.Host = ""
	}
	logEv("server_ready", map[string]any{"key": key, "host": host, "port": port, "has_cert": len(resp.PemCert) > 0, "host_omitted": sc.OmitHost, "own_cert": sc.OwnCert})
	_, _ = os.Stdout.Write(frame(resp))
	if ms, ok := sc.DieAfterMSFor[key]; ok {
		go func() {
			time.Sleep(time.Duration(ms) * time.Millisecond)
			mu.Lock()
			defer mu.Unlock()
			select {
			case <-die:
			default:
				close(die)
			}
		}()
	}
	select {
	case <-ctx.Done():
		code := stop("signal")
		shutdown()
		return code
	case <-die:
		logEv("server_exit", map[string]any{"key": key, "why": "scripted death", "code": sc.DieExitCode})
		shutdown()
		return sc.DieExitCode
	}
}

var _ = bytes.NewReader
var _ = errors.New
