//go:build verif

package tracer

import (
	"bytes"
	"context"
	"crypto/tls"
	"encoding/binary"
	"fmt"
	"io"
	"net"
	"net/http"
	"strconv"
	"strings"
	"sync"
	"testing"
	"time"

	"connectrpc.com/conformance/internal/verifkit"
	"golang.org/x/net/http2"
)

// vfRealPlan is what one call over the real HTTP/2 stack does.
type vfRealPlan struct {
	Name     string
	ReqSizes []int
	RespSize []int
	Ending   string // trailers | handler-abort | client-cancel
	AbortAt  int    // handler aborts / client cancels after this many response messages
	Bidi     bool   // the client writes its messages through a pipe with pauses (interleaves with the response)
}

func vfRealEnvelopes(sizes []int, tag byte) []byte {
	var b bytes.Buffer
	for i, n := range sizes {
		var pre [5]byte
		binary.BigEndian.PutUint32(pre[1:], uint32(n))
		b.Write(pre[:])
		b.Write(bytes.Repeat([]byte{tag + byte(i)}, n))
	}
	return b.Bytes()
}

// TestVerifC15RealTraffic: the connection tracer under golang.org/x/net/http2's
// own client and server (real SETTINGS, flow control, frame splitting,
// concurrent streams, resets), on both ends of real TCP connections.
func TestVerifC15RealTraffic(t *testing.T) {
	rep := verifkit.Begin("C15", "real-traffic", "x/net/http2 Transport and Server talking over loopback TCP with the connection tracer wrapped around both ends, in three HPACK configurations (defaults; only the server / only the client advertises a 64 KB header table and the peer's encoder uses it) with 24 sizeable headers per message; per connection 2-12 concurrent calls with 0-4 request and 0-5 response messages of 0 B-300 KB (beyond the flow-control window), request bodies written at once or through a pipe with pauses, endings {trailers, handler abort after k messages (RST_STREAM), client cancel after k messages}; oracle: the call itself behaves as without tracing (payload checksums echoed), and on BOTH sides exactly one trace per named call whose request/response message events equal the messages sent (a prefix for aborted/cancelled calls) with the right status and trailers; distinct = (plan, side)")
	defer rep.Write()
	srvColl, cliColl := &vfCountingCollector{}, &vfCountingCollector{}
	var plansMu sync.Mutex
	plans := map[string]*vfRealPlan{}
	handler := http.HandlerFunc(func(w http.ResponseWriter, r *http.Request) {
		plansMu.Lock()
		p := plans[r.Header.Get("X-Test-Case-Name")]
		plansMu.Unlock()
		if p == nil {
			w.WriteHeader(500)
			return
		}
		if !p.Bidi {
			body, _ := io.ReadAll(r.Body)
			w.Header().Set("X-Request-Bytes", strconv.Itoa(len(body)))
		}
		w.Header().Set("Content-Type", "application/grpc")
		for k := 0; k < 24; k++ {
			w.Header().Set(fmt.Sprintf("X-Resp-Big-%d", k), strings.Repeat("r", 280)+strconv.Itoa(k))
		}
		w.Header().Set("Trailer", "Grpc-Status")
		w.WriteHeader(200)
		if f, ok := w.(http.Flusher); ok {
			f.Flush()
		}
		drained := make(chan struct{})
		if p.Bidi {
			go func() { _, _ = io.Copy(io.Discard, r.Body); close(drained) }()
		} else {
			close(drained)
		}
		for i, n := range p.RespSize {
			if p.Ending == "handler-abort" && i == p.AbortAt {
				panic(http.ErrAbortHandler)
			}
			_, err := w.Write(vfRealEnvelopes([]int{n}, byte('a'+i)))
			if err != nil {
				return
			}
			if f, ok := w.(http.Flusher); ok && i%2 == 0 {
				f.Flush()
			}
		}
		if p.Ending == "handler-abort" && p.AbortAt >= len(p.RespSize) {
			panic(http.ErrAbortHandler)
		}
		// a handler that returns ends the stream: whatever the client has not sent yet is discarded by the
		// server; wait for the request to finish so that every message is part of the exchange
		<-drained
		w.Header().Set("Grpc-Status", "0")
	})
	// three endpoint configurations: defaults; only the server advertises a larger HPACK table (and the client's
	// encoder uses it); only the client does (and the server's encoder uses it)
	servers := []*http2.Server{{}, {MaxDecoderHeaderTableSize: 65536}, {MaxEncoderHeaderTableSize: 65536}}
	var lns []net.Listener
	for _, h2s := range servers {
		ln, err := net.Listen("tcp", "127.0.0.1:0")
		if err != nil {
			rep.Inconcl("listen: " + err.Error())
			return
		}
		defer ln.Close()
		lns = append(lns, ln)
		go func(ln net.Listener, h2s *http2.Server) {
			for {
				c, err := ln.Accept()
				if err != nil {
					return
				}
				tc := TracingHTTP2Conn(c, true, srvColl)
				go h2s.ServeConn(tc, &http2.ServeConnOpts{Handler: handler})
			}
		}(ln, h2s)
	}
	nConns := verifkit.Scale(40, 1500)
	type outcome struct {
		plan     *vfRealPlan
		status   int
		gotResp  []int // sizes of the response messages the application read
		trailer  string
		err      string
		canceled bool
	}
	var all []*outcome
	for ci := 0; ci < nConns; ci++ {
		rng := verifkit.Stream("c15real", ci)
		variant := ci % 3
		ln := lns[variant]
		tr := &http2.Transport{AllowHTTP: true, DialTLSContext: func(ctx context.Context, network, addr string, _ *tls.Config) (net.Conn, error) {
			c, err := net.Dial("tcp", ln.Addr().String())
			if err != nil {
				return nil, err
			}
			return TracingHTTP2Conn(c, false, cliColl), nil
		}}
		switch variant {
		case 1:
			tr.MaxEncoderHeaderTableSize = 65536
		case 2:
			tr.MaxDecoderHeaderTableSize = 65536
		}
		rep.Count(fmt.Sprintf("connections_hpack_variant_%d", variant), 1)
		nCalls := 2 + rng.Intn(11)
		var wg sync.WaitGroup
		outs := make([]*outcome, nCalls)
		for k := 0; k < nCalls; k++ {
			p := &vfRealPlan{Name: fmt.Sprintf("Real/%d/%d", ci, k), Bidi: rng.Chance(1, 3)}
			sizes := []int{0, 1, 5, 100, 5000, 16384, 16385, 70000, 300000}
			for j := rng.Intn(5); j > 0; j-- {
				p.ReqSizes = append(p.ReqSizes, verifkit.Pick(rng, sizes))
			}
			for j := rng.Intn(6); j > 0; j-- {
				p.RespSize = append(p.RespSize, verifkit.Pick(rng, sizes))
			}
			p.Ending = verifkit.Pick(rng, []string{"trailers", "trailers", "trailers", "handler-abort", "client-cancel"})
			p.AbortAt = rng.Intn(len(p.RespSize) + 1)
			if p.Ending == "client-cancel" && len(p.RespSize) == 0 {
				p.Ending = "trailers"
			}
			plansMu.Lock()
			plans[p.Name] = p
			plansMu.Unlock()
			o := &outcome{plan: p}
			outs[k] = o
			pauses := []time.Duration{0, 0, time.Duration(rng.Intn(300)) * time.Microsecond}
			wg.Add(1)
			go func() {
				defer wg.Done()
				ctx, cancel := context.WithCancel(context.Background())
				defer cancel()
				var body io.Reader
				reqBytes := vfRealEnvelopes(p.ReqSizes, 'A')
				if p.Bidi {
					pr, pw := io.Pipe()
					body = pr
					go func() {
						off := 0
						for i, n := range p.ReqSizes {
							time.Sleep(pauses[i%len(pauses)])
							if _, err := pw.Write(reqBytes[off : off+5+n]); err != nil {
								return
							}
							off += 5 + n
						}
						_ = pw.Close()
					}()
				} else {
					body = bytes.NewReader(reqBytes)
				}
				req, _ := http.NewRequestWithContext(ctx, "POST", "http://traced.test/connectrpc.conformance.v1.ConformanceService/M", body)
				req.Header.Set("Content-Type", "application/grpc")
				req.Header.Set("Te", "trailers")
				req.Header.Set("X-Test-Case-Name", p.Name)
				for k := 0; k < 24; k++ {
					// the same sizeable headers on every call: > 4 KB of HPACK dynamic table once they are indexed
					req.Header.Set(fmt.Sprintf("X-Big-%d", k), strings.Repeat("v", 280)+strconv.Itoa(k))
				}
				resp, err := tr.RoundTrip(req)
				if err != nil {
					o.err = err.Error()
					return
				}
				o.status = resp.StatusCode
				defer resp.Body.Close()
				for {
					var pre [5]byte
					if _, err := io.ReadFull(resp.Body, pre[:]); err != nil {
						if err != io.EOF {
							o.err = err.Error()
						}
						break
					}
					n := int(binary.BigEndian.Uint32(pre[1:]))
					msg := make([]byte, n)
					if _, err := io.ReadFull(resp.Body, msg); err != nil {
						o.err = err.Error()
						break
					}
					o.gotResp = append(o.gotResp, n)
					if p.Ending == "client-cancel" && len(o.gotResp) > p.AbortAt {
						o.canceled = true
						cancel()
						break
					}
				}
				o.trailer = resp.Trailer.Get("Grpc-Status")
			}()
		}
		wg.Wait()
		tr.CloseIdleConnections()
		all = append(all, outs...)
	}
	// let the server side notice the closed connections
	time.Sleep(300 * time.Millisecond)
	check := func(side string, coll *vfCountingCollector, o *outcome) {
		p := o.plan
		rep.Eval(1)
		rep.DistinctKey(p.ReqSizes, p.RespSize, p.Ending, p.AbortAt, p.Bidi, side)
		coll.mu.Lock()
		ts := append([]Trace(nil), coll.traces[p.Name]...)
		coll.mu.Unlock()
		w := map[string]any{"side": side, "call": p.Name, "request_message_sizes": p.ReqSizes, "response_message_sizes": p.RespSize, "ending": p.Ending, "abort_or_cancel_after": p.AbortAt, "request_through_pipe": p.Bidi, "app_saw": map[string]any{"status": o.status, "responses": o.gotResp, "trailer": o.trailer, "error": o.err}}
		if len(ts) != 1 {
			rep.Violation(fmt.Sprintf("h2/real/trace-count/%d/%s/%s", len(ts), p.Ending, side), fmt.Sprintf("%d traces for call %s on the %s side, want exactly 1", len(ts), p.Name, side), w)
			return
		}
		sig := vfTraceSig(ts[0])
		w["trace_events"] = sig
		var reqData, respData []string
		respEnd, reqEnd := "", ""
		for _, s := range sig {
			switch {
			case strings.HasPrefix(s, "req-data#"):
				reqData = append(reqData, s)
			case strings.HasPrefix(s, "resp-data#"):
				respData = append(respData, s)
			case strings.HasPrefix(s, "resp-end"):
				respEnd = s
			case strings.HasPrefix(s, "req-end"):
				reqEnd = s
			}
		}
		var wantReq, wantResp []string
		for i, n := range p.ReqSizes {
			wantReq = append(wantReq, fmt.Sprintf("req-data#%d flags=0 declared=%d seen=%d", i, n, n))
		}
		for i, n := range p.RespSize {
			wantResp = append(wantResp, fmt.Sprintf("resp-data#%d flags=0 declared=%d seen=%d", i, n, n))
		}
		isPrefix := func(got, want []string, lastMayBePartial bool) bool {
			if len(got) > len(want) {
				return false
			}
			for i := range got {
				if got[i] != want[i] {
					if lastMayBePartial && i == len(got)-1 && strings.HasPrefix(got[i], strings.SplitN(want[i], " seen=", 2)[0]) {
						continue
					}
					return false
				}
			}
			return true
		}
		switch p.Ending {
		case "trailers":
			rep.Count("real_complete_calls_"+side, 1)
			if strings.Join(reqData, "|") != strings.Join(wantReq, "|") {
				rep.Violation("h2/real/request-messages/"+side, fmt.Sprintf("call %s: request message events %q, the client sent %q", p.Name, reqData, wantReq), w)
			}
			if strings.Join(respData, "|") != strings.Join(wantResp, "|") {
				rep.Violation("h2/real/response-messages/"+side, fmt.Sprintf("call %s: response message events %q, the handler wrote %q", p.Name, respData, wantResp), w)
			}
			if respEnd != "resp-end err=false" || reqEnd != "req-end err=false" {
				rep.Violation("h2/real/terminal/"+side, fmt.Sprintf("call %s ended normally; trace has %q / %q", p.Name, reqEnd, respEnd), w)
			}
			if ts[0].Response == nil || ts[0].Response.StatusCode != 200 || ts[0].Response.Trailer.Get("Grpc-Status") != "0" {
				rep.Violation("h2/real/status-or-trailers/"+side, fmt.Sprintf("call %s: trace response %+v, want 200 with trailer grpc-status 0", p.Name, ts[0].Response), w)
			}
			if ts[0].Request == nil || ts[0].Request.Header.Get("X-Big-23") != strings.Repeat("v", 280)+"23" || ts[0].Response == nil || ts[0].Response.Header.Get("X-Resp-Big-17") != strings.Repeat("r", 280)+"17" {
				rep.Violation("h2/real/big-headers/"+side, fmt.Sprintf("call %s: the 24 sizeable request/response headers are not in the trace as sent (HPACK state)", p.Name), w)
			}
			if ts[0].Err != nil {
				rep.Violation("h2/real/error-on-clean-call/"+side, fmt.Sprintf("call %s ended normally; trace carries %v", p.Name, ts[0].Err), w)
			}
		default:
			rep.Count("real_aborted_calls_"+side, 1)
			if !isPrefix(reqData, wantReq, true) {
				rep.Violation("h2/real/aborted-request-messages/"+side, fmt.Sprintf("call %s (%s): request message events %q are not a prefix of what was sent %q", p.Name, p.Ending, reqData, wantReq), w)
			}
			if !isPrefix(respData, wantResp, true) {
				rep.Violation("h2/real/aborted-response-messages/"+side, fmt.Sprintf("call %s (%s): response message events %q are not a prefix of what was written %q", p.Name, p.Ending, respData, wantResp), w)
			}
			if p.Ending == "handler-abort" && ts[0].Err == nil && respEnd != "resp-end err=true" {
				rep.Violation("h2/real/abort-without-error/"+side, fmt.Sprintf("call %s was reset by the server; the trace shows a clean end", p.Name), w)
			}
		}
	}
	for _, o := range all {
		p := o.plan
		// the call itself (transparency): what the application saw
		if p.Ending == "trailers" {
			w := map[string]any{"call": p.Name, "plan": p, "status": o.status, "responses": o.gotResp, "trailer": o.trailer, "error": o.err}
			if o.err != "" || o.status != 200 || fmt.Sprint(o.gotResp) != fmt.Sprint(append([]int{}, p.RespSize...)) || o.trailer != "0" {
				rep.Violation("h2/real/call-disturbed", fmt.Sprintf("call %s over the traced connection did not complete as planned: status %d, responses %v (want %v), trailer %q, err %q", p.Name, o.status, o.gotResp, p.RespSize, o.trailer, o.err), w)
				continue
			}
		}
		check("client", cliColl, o)
		check("server", srvColl, o)
	}
	rep.Sample(map[string]any{"call": "3 request messages (1 B, 70000 B, 0 B) through a pipe, 2 response messages (300000 B, 5 B), trailers", "expect": "both sides: one trace; req-data#0..2 and resp-data#0..1 with exactly these lengths; 200; grpc-status 0"})
	rep.RequireMin("real_complete_calls_client", 50)
	rep.RequireMin("real_complete_calls_server", 50)
	rep.RequireMin("real_aborted_calls_client", 10)
}
