//go:build verif

package tracer

import (
	"net/http/httptest"
	"sync"
)

type vfCountingCollector struct {
	mu     sync.Mutex
	traces map[string][]Trace
}

func (c *vfCountingCollector) Complete(t Trace) {
	c.mu.Lock()
	if c.traces == nil {
		c.traces = map[string][]Trace{}
	}
	c.traces[t.TestName] = append(c.traces[t.TestName], t)
	c.mu.Unlock()
}


type vfCollector struct {
	mu     sync.Mutex
	traces []Trace
}

func (c *vfCollector) Complete(t Trace) {
	c.mu.Lock()
	c.traces = append(c.traces, t)
	c.mu.Unlock()
}
func (c *vfCollector) Traces() []Trace {
	c.mu.Lock()
	defer c.mu.Unlock()
	return append([]Trace(nil), c.traces...)
}

func vfNewBuilder(collector Collector, client bool) *builder {
	req := httptest.NewRequest("POST", "/svc/Method", nil)
	req.Header.Set("X-Test-Case-Name", "Suite/T")
	b, _ := newBuilder(req, client, collector)
	return b
}
