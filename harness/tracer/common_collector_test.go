//go:build verif

package tracer

import (
	"io"
	"net/http"
	"net/http/httptest"
	"reflect"
	"sync"
)

type vfCountingCollector struct {
	mu     sync.Mutex
	traces map[string][]Trace
}

func (c *vfCountingCollector) Complete(t Trace) {
	c.mu.Lock()
	if c.traces == nil {
		c.traces = map[string][]Trace{}
	}
	c.traces[t.TestName] = append(c.traces[t.TestName], t)
	c.mu.Unlock()
}


type vfCollector struct {
	mu     sync.Mutex
	traces []Trace
}

func (c *vfCollector) Complete(t Trace) {
	c.mu.Lock()
	c.traces = append(c.traces, t)
	c.mu.Unlock()
}
func (c *vfCollector) Traces() []Trace {
	c.mu.Lock()
	defer c.mu.Unlock()
	return append([]Trace(nil), c.traces...)
}

func vfNewBuilder(collector Collector, client bool) *builder {
	req := httptest.NewRequest("POST", "/svc/Method", nil)
	req.Header.Set("X-Test-Case-Name", "Suite/T")
	b, _ := newBuilder(req, client, collector)
	return b
}

// vfNewReader calls the package's newReader whatever the exact shape of its completion callback is
// (func(), func(error), ...): a refactoring of that internal signature must not blind the monitors.
func vfNewReader(headers http.Header, reader io.ReadCloser, isRequest bool, bld *builder, whenDone func()) io.ReadCloser {
	fn := reflect.ValueOf(newReader)
	ft := fn.Type()
	args := make([]reflect.Value, ft.NumIn())
	for i := range args {
		in := ft.In(i)
		switch {
		case in == reflect.TypeOf(headers):
			args[i] = reflect.ValueOf(headers)
		case in.Kind() == reflect.Interface && reflect.TypeOf(reader).Implements(in):
			args[i] = reflect.ValueOf(reader).Convert(in)
		case in.Kind() == reflect.Bool:
			args[i] = reflect.ValueOf(isRequest)
		case in == reflect.TypeOf(bld):
			args[i] = reflect.ValueOf(bld)
		case in.Kind() == reflect.Func:
			cbType := in
			args[i] = reflect.MakeFunc(cbType, func([]reflect.Value) []reflect.Value {
				whenDone()
				outs := make([]reflect.Value, cbType.NumOut())
				for k := range outs {
					outs[k] = reflect.Zero(cbType.Out(k))
				}
				return outs
			})
		default:
			args[i] = reflect.Zero(in)
		}
	}
	return fn.Call(args)[0].Interface().(io.ReadCloser)
}
