//go:build verif

package tracer

import "sync"

type vfCountingCollector struct {
	mu     sync.Mutex
	traces map[string][]Trace
}

func (c *vfCountingCollector) Complete(t Trace) {
	c.mu.Lock()
	if c.traces == nil {
		c.traces = map[string][]Trace{}
	}
	c.traces[t.TestName] = append(c.traces[t.TestName], t)
	c.mu.Unlock()
}

