//go:build verif

package tracer

import (
	"bytes"
	"context"
	"errors"
	"fmt"
	"io"
	"net/http"
	"net/http/httptest"
	"strings"
	"sync"
	"sync/atomic"
	"testing"
	"time"

	"connectrpc.com/conformance/internal/verifkit"
	"github.com/anishathalye/porcupine"
)

// ---------------------------------------------------------------- part A1: sequential, exhaustive

// vfSignalCtx tells the driver when Await has passed its critical section
// and is blocked in its select (Done() is only called there).
type vfSignalCtx struct {
	context.Context
	reached chan struct{}
	once    sync.Once
}

func (c *vfSignalCtx) Done() <-chan struct{} {
	c.once.Do(func() { close(c.reached) })
	return c.Context.Done()
}

type vfWaiter struct {
	name     string
	slotAt   string // none | pending | done:<id> at the time the wait began
	gen      int    // generation of the slot the waiter attached to
	result   chan string
	cancel   context.CancelFunc
	returned string
	ptr      *Trace // what Await handed out (kept: it must not change afterwards)
	ptrName  string
}

type vfSlot struct {
	state   string // none, pending, done
	id      int
	gen     int
	genDone map[int]int // generation -> id of the completion that generation received
}

func vfAwaitOutcome(tr *Trace, err error) string {
	switch {
	case err == nil && tr != nil && tr.Err != nil:
		return "trace:" + tr.Err.Error()
	case err == nil:
		return "trace:?"
	case errors.Is(err, context.Canceled) || errors.Is(err, context.DeadlineExceeded):
		return "ctx"
	case strings.Contains(err.Error(), "cleared"):
		return "cleared"
	}
	return "error:" + err.Error()
}

func TestVerifC16Sequential(t *testing.T) {
	maxLen := verifkit.Scale(5, 6)
	rep := verifkit.Begin("C16", "tracer-sequential", fmt.Sprintf("every sequence of up to %d operations over {Init, Complete, Clear, Await} x up to 3 test names (names introduced in order), at most 2 waiters per sequence; Await is issued on a goroutine and the driver proceeds once it returned or is provably blocked in its select; outcomes compared with a slot/generation model; distinct = sequences with at least one Await", maxLen))
	defer rep.Write()
	names := []string{"a", "b", "c"}
	ops := []string{"init", "complete", "clear", "await"}
	var seq []string
	var rec func()
	nextID := 0
	rec = func() {
		if len(seq) > 0 {
			vfRunSequence(rep, seq, &nextID)
		}
		if len(seq) == maxLen {
			return
		}
		// names are introduced in order (symmetry): a new name may only be the next unused one
		used := 0
		for _, s := range seq {
			for i, n := range names {
				if strings.HasSuffix(s, ":"+n) && i+1 > used {
					used = i + 1
				}
			}
		}
		waits := 0
		for _, s := range seq {
			if strings.HasPrefix(s, "await") {
				waits++
			}
		}
		for ni := 0; ni <= used && ni < len(names); ni++ {
			for _, op := range ops {
				if op == "await" && waits >= 2 {
					continue
				}
				seq = append(seq, op+":"+names[ni])
				rec()
				seq = seq[:len(seq)-1]
			}
		}
	}
	rec()
	rep.Exhaustive = true
	rep.Sample(map[string]any{"sequence": []string{"init:a", "await:a", "complete:a", "complete:a", "await:a"}, "expect": "both waiters get the first completion's trace"})
	rep.RequireMin("await_blocked_then_completed", 100)
	rep.RequireMin("await_on_cleared", 100)
}

func vfRunSequence(rep *verifkit.Report, seq []string, nextID *int) {
	rep.Eval(1)
	tr := &Tracer{}
	slots := map[string]*vfSlot{}
	var waiters []*vfWaiter
	hasAwait := false
	w := map[string]any{"sequence": append([]string(nil), seq...)}
	rep.InFlight(w)
	for _, s := range seq {
		parts := strings.SplitN(s, ":", 2)
		op, name := parts[0], parts[1]
		sl := slots[name]
		if sl == nil {
			sl = &vfSlot{state: "none", genDone: map[int]int{}}
			slots[name] = sl
		}
		switch op {
		case "init":
			tr.Init(name)
			sl.state, sl.id = "pending", 0
			sl.gen++
		case "clear":
			tr.Clear(name)
			sl.state, sl.id = "none", 0
			sl.gen++
		case "complete":
			*nextID++
			id := *nextID
			tr.Complete(Trace{TestName: name, Err: fmt.Errorf("%d", id)})
			if sl.state == "pending" {
				sl.state, sl.id = "done", id
				sl.genDone[sl.gen] = id
			}
		case "await":
			hasAwait = true
			ctx, cancel := context.WithCancel(context.Background())
			sc := &vfSignalCtx{Context: ctx, reached: make(chan struct{})}
			wt := &vfWaiter{name: name, slotAt: sl.state, gen: sl.gen, result: make(chan string, 1), cancel: cancel}
			if sl.state == "done" {
				wt.slotAt = fmt.Sprintf("done:%d", sl.id)
			}
			go func() {
				got, err := tr.Await(sc, name)
				if got != nil {
					wt.ptr, wt.ptrName = got, got.TestName
				}
				wt.result <- vfAwaitOutcome(got, err)
			}()
			select {
			case r := <-wt.result:
				wt.returned = r
			case <-sc.reached:
			case <-time.After(20 * time.Second):
				rep.Violation("handoff/await-stuck", "Await neither returned nor reached its wait", w)
				cancel()
				return
			}
			waiters = append(waiters, wt)
		}
	}
	if hasAwait {
		rep.DistinctKey(seq)
	}
	// settle: a blocked waiter whose generation completed must return on its own; the others return once their context ends
	for _, wt := range waiters {
		sl := slots[wt.name]
		expectTrace := ""
		switch {
		case strings.HasPrefix(wt.slotAt, "done:"):
			expectTrace = strings.TrimPrefix(wt.slotAt, "done:")
		case wt.slotAt == "pending" && sl.genDone[wt.gen] != 0:
			// the slot the waiter attached to was completed (whatever happened to the name afterwards)
			expectTrace = fmt.Sprint(sl.genDone[wt.gen])
		}
		if wt.returned == "" {
			if expectTrace != "" {
				select {
				case wt.returned = <-wt.result:
				case <-time.After(20 * time.Second):
					rep.Violation("handoff/completion-not-delivered", fmt.Sprintf("waiter on %q began while pending, the slot was completed (id %s) but Await did not return", wt.name, expectTrace), w)
					wt.cancel()
					continue
				}
			} else {
				// must not return before its context ends ... give it a moment to (wrongly) return
				select {
				case r := <-wt.result:
					wt.returned = r
				case <-time.After(50 * time.Microsecond):
					wt.cancel()
					select {
					case wt.returned = <-wt.result:
					case <-time.After(20 * time.Second):
						rep.Violation("handoff/await-outlives-context", fmt.Sprintf("Await(%q) did not return after its context was cancelled", wt.name), w)
						continue
					}
				}
			}
		}
		wt.cancel()
		w["waiter"] = map[string]any{"name": wt.name, "slot_when_wait_began": wt.slotAt, "returned": wt.returned}
		switch {
		case wt.slotAt == "none":
			rep.Count("await_on_cleared", 1)
			if wt.returned != "cleared" {
				rep.Violation("handoff/await-on-cleared", fmt.Sprintf("Await on a cleared / never initialised name returned %q, want an immediate 'cleared' error", wt.returned), w)
			}
		case strings.HasPrefix(wt.slotAt, "done:"):
			rep.Count("await_after_completion", 1)
			if wt.returned != "trace:"+expectTrace {
				rep.Violation("handoff/wrong-trace-after-completion", fmt.Sprintf("Await after completion returned %q, want the first completed trace %s", wt.returned, expectTrace), w)
			}
		case expectTrace != "":
			rep.Count("await_blocked_then_completed", 1)
			if wt.returned != "trace:"+expectTrace {
				rep.Violation("handoff/wrong-trace-after-wait", fmt.Sprintf("waiter that began before completion got %q, want the first completed trace %s", wt.returned, expectTrace), w)
			}
		default:
			// pending when the wait began and never completed in that generation (or slot was cleared /
			// re-initialised meanwhile): only "does not outlive its context" and "no foreign trace" are required
			rep.Count("await_never_completed", 1)
			if strings.HasPrefix(wt.returned, "trace:") {
				id := strings.TrimPrefix(wt.returned, "trace:")
				if !(sl.state == "done" && fmt.Sprint(sl.id) == id) {
					rep.Violation("handoff/trace-from-nowhere", fmt.Sprintf("waiter got trace %s which was never the completed trace of %q", id, wt.name), w)
				}
			}
		}
	}
	// final state probe for every name: Await with a cancelled context is an atomic read of the slot
	for name, sl := range slots {
		ctx, cancel := context.WithCancel(context.Background())
		cancel()
		got, err := tr.Await(ctx, name)
		out := vfAwaitOutcome(got, err)
		want := map[string]string{"none": "cleared", "pending": "ctx", "done": fmt.Sprintf("trace:%d", sl.id)}[sl.state]
		if out != want {
			w["probe"] = map[string]any{"name": name, "model_state": sl.state, "got": out, "want": want}
			key := "handoff/final-state/" + sl.state
			rep.Violation(key, fmt.Sprintf("after the sequence, name %q is %s in the model (want %s) but Await gives %q", name, sl.state, want, out), w)
		}
	}
	// a trace that was handed to a waiter is the waiter's: later operations on the tracer do not change it
	for _, wt := range waiters {
		if wt.ptr == nil || !strings.HasPrefix(wt.returned, "trace:") {
			continue
		}
		if now := vfAwaitOutcome(wt.ptr, nil); now != wt.returned || wt.ptr.TestName != wt.ptrName {
			rep.Violation("handoff/delivered-trace-changed-later", fmt.Sprintf("the trace handed to a waiter on %q read %s (name %q) when delivered and reads %s (name %q) after the rest of the sequence", wt.name, wt.returned, wt.ptrName, now, wt.ptr.TestName), w)
		} else {
			rep.Count("delivered_traces_rechecked", 1)
		}
	}
}

// ---------------------------------------------------------------- part A2: concurrent, porcupine

type vfPIn struct {
	Name string
	Op   string
	ID   int
}
type vfPOut struct {
	Kind string // ok, trace, cleared, ctx
	ID   int
}
type vfPState struct {
	Slot int // 0 none, 1 pending, 2 done
	ID   int
}

var vfPModel = porcupine.Model{
	Partition: func(h []porcupine.Operation) [][]porcupine.Operation {
		m := map[string][]porcupine.Operation{}
		for _, o := range h {
			m[o.Input.(vfPIn).Name] = append(m[o.Input.(vfPIn).Name], o)
		}
		var out [][]porcupine.Operation
		for _, k := range verifkit.SortedKeys(m) {
			out = append(out, m[k])
		}
		return out
	},
	Init: func() any { return vfPState{} },
	Step: func(st, in, out any) (bool, any) {
		s, i, o := st.(vfPState), in.(vfPIn), out.(vfPOut)
		switch i.Op {
		case "init":
			return true, vfPState{Slot: 1}
		case "clear":
			return true, vfPState{}
		case "complete":
			if s.Slot == 1 {
				return true, vfPState{Slot: 2, ID: i.ID}
			}
			return true, s
		case "await":
			switch o.Kind {
			case "trace":
				return s.Slot == 2 && s.ID == o.ID, s
			case "cleared":
				return s.Slot == 0, s
			case "ctx":
				return s.Slot == 1, s
			case "open": // still blocked when the history ended: no constraint
				return true, s
			}
		}
		return false, s
	},
	Equal: func(a, b any) bool { return a == b },
	DescribeOperation: func(in, out any) string {
		return fmt.Sprintf("%v -> %v", in, out)
	},
}

func TestVerifC16Concurrent(t *testing.T) {
	rep := verifkit.Begin("C16", "tracer-concurrent", "concurrent histories: 4-8 goroutines x 4-7 random operations (Init/Complete with unique id/Clear/Await with 0-2 ms context) on 1-3 names, call/return stamped at the API boundary from one monotonic clock, checked per name with porcupine against the slot model; distinct = histories (by operation multiset and interleaving signature)")
	defer rep.Write()
	nh := verifkit.Scale(2500, 80000)
	start := time.Now()
	for h := 0; h < nh; h++ {
		rng := verifkit.Stream("c16conc", h)
		tr := &Tracer{}
		var mu sync.Mutex
		var ops []porcupine.Operation
		var wg sync.WaitGroup
		var nextID atomic.Int64
		names := []string{"a", "b", "c"}[:1+rng.Intn(3)]
		ng := 4 + rng.Intn(5)
		// all random choices are drawn before the goroutines start
		type planned struct {
			in      vfPIn
			timeout time.Duration
		}
		plans := make([][]planned, ng)
		for g := range plans {
			for k := 4 + rng.Intn(4); k > 0; k-- {
				p := planned{in: vfPIn{Name: verifkit.Pick(rng, names)}, timeout: time.Duration(rng.Intn(3)) * time.Millisecond}
				switch rng.Intn(6) {
				case 0:
					p.in.Op = "init"
				case 1:
					p.in.Op = "clear"
				case 2, 3:
					p.in.Op = "complete"
				default:
					p.in.Op = "await"
				}
				plans[g] = append(plans[g], p)
			}
		}
		if rng.Bool() {
			for _, n := range names {
				tr.Init(n) // histories that start initialised exercise completion more often
				ops = append(ops, porcupine.Operation{ClientId: ng, Input: vfPIn{Name: n, Op: "init"}, Output: vfPOut{Kind: "ok"}, Call: 0, Return: 1})
			}
		}
		base := time.Now()
		for g := 0; g < ng; g++ {
			wg.Add(1)
			go func(g int) {
				defer wg.Done()
				for _, p := range plans[g] {
					in := p.in
					var out vfPOut
					if in.Op == "complete" {
						in.ID = int(nextID.Add(1))
					}
					call := time.Since(base).Nanoseconds() + 2
					switch in.Op {
					case "init":
						tr.Init(in.Name)
						out.Kind = "ok"
					case "clear":
						tr.Clear(in.Name)
						out.Kind = "ok"
					case "complete":
						tr.Complete(Trace{TestName: in.Name, Err: fmt.Errorf("%d", in.ID)})
						out.Kind = "ok"
					case "await":
						ctx, cancel := context.WithTimeout(context.Background(), p.timeout)
						got, err := tr.Await(ctx, in.Name)
						cancel()
						o := vfAwaitOutcome(got, err)
						switch {
						case strings.HasPrefix(o, "trace:"):
							out.Kind = "trace"
							fmt.Sscanf(strings.TrimPrefix(o, "trace:"), "%d", &out.ID)
						case o == "cleared":
							out.Kind = "cleared"
						default:
							out.Kind = "ctx"
						}
					}
					ret := time.Since(base).Nanoseconds() + 2
					mu.Lock()
					ops = append(ops, porcupine.Operation{ClientId: g, Input: in, Call: call, Output: out, Return: ret})
					mu.Unlock()
				}
			}(g)
		}
		done := make(chan struct{})
		go func() { wg.Wait(); close(done) }()
		select {
		case <-done:
		case <-time.After(60 * time.Second):
			rep.Violation("handoff/concurrent-stuck", "a concurrent history did not finish: an Await outlived its 0-2 ms context or the tracer deadlocked", map[string]any{"history": h})
			continue
		}
		rep.Eval(1)
		res, info := porcupine.CheckOperationsVerbose(vfPModel, ops, 60*time.Second)
		sig := make([]string, 0, len(ops))
		kinds := map[string]int{}
		for _, o := range ops {
			sig = append(sig, fmt.Sprintf("%d%s%s", o.ClientId, o.Input.(vfPIn).Op[:2], o.Output.(vfPOut).Kind[:2]))
			kinds[o.Input.(vfPIn).Op+"->"+o.Output.(vfPOut).Kind]++
		}
		for k, v := range kinds {
			rep.Count(k, v)
		}
		rep.DistinctKey(sig)
		switch res {
		case porcupine.Ok:
			rep.Count("linearizable_histories", 1)
		case porcupine.Unknown:
			rep.Inconcl(fmt.Sprintf("porcupine timed out on history %d (%d ops)", h, len(ops)))
		case porcupine.Illegal:
			var lines []string
			for _, o := range ops {
				lines = append(lines, fmt.Sprintf("client %d [%d,%d] %v -> %v", o.ClientId, o.Call, o.Return, o.Input, o.Output))
			}
			_ = info
			rep.Violation("handoff/not-linearizable", fmt.Sprintf("history %d (%d operations on %d names) is not linearizable w.r.t. the slot model", h, len(ops), len(names)), map[string]any{"history_index": h, "operations": lines})
		}
	}
	rep.Note("elapsed %.1fs", time.Since(start).Seconds())
	rep.Sample(map[string]any{"history": []string{"client 0 [10,20] {a init} -> ok", "client 1 [12,900] {a await} -> trace 3", "client 2 [15,30] {a complete 3} -> ok"}, "verdict": "linearizable"})
	rep.RequireMin("await->trace", 200)
	rep.RequireMin("await->ctx", 200)
	rep.RequireMin("await->cleared", 200)
}

// ---------------------------------------------------------------- part B: builder finish-once

func vfIsTerminal(e Event) bool {
	switch e := e.(type) {
	case *ResponseBodyEnd, *ResponseError, *RequestCanceled:
		return true
	case *RequestBodyEnd:
		return e.Err != nil
	}
	return false
}

// TestVerifC16Builder: builder events from concurrent goroutines in random
// order; exactly one completion, nothing after the terminal event.
func TestVerifC16Builder(t *testing.T) {
	rep := verifkit.Begin("C16", "builder", "one builder per scenario (client or server side, named or unnamed); request-body goroutine (k data events, end with/without error), response goroutine (start or transport error, m data events, end with/without error), cancel goroutine and build() fired with 0-200 us offsets; final build() after all; oracle: Collector.Complete exactly once for named operations (never for unnamed), delivered events start with RequestStart, contain no event after the terminal one, preserve each producer's order, data indexes consecutive; distinct = event-kind sequences delivered")
	defer rep.Write()
	n := verifkit.Scale(6000, 250000)
	coll := &vfCountingCollector{}
	type scen struct {
		name      string
		named     bool
		offered   map[Event]string // event -> producer
		orderReq  []Event
		orderResp []Event
	}
	scens := make([]*scen, n)
	var wg sync.WaitGroup
	sem := make(chan struct{}, 32)
	var panics atomic.Int64
	for i := 0; i < n; i++ {
		rng := verifkit.Stream("c16builder", i)
		sc := &scen{name: fmt.Sprintf("b%d", i), named: !rng.Chance(1, 10), offered: map[Event]string{}}
		scens[i] = sc
		req := httptest.NewRequest("POST", "/svc/M", nil)
		if sc.named {
			req.Header.Set("X-Test-Case-Name", sc.name)
		}
		client := rng.Bool()
		b, _ := newBuilder(req, client, coll)
		// plan (all randomness drawn here)
		k, m := rng.Intn(4), rng.Intn(4)
		reqErr, respErrAtStart, respEndErr := rng.Chance(1, 4), rng.Chance(1, 5), rng.Chance(1, 4)
		doCancel, doBuild := rng.Chance(1, 3), rng.Chance(1, 4)
		d := func() time.Duration { return time.Duration(rng.Intn(200)) * time.Microsecond }
		dReq, dResp, dCancel, dBuild := d(), d(), d(), d()
		for j := 0; j < k; j++ {
			sc.orderReq = append(sc.orderReq, &RequestBodyData{Len: uint64(j)})
		}
		var e error
		if reqErr {
			e = errors.New("request body failed")
		}
		sc.orderReq = append(sc.orderReq, &RequestBodyEnd{Err: e})
		if respErrAtStart {
			sc.orderResp = append(sc.orderResp, &ResponseError{Err: errors.New("transport error")})
		} else {
			sc.orderResp = append(sc.orderResp, &ResponseStart{Response: &http.Response{StatusCode: 200, Proto: "HTTP/2.0", ProtoMajor: 2, Header: http.Header{}}})
			for j := 0; j < m; j++ {
				sc.orderResp = append(sc.orderResp, &ResponseBodyData{Len: uint64(j)})
			}
			var e2 error
			if respEndErr {
				e2 = io.ErrUnexpectedEOF
			}
			sc.orderResp = append(sc.orderResp, &ResponseBodyEnd{Err: e2})
		}
		for _, ev := range sc.orderReq {
			sc.offered[ev] = "req"
		}
		for _, ev := range sc.orderResp {
			sc.offered[ev] = "resp"
		}
		cancelEv := &RequestCanceled{}
		sc.offered[cancelEv] = "cancel"
		wg.Add(1)
		sem <- struct{}{}
		go func() {
			defer wg.Done()
			defer func() { <-sem }()
			var inner sync.WaitGroup
			fire := func(delay time.Duration, f func()) {
				inner.Add(1)
				go func() {
					defer inner.Done()
					time.Sleep(delay)
					if p := verifkit.Catch(f); p != nil {
						panics.Add(1)
						rep.Violation("builder/panic/"+p.Site, p.Value, map[string]any{"scenario": sc.name, "stack": verifkit.Trunc(p.Stack, 2500)})
					}
				}()
			}
			fire(dReq, func() {
				for _, ev := range sc.orderReq {
					b.add(ev)
				}
			})
			fire(dResp, func() {
				for _, ev := range sc.orderResp {
					b.add(ev)
				}
			})
			if doCancel {
				fire(dCancel, func() { b.add(cancelEv) })
			}
			if doBuild {
				fire(dBuild, func() { b.build() })
			}
			inner.Wait()
			if p := verifkit.Catch(func() { b.build() }); p != nil {
				rep.Violation("builder/panic/"+p.Site, p.Value, map[string]any{"scenario": sc.name})
			}
		}()
	}
	wg.Wait()
	coll.mu.Lock()
	defer coll.mu.Unlock()
	if len(coll.traces[""]) > 0 {
		rep.Violation("builder/unnamed-completed", fmt.Sprintf("%d traces without a test name were completed", len(coll.traces[""])), nil)
	}
	for _, sc := range scens {
		rep.Eval(1)
		ts := coll.traces[sc.name]
		if !sc.named {
			rep.Count("unnamed_operations", 1)
			continue
		}
		w := map[string]any{"scenario": sc.name}
		if len(ts) != 1 {
			rep.Violation(fmt.Sprintf("builder/complete-count/%d", len(ts)), fmt.Sprintf("Collector.Complete called %d times for one operation", len(ts)), w)
			continue
		}
		evs := ts[0].Events
		var kinds []string
		for _, e := range evs {
			kinds = append(kinds, strings.TrimPrefix(fmt.Sprintf("%T", e), "*tracer."))
		}
		w["delivered"] = kinds
		rep.DistinctKey(kinds)
		if len(evs) == 0 {
			rep.Violation("builder/empty-trace", "completed trace has no events", w)
			continue
		}
		if _, ok := evs[0].(*RequestStart); !ok {
			rep.Violation("builder/first-event", "first event is not RequestStart", w)
		}
		seen := map[Event]bool{}
		lastReq, lastResp := -1, -1
		reqIdx, respIdx := 0, 0
		for j, e := range evs[1:] {
			if seen[e] {
				rep.Violation("builder/duplicate-event", "an event was recorded twice", w)
			}
			seen[e] = true
			prod, ok := sc.offered[e]
			if !ok {
				rep.Violation("builder/foreign-event", fmt.Sprintf("event %T was never offered to this builder", e), w)
				continue
			}
			pos := func(list []Event) int {
				for x, y := range list {
					if y == e {
						return x
					}
				}
				return -1
			}
			switch prod {
			case "req":
				if p := pos(sc.orderReq); p <= lastReq {
					rep.Violation("builder/order", "request-side events reordered", w)
				} else {
					lastReq = p
				}
			case "resp":
				if p := pos(sc.orderResp); p <= lastResp {
					rep.Violation("builder/order", "response-side events reordered", w)
				} else {
					lastResp = p
				}
			}
			switch d := e.(type) {
			case *RequestBodyData:
				if d.MessageIndex != reqIdx {
					rep.Violation("builder/message-index", fmt.Sprintf("request data index %d, want %d", d.MessageIndex, reqIdx), w)
				}
				reqIdx++
			case *ResponseBodyData:
				if d.MessageIndex != respIdx {
					rep.Violation("builder/message-index", fmt.Sprintf("response data index %d, want %d", d.MessageIndex, respIdx), w)
				}
				respIdx++
			}
			if vfIsTerminal(e) && j+1 != len(evs)-1 {
				rep.Violation("builder/event-after-completion", fmt.Sprintf("event recorded after the terminal %T", e), w)
			}
		}
		if vfIsTerminal(evs[len(evs)-1]) {
			rep.Count("finished_by_terminal_event", 1)
		} else {
			rep.Count("finished_by_build", 1)
		}
	}
	rep.Note("panics recovered in producer goroutines: %d", panics.Load())
	rep.Sample(map[string]any{"delivered": []string{"RequestStart", "RequestBodyData", "ResponseStart", "RequestCanceled"}, "offered_after": []string{"ResponseBodyData", "ResponseBodyEnd"}, "verdict": "one completion, nothing after the terminal event"})
	rep.RequireMin("finished_by_terminal_event", 1000)
}

// TestVerifC16RoundTrip: the same oracle through TracingRoundTripper and
// TracingHandler with racing transport error / body error / cancel.
func TestVerifC16RoundTrip(t *testing.T) {
	rep := verifkit.Begin("C16", "roundtrip", "traced client round trips over a scripted transport (ok / transport error / body error / cancel racing body end / body-less response (http.NoBody), body read delays 0-200 us, body closed or not, or closed by a second goroutine while the first is still reading) and traced server handlers (write + early return, panic, client cancel); oracle: exactly one Complete per named operation, terminal event last, each body ends at most once; distinct = (side, mode, delivered event kinds)")
	defer rep.Write()
	n := verifkit.Scale(3000, 100000)
	coll := &vfCountingCollector{}
	modes := make([]int, n)
	var wg sync.WaitGroup
	var lateMu sync.Mutex
	var lateCancels []context.CancelFunc
	defer func() {
		for _, c := range lateCancels {
			c()
		}
	}()
	sem := make(chan struct{}, 48)
	for i := 0; i < n; i++ {
		rng := verifkit.Stream("c16rt", i)
		mode := rng.Intn(7)
		modes[i] = mode
		bodyDelay := time.Duration(rng.Intn(200)) * time.Microsecond
		cancelDelay := time.Duration(rng.Intn(300)) * time.Microsecond
		closeBody := rng.Bool()
		racyClose := rng.Chance(1, 3)
		closeDelay := time.Duration(rng.Intn(3)) * bodyDelay / 2
		name := fmt.Sprintf("r%d", i)
		wg.Add(1)
		sem <- struct{}{}
		go func() {
			defer wg.Done()
			defer func() { <-sem }()
			if mode <= 3 || mode == 6 {
				rt := TracingRoundTripper(roundTripperFunc(func(req *http.Request) (*http.Response, error) {
					if req.Body != nil && racyClose {
						// like a real transport: the body is read by one goroutine and closed by another
						done := make(chan struct{})
						go func() { _, _ = io.Copy(io.Discard, req.Body); close(done) }()
						time.Sleep(closeDelay)
						req.Body.Close()
						<-done
					} else if req.Body != nil {
						_, _ = io.Copy(io.Discard, req.Body)
						req.Body.Close()
					}
					if mode == 1 {
						return nil, errors.New("dial failed")
					}
					if mode == 6 {
						// a response without a body, as net/http hands it out (204, 304, HEAD, Content-Length: 0)
						return &http.Response{StatusCode: verifkit.Pick(rng, []int{204, 304, 200}), Proto: "HTTP/1.1", ProtoMajor: 1, ProtoMinor: 1, Header: http.Header{"Content-Type": {"application/connect+proto"}}, Body: http.NoBody, ContentLength: 0}, nil
					}
					var berr error
					if mode == 2 {
						berr = errors.New("reset")
					}
					return &http.Response{StatusCode: 200, Proto: "HTTP/1.1", ProtoMajor: 1, ProtoMinor: 1, Header: http.Header{"Content-Type": {"application/connect+proto"}},
						Body: &vfSlowBody{chunks: [][]byte{{0, 0, 0, 0, 2, 1}, {2, 2, 0, 0, 0, 2, '{', '}'}}, err: berr, delay: bodyDelay, ctx: req.Context()}}, nil
				}), coll)
				ctx, cancel := context.WithCancel(context.Background())
				req, _ := http.NewRequestWithContext(ctx, "POST", "http://x/y", strings.NewReader("abc"))
				req.Header.Set("X-Test-Case-Name", name)
				req.Header.Set("Content-Type", "application/connect+proto")
				if mode == 3 {
					go func() { time.Sleep(cancelDelay); cancel() }()
				}
				resp, err := rt.RoundTrip(req)
				if err == nil && racyClose {
					done := make(chan struct{})
					go func() { _, _ = io.Copy(io.Discard, resp.Body); close(done) }()
					time.Sleep(closeDelay)
					resp.Body.Close()
					<-done
				} else if err == nil {
					_, _ = io.Copy(io.Discard, resp.Body)
					if closeBody {
						resp.Body.Close()
					}
				}
				if mode == 6 {
					// the call's context stays live: completion must come from the (empty) body ending, not from a later cancel
					lateMu.Lock()
					lateCancels = append(lateCancels, cancel)
					lateMu.Unlock()
					return
				}
				cancel()
				return
			}
			// server side
			h := TracingHandler(http.HandlerFunc(func(w http.ResponseWriter, r *http.Request) {
				_, _ = io.Copy(io.Discard, r.Body)
				w.Header().Set("Content-Type", "application/connect+proto")
				_, _ = w.Write([]byte{0, 0, 0, 0, 1, 9})
				if mode == 5 {
					panic("handler panic")
				}
				_, _ = w.Write([]byte{2, 0, 0, 0, 2, '{', '}'})
			}), coll)
			ctx, cancel := context.WithCancel(context.Background())
			req := httptest.NewRequest("POST", "/svc/M", strings.NewReader("xyz")).WithContext(ctx)
			req.Header.Set("X-Test-Case-Name", name)
			go func() { time.Sleep(cancelDelay); cancel() }()
			func() {
				defer func() { _ = recover() }()
				h.ServeHTTP(httptest.NewRecorder(), req)
			}()
			cancel()
		}()
	}
	wg.Wait()
	time.Sleep(30 * time.Millisecond) // let cancel goroutines of finished operations run (they must be no-ops)
	coll.mu.Lock()
	defer coll.mu.Unlock()
	for i := 0; i < n; i++ {
		rep.Eval(1)
		ts := coll.traces[fmt.Sprintf("r%d", i)]
		w := map[string]any{"operation": i, "mode": []string{"client ok", "client transport error", "client body error", "client cancel race", "server ok", "server panic", "client body-less response"}[modes[i]]}
		if len(ts) != 1 {
			rep.Violation(fmt.Sprintf("builder/roundtrip-complete-count/%d", len(ts)), fmt.Sprintf("Collector.Complete called %d times (%s)", len(ts), w["mode"]), w)
			continue
		}
		evs := ts[0].Events
		var kinds []string
		for _, e := range evs {
			kinds = append(kinds, strings.TrimPrefix(fmt.Sprintf("%T", e), "*tracer."))
		}
		rep.DistinctKey(modes[i], kinds)
		nReqEnd, nRespEnd := 0, 0
		for _, e := range evs {
			switch e.(type) {
			case *RequestBodyEnd:
				nReqEnd++
			case *ResponseBodyEnd:
				nRespEnd++
			}
		}
		if nReqEnd > 1 || nRespEnd > 1 {
			w["delivered"] = kinds
			rep.Violation("builder/roundtrip-body-end-twice", fmt.Sprintf("a body ended %d/%d times (request/response) in one trace (%s)", nReqEnd, nRespEnd, w["mode"]), w)
		}
		for j, e := range evs {
			if vfIsTerminal(e) && j != len(evs)-1 {
				w["delivered"] = kinds
				rep.Violation("builder/roundtrip-event-after-completion", fmt.Sprintf("event after terminal %T (%s)", e, w["mode"]), w)
			}
		}
		rep.Count("mode:"+w["mode"].(string), 1)
	}
	rep.Sample(map[string]any{"mode": "client cancel race", "delivered": []string{"RequestStart", "RequestBodyEnd", "ResponseStart", "ResponseBodyData", "RequestCanceled"}})
}

type vfSlowBody struct {
	chunks [][]byte
	err    error
	delay  time.Duration
	ctx    context.Context
}

func (b *vfSlowBody) Read(p []byte) (int, error) {
	if b.delay > 0 {
		select {
		case <-time.After(b.delay):
		case <-b.ctx.Done():
			return 0, b.ctx.Err()
		}
	}
	if len(b.chunks) == 0 {
		if b.err != nil {
			return 0, b.err
		}
		return 0, io.EOF
	}
	n := copy(p, b.chunks[0])
	b.chunks[0] = b.chunks[0][n:]
	if len(b.chunks[0]) == 0 {
		b.chunks = b.chunks[1:]
	}
	return n, nil
}
func (b *vfSlowBody) Close() error { return nil }

// TestVerifC16LongStream: completion must not depend on how many events a call produced.
func TestVerifC16LongStream(t *testing.T) {
	rep := verifkit.Begin("C16", "long-stream", "traced client round trips and server handlers whose response stream carries N data messages, N in {1, 100, 1000, 4000, 4090..4100, 5000, 8191..8193, 20000, 70000}; oracle: exactly one Complete per call, terminal event last, N response data events recorded; distinct = (side, N)")
	defer rep.Write()
	ns := []int{1, 100, 1000, 4000, 5000, 8191, 8192, 8193, 20000, 70000}
	for n := 4090; n <= 4100; n++ {
		ns = append(ns, n)
	}
	for _, n := range ns {
		var body bytes.Buffer
		for i := 0; i < n; i++ {
			body.Write([]byte{0, 0, 0, 0, 1, byte(i)})
		}
		body.Write([]byte{2, 0, 0, 0, 2, '{', '}'})
		for _, server := range []bool{false, true} {
			rep.Eval(1)
			rep.DistinctKey(server, n)
			coll := &vfCountingCollector{}
			name := fmt.Sprintf("long-%v-%d", server, n)
			if server {
				h := TracingHandler(http.HandlerFunc(func(w http.ResponseWriter, r *http.Request) {
					_, _ = io.Copy(io.Discard, r.Body)
					w.Header().Set("Content-Type", "application/connect+proto")
					b := body.Bytes()
					for len(b) > 0 {
						k := 4096
						if k > len(b) {
							k = len(b)
						}
						_, _ = w.Write(b[:k])
						b = b[k:]
					}
				}), coll)
				req := httptest.NewRequest("POST", "/svc/M", strings.NewReader("xyz"))
				req.Header.Set("X-Test-Case-Name", name)
				h.ServeHTTP(httptest.NewRecorder(), req)
			} else {
				rt := TracingRoundTripper(roundTripperFunc(func(req *http.Request) (*http.Response, error) {
					if req.Body != nil {
						_, _ = io.Copy(io.Discard, req.Body)
						req.Body.Close()
					}
					return &http.Response{StatusCode: 200, Proto: "HTTP/1.1", ProtoMajor: 1, ProtoMinor: 1, Header: http.Header{"Content-Type": {"application/connect+proto"}},
						Body: io.NopCloser(bytes.NewReader(body.Bytes()))}, nil
				}), coll)
				req, _ := http.NewRequest("POST", "http://x/y", strings.NewReader("abc"))
				req.Header.Set("X-Test-Case-Name", name)
				req.Header.Set("Content-Type", "application/connect+proto")
				resp, err := rt.RoundTrip(req)
				if err == nil {
					_, _ = io.Copy(io.Discard, resp.Body)
					resp.Body.Close()
				}
			}
			w := map[string]any{"server_side": server, "response_data_messages": n}
			coll.mu.Lock()
			ts := coll.traces[name]
			coll.mu.Unlock()
			if len(ts) != 1 {
				rep.Violation(fmt.Sprintf("builder/long-stream-complete-count/%d", len(ts)), fmt.Sprintf("Collector.Complete called %d times for a call with %d response messages", len(ts), n), w)
				continue
			}
			data := 0
			for j, e := range ts[0].Events {
				if d, ok := e.(*ResponseBodyData); ok && (d.Envelope == nil || d.Envelope.Flags&2 == 0) {
					data++ // (the end-of-stream envelope is recorded as data too; not counted here)
				}
				if vfIsTerminal(e) && j != len(ts[0].Events)-1 {
					rep.Violation("builder/long-stream-event-after-completion", fmt.Sprintf("event after terminal %T", e), w)
				}
			}
			if data != n {
				rep.Violation("builder/long-stream-data-events", fmt.Sprintf("%d response data events recorded for %d messages", data, n), w)
			}
			rep.Count("long_streams_checked", 1)
		}
	}
	rep.Sample(map[string]any{"side": "client", "messages": 4096, "expect": "one Complete; 4096 ResponseBodyData events then the end"})
}
