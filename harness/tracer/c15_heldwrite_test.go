//go:build verif

package tracer

import (
	"fmt"
	"io"
	"net"
	"sync"
	"testing"
	"time"

	"connectrpc.com/conformance/internal/verifkit"
	"golang.org/x/net/http2"
)

// vfHeldConn hands the written bytes over to "the network" at once but returns from Write only after the
// peer's reaction has been read by the other direction - the schedule in which the writer goroutine is
// descheduled right after the kernel took its bytes.
type vfHeldConn struct {
	mu        sync.Mutex
	pre       []byte        // what the peer has sent before the write (readable at once)
	reaction  []byte        // what the peer sends once it has seen the write
	preTaken  chan struct{} // closed when everything sent before the write has been returned to (and processed by) the reader
	pOnce     sync.Once
	written   chan struct{} // closed when Write has delivered its bytes
	release   chan struct{} // closed when the peer's reaction has been taken in by the other direction: Write may return
	eofAfter  bool          // the peer hangs up after its reaction (the test releases the write when the read loop has ended)
	closed    chan struct{}
	closeOnce sync.Once
	wOnce     sync.Once
	rOnce     sync.Once
}

func (c *vfHeldConn) Write(p []byte) (int, error) {
	c.wOnce.Do(func() { close(c.written) })
	select {
	case <-c.release:
	case <-c.closed:
	}
	return len(p), nil
}

func (c *vfHeldConn) Read(p []byte) (int, error) {
	c.mu.Lock()
	if len(c.pre) > 0 {
		n := copy(p, c.pre)
		c.pre = c.pre[n:]
		c.mu.Unlock()
		return n, nil
	}
	c.mu.Unlock()
	c.pOnce.Do(func() { close(c.preTaken) })
	select {
	case <-c.written:
	case <-c.closed:
		return 0, net.ErrClosed
	}
	c.mu.Lock()
	if len(c.reaction) > 0 {
		n := copy(p, c.reaction)
		c.reaction = c.reaction[n:]
		c.mu.Unlock()
		return n, nil
	}
	c.mu.Unlock()
	if c.eofAfter {
		return 0, io.EOF
	}
	// everything the peer sent has been returned to (and so processed by) the caller
	c.rOnce.Do(func() { close(c.release) })
	<-c.closed
	return 0, net.ErrClosed
}
func (c *vfHeldConn) Close() error                     { c.closeOnce.Do(func() { close(c.closed) }); return nil }
func (c *vfHeldConn) LocalAddr() net.Addr              { return &net.TCPAddr{} }
func (c *vfHeldConn) RemoteAddr() net.Addr             { return &net.TCPAddr{} }
func (c *vfHeldConn) SetDeadline(time.Time) error      { return nil }
func (c *vfHeldConn) SetReadDeadline(time.Time) error  { return nil }
func (c *vfHeldConn) SetWriteDeadline(time.Time) error { return nil }

// TestVerifC15WriteHeldBack: the two directions of a connection run on different goroutines; the peer's
// reaction to a write may be read before that Write call has returned. The stream still yields its one
// complete trace.
func TestVerifC15WriteHeldBack(t *testing.T) {
	rep := verifkit.Begin("C15", "write-held-back", "a traced HTTP/2 connection over a conn whose Write returns only after the peer's reaction to the written bytes has been read by the read loop; client side: request (headers [+ data]) written in one call, the complete response is read before Write returns; server side: the complete response written in one call, the peer hangs up (EOF) before Write returns; oracle: exactly one completed trace for the named stream, with response status and trailers, no error; distinct = (side, body, reaction split)")
	defer rep.Write()
	rng := verifkit.Stream("c15held")
	n := verifkit.Scale(60, 2000)
	for i := 0; i < n; i++ {
		isServer := i%2 == 1
		withBody := rng.Bool()
		name := fmt.Sprintf("Held/%d", i)
		reqEnc, respEnc := vfNewDirEnc(), vfNewDirEnc()
		// request bytes
		var request []byte
		request = append(request, []byte(http2.ClientPreface)...)
		_ = reqEnc.fr.WriteSettings()
		reqEnc.headers(rng, 1, reqEnc.block(":method", "POST", ":scheme", "http", ":authority", "example.test", ":path", "/connectrpc.conformance.v1.ConformanceService/Unary",
			"content-type", "application/grpc", "te", "trailers", "x-test-case-name", name), !withBody, false)
		if withBody {
			_ = reqEnc.fr.WriteData(1, true, vfEnvelope(0, []byte("request")))
		}
		request = append(request, reqEnc.take()...)
		// response bytes
		_ = respEnc.fr.WriteSettings()
		respEnc.headers(rng, 1, respEnc.block(":status", "200", "content-type", "application/grpc"), false, false)
		_ = respEnc.fr.WriteData(1, false, vfEnvelope(0, []byte("response")))
		respEnc.headers(rng, 1, respEnc.block("grpc-status", "0", "x-trail", "t"), true, false)
		response := respEnc.take()
		rep.Eval(1)
		rep.DistinctKey(isServer, withBody, len(request), len(response))
		coll := &vfCollector{}
		hc := &vfHeldConn{preTaken: make(chan struct{}), written: make(chan struct{}), release: make(chan struct{}), closed: make(chan struct{})}
		var firstWrite []byte
		if isServer {
			// the request has arrived; the server writes its whole response; the peer hangs up as soon as it has it
			firstWrite, hc.pre, hc.eofAfter = response, request, true
		} else {
			firstWrite, hc.reaction = request, response
		}
		conn := TracingHTTP2Conn(hc, isServer, coll)
		w := map[string]any{"side": map[bool]string{false: "client", true: "server"}[isServer], "request_has_body": withBody}
		pn := verifkit.Catch(func() {
			var wg sync.WaitGroup
			wg.Add(1)
			go func() { // the read loop
				defer wg.Done()
				buf := make([]byte, 256)
				for {
					if _, err := conn.Read(buf); err != nil {
						// the end of the connection has been processed: a held write may return now
						hc.rOnce.Do(func() { close(hc.release) })
						return
					}
				}
			}()
			done := make(chan struct{})
			<-hc.preTaken // (server side: the request has been read before the handler answers)
			go func() {
				_, _ = conn.Write(firstWrite)
				close(done)
			}()
			select {
			case <-done:
			case <-time.After(30 * time.Second):
			}
			_ = conn.Close()
			wg.Wait()
		})
		if pn != nil {
			rep.Violation("h2/write-held-back/panic/"+pn.Site, pn.Value, w)
			continue
		}
		traces := coll.Traces()
		var mine []Trace
		for _, tr := range traces {
			if tr.TestName == name {
				mine = append(mine, tr)
			}
		}
		side := "client"
		if isServer {
			side = "server"
		}
		if len(mine) != 1 {
			rep.Violation("h2/write-held-back/trace-count/"+side, fmt.Sprintf("%d completed traces for the stream, want exactly 1", len(mine)), w)
			continue
		}
		tr := mine[0]
		w["events"] = vfTraceSig(tr)
		if tr.Err != nil || tr.Response == nil || tr.Response.StatusCode != 200 || tr.Response.Trailer.Get("Grpc-Status") != "0" {
			st := 0
			if tr.Response != nil {
				st = tr.Response.StatusCode
			}
			rep.Violation("h2/write-held-back/incomplete/"+side, fmt.Sprintf("the trace has error %v, status %d, trailers %v - the stream ended cleanly with status 200 and grpc-status 0", tr.Err, st, func() any {
				if tr.Response != nil {
					return tr.Response.Trailer
				}
				return nil
			}()), w)
			continue
		}
		rep.Count("held_back_ok:"+side, 1)
	}
	rep.Sample(map[string]any{"side": "client", "schedule": "Write(request) delivers its bytes; the whole response is read; Write returns", "expect": "one trace with the response"})
	rep.RequireMin("held_back_ok:client", 20)
	rep.RequireMin("held_back_ok:server", 20)
}
