//go:build verif

package tracer

import (
	"bytes"
	"context"
	"fmt"
	"io"
	"net/http"
	"testing"

	"connectrpc.com/conformance/internal/verifkit"
)

// vfCtxTransport behaves like a real transport in the two respects that matter here: it may give up
// on the upload (close the request body before its end) while the response is still being delivered,
// and the response body it hands out fails with the context's error once the request's context is done.
type vfCtxTransport struct {
	status    int
	respBody  []byte
	chunk     int
	upload    string // drain | close-unread | read-some-then-close | close-after-first-chunk | never-touch
	readSome  int
	sawUpload []byte
}

type vfCtxBody struct {
	ctx        context.Context
	data       []byte
	chunk      int
	afterFirst func()
	reads      int
}

func (b *vfCtxBody) Read(p []byte) (int, error) {
	if err := b.ctx.Err(); err != nil {
		return 0, err
	}
	if len(b.data) == 0 {
		return 0, io.EOF
	}
	n := b.chunk
	if n > len(b.data) {
		n = len(b.data)
	}
	if n > len(p) {
		n = len(p)
	}
	copy(p, b.data[:n])
	b.data = b.data[n:]
	b.reads++
	if b.reads == 1 && b.afterFirst != nil {
		b.afterFirst()
	}
	return n, nil
}
func (b *vfCtxBody) Close() error { return nil }

func (t *vfCtxTransport) RoundTrip(req *http.Request) (*http.Response, error) {
	var afterFirst func()
	if req.Body != nil {
		switch t.upload {
		case "drain":
			t.sawUpload, _ = io.ReadAll(req.Body)
			_ = req.Body.Close()
		case "close-unread":
			_ = req.Body.Close()
		case "read-some-then-close":
			buf := make([]byte, t.readSome)
			n, _ := io.ReadFull(req.Body, buf)
			t.sawUpload = buf[:n]
			_ = req.Body.Close()
		case "close-after-first-chunk":
			body := req.Body
			afterFirst = func() { _ = body.Close() }
		}
	}
	return &http.Response{StatusCode: t.status, Status: fmt.Sprintf("%d %s", t.status, http.StatusText(t.status)), Proto: "HTTP/2.0", ProtoMajor: 2,
		Header: http.Header{"Content-Type": {"application/connect+proto"}}, Body: &vfCtxBody{ctx: req.Context(), data: append([]byte(nil), t.respBody...), chunk: t.chunk, afterFirst: afterFirst},
		Request: req, ContentLength: -1}, nil
}

// TestVerifC14UploadAbandoned: a transport that abandons the upload (closes the request body early - what
// HTTP/2 transports do on an early status above 299, HTTP/1.1 ones when 100-continue is declined) still
// delivers the whole response to the application, with tracing as without.
func TestVerifC14UploadAbandoned(t *testing.T) {
	rep := verifkit.Begin("C14", "upload-abandoned", "TracingRoundTripper over a context-observing scripted transport: response of 2-4 envelopes delivered in chunks of 1..n bytes, status 200/429/503, upload of 0-3 envelopes that the transport drains / closes unread / reads k bytes of and closes / closes after the first response chunk was read / never touches; the application reads the response to its end; oracle: round-trip error, status, response bytes and the final read error equal those of the same exchange without tracing, and one trace completes; distinct = (upload handling, status, chunk, sizes)")
	defer rep.Write()
	rng := verifkit.Stream("c14upload")
	n := verifkit.Scale(600, 20000)
	for i := 0; i < n; i++ {
		var respBody, upload []byte
		for k := 2 + rng.Intn(3); k > 0; k-- {
			respBody = append(respBody, vfEnvelopeC14(0, rng.Bytes(rng.Intn(40)))...)
		}
		respBody = append(respBody, vfEnvelopeC14(2, []byte(`{}`))...)
		for k := rng.Intn(4); k > 0; k-- {
			upload = append(upload, vfEnvelopeC14(0, rng.Bytes(1+rng.Intn(60)))...)
		}
		mode := verifkit.Pick(rng, []string{"drain", "close-unread", "read-some-then-close", "close-after-first-chunk", "never-touch"})
		status := verifkit.Pick(rng, []int{200, 200, 429, 503})
		chunk := 1 + rng.Intn(len(respBody))
		readSome := rng.Intn(len(upload) + 1)
		rep.Eval(1)
		rep.DistinctKey(mode, status, chunk, len(respBody), len(upload), readSome)
		w := map[string]any{"upload_handling": mode, "status": status, "response_bytes": len(respBody), "response_chunk": chunk, "upload_bytes": len(upload), "upload_bytes_read_before_close": readSome}
		rep.InFlight(w)
		type outcome struct {
			RTErr   string
			Status  int
			Body    []byte
			ReadErr string
		}
		run := func(traced bool, coll *vfCollector) outcome {
			tr := &vfCtxTransport{status: status, respBody: respBody, chunk: chunk, upload: mode, readSome: readSome}
			var rt http.RoundTripper = tr
			if traced {
				rt = TracingRoundTripper(tr, coll)
			}
			req, _ := http.NewRequest("POST", "http://example.test/svc/Method", bytes.NewReader(upload))
			req.Header.Set("Content-Type", "application/connect+proto")
			req.Header.Set("X-Test-Case-Name", "Suite/Upload")
			var o outcome
			resp, err := rt.RoundTrip(req)
			if err != nil {
				o.RTErr = err.Error()
				return o
			}
			o.Status = resp.StatusCode
			buf := make([]byte, 64)
			for k := 0; k < 100000; k++ {
				n, err := resp.Body.Read(buf)
				o.Body = append(o.Body, buf[:n]...)
				if err != nil {
					o.ReadErr = err.Error()
					break
				}
			}
			_ = resp.Body.Close()
			return o
		}
		plain := run(false, nil)
		coll := &vfCollector{}
		var traced outcome
		if pn := verifkit.Catch(func() { traced = run(true, coll) }); pn != nil {
			rep.Violation("body/upload-abandoned/panic/"+pn.Site, pn.Value, map[string]any{"input": w, "stack": pn.Stack})
			continue
		}
		rep.Count("upload:"+mode, 1)
		if plain.RTErr != traced.RTErr || plain.Status != traced.Status || !bytes.Equal(plain.Body, traced.Body) || plain.ReadErr != traced.ReadErr {
			w["without_tracing"] = fmt.Sprintf("rt_err=%q status=%d body=%d bytes read_err=%q", plain.RTErr, plain.Status, len(plain.Body), plain.ReadErr)
			w["with_tracing"] = fmt.Sprintf("rt_err=%q status=%d body=%d bytes read_err=%q", traced.RTErr, traced.Status, len(traced.Body), traced.ReadErr)
			rep.Violation("body/upload-abandoned/response-altered/"+mode, fmt.Sprintf("the transport handled the upload by %q; the application got %d response bytes ending in %q with tracing, %d ending in %q without", mode, len(traced.Body), traced.ReadErr, len(plain.Body), plain.ReadErr), w)
			continue
		}
		if got := len(coll.Traces()); got != 1 {
			rep.Violation("body/upload-abandoned/trace-count", fmt.Sprintf("%d traces completed, want 1", got), w)
			continue
		}
		rep.Count("exchanges_equal", 1)
	}
	rep.Sample(map[string]any{"upload_handling": "close-after-first-chunk", "status": 429, "expect": "all response bytes, then io.EOF - as without tracing"})
	for _, m := range []string{"close-unread", "read-some-then-close", "close-after-first-chunk"} {
		rep.RequireMin("upload:"+m, 30)
	}
}
