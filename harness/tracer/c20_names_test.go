//go:build verif

package tracer

import (
	"bytes"
	"fmt"
	"io"
	"strings"
	"testing"

	"connectrpc.com/conformance/internal/compression"
	conformancev1 "connectrpc.com/conformance/internal/gen/proto/go/connectrpc/conformance/v1"
	"connectrpc.com/conformance/internal/verifkit"
)

// TestVerifC20TracerNames: the wire tracer resolves an encoding name
// (case-insensitively) to the same algorithm the runner's enum denotes.
func TestVerifC20TracerNames(t *testing.T) {
	rep := verifkit.Begin("C20", "tracer-names", "6 encodings x name spellings (lower, upper, mixed) x inputs: compression.GetCompressor(enum) output and an independent encoder's output are decoded by tracer.GetDecompressor(name); distinct = (name spelling, input)")
	defer rep.Write()
	rng := verifkit.Stream("c20tracer")
	names := map[conformancev1.Compression]string{1: "identity", 2: "gzip", 3: "br", 4: "zstd", 5: "deflate", 6: "snappy"}
	inputs := [][]byte{{}, []byte("x"), []byte("hello hello hello"), rng.Bytes(5000), bytes.Repeat([]byte{0}, 70000)}
	for enc, name := range names {
		for _, spell := range []string{name, strings.ToUpper(name), strings.ToUpper(name[:1]) + name[1:]} {
			for _, in := range inputs {
				rep.Eval(1)
				rep.DistinctKey(spell, in)
				comp, err := compression.GetCompressor(enc)
				if err != nil {
					rep.Violation("compress/"+name+"/no-compressor", err.Error(), nil)
					continue
				}
				var buf bytes.Buffer
				comp.Reset(&buf)
				_, _ = comp.Write(in)
				_ = comp.Close()
				ind, _ := verifkit.IndepCompress(name, in)
				for which, src := range map[string][]byte{"runner-compressor": buf.Bytes(), "independent-encoder": ind} {
					d := GetDecompressor(spell)
					var out []byte
					var derr error
					pn := verifkit.Catch(func() {
						if derr = d.Reset(bytes.NewReader(src)); derr == nil {
							out, derr = io.ReadAll(d)
						}
					})
					if pn != nil {
						rep.Violation("compress/"+name+"/tracer-panic/"+pn.Site, pn.Value, nil)
						continue
					}
					if derr != nil || !bytes.Equal(out, in) {
						rep.Violation("compress/"+name+"/tracer-name-mismatch", fmt.Sprintf("tracer.GetDecompressor(%q) does not decode the %s output for %q (%d bytes in, %d out, err=%v)", spell, which, name, len(in), len(out), derr), map[string]any{"spelling": spell, "source": which})
					}
				}
			}
		}
	}
	// an unknown name must not crash and must not pretend to decode
	d := GetDecompressor("no-such-encoding")
	_ = d.Reset(bytes.NewReader([]byte("abc")))
	_, _ = io.ReadAll(d)
	rep.Eval(1)
	rep.Sample(map[string]any{"name": "GZIP", "law": "decodes what compression.GetCompressor(COMPRESSION_GZIP) wrote"})
}
