//go:build verif

package tracer

import (
	"bytes"
	"fmt"
	"io"
	"net/http"
	"strings"
	"sync"
	"sync/atomic"
	"testing"

	"connectrpc.com/conformance/internal/compression"
	conformancev1 "connectrpc.com/conformance/internal/gen/proto/go/connectrpc/conformance/v1"
	"connectrpc.com/conformance/internal/verifkit"
)

// TestVerifC20TracerNames: the wire tracer resolves an encoding name
// (case-insensitively) to the same algorithm the runner's enum denotes.
func TestVerifC20TracerNames(t *testing.T) {
	rep := verifkit.Begin("C20", "tracer-names", "6 encodings x name spellings (lower, upper, mixed) x inputs: compression.GetCompressor(enum) output and an independent encoder's output are decoded by tracer.GetDecompressor(name); distinct = (name spelling, input)")
	defer rep.Write()
	rng := verifkit.Stream("c20tracer")
	names := map[conformancev1.Compression]string{1: "identity", 2: "gzip", 3: "br", 4: "zstd", 5: "deflate", 6: "snappy"}
	inputs := [][]byte{{}, []byte("x"), []byte("hello hello hello"), rng.Bytes(5000), bytes.Repeat([]byte{0}, 70000)}
	for enc, name := range names {
		for _, spell := range []string{name, strings.ToUpper(name), strings.ToUpper(name[:1]) + name[1:]} {
			for _, in := range inputs {
				rep.Eval(1)
				rep.DistinctKey(spell, in)
				comp, err := compression.GetCompressor(enc)
				if err != nil {
					rep.Violation("compress/"+name+"/no-compressor", err.Error(), nil)
					continue
				}
				var buf bytes.Buffer
				comp.Reset(&buf)
				_, _ = comp.Write(in)
				_ = comp.Close()
				ind, _ := verifkit.IndepCompress(name, in)
				for which, src := range map[string][]byte{"runner-compressor": buf.Bytes(), "independent-encoder": ind} {
					d := GetDecompressor(spell)
					var out []byte
					var derr error
					pn := verifkit.Catch(func() {
						if derr = d.Reset(bytes.NewReader(src)); derr == nil {
							out, derr = io.ReadAll(d)
						}
					})
					if pn != nil {
						rep.Violation("compress/"+name+"/tracer-panic/"+pn.Site, pn.Value, nil)
						continue
					}
					if derr != nil || !bytes.Equal(out, in) {
						rep.Violation("compress/"+name+"/tracer-name-mismatch", fmt.Sprintf("tracer.GetDecompressor(%q) does not decode the %s output for %q (%d bytes in, %d out, err=%v)", spell, which, name, len(in), len(out), derr), map[string]any{"spelling": spell, "source": which})
					}
				}
			}
		}
	}
	// an unknown name must not crash and must not pretend to decode
	d := GetDecompressor("no-such-encoding")
	_ = d.Reset(bytes.NewReader([]byte("abc")))
	_, _ = io.ReadAll(d)
	rep.Eval(1)
	rep.Sample(map[string]any{"name": "GZIP", "law": "decodes what compression.GetCompressor(COMPRESSION_GZIP) wrote"})
}

// TestVerifC20TracerInstances: every caller of GetDecompressor owns what it
// got: two instances used in an interleaved fashion, and many used
// concurrently, decode their own streams.
func TestVerifC20TracerInstances(t *testing.T) {
	rep := verifkit.Begin("C20", "tracer-instances", "6 encodings: (1) two decompressors from tracer.GetDecompressor driven in the order Reset(A) Reset(B) Read(A) Read(B) and Reset(A) Read(A half) Reset(B) Read(B) Read(A rest); (2) 8 goroutines x 200 decodes each on their own instance, concurrently, under the race detector; oracle: each returns exactly its own message; distinct = (encoding, schedule)")
	defer rep.Write()
	names := map[conformancev1.Compression]string{1: "identity", 2: "gzip", 3: "br", 4: "zstd", 5: "deflate", 6: "snappy"}
	for enc := conformancev1.Compression(1); enc <= 6; enc++ {
		name := names[enc]
		mk := func(tag string, n int) ([]byte, []byte) {
			msg := bytes.Repeat([]byte(tag), n)
			z, _ := verifkit.IndepCompress(name, msg)
			return msg, z
		}
		msgA, zA := mk("AAAA-message-of-A;", 40)
		msgB, zB := mk("bbbb-MESSAGE-OF-B;", 300)
		for _, sched := range []string{"RaRbAB", "Ra-a-Rb-B-a"} {
			rep.Eval(1)
			rep.DistinctKey(name, sched)
			a, b := GetDecompressor(name), GetDecompressor(name)
			var outA, outB []byte
			var errA, errB error
			pn := verifkit.Catch(func() {
				switch sched {
				case "RaRbAB":
					errA = a.Reset(bytes.NewReader(zA))
					errB = b.Reset(bytes.NewReader(zB))
					if errA == nil {
						outA, errA = io.ReadAll(a)
					}
					if errB == nil {
						outB, errB = io.ReadAll(b)
					}
				default:
					errA = a.Reset(bytes.NewReader(zA))
					first := make([]byte, 10)
					k, _ := io.ReadFull(a, first)
					errB = b.Reset(bytes.NewReader(zB))
					if errB == nil {
						outB, errB = io.ReadAll(b)
					}
					rest, e := io.ReadAll(a)
					outA, errA = append(first[:k], rest...), e
				}
			})
			w := map[string]any{"encoding": name, "schedule": sched}
			if pn != nil {
				rep.Violation("compress/"+name+"/tracer-instances/panic/"+pn.Site, pn.Value, w)
				continue
			}
			if errA != nil || errB != nil || !bytes.Equal(outA, msgA) || !bytes.Equal(outB, msgB) {
				rep.Violation("compress/"+name+"/tracer-instances-not-independent", fmt.Sprintf("two decompressors obtained from the tracer interfere: A got %d bytes (%q..., err %v) want %d; B got %d bytes (%q..., err %v) want %d", len(outA), verifkit.Trunc(string(outA), 12), errA, len(msgA), len(outB), verifkit.Trunc(string(outB), 12), errB, len(msgB)), w)
			} else {
				rep.Count("interleaved_ok", 1)
			}
		}
		// concurrent owners
		var wg sync.WaitGroup
		var bad atomic.Int32
		for g := 0; g < 8; g++ {
			wg.Add(1)
			go func(g int) {
				defer wg.Done()
				msg, z := mk(fmt.Sprintf("goroutine-%d;", g), 50+g)
				for i := 0; i < 200; i++ {
					d := GetDecompressor(name)
					if err := d.Reset(bytes.NewReader(z)); err != nil {
						bad.Add(1)
						continue
					}
					out, err := io.ReadAll(d)
					if err != nil || !bytes.Equal(out, msg) {
						bad.Add(1)
					}
					_ = d.Close()
				}
			}(g)
		}
		wg.Wait()
		rep.Eval(1600)
		rep.DistinctKey(name, "concurrent")
		if n := bad.Load(); n > 0 {
			rep.Violation("compress/"+name+"/tracer-instances-concurrent", fmt.Sprintf("%d of 1600 concurrent decodes on per-goroutine instances returned something other than their own message", n), map[string]any{"encoding": name})
		} else {
			rep.Count("concurrent_ok", 1)
		}
	}
	rep.Sample(map[string]any{"encoding": "zstd", "schedule": "Reset(A) Reset(B) Read(A) Read(B)", "expect": "A's message from A, B's from B"})
	rep.RequireMin("interleaved_ok", 12)
}

// TestVerifC20TracerAfterDamage: the body tracer re-uses one decompressor per
// body; a damaged compressed end-of-stream message must not change how the
// next, intact one is reported.
func TestVerifC20TracerAfterDamage(t *testing.T) {
	rep := verifkit.Begin("C20", "tracer-after-damage", "6 encodings x Connect streaming and gRPC-Web response bodies with the encoding negotiated and TWO compressed end-of-stream messages: the first damaged {truncated at every 7th offset, each of the last 8 bytes flipped, garbage}, the second intact; traced by the real body reader in 1-3 chunks; oracle: the last end-of-stream event carries exactly the intact content; distinct = (encoding, protocol, damage)")
	defer rep.Write()
	names := []string{"identity", "gzip", "br", "zstd", "deflate", "snappy"}
	for _, name := range names {
		for _, proto := range []string{"connect", "grpc-web"} {
			good := `{"metadata":{"x-second":["intact"]}}`
			first := `{"error":{"code":"internal","message":"` + strings.Repeat("first message, to be damaged; ", 20) + `"}}`
			flag, hdr, ct := byte(2), "Connect-Content-Encoding", "application/connect+proto"
			if proto == "grpc-web" {
				good = "grpc-status: 0\r\nx-second: intact\r\n"
				first = "grpc-status: 13\r\ngrpc-message: " + strings.Repeat("first%20message ", 30) + "\r\n"
				flag, hdr, ct = 0x80, "Grpc-Encoding", "application/grpc-web+proto"
			}
			zFirst, _ := verifkit.IndepCompress(name, []byte(first))
			zGood, _ := verifkit.IndepCompress(name, []byte(good))
			var damages [][]byte
			var labels []string
			for cut := 1; cut < len(zFirst); cut += 7 {
				damages = append(damages, append([]byte(nil), zFirst[:cut]...))
				labels = append(labels, fmt.Sprintf("truncated@%d", cut))
			}
			for k := 1; k <= 8 && k <= len(zFirst); k++ {
				d := append([]byte(nil), zFirst...)
				d[len(d)-k] ^= 0x10
				damages = append(damages, d)
				labels = append(labels, fmt.Sprintf("flip@-%d", k))
			}
			damages = append(damages, []byte("\xff\xfe\xfd not a compressed stream"))
			labels = append(labels, "garbage")
			for di, dmg := range damages {
				env := func(fl byte, p []byte) []byte {
					b := make([]byte, 5+len(p))
					b[0] = fl
					b[1], b[2], b[3], b[4] = byte(len(p)>>24), byte(len(p)>>16), byte(len(p)>>8), byte(len(p))
					copy(b[5:], p)
					return b
				}
				body := append(env(0, []byte("data")), env(flag|1, dmg)...)
				body = append(body, env(flag|1, zGood)...)
				rep.Eval(1)
				rep.DistinctKey(name, proto, labels[di])
				coll := &vfCollector{}
				bld := vfNewBuilder(coll, false)
				h := http.Header{"Content-Type": {ct}, hdr: {name}}
				w := map[string]any{"encoding": name, "protocol": proto, "damage_of_first_end_stream_message": labels[di]}
				pn := verifkit.Catch(func() {
					rd := vfNewReader(h, io.NopCloser(&vfChunked{data: body, chunk: []int{len(body), 17, 3}[di%3]}), false, bld, func() {})
					_, _ = io.Copy(io.Discard, rd)
					bld.build()
				})
				if pn != nil {
					rep.Violation("compress/"+name+"/tracer-after-damage/panic/"+pn.Site, pn.Value, w)
					continue
				}
				ts := coll.Traces()
				if len(ts) != 1 {
					rep.Violation("compress/"+name+"/tracer-after-damage/trace-count", fmt.Sprintf("%d traces", len(ts)), w)
					continue
				}
				last := ""
				found := false
				for _, e := range ts[0].Events {
					if es, ok := e.(*ResponseBodyEndStream); ok {
						last, found = es.Content, true
					}
				}
				if !found || last != good {
					rep.Violation("compress/"+name+"/tracer-after-damage/intact-message-reported-differently", fmt.Sprintf("the intact end-of-stream message after a damaged one (%s) is reported as %q, its content is %q", labels[di], verifkit.Trunc(last, 80), good), w)
				} else {
					rep.Count("intact_after_damage_ok", 1)
				}
			}
		}
	}
	rep.Sample(map[string]any{"encoding": "gzip", "damage": "checksum byte flipped", "expect": "second end-of-stream event = the intact content only"})
	rep.RequireMin("intact_after_damage_ok", 100)
}

type vfChunked struct {
	data  []byte
	chunk int
}

func (c *vfChunked) Read(p []byte) (int, error) {
	if len(c.data) == 0 {
		return 0, io.EOF
	}
	n := c.chunk
	if n > len(c.data) {
		n = len(c.data)
	}
	if n > len(p) {
		n = len(p)
	}
	copy(p, c.data[:n])
	c.data = c.data[n:]
	return n, nil
}

// TestVerifC20TracerLongLived: one decompressor obtained from the tracer serves a whole stream: after any
// amount of earlier output, the next valid message still decodes exactly.
func TestVerifC20TracerLongLived(t *testing.T) {
	rep := verifkit.Begin("C20", "tracer-long-lived", "6 encodings: one tracer.GetDecompressor instance driven Reset+ReadAll over 48 messages of 1 B ... 512 KiB (12 MiB of output in total, thorough: 40 MiB), compressible and incompressible, each from an independent encoder; oracle: every message decodes to exactly its bytes; distinct = (encoding, message index)")
	defer rep.Write()
	names := []string{"identity", "gzip", "br", "zstd", "deflate", "snappy"}
	rng := verifkit.Stream("c20longlived")
	rounds := verifkit.Scale(48, 160)
	for _, name := range names {
		d := GetDecompressor(name)
		total := 0
		for i := 0; i < rounds; i++ {
			size := []int{1, 100, 4096, 65536, 262144, 524288}[i%6]
			var msg []byte
			if i%2 == 0 {
				msg = bytes.Repeat([]byte{byte('a' + i%26)}, size)
			} else {
				msg = rng.Bytes(size)
			}
			z, _ := verifkit.IndepCompress(name, msg)
			rep.Eval(1)
			rep.DistinctKey(name, i)
			var out []byte
			var err error
			pn := verifkit.Catch(func() {
				if err = d.Reset(bytes.NewReader(z)); err == nil {
					out, err = io.ReadAll(d)
				}
			})
			w := map[string]any{"encoding": name, "message_index": i, "message_bytes": size, "output_of_this_instance_so_far": total}
			if pn != nil {
				rep.Violation("compress/"+name+"/tracer-long-lived/panic/"+pn.Site, pn.Value, w)
				break
			}
			if err != nil || !bytes.Equal(out, msg) {
				rep.Violation("compress/"+name+"/tracer-long-lived/message-lost", fmt.Sprintf("message #%d (%d bytes) through an instance that had already produced %d bytes: got %d bytes, err %v", i, size, total, len(out), err), w)
				break
			}
			total += size
			rep.Count("long_lived_messages_ok", 1)
		}
		rep.Count("bytes_through_one_instance:"+name, total)
	}
	rep.Sample(map[string]any{"encoding": "gzip", "history": "47 messages (11 MiB) then one more", "expect": "decodes exactly"})
	rep.RequireMin("long_lived_messages_ok", 200)
}
