//go:build verif

package tracer

import (
	"bytes"
	"encoding/binary"
	"errors"
	"fmt"
	"io"
	"net"
	"reflect"
	"strings"
	"sync"
	"sync/atomic"
	"testing"
	"time"

	"connectrpc.com/conformance/internal/verifkit"
	"golang.org/x/net/http2"
	"golang.org/x/net/http2/hpack"
)

// ---------------------------------------------------------------- scripted conn

type vfIOResult struct {
	N   int
	Err string
	Sum string // hex of the bytes involved (short) - for writes: what the inner conn was given
}

// vfScriptConn is the inner net.Conn: reads deliver scripted chunks, writes
// are recorded (and may be short / fail by script).
type vfScriptConn struct {
	mu        sync.Mutex
	rbuf      []byte
	readErr   error // returned when rbuf is empty
	wrote     bytes.Buffer
	writeFail int // <0 never: total bytes after which Write returns a short write + error
	readLog   []vfIOResult
	writeLog  []vfIOResult
	closed    int
	// errWithLast: the Read that drains rbuf returns its bytes together with this error (as a net.Conn may)
	errWithLast error
}

func (s *vfScriptConn) Read(p []byte) (int, error) {
	s.mu.Lock()
	defer s.mu.Unlock()
	if len(s.rbuf) == 0 {
		err := s.readErr
		if err == nil {
			err = io.EOF
		}
		s.readLog = append(s.readLog, vfIOResult{0, err.Error(), ""})
		return 0, err
	}
	n := copy(p, s.rbuf)
	s.rbuf = s.rbuf[n:]
	if len(s.rbuf) == 0 && s.errWithLast != nil {
		s.readLog = append(s.readLog, vfIOResult{n, s.errWithLast.Error(), ""})
		return n, s.errWithLast
	}
	s.readLog = append(s.readLog, vfIOResult{n, "", ""})
	return n, nil
}
func (s *vfScriptConn) Write(p []byte) (int, error) {
	s.mu.Lock()
	defer s.mu.Unlock()
	if s.writeFail >= 0 && s.wrote.Len()+len(p) > s.writeFail {
		k := s.writeFail - s.wrote.Len()
		if k < 0 {
			k = 0
		}
		s.wrote.Write(p[:k])
		s.writeLog = append(s.writeLog, vfIOResult{k, "broken pipe", ""})
		return k, errors.New("broken pipe")
	}
	s.wrote.Write(p)
	s.writeLog = append(s.writeLog, vfIOResult{len(p), "", ""})
	return len(p), nil
}
func (s *vfScriptConn) Close() error                     { s.closed++; return nil }
func (s *vfScriptConn) LocalAddr() net.Addr              { return &net.TCPAddr{} }
func (s *vfScriptConn) RemoteAddr() net.Addr             { return &net.TCPAddr{} }
func (s *vfScriptConn) SetDeadline(time.Time) error      { return nil }
func (s *vfScriptConn) SetReadDeadline(time.Time) error  { return nil }
func (s *vfScriptConn) SetWriteDeadline(time.Time) error { return nil }

// vfNamePrefix is the suite part of generated test names (changed to tell two connections' streams apart).
var vfNamePrefix = "Suite"

// ---------------------------------------------------------------- exchange model

type vfH2Stream struct {
	ID        uint32
	Name      string // "" = no test name header
	ReqMsgs   [][]byte
	RespMsgs  [][]byte
	Cont      bool   // split header blocks into HEADERS + CONTINUATION
	ReqTrail  bool   // request trailers
	End       string // trailers | data-end | rst-server | rst-client | rst-before-headers | refused-retry | goaway
	RstCode   http2.ErrCode
	RetryOf   *vfH2Stream
	NoReqBody bool
	Bidi      bool // response frames may interleave with request frames
}

type vfIntent struct {
	Dir  int // 0 request direction, 1 response direction, 2 connection-level noise (dir in Noise)
	Kind string
	Data []byte
	End  bool
	St   *vfH2Stream
}

func vfEnvelope(flags byte, p []byte) []byte {
	b := make([]byte, 5+len(p))
	b[0] = flags
	binary.BigEndian.PutUint32(b[1:], uint32(len(p)))
	copy(b[5:], p)
	return b
}

// intents of one stream in causal order
func (s *vfH2Stream) intents(r *verifkit.Rand) (req, resp []vfIntent) {
	var reqBody []byte
	for _, m := range s.ReqMsgs {
		reqBody = append(reqBody, vfEnvelope(0, m)...)
	}
	endOnHeaders := len(reqBody) == 0 && !s.ReqTrail
	req = append(req, vfIntent{Dir: 0, Kind: "hreq", St: s, End: endOnHeaders})
	for len(reqBody) > 0 {
		n := 1 + r.Intn(len(reqBody))
		last := n == len(reqBody)
		req = append(req, vfIntent{Dir: 0, Kind: "dreq", St: s, Data: reqBody[:n], End: last && !s.ReqTrail})
		reqBody = reqBody[n:]
	}
	if s.ReqTrail {
		req = append(req, vfIntent{Dir: 0, Kind: "treq", St: s, End: true})
	}
	if s.End == "rst-client" {
		// the client resets instead of finishing the request: drop the END_STREAM
		for i := range req {
			req[i].End = false
		}
		if s.ReqTrail {
			req = req[:len(req)-1]
		}
		req = append(req, vfIntent{Dir: 0, Kind: "rst", St: s})
		return req, nil
	}
	if s.End == "rst-client-after-end" {
		// the client finishes its request (END_STREAM) and then gives up: RST_STREAM after half-close
		req = append(req, vfIntent{Dir: 0, Kind: "rst", St: s})
	}
	var respBody []byte
	for _, m := range s.RespMsgs {
		respBody = append(respBody, vfEnvelope(0, m)...)
	}
	switch s.End {
	case "rst-client-after-end":
		// whatever part of the response got out before the reset (only bidi streams interleave)
		if s.Bidi {
			resp = append(resp, vfIntent{Dir: 1, Kind: "hresp", St: s})
			if len(respBody) > 0 {
				resp = append(resp, vfIntent{Dir: 1, Kind: "dresp", St: s, Data: respBody[:1+r.Intn(len(respBody))]})
			}
		}
		return req, resp
	case "rst-before-headers", "refused-retry":
		resp = append(resp, vfIntent{Dir: 1, Kind: "rst", St: s})
		return req, resp
	case "goaway":
		return req, nil // the connection-level GOAWAY is appended by the generator
	}
	resp = append(resp, vfIntent{Dir: 1, Kind: "hresp", St: s})
	cut := len(respBody)
	if s.End == "rst-server" {
		cut = r.Intn(len(respBody) + 1)
	}
	body := respBody[:cut]
	for len(body) > 0 {
		n := 1 + r.Intn(len(body))
		resp = append(resp, vfIntent{Dir: 1, Kind: "dresp", St: s, Data: body[:n]})
		body = body[n:]
	}
	switch s.End {
	case "rst-server":
		resp = append(resp, vfIntent{Dir: 1, Kind: "rst", St: s})
	case "data-end":
		resp = append(resp, vfIntent{Dir: 1, Kind: "dresp", St: s, Data: nil, End: true})
	default:
		resp = append(resp, vfIntent{Dir: 1, Kind: "tresp", St: s, End: true})
	}
	return req, resp
}

type vfDirEnc struct {
	hbuf bytes.Buffer
	enc  *hpack.Encoder
	fr   *http2.Framer
	out  bytes.Buffer
}

// vfEmptyHeaderFrames counts header blocks that were written with an empty HEADERS or CONTINUATION frame.
var vfEmptyHeaderFrames atomic.Int64

func vfNewDirEnc() *vfDirEnc {
	d := &vfDirEnc{}
	d.enc = hpack.NewEncoder(&d.hbuf)
	d.fr = http2.NewFramer(&d.out, nil)
	return d
}
func (d *vfDirEnc) block(kv ...string) []byte {
	d.hbuf.Reset()
	for i := 0; i < len(kv); i += 2 {
		_ = d.enc.WriteField(hpack.HeaderField{Name: kv[i], Value: kv[i+1]})
	}
	return append([]byte(nil), d.hbuf.Bytes()...)
}
func (d *vfDirEnc) take() []byte { b := append([]byte(nil), d.out.Bytes()...); d.out.Reset(); return b }

func (d *vfDirEnc) headers(r *verifkit.Rand, id uint32, block []byte, endStream, cont bool) {
	if !cont || len(block) < 2 {
		_ = d.fr.WriteHeaders(http2.HeadersFrameParam{StreamID: id, BlockFragment: block, EndHeaders: true, EndStream: endStream})
		return
	}
	// legal but unusual: a header block opened by an empty HEADERS frame, or closed by an empty CONTINUATION
	// (an encoder whose block is an exact multiple of its frame size) - the block itself is the same
	switch r.Intn(6) {
	case 0:
		_ = d.fr.WriteHeaders(http2.HeadersFrameParam{StreamID: id, BlockFragment: nil, EndHeaders: false, EndStream: endStream})
		a := 1 + r.Intn(len(block)-1)
		_ = d.fr.WriteContinuation(id, false, block[:a])
		_ = d.fr.WriteContinuation(id, true, block[a:])
		vfEmptyHeaderFrames.Add(1)
		return
	case 1:
		_ = d.fr.WriteHeaders(http2.HeadersFrameParam{StreamID: id, BlockFragment: block, EndHeaders: false, EndStream: endStream})
		_ = d.fr.WriteContinuation(id, true, nil)
		vfEmptyHeaderFrames.Add(1)
		return
	}
	// HEADERS + 1..2 CONTINUATION frames
	a := 1 + r.Intn(len(block)-1)
	_ = d.fr.WriteHeaders(http2.HeadersFrameParam{StreamID: id, BlockFragment: block[:a], EndHeaders: false, EndStream: endStream})
	rest := block[a:]
	if len(rest) > 1 && r.Bool() {
		b := 1 + r.Intn(len(rest)-1)
		_ = d.fr.WriteContinuation(id, false, rest[:b])
		rest = rest[b:]
	}
	_ = d.fr.WriteContinuation(id, true, rest)
}

type vfStep struct {
	Dir   int
	Bytes []byte
	Desc  string
}

type vfExchange struct {
	Streams []*vfH2Stream
	Steps   []vfStep
	GoAway  *uint32 // last stream id, if a GOAWAY ends the exchange
	// GoAwayGraceful: the real limit is preceded by GOAWAY(2^31-1, NO_ERROR) (graceful shutdown as grpc-go and x/net/http2 do it)
	GoAwayGraceful bool
	GoAwayCode     http2.ErrCode
}

func vfGenExchange(r *verifkit.Rand, allowCont bool) *vfExchange {
	ex := &vfExchange{}
	ns := 1 + r.Intn(6)
	nextID := uint32(1)
	mkMsgs := func() [][]byte {
		var out [][]byte
		for k := r.Intn(4); k > 0; k-- {
			out = append(out, r.Bytes(verifkit.Pick(r, []int{0, 0, 1, 7, 40, 300})))
		}
		return out
	}
	for i := 0; i < ns; i++ {
		s := &vfH2Stream{ID: nextID, Name: fmt.Sprintf("%s/case-%d", vfNamePrefix, i), ReqMsgs: mkMsgs(), RespMsgs: mkMsgs(), Cont: allowCont && r.Chance(1, 3), Bidi: r.Chance(1, 3)}
		nextID += 2
		if r.Chance(1, 6) {
			s.Name = ""
		}
		s.ReqTrail = r.Chance(1, 10)
		s.End = verifkit.Pick(r, []string{"trailers", "trailers", "trailers", "data-end", "rst-server", "rst-client", "rst-client-after-end", "rst-before-headers", "refused-retry"})
		s.RstCode = verifkit.Pick(r, []http2.ErrCode{http2.ErrCodeCancel, http2.ErrCodeInternal, http2.ErrCodeNo, http2.ErrCodeProtocol, http2.ErrCodeEnhanceYourCalm})
		if s.End == "refused-retry" {
			s.RstCode = http2.ErrCodeRefusedStream
		}
		if s.End == "rst-before-headers" && s.RstCode == http2.ErrCodeRefusedStream {
			s.RstCode = http2.ErrCodeCancel
		}
		ex.Streams = append(ex.Streams, s)
		if s.End == "refused-retry" {
			retry := &vfH2Stream{ID: nextID, Name: s.Name, ReqMsgs: s.ReqMsgs, RespMsgs: mkMsgs(), End: "trailers", RetryOf: s, Cont: s.Cont}
			nextID += 2
			ex.Streams = append(ex.Streams, retry)
		}
	}
	if r.Chance(1, 5) {
		// a last stream that is still open when the server says GOAWAY(last = the previous stream)
		s := &vfH2Stream{ID: nextID, Name: vfNamePrefix + "/open-at-goaway", ReqMsgs: mkMsgs(), End: "goaway"}
		last := nextID - 2
		ex.GoAway = &last
		ex.GoAwayGraceful = r.Chance(1, 2)
		ex.GoAwayCode = verifkit.Pick(r, []http2.ErrCode{http2.ErrCodeEnhanceYourCalm, http2.ErrCodeNo, http2.ErrCodeInternal})
		ex.Streams = append(ex.Streams, s)
	}
	// per-stream queues; a retry stream starts only after the refused attempt was reset
	type q struct {
		st      *vfH2Stream
		req     []vfIntent
		resp    []vfIntent
		blocked *vfH2Stream
	}
	var qs []*q
	for _, s := range ex.Streams {
		rq, rs := s.intents(r)
		qs = append(qs, &q{st: s, req: rq, resp: rs, blocked: s.RetryOf})
	}
	done := map[*vfH2Stream]bool{}
	var merged []vfIntent
	reqStarted := map[*vfH2Stream]bool{}
	for {
		type choice struct {
			q    *q
			resp bool
		}
		var avail []choice
		for _, x := range qs {
			if x.blocked != nil && !done[x.blocked] {
				continue
			}
			if len(x.req) > 0 {
				avail = append(avail, choice{x, false})
			}
			// a response may start once the request headers are out; only bidi streams interleave further
			if len(x.resp) > 0 && reqStarted[x.st] && (len(x.req) == 0 || x.st.Bidi) {
				avail = append(avail, choice{x, true})
			}
		}
		if len(avail) == 0 {
			break
		}
		c := avail[r.Intn(len(avail))]
		if c.resp {
			merged = append(merged, c.q.resp[0])
			c.q.resp = c.q.resp[1:]
		} else {
			merged = append(merged, c.q.req[0])
			reqStarted[c.q.st] = true
			c.q.req = c.q.req[1:]
			// header blocks must not be interleaved with other frames: handled at encoding (one step)
		}
		if len(c.q.req) == 0 && len(c.q.resp) == 0 {
			done[c.q.st] = true
		}
		// a stream reset by the client stops the server from answering; reset by the server stops the client
		last := merged[len(merged)-1]
		if last.Kind == "rst" {
			c.q.req, c.q.resp = nil, nil
			done[c.q.st] = true
		}
		if r.Chance(1, 8) {
			merged = append(merged, vfIntent{Dir: r.Intn(2), Kind: verifkit.Pick(r, []string{"ping", "settings", "winupdate"})})
		}
	}
	if ex.GoAway != nil {
		merged = append(merged, vfIntent{Dir: 1, Kind: "goaway"})
	}
	// encode with one HPACK encoder per direction (dynamic table shared by all streams of that direction)
	encs := [2]*vfDirEnc{vfNewDirEnc(), vfNewDirEnc()}
	_ = encs[0].fr.WriteSettings()
	ex.Steps = append(ex.Steps, vfStep{0, append([]byte(clientPreface), encs[0].take()...), "preface+SETTINGS"})
	_ = encs[1].fr.WriteSettings()
	ex.Steps = append(ex.Steps, vfStep{1, encs[1].take(), "SETTINGS"})
	for _, in := range merged {
		d := encs[in.Dir]
		switch in.Kind {
		case "hreq":
			kv := []string{":method", "POST", ":scheme", "http", ":authority", "example.test", ":path", fmt.Sprintf("/connectrpc.conformance.v1.ConformanceService/M%d", in.St.ID),
				"content-type", "application/grpc", "te", "trailers", "x-req-common", "same-value-for-all-streams", "x-req-own", fmt.Sprintf("own-%d", in.St.ID)}
			if in.St.Name != "" {
				kv = append(kv, "x-test-case-name", in.St.Name)
			}
			d.headers(r, in.St.ID, d.block(kv...), in.End, in.St.Cont)
		case "dreq":
			vfWriteData(d.fr, r, in.St.ID, in.End, in.Data)
		case "treq":
			d.headers(r, in.St.ID, d.block("x-req-trailer", fmt.Sprintf("rt-%d", in.St.ID)), true, in.St.Cont)
		case "hresp":
			d.headers(r, in.St.ID, d.block(":status", "200", "content-type", "application/grpc", "x-resp-common", "same-value", "x-resp-own", fmt.Sprintf("own-%d", in.St.ID)), false, in.St.Cont)
		case "dresp":
			vfWriteData(d.fr, r, in.St.ID, in.End, in.Data)
		case "tresp":
			d.headers(r, in.St.ID, d.block("grpc-status", "0", "x-trail", fmt.Sprintf("t-%d", in.St.ID)), true, in.St.Cont)
		case "rst":
			_ = d.fr.WriteRSTStream(in.St.ID, in.St.RstCode)
		case "ping":
			_ = d.fr.WritePing(false, [8]byte{1, 2, 3})
		case "settings":
			_ = d.fr.WriteSettingsAck()
		case "winupdate":
			_ = d.fr.WriteWindowUpdate(0, 1000)
		case "goaway":
			if ex.GoAwayGraceful {
				_ = d.fr.WriteGoAway(1<<31-1, http2.ErrCodeNo, nil)
				_ = d.fr.WritePing(false, [8]byte{9})
			}
			_ = d.fr.WriteGoAway(*ex.GoAway, ex.GoAwayCode, []byte("bye"))
		}
		desc := in.Kind
		if in.St != nil {
			desc = fmt.Sprintf("%s(stream %d end=%v len=%d)", in.Kind, in.St.ID, in.End, len(in.Data))
		}
		ex.Steps = append(ex.Steps, vfStep{in.Dir, d.take(), desc})
	}
	return ex
}

// ---------------------------------------------------------------- expected traces

type vfEnvParser struct {
	buf []byte
	idx int
}

// feed returns the events for complete messages.
func (p *vfEnvParser) feed(kind string, data []byte) []string {
	p.buf = append(p.buf, data...)
	var out []string
	for len(p.buf) >= 5 {
		l := int(binary.BigEndian.Uint32(p.buf[1:5]))
		if len(p.buf) < 5+l {
			break
		}
		out = append(out, fmt.Sprintf("%s#%d flags=%d declared=%d seen=%d", kind, p.idx, p.buf[0], l, l))
		p.idx++
		p.buf = p.buf[5+l:]
	}
	return out
}

// rest returns the partial event (if any) when the body is cut here.
func (p *vfEnvParser) rest(kind string) []string {
	if len(p.buf) == 0 {
		return nil
	}
	defer func() { p.buf = nil }()
	if len(p.buf) < 5 {
		return []string{fmt.Sprintf("%s#%d no-envelope seen=%d", kind, p.idx, len(p.buf))}
	}
	l := int(binary.BigEndian.Uint32(p.buf[1:5]))
	if len(p.buf) == 5 {
		return []string{"WILDCARD"}
	}
	return []string{fmt.Sprintf("%s#%d flags=%d declared=%d seen=%d", kind, p.idx, p.buf[0], l, len(p.buf)-5)}
}

type vfExpect struct {
	Events   []string
	Path     string
	Status   int
	Trailer  string
	ReqTrail string
	Terminal string // end | reset:<code> | goaway
}

// vfExpectedTraces simulates the exchange per stream, in the merged order.
func vfExpectedTraces(ex *vfExchange, order []vfIntentRef) map[string]*vfExpect {
	out := map[string]*vfExpect{}
	type st struct {
		e          *vfExpect
		req, resp  vfEnvParser
		reqEnded   bool
		done       bool
		gotHeaders bool
	}
	states := map[*vfH2Stream]*st{}
	for _, ref := range order {
		in := ref.In
		if in.St == nil {
			if in.Kind == "goaway" {
				for s, x := range states {
					if s.ID > *ex.GoAway && !x.done {
						x.e.Events = append(x.e.Events, x.req.rest("req-data")...)
						x.e.Events = append(x.e.Events, "resp-end err=true")
						x.e.Terminal = "goaway"
						x.done = true
					}
				}
			}
			continue
		}
		x := states[in.St]
		if x == nil {
			x = &st{e: &vfExpect{Path: fmt.Sprintf("/connectrpc.conformance.v1.ConformanceService/M%d", in.St.ID)}}
			states[in.St] = x
		}
		if x.done {
			continue
		}
		switch in.Kind {
		case "hreq":
			x.e.Events = append(x.e.Events, "req-start")
			if in.End {
				x.e.Events = append(x.e.Events, "req-end err=false")
				x.reqEnded = true
			}
		case "dreq":
			x.e.Events = append(x.e.Events, x.req.feed("req-data", in.Data)...)
			if in.End {
				x.e.Events = append(x.e.Events, x.req.rest("req-data")...)
				x.e.Events = append(x.e.Events, "req-end err=false")
				x.reqEnded = true
			}
		case "treq":
			x.e.ReqTrail = fmt.Sprintf("rt-%d", in.St.ID)
			x.e.Events = append(x.e.Events, x.req.rest("req-data")...)
			x.e.Events = append(x.e.Events, "req-end err=false")
			x.reqEnded = true
		case "hresp":
			x.gotHeaders = true
			x.e.Status = 200
			x.e.Events = append(x.e.Events, "resp-start 200")
		case "dresp":
			x.e.Events = append(x.e.Events, x.resp.feed("resp-data", in.Data)...)
			if in.End {
				x.e.Events = append(x.e.Events, x.req.rest("req-data")...)
				x.e.Events = append(x.e.Events, x.resp.rest("resp-data")...)
				x.e.Events = append(x.e.Events, "resp-end err=false")
				x.e.Terminal = "end"
				x.done = true
			}
		case "tresp":
			x.e.Trailer = fmt.Sprintf("t-%d", in.St.ID)
			x.e.Events = append(x.e.Events, x.req.rest("req-data")...)
			x.e.Events = append(x.e.Events, x.resp.rest("resp-data")...)
			x.e.Events = append(x.e.Events, "resp-end err=false")
			x.e.Terminal = "end"
			x.done = true
		case "rst":
			x.e.Events = append(x.e.Events, x.req.rest("req-data")...)
			if in.Dir == 1 {
				x.e.Events = append(x.e.Events, x.resp.rest("resp-data")...)
				x.e.Events = append(x.e.Events, "resp-end err=true")
			} else {
				x.e.Events = append(x.e.Events, "req-end err=true")
			}
			x.e.Terminal = fmt.Sprintf("reset:%d", uint32(in.St.RstCode))
			x.done = true
		}
	}
	for s, x := range states {
		if s.Name == "" {
			continue
		}
		if s.End == "refused-retry" {
			continue // superseded by the retry, which has the same name
		}
		out[s.Name] = x.e
	}
	return out
}

type vfIntentRef struct{ In vfIntent }

func vfTraceSig(t Trace) []string {
	var out []string
	for _, e := range t.Events {
		switch e := e.(type) {
		case *RequestStart:
			out = append(out, "req-start")
		case *RequestBodyData:
			out = append(out, vfH2DataSig("req-data", e.MessageIndex, e.Envelope, e.Len))
		case *RequestBodyEnd:
			out = append(out, fmt.Sprintf("req-end err=%v", e.Err != nil))
		case *ResponseStart:
			out = append(out, fmt.Sprintf("resp-start %d", e.Response.StatusCode))
		case *ResponseBodyData:
			out = append(out, vfH2DataSig("resp-data", e.MessageIndex, e.Envelope, e.Len))
		case *ResponseBodyEndStream:
			out = append(out, "resp-end-stream")
		case *ResponseBodyEnd:
			out = append(out, fmt.Sprintf("resp-end err=%v", e.Err != nil))
		case *RequestCanceled:
			out = append(out, "canceled")
		default:
			out = append(out, fmt.Sprintf("%T", e))
		}
	}
	return out
}

func vfH2DataSig(kind string, idx int, env *Envelope, l uint64) string {
	if env == nil {
		return fmt.Sprintf("%s#%d no-envelope seen=%d", kind, idx, l)
	}
	return fmt.Sprintf("%s#%d flags=%d declared=%d seen=%d", kind, idx, env.Flags, env.Len, l)
}

func vfEventsMatch(got, want []string) bool {
	// WILDCARD = optional "prefix complete, nothing of the payload seen" event
	var w2 []string
	for _, x := range want {
		if x != "WILDCARD" {
			w2 = append(w2, x)
		}
	}
	if reflect.DeepEqual(got, w2) {
		return true
	}
	var g2 []string
	for _, x := range got {
		if !strings.HasSuffix(x, "seen=0") || !strings.Contains(x, "declared=") || strings.Contains(x, "declared=0 ") {
			g2 = append(g2, x)
		}
	}
	return len(want) != len(w2) && reflect.DeepEqual(g2, w2)
}

// vfPlay pushes the exchange through a traced connection on one side.
// vfCloseEarlyAt: step index at which vfPlay closes the traced connection and keeps feeding it (-1: never).
var vfCloseEarlyAt = -1

func vfPlay(ex *vfExchange, isServer bool, r *verifkit.Rand, coll Collector) (readOK, writeOK bool, sc *vfScriptConn, pn *verifkit.Panic, detail string) {
	closedEarly := false
	sc = &vfScriptConn{writeFail: -1}
	conn := TracingHTTP2Conn(sc, isServer, coll)
	readOK, writeOK = true, true
	pn = verifkit.Catch(func() {
		lastRead := -1
		for i, st := range ex.Steps {
			if (st.Dir == 0) == isServer && len(st.Bytes) > 0 {
				lastRead = i
			}
		}
		// the peer's last bytes arrive in the same Read as io.EOF - only when nothing else follows on the connection
		eofWithData := r.Chance(1, 2) && lastRead == len(ex.Steps)-1
		for si, st := range ex.Steps {
			if vfCloseEarlyAt >= 0 && si == vfCloseEarlyAt {
				// the application closes the connection (or a write failed) while the peer's frames keep arriving:
				// from here on only "no panic" is judged
				_ = conn.Close()
				closedEarly = true
			}
			isRead := (st.Dir == 0) == isServer // the server reads requests, the client reads responses
			data := st.Bytes
			if closedEarly {
				if isRead {
					sc.mu.Lock()
					sc.rbuf = append(sc.rbuf, data...)
					sc.mu.Unlock()
					buf := make([]byte, 64)
					for {
						sc.mu.Lock()
						left := len(sc.rbuf)
						sc.mu.Unlock()
						if left == 0 {
							break
						}
						if _, err := conn.Read(buf); err != nil {
							break
						}
					}
				} else {
					_, _ = conn.Write(data)
				}
				continue
			}
			for len(data) > 0 {
				n := 1 + r.Intn(len(data))
				chunk := data[:n]
				data = data[n:]
				if isRead {
					finalChunk := eofWithData && si == lastRead && len(data) == 0
					sc.mu.Lock()
					sc.rbuf = append(sc.rbuf, chunk...)
					if finalChunk {
						sc.errWithLast = io.EOF
					}
					sc.mu.Unlock()
					var got []byte
					for len(got) < len(chunk) {
						buf := make([]byte, 1+r.Intn(96))
						canary := append([]byte(nil), buf...)
						k, err := conn.Read(buf)
						if finalChunk && k > 0 && err == io.EOF && len(got)+k == len(chunk) {
							err = nil // scripted: bytes and EOF in one Read
						}
						if err != nil || k == 0 {
							readOK, detail = false, fmt.Sprintf("Read returned (%d, %v) although the inner conn had data", k, err)
							return
						}
						if !bytes.Equal(buf[k:], canary[k:]) {
							readOK, detail = false, "Read modified the caller's buffer beyond n"
						}
						got = append(got, buf[:k]...)
					}
					if !bytes.Equal(got, chunk) {
						readOK, detail = false, fmt.Sprintf("Read delivered %x, inner conn had %x", got, chunk)
					}
				} else {
					before := sc.wrote.Len()
					orig := append([]byte(nil), chunk...)
					k, err := conn.Write(chunk)
					if k != len(chunk) || err != nil {
						writeOK, detail = false, fmt.Sprintf("Write returned (%d, %v), inner conn accepted everything", k, err)
					}
					if !bytes.Equal(chunk, orig) {
						writeOK, detail = false, "Write modified the caller's slice"
					}
					if !bytes.Equal(sc.wrote.Bytes()[before:], orig) {
						writeOK, detail = false, fmt.Sprintf("inner conn received %x for a Write of %x", sc.wrote.Bytes()[before:], orig)
					}
				}
			}
		}
		_ = conn.Close()
	})
	return
}

// TestVerifC15Exchanges: well-formed multi-stream exchanges.
func TestVerifC15Exchanges(t *testing.T) {
	rep := verifkit.Begin("C15", "exchanges", "generated exchanges: 1-6 streams (+retry streams), HEADERS split into HEADERS+CONTINUATION at random, DATA frames cutting envelopes anywhere, request trailers, response trailers / END_STREAM on DATA / RST_STREAM from server (before or after headers, any code) or client / REFUSED_STREAM followed by a retry with the same test name / GOAWAY with an open stream; PING, SETTINGS ack, WINDOW_UPDATE interleaved; one HPACK encoder per direction shared by all streams; frames of different streams merged by a random topological order; bytes delivered in random Read/Write partitions; client and server side; 4 schedules per script; distinct = (script, side, schedule)")
	defer rep.Write()
	nScripts := verifkit.Scale(300, 10000)
	for si := 0; si < nScripts; si++ {
		gen := verifkit.Stream("c15script", si)
		allowCont := si%2 == 0
		// the same logical script is re-generated with different interleavings: use a fixed per-script stream
		// spec by re-seeding the stream-spec part, and vary only the merge/partition randomness
		for sched := 0; sched < 4; sched++ {
			r := verifkit.Stream("c15script", si) // identical stream specs...
			ex, order := vfGenExchangeOrdered(r, verifkit.Stream("c15sched", si, sched), allowCont)
			_ = gen
			for _, isServer := range []bool{false, true} {
				rep.Eval(1)
				rep.DistinctKey(si, sched, isServer)
				coll := &vfCountingCollector{}
				readOK, writeOK, _, pn, detail := vfPlay(ex, isServer, verifkit.Stream("c15part", si, sched), coll)
				var descs []string
				for _, s := range ex.Steps {
					descs = append(descs, fmt.Sprintf("%d:%s", s.Dir, s.Desc))
				}
				w := map[string]any{"script": si, "schedule": sched, "side_is_server": isServer, "frames": descs}
				hasCont := false
				for _, s := range ex.Streams {
					hasCont = hasCont || s.Cont
				}
				class := "plain"
				if hasCont {
					class = "continuation"
				}
				rep.Count("scripts_"+class, 1)
				if pn != nil {
					rep.Violation("h2/panic/"+pn.Site, "tracing an HTTP/2 connection panicked: "+pn.Value, map[string]any{"input": w, "stack": verifkit.Trunc(pn.Stack, 3000)})
					continue
				}
				if !readOK || !writeOK {
					rep.Violation("h2/not-transparent", detail, w)
				}
				if sched == 0 && len(ex.Steps) > 3 {
					// once more, closing the connection at a random step while the frames keep coming: must not crash
					vfCloseEarlyAt = 2 + verifkit.Stream("c15close", si).Intn(len(ex.Steps)-2)
					_, _, _, pn2, _ := vfPlay(ex, isServer, verifkit.Stream("c15part", si, 99), &vfCountingCollector{})
					vfCloseEarlyAt = -1
					rep.Count("closed_early_replays", 1)
					if pn2 != nil {
						rep.Violation("h2/panic-after-close/"+pn2.Site, "the connection tracer panicked when frames kept arriving after Close: "+pn2.Value, map[string]any{"input": w, "stack": verifkit.Trunc(pn2.Stack, 3000)})
					}
				}
				want := vfExpectedTraces(ex, order)
				coll.mu.Lock()
				for name, exp := range want {
					ts := coll.traces[name]
					kind := vfStreamKind(ex, name)
					rep.Count("stream:"+kind, 1)
					if len(ts) != 1 {
						rep.Violation(fmt.Sprintf("h2/trace-count/%d/%s/%s", len(ts), kind, class), fmt.Sprintf("stream %q (%s): %d completed traces, want exactly 1", name, kind, len(ts)), w)
						continue
					}
					tr := ts[0]
					got := vfTraceSig(tr)
					ww := map[string]any{"script": si, "schedule": sched, "side_is_server": isServer, "frames": descs, "stream": name, "got_events": got, "want_events": exp.Events}
					if !vfEventsMatch(got, exp.Events) {
						rep.Violation("h2/events/"+kind+"/"+class, fmt.Sprintf("stream %q: events %q, want %q", name, got, exp.Events), ww)
						continue
					}
					if tr.Request == nil || tr.Request.URL == nil || tr.Request.URL.Path != exp.Path || tr.Request.Method != "POST" {
						rep.Violation("h2/request-line", fmt.Sprintf("stream %q: trace has request %v, want POST %s", name, tr.Request, exp.Path), ww)
					} else if tr.Request.Header.Get("x-req-own") != "own-"+strings.TrimPrefix(exp.Path, "/connectrpc.conformance.v1.ConformanceService/M") || tr.Request.Header.Get("x-req-common") != "same-value-for-all-streams" {
						rep.Violation("h2/request-headers/"+class, fmt.Sprintf("stream %q: request headers %v belong to another stream or are incomplete (HPACK state)", name, tr.Request.Header), ww)
					}
					if exp.ReqTrail != "" && (tr.Request == nil || tr.Request.Trailer.Get("x-req-trailer") != exp.ReqTrail) {
						rep.Violation("h2/request-trailers", fmt.Sprintf("stream %q: request trailers missing", name), ww)
					}
					if exp.Status != 0 {
						if tr.Response == nil || tr.Response.StatusCode != exp.Status || tr.Response.Header.Get("x-resp-own") != "own-"+strings.TrimPrefix(exp.Path, "/connectrpc.conformance.v1.ConformanceService/M") {
							rep.Violation("h2/response-headers/"+class, fmt.Sprintf("stream %q: response status/headers wrong or of another stream: %+v", name, tr.Response), ww)
						} else if exp.Trailer != "" && tr.Response.Trailer.Get("x-trail") != exp.Trailer {
							rep.Violation("h2/response-trailers/"+class, fmt.Sprintf("stream %q: response trailers %v, want x-trail=%s", name, tr.Response.Trailer, exp.Trailer), ww)
						}
					}
					switch {
					case exp.Terminal == "end":
						if tr.Err != nil {
							rep.Violation("h2/terminal/end", fmt.Sprintf("stream %q ended normally but the trace carries error %v", name, tr.Err), ww)
						}
					case strings.HasPrefix(exp.Terminal, "reset:"):
						var se http2.StreamError
						if !errors.As(tr.Err, &se) || fmt.Sprint(uint32(se.Code)) != strings.TrimPrefix(exp.Terminal, "reset:") {
							rep.Violation("h2/terminal/reset", fmt.Sprintf("stream %q was reset (%s) but the trace's error is %v", name, exp.Terminal, tr.Err), ww)
						}
					case exp.Terminal == "goaway":
						var ce http2.ConnectionError
						if tr.Err == nil {
							rep.Violation("h2/terminal/goaway", fmt.Sprintf("stream %q was cut off by GOAWAY but the trace has no error", name), ww)
						} else if !errors.As(tr.Err, &ce) || http2.ErrCode(ce) != ex.GoAwayCode {
							ww["graceful_two_goaways"] = ex.GoAwayGraceful
							rep.Violation("h2/terminal/goaway-not-attributed", fmt.Sprintf("stream %q was cut off by GOAWAY(code %v) but the trace's error is %v", name, ex.GoAwayCode, tr.Err), ww)
						}
						if ex.GoAwayGraceful {
							rep.Count("stream:goaway-graceful", 1)
						}
					}
				}
				for name, ts := range coll.traces {
					if _, ok := want[name]; !ok && len(ts) > 0 {
						rep.Violation("h2/unexpected-trace", fmt.Sprintf("trace delivered for %q which no named stream carries", name), w)
					}
				}
				coll.mu.Unlock()
			}
		}
	}
	rep.Sample(map[string]any{"streams": "1: named, HEADERS+CONTINUATION, 2 request messages cut across 3 DATA frames, response trailers; 3: refused then retried as 5", "expect": "one trace for stream 1 with its own headers; one trace (of stream 5) for the retried name"})
	rep.Count("header_blocks_with_an_empty_headers_or_continuation_frame", int(vfEmptyHeaderFrames.Load()))
	rep.RequireMin("header_blocks_with_an_empty_headers_or_continuation_frame", 20)
	for _, k := range []string{"stream:trailers", "stream:rst-server", "stream:rst-client", "stream:rst-client-after-end", "stream:rst-before-headers", "stream:retry", "stream:goaway", "scripts_continuation"} {
		rep.RequireMin(k, 10)
	}
}

func vfStreamKind(ex *vfExchange, name string) string {
	kind := ""
	for _, s := range ex.Streams {
		if s.Name == name {
			kind = s.End
			if s.RetryOf != nil {
				kind = "retry"
			}
		}
	}
	return kind
}

// vfGenExchangeOrdered: stream specs from spec, interleaving from sched.
func vfGenExchangeOrdered(spec, sched *verifkit.Rand, allowCont bool) (*vfExchange, []vfIntentRef) {
	// Generate with spec for the stream list, then rebuild the merge with sched. To keep it simple the whole
	// exchange is generated from one generator seeded by both: spec decides sizes first, sched everything after.
	ex := vfGenExchangeTwo(spec, sched, allowCont)
	return ex.ex, ex.order
}

type vfExAndOrder struct {
	ex    *vfExchange
	order []vfIntentRef
}

// vfGenExchangeTwo is vfGenExchange with the stream specs drawn from spec and
// all scheduling choices from sched; it also returns the merged intent order.
func vfGenExchangeTwo(spec, sched *verifkit.Rand, allowCont bool) vfExAndOrder {
	// draw specs
	ex := vfGenExchangeSpecs(spec, allowCont)
	order := vfSchedule(ex, sched)
	return vfExAndOrder{ex, order}
}

func vfGenExchangeSpecs(r *verifkit.Rand, allowCont bool) *vfExchange {
	tmp := vfGenExchange(r, allowCont) // (its steps are discarded; only the stream list and GoAway are kept)
	return &vfExchange{Streams: tmp.Streams, GoAway: tmp.GoAway, GoAwayGraceful: tmp.GoAwayGraceful, GoAwayCode: tmp.GoAwayCode}
}

func vfSchedule(ex *vfExchange, r *verifkit.Rand) []vfIntentRef {
	type q struct {
		st      *vfH2Stream
		req     []vfIntent
		resp    []vfIntent
		blocked *vfH2Stream
	}
	var qs []*q
	for _, s := range ex.Streams {
		rq, rs := s.intents(r)
		qs = append(qs, &q{st: s, req: rq, resp: rs, blocked: s.RetryOf})
	}
	done := map[*vfH2Stream]bool{}
	reqStarted := map[*vfH2Stream]bool{}
	var merged []vfIntent
	for {
		type choice struct {
			q    *q
			resp bool
		}
		var avail []choice
		for _, x := range qs {
			if x.blocked != nil && !done[x.blocked] {
				continue
			}
			if len(x.req) > 0 {
				avail = append(avail, choice{x, false})
			}
			if len(x.resp) > 0 && reqStarted[x.st] && (len(x.req) == 0 || x.st.Bidi) {
				avail = append(avail, choice{x, true})
			}
		}
		if len(avail) == 0 {
			break
		}
		c := avail[r.Intn(len(avail))]
		if c.resp {
			merged = append(merged, c.q.resp[0])
			c.q.resp = c.q.resp[1:]
		} else {
			merged = append(merged, c.q.req[0])
			reqStarted[c.q.st] = true
			c.q.req = c.q.req[1:]
		}
		if merged[len(merged)-1].Kind == "rst" {
			c.q.req, c.q.resp = nil, nil
		}
		if len(c.q.req) == 0 && len(c.q.resp) == 0 {
			done[c.q.st] = true
		}
		if r.Chance(1, 8) {
			merged = append(merged, vfIntent{Dir: r.Intn(2), Kind: verifkit.Pick(r, []string{"ping", "settings", "winupdate"})})
		}
	}
	if ex.GoAway != nil {
		merged = append(merged, vfIntent{Dir: 1, Kind: "goaway"})
	}
	encs := [2]*vfDirEnc{vfNewDirEnc(), vfNewDirEnc()}
	ex.Steps = nil
	_ = encs[0].fr.WriteSettings()
	ex.Steps = append(ex.Steps, vfStep{0, append([]byte(clientPreface), encs[0].take()...), "preface+SETTINGS"})
	_ = encs[1].fr.WriteSettings()
	ex.Steps = append(ex.Steps, vfStep{1, encs[1].take(), "SETTINGS"})
	var order []vfIntentRef
	for _, in := range merged {
		d := encs[in.Dir]
		switch in.Kind {
		case "hreq":
			kv := []string{":method", "POST", ":scheme", "http", ":authority", "example.test", ":path", fmt.Sprintf("/connectrpc.conformance.v1.ConformanceService/M%d", in.St.ID),
				"content-type", "application/grpc", "te", "trailers", "x-req-common", "same-value-for-all-streams", "x-req-own", fmt.Sprintf("own-%d", in.St.ID)}
			if in.St.Name != "" {
				kv = append(kv, "x-test-case-name", in.St.Name)
			}
			d.headers(r, in.St.ID, d.block(kv...), in.End, in.St.Cont)
		case "dreq":
			vfWriteData(d.fr, r, in.St.ID, in.End, in.Data)
		case "treq":
			d.headers(r, in.St.ID, d.block("x-req-trailer", fmt.Sprintf("rt-%d", in.St.ID)), true, in.St.Cont)
		case "hresp":
			d.headers(r, in.St.ID, d.block(":status", "200", "content-type", "application/grpc", "x-resp-common", "same-value", "x-resp-own", fmt.Sprintf("own-%d", in.St.ID)), false, in.St.Cont)
		case "dresp":
			vfWriteData(d.fr, r, in.St.ID, in.End, in.Data)
		case "tresp":
			d.headers(r, in.St.ID, d.block("grpc-status", "0", "x-trail", fmt.Sprintf("t-%d", in.St.ID)), true, in.St.Cont)
		case "rst":
			_ = d.fr.WriteRSTStream(in.St.ID, in.St.RstCode)
		case "ping":
			_ = d.fr.WritePing(false, [8]byte{1, 2, 3})
		case "settings":
			_ = d.fr.WriteSettingsAck()
		case "winupdate":
			_ = d.fr.WriteWindowUpdate(0, 1000)
		case "goaway":
			if ex.GoAwayGraceful {
				_ = d.fr.WriteGoAway(1<<31-1, http2.ErrCodeNo, nil)
				_ = d.fr.WritePing(false, [8]byte{9})
			}
			_ = d.fr.WriteGoAway(*ex.GoAway, ex.GoAwayCode, []byte("bye"))
		}
		desc := in.Kind
		if in.St != nil {
			desc = fmt.Sprintf("%s(stream %d end=%v len=%d)", in.Kind, in.St.ID, in.End, len(in.Data))
		}
		ex.Steps = append(ex.Steps, vfStep{in.Dir, d.take(), desc})
		order = append(order, vfIntentRef{in})
	}
	return order
}

// ---------------------------------------------------------------- hostile inputs

func vfMutateBytes(r *verifkit.Rand, b []byte) []byte {
	b = append([]byte(nil), b...)
	for k := 1 + r.Intn(4); k > 0 && len(b) > 0; k-- {
		switch r.Intn(7) {
		case 0:
			b[r.Intn(len(b))] ^= 1 << uint(r.Intn(8))
		case 1:
			b = b[:r.Intn(len(b)+1)]
		case 2:
			i := r.Intn(len(b))
			b = append(b[:i], append([]byte{byte(r.Intn(256))}, b[i:]...)...)
		case 3:
			b[r.Intn(len(b))] = byte(r.Intn(256))
		case 4:
			i, j := r.Intn(len(b)), r.Intn(len(b))
			if i > j {
				i, j = j, i
			}
			b = append(b[:i], b[j:]...)
		case 5:
			// lie in a frame length field (first 3 bytes of some frame header are hard to find: poke near the start)
			if len(b) > 40 {
				i := 24 + r.Intn(16)
				b[i] = byte(r.Intn(256))
			}
		case 6:
			// splice: duplicate a slice
			i, j := r.Intn(len(b)), r.Intn(len(b))
			if i > j {
				i, j = j, i
			}
			b = append(b[:j], append(append([]byte(nil), b[i:j]...), b[j:]...)...)
		}
	}
	return b
}

// TestVerifC15Hostile: arbitrary / mutated / mis-ordered byte streams never
// crash the tracer and never change what is read or written.
func TestVerifC15Hostile(t *testing.T) {
	rep := verifkit.Begin("C15", "hostile", "per input: both directions of a generated exchange, each direction independently left intact, mutated (bit flips, truncation, insertions, deletions, length-field lies, splices) or replaced by random bytes; plus ordering faults that keep every frame well-formed (response DATA/trailers before response HEADERS, DATA on unopened or closed streams, frames after GOAWAY, duplicate HEADERS); inner conn also injects read errors and short writes; both sides; oracle: no panic, every Read/Write result and byte identical to the inner conn's; distinct = (input, side)")
	defer rep.Write()
	n := verifkit.Scale(6000, 600000)
	batch := 500
	for it := 0; it < n; it++ {
		r := verifkit.Stream("c15hostile", it)
		if it%batch == 0 {
			rep.InFlightDisk(map[string]any{"hostile_inputs": fmt.Sprintf("%d..%d", it, it+batch-1), "seed_stream": "c15hostile"})
		}
		var dirs [2][]byte
		mode := r.Intn(10)
		switch {
		case mode == 0:
			dirs[0], dirs[1] = r.Bytes(r.Intn(300)), r.Bytes(r.Intn(300))
		case mode <= 3:
			dirs = vfOrderFault(r)
		default:
			ex := vfGenExchangeTwo(verifkit.Stream("c15hostile-spec", it), r, it%2 == 0).ex
			for _, s := range ex.Steps {
				dirs[s.Dir] = append(dirs[s.Dir], s.Bytes...)
			}
			if r.Bool() {
				dirs[0] = vfMutateBytes(r, dirs[0])
			}
			if r.Bool() {
				dirs[1] = vfMutateBytes(r, dirs[1])
			}
		}
		for _, isServer := range []bool{false, true} {
			rep.Eval(1)
			rep.DistinctKey(it, isServer)
			sc := &vfScriptConn{writeFail: -1}
			if r.Chance(1, 10) {
				sc.writeFail = r.Intn(200)
			}
			if r.Chance(1, 10) {
				sc.readErr = errors.New("connection reset by peer")
			}
			conn := TracingHTTP2Conn(sc, isServer, &vfCountingCollector{})
			readData, writeData := dirs[1], dirs[0]
			if isServer {
				readData, writeData = dirs[0], dirs[1]
			}
			w := map[string]any{"input": it, "side_is_server": isServer, "mode": mode, "request_dir_hex": verifkit.Trunc(fmt.Sprintf("%x", dirs[0]), 2000), "response_dir_hex": verifkit.Trunc(fmt.Sprintf("%x", dirs[1]), 2000)}
			pn := verifkit.Catch(func() {
				// alternate chunks of writes and reads so that both directions progress together
				wd, rd := writeData, append([]byte(nil), readData...)
				var gotRead []byte
				sc.rbuf = rd
				var wroteWant []byte
				for len(wd) > 0 || len(sc.rbuf) > 0 {
					if len(wd) > 0 && (len(sc.rbuf) == 0 || r.Bool()) {
						k := 1 + r.Intn(len(wd))
						chunk := append([]byte(nil), wd[:k]...)
						before := sc.wrote.Len()
						nw, err := conn.Write(chunk)
						if !bytes.Equal(chunk, wd[:k]) {
							rep.Violation("h2/not-transparent/write-modified-callers-slice", "Write changed the caller's bytes", w)
						}
						innerN := sc.wrote.Len() - before
						last := sc.writeLog[len(sc.writeLog)-1]
						if nw != last.N || (err == nil) != (last.Err == "") || innerN != nw {
							rep.Violation("h2/not-transparent/write-result", fmt.Sprintf("Write returned (%d, %v); the inner conn returned (%d, %q)", nw, err, last.N, last.Err), w)
						}
						wroteWant = append(wroteWant, chunk[:innerN]...)
						wd = wd[k:]
						if err != nil {
							wd = nil
						}
					} else {
						buf := make([]byte, 1+r.Intn(96))
						nr, err := conn.Read(buf)
						last := sc.readLog[len(sc.readLog)-1]
						if nr != last.N || (err == nil) != (last.Err == "") {
							rep.Violation("h2/not-transparent/read-result", fmt.Sprintf("Read returned (%d, %v); the inner conn returned (%d, %q)", nr, err, last.N, last.Err), w)
						}
						gotRead = append(gotRead, buf[:nr]...)
						if err != nil {
							break
						}
					}
				}
				if !bytes.Equal(sc.wrote.Bytes(), wroteWant) {
					rep.Violation("h2/not-transparent/written-bytes", "the bytes the inner conn received differ from the bytes the caller wrote", w)
				}
				if !bytes.HasPrefix(readData, gotRead) {
					rep.Violation("h2/not-transparent/read-bytes", "the bytes delivered by Read differ from what the inner conn provided", w)
				}
				// a final read error / EOF and Close must be passed through as well
				_, err := conn.Read(make([]byte, 8))
				if err == nil && len(sc.rbuf) == 0 {
					rep.Violation("h2/not-transparent/read-error-swallowed", "inner conn returned an error but Read did not", w)
				}
				if cerr := conn.Close(); cerr != nil || sc.closed != 1 {
					rep.Violation("h2/not-transparent/close", fmt.Sprintf("Close returned %v, inner conn closed %d times", cerr, sc.closed), w)
				}
			})
			if pn != nil {
				rep.Violation("h2/panic/"+pn.Site, "tracing an HTTP/2 connection panicked: "+pn.Value, map[string]any{"input": w, "stack": verifkit.Trunc(pn.Stack, 3000)})
			}
			rep.Count(fmt.Sprintf("mode:%d", mode), 1)
		}
	}
	rep.Sample(map[string]any{"mode": "ordering fault", "frames": "HEADERS(1) | response DATA(1) before response HEADERS | GOAWAY", "expect": "no panic; reads and writes identical to the inner conn"})
}

// vfOrderFault builds byte streams in which every frame is well-formed but
// the order is not.
func vfOrderFault(r *verifkit.Rand) [2][]byte {
	encs := [2]*vfDirEnc{vfNewDirEnc(), vfNewDirEnc()}
	var out [2][]byte
	out[0] = []byte(clientPreface)
	emit := func(dir int) { out[dir] = append(out[dir], encs[dir].take()...) }
	named := r.Chance(3, 4)
	hreq := func(id uint32, end bool) {
		kv := []string{":method", "POST", ":scheme", "http", ":authority", "h", ":path", "/s/M", "content-type", verifkit.Pick(r, []string{"application/grpc", "application/connect+proto", "application/grpc-web", "text/plain"})}
		if named {
			kv = append(kv, "x-test-case-name", fmt.Sprintf("t%d", id))
		}
		_ = encs[0].fr.WriteHeaders(http2.HeadersFrameParam{StreamID: id, BlockFragment: encs[0].block(kv...), EndHeaders: true, EndStream: end})
		emit(0)
	}
	hresp := func(id uint32, end bool) {
		_ = encs[1].fr.WriteHeaders(http2.HeadersFrameParam{StreamID: id, BlockFragment: encs[1].block(":status", "200", "content-type", "application/grpc"), EndHeaders: true, EndStream: end})
		emit(1)
	}
	tresp := func(id uint32) {
		_ = encs[1].fr.WriteHeaders(http2.HeadersFrameParam{StreamID: id, BlockFragment: encs[1].block("grpc-status", "0"), EndHeaders: true, EndStream: true})
		emit(1)
	}
	data := func(dir int, id uint32, end bool) {
		e := vfEnvelope(byte(r.Intn(4)), r.Bytes(r.Intn(9)))
		_ = encs[dir].fr.WriteData(id, end, e[:1+r.Intn(len(e))])
		emit(dir)
	}
	for k := 2 + r.Intn(8); k > 0; k-- {
		id := uint32(1 + 2*r.Intn(3))
		switch r.Intn(12) {
		case 0:
			hreq(id, r.Bool())
		case 1:
			data(1, id, r.Bool()) // response DATA, possibly before response HEADERS / on an unopened stream
		case 2:
			tresp(id) // trailers before headers / on unopened stream
		case 3:
			hresp(id, r.Bool())
		case 4:
			data(0, id, r.Bool())
		case 5:
			_ = encs[1].fr.WriteGoAway(uint32(r.Intn(6)), http2.ErrCode(r.Intn(14)), nil)
			emit(1)
		case 6:
			_ = encs[r.Intn(2)].fr.WriteRSTStream(id, http2.ErrCode(r.Intn(14)))
			emit(0)
			emit(1)
		case 7:
			hreq(id, false)
			data(1, id, false)
			tresp(id)
		case 8:
			hreq(id, true)
			tresp(id) // "trailers-only" response
			data(1, id, true)
		case 9:
			_ = encs[0].fr.WriteGoAway(uint32(r.Intn(6)), http2.ErrCodeNo, nil)
			emit(0)
		case 10:
			hreq(id, false)
			hresp(id, false)
			hresp(id, false)
			tresp(id)
			tresp(id)
		default:
			_ = encs[0].fr.WriteContinuation(id, true, encs[0].block("x", "y"))
			emit(0)
		}
	}
	return out
}

// TestVerifC15RetryTimer: the hold-back of a refused stream is a real timer;
// drive it with real (generously spaced) delays.
func TestVerifC15RetryTimer(t *testing.T) {
	rep := verifkit.Begin("C15", "retry-timer", "client-side traced connection, hand-built frames, real sleeps around the 3 s retry window: (A) refused, retried at once, the retry refused again 2 s later, retried again 3.5 s after the first refusal; (B) refused and retried once, then 3.4 s of silence; (C) refused and never retried; oracle: A and B deliver exactly one trace, the successful retry's; C delivers nothing for 1.5 s and exactly the refused trace after 3.5 s; sleeps that overshoot the margins make the scenario inconclusive; distinct = scenario")
	defer rep.Write()
	type frames struct {
		req, resp *vfDirEnc
		sc        *vfScriptConn
		conn      net.Conn
		coll      *vfCountingCollector
	}
	open := func() *frames {
		f := &frames{req: vfNewDirEnc(), resp: vfNewDirEnc(), sc: &vfScriptConn{writeFail: -1}, coll: &vfCountingCollector{}}
		f.conn = TracingHTTP2Conn(f.sc, false, f.coll)
		_ = f.req.fr.WriteSettings()
		_, _ = f.conn.Write(append([]byte(clientPreface), f.req.take()...))
		_ = f.resp.fr.WriteSettings()
		f.sc.mu.Lock()
		f.sc.rbuf = append(f.sc.rbuf, f.resp.take()...)
		f.sc.mu.Unlock()
		return f
	}
	drain := func(f *frames) {
		buf := make([]byte, 4096)
		for {
			f.sc.mu.Lock()
			n := len(f.sc.rbuf)
			f.sc.mu.Unlock()
			if n == 0 {
				return
			}
			_, _ = f.conn.Read(buf)
		}
	}
	request := func(f *frames, id uint32, name string) {
		r := verifkit.Stream("c15timer", int(id))
		f.req.headers(r, id, f.req.block(":method", "POST", ":scheme", "http", ":authority", "example.test", ":path", "/connectrpc.conformance.v1.ConformanceService/Unary", "content-type", "application/grpc", "te", "trailers", "x-test-case-name", name), false, false)
		_ = f.req.fr.WriteData(id, true, vfEnvelope(0, []byte("req")))
		_, _ = f.conn.Write(f.req.take())
	}
	refuse := func(f *frames, id uint32) {
		_ = f.resp.fr.WriteRSTStream(id, http2.ErrCodeRefusedStream)
		f.sc.mu.Lock()
		f.sc.rbuf = append(f.sc.rbuf, f.resp.take()...)
		f.sc.mu.Unlock()
		drain(f)
	}
	answer := func(f *frames, id uint32) {
		r := verifkit.Stream("c15timer-a", int(id))
		f.resp.headers(r, id, f.resp.block(":status", "200", "content-type", "application/grpc"), false, false)
		_ = f.resp.fr.WriteData(id, false, vfEnvelope(0, []byte("resp")))
		f.resp.headers(r, id, f.resp.block("grpc-status", "0"), true, false)
		f.sc.mu.Lock()
		f.sc.rbuf = append(f.sc.rbuf, f.resp.take()...)
		f.sc.mu.Unlock()
		drain(f)
	}
	count := func(f *frames, name string) (int, []Trace) {
		f.coll.mu.Lock()
		defer f.coll.mu.Unlock()
		return len(f.coll.traces[name]), append([]Trace(nil), f.coll.traces[name]...)
	}
	var wg sync.WaitGroup
	var mu sync.Mutex // guards rep
	verdict := func(fn func()) { mu.Lock(); defer mu.Unlock(); fn() }
	wg.Add(3)
	go func() { // A
		defer wg.Done()
		f := open()
		t0 := time.Now()
		request(f, 1, "T/a")
		refuse(f, 1)
		tRef1 := time.Since(t0)
		request(f, 3, "T/a")
		time.Sleep(2 * time.Second)
		refuse(f, 3)
		tRef2 := time.Since(t0)
		time.Sleep(3500*time.Millisecond - time.Since(t0))
		request(f, 5, "T/a")
		answer(f, 5)
		tDone := time.Since(t0)
		time.Sleep(300 * time.Millisecond)
		n, ts := count(f, "T/a")
		_ = f.conn.Close()
		verdict(func() {
			rep.Eval(1)
			rep.DistinctKey("A")
			w := map[string]any{"scenario": "A: refused, retried, refused again, retried again", "first_refusal_ms": tRef1.Milliseconds(), "second_refusal_ms": tRef2.Milliseconds(), "final_answer_ms": tDone.Milliseconds()}
			if tDone-tRef2 > 2500*time.Millisecond || tRef2 < 1500*time.Millisecond {
				rep.Inconcl(fmt.Sprintf("scenario A: the machine stretched the schedule (%v), the second hold-back may have expired legitimately", w))
				return
			}
			rep.Count("timer_scenarios_decided", 1)
			if n != 1 {
				rep.Violation(fmt.Sprintf("h2/retry-timer/trace-count/%d", n), fmt.Sprintf("%d traces for a call refused twice and answered on the third attempt (each retry inside the hold-back window)", n), w)
			} else if ts[0].Err != nil || ts[0].Response == nil {
				rep.Violation("h2/retry-timer/wrong-attempt", fmt.Sprintf("the delivered trace is not the successful attempt's: err=%v", ts[0].Err), w)
			}
		})
	}()
	go func() { // B
		defer wg.Done()
		f := open()
		request(f, 1, "T/b")
		refuse(f, 1)
		request(f, 3, "T/b")
		answer(f, 3)
		time.Sleep(3400 * time.Millisecond)
		n, ts := count(f, "T/b")
		_ = f.conn.Close()
		verdict(func() {
			rep.Eval(1)
			rep.DistinctKey("B")
			rep.Count("timer_scenarios_decided", 1)
			w := map[string]any{"scenario": "B: refused, retried, answered, then silence past the window"}
			if n != 1 {
				rep.Violation(fmt.Sprintf("h2/retry-timer/trace-count/%d", n), fmt.Sprintf("%d traces for a call refused once and answered on the retry", n), w)
			} else if ts[0].Err != nil {
				rep.Violation("h2/retry-timer/wrong-attempt", fmt.Sprintf("the delivered trace carries %v", ts[0].Err), w)
			}
		})
	}()
	go func() { // C
		defer wg.Done()
		f := open()
		t0 := time.Now()
		request(f, 1, "T/c")
		refuse(f, 1)
		time.Sleep(1500 * time.Millisecond)
		early, _ := count(f, "T/c")
		tEarly := time.Since(t0)
		time.Sleep(3600*time.Millisecond - time.Since(t0))
		n, ts := count(f, "T/c")
		_ = f.conn.Close()
		verdict(func() {
			rep.Eval(1)
			rep.DistinctKey("C")
			w := map[string]any{"scenario": "C: refused, never retried", "early_probe_ms": tEarly.Milliseconds()}
			if tEarly > 2800*time.Millisecond {
				rep.Inconcl("scenario C: early probe came too late")
			} else if early != 0 {
				rep.Violation("h2/retry-timer/refused-trace-delivered-inside-window", "a refused stream's trace was delivered while a retry could still arrive", w)
			}
			rep.Count("timer_scenarios_decided", 1)
			var se http2.StreamError
			if n != 1 {
				rep.Violation(fmt.Sprintf("h2/retry-timer/unretried-count/%d", n), fmt.Sprintf("%d traces for a refused call that was never retried (after the window)", n), w)
			} else if !errors.As(ts[0].Err, &se) || se.Code != http2.ErrCodeRefusedStream {
				rep.Violation("h2/retry-timer/unretried-error", fmt.Sprintf("the trace of the refused, never retried call carries %v", ts[0].Err), w)
			}
		})
	}()
	wg.Wait()
	rep.Sample(map[string]any{"scenario": "A", "expect": "one trace: attempt 3 (200, grpc-status 0)"})
	rep.RequireMin("timer_scenarios_decided", 2)
}

// ---------------------------------------------------------------- several connections of one listener

type vfFakeListener struct {
	conns []net.Conn
}

func (l *vfFakeListener) Accept() (net.Conn, error) {
	if len(l.conns) == 0 {
		return nil, errors.New("no more connections")
	}
	c := l.conns[0]
	l.conns = l.conns[1:]
	return c, nil
}
func (l *vfFakeListener) Close() error   { return nil }
func (l *vfFakeListener) Addr() net.Addr { return &net.TCPAddr{} }

// vfFeedStep pushes one step of an exchange through a server-side traced conn.
func vfFeedStep(conn net.Conn, sc *vfScriptConn, st vfStep, r *verifkit.Rand) error {
	data := st.Bytes
	for len(data) > 0 {
		n := 1 + r.Intn(len(data))
		chunk := data[:n]
		data = data[n:]
		if st.Dir == 0 { // the server reads requests
			sc.mu.Lock()
			sc.rbuf = append(sc.rbuf, chunk...)
			sc.mu.Unlock()
			got := 0
			for got < len(chunk) {
				buf := make([]byte, 1+r.Intn(96))
				k, err := conn.Read(buf)
				if err != nil || k == 0 {
					return fmt.Errorf("Read returned (%d, %v)", k, err)
				}
				got += k
			}
		} else if k, err := conn.Write(chunk); err != nil || k != len(chunk) {
			return fmt.Errorf("Write returned (%d, %v)", k, err)
		}
	}
	return nil
}

// TestVerifC15Listener: two connections accepted from one traced listener
// (server side, as the grpc reference server uses it); their frames are
// interleaved, and one connection ends while the other still has calls in
// flight - in particular between a refusal and its retry.
func TestVerifC15Listener(t *testing.T) {
	rep := verifkit.Begin("C15", "listener", "TracingHTTP2Listener over a fake listener handing out two scripted connections; each carries a generated exchange (as in the exchanges part; distinct test names per connection), steps of the two interleaved at random; connection A is closed (or its Read returns EOF) as soon as its script is done, i.e. at a random point of B's script, also between a REFUSED_STREAM and its retry; oracle per named stream of either connection: exactly one trace with the expected events; distinct = (script pair, interleaving)")
	defer rep.Write()
	n := verifkit.Scale(250, 8000)
	for it := 0; it < n; it++ {
		vfNamePrefix = "ConnA"
		exA, orderA := vfGenExchangeOrdered(verifkit.Stream("c15lnA", it), verifkit.Stream("c15lnA-s", it), false)
		vfNamePrefix = "ConnB"
		exB, orderB := vfGenExchangeOrdered(verifkit.Stream("c15lnB", it), verifkit.Stream("c15lnB-s", it), it%2 == 0)
		vfNamePrefix = "Suite"
		r := verifkit.Stream("c15ln-mix", it)
		coll := &vfCountingCollector{}
		scA, scB := &vfScriptConn{writeFail: -1}, &vfScriptConn{writeFail: -1}
		ln := TracingHTTP2Listener(&vfFakeListener{conns: []net.Conn{scA, scB}}, coll)
		rep.Eval(1)
		rep.DistinctKey(it)
		w := map[string]any{"pair": it}
		var playErr error
		hasRetryB := false
		for _, s := range exB.Streams {
			hasRetryB = hasRetryB || s.RetryOf != nil
		}
		pn := verifkit.Catch(func() {
			connA, _ := ln.Accept()
			connB, _ := ln.Accept()
			ia, ib := 0, 0
			closedA := false
			for ia < len(exA.Steps) || ib < len(exB.Steps) {
				pickA := ia < len(exA.Steps) && (ib >= len(exB.Steps) || r.Chance(1, 3))
				if pickA {
					if playErr = vfFeedStep(connA, scA, exA.Steps[ia], r); playErr != nil {
						return
					}
					ia++
				} else {
					if playErr = vfFeedStep(connB, scB, exB.Steps[ib], r); playErr != nil {
						return
					}
					ib++
				}
				if ia == len(exA.Steps) && !closedA {
					closedA = true
					if r.Bool() {
						_ = connA.Close()
					} else {
						_, _ = connA.Read(make([]byte, 16)) // the peer went away: (0, io.EOF)
					}
				}
			}
			_ = connB.Close()
			if !closedA {
				_ = connA.Close()
			}
		})
		if pn != nil {
			rep.Violation("h2/listener/panic/"+pn.Site, pn.Value, w)
			continue
		}
		if playErr != nil {
			rep.Violation("h2/listener/not-transparent", playErr.Error(), w)
			continue
		}
		if hasRetryB {
			rep.Count("pairs_with_a_retry_on_the_other_connection", 1)
		}
		coll.mu.Lock()
		for side, exo := range map[string]struct {
			ex    *vfExchange
			order []vfIntentRef
		}{"A": {exA, orderA}, "B": {exB, orderB}} {
			for name, exp := range vfExpectedTraces(exo.ex, exo.order) {
				ts := coll.traces[name]
				kind := vfStreamKind(exo.ex, name)
				if len(ts) != 1 {
					rep.Violation(fmt.Sprintf("h2/listener/trace-count/%d/%s/conn%s", len(ts), kind, side), fmt.Sprintf("stream %q (%s) on connection %s: %d completed traces, want exactly 1", name, kind, side, len(ts)), w)
					continue
				}
				if got := vfTraceSig(ts[0]); !vfEventsMatch(got, exp.Events) {
					rep.Violation("h2/listener/events/"+kind+"/conn"+side, fmt.Sprintf("stream %q: events %q, want %q", name, got, exp.Events), w)
					continue
				}
				rep.Count("listener_streams_ok", 1)
			}
		}
		coll.mu.Unlock()
	}
	rep.Sample(map[string]any{"conn B": "stream 1 refused, retried as stream 3", "conn A": "one call, then the connection is closed between B's refusal and retry", "expect": "one trace for B's test: the retry"})
	rep.RequireMin("listener_streams_ok", 300)
	rep.RequireMin("pairs_with_a_retry_on_the_other_connection", 20)
}

// vfWriteData writes a DATA frame, now and then PADDED (RFC 9113 6.1): any pad length incl. 0, also when the
// frame carries no data at all (padding-only frames, e.g. an END_STREAM frame that hides being empty).
func vfWriteData(fr *http2.Framer, r *verifkit.Rand, id uint32, end bool, data []byte) {
	if r != nil && r.Chance(1, 5) {
		pad := make([]byte, verifkit.Pick(r, []int{0, 0, 1, 7, 40}))
		_ = fr.WriteDataPadded(id, end, data, pad)
		return
	}
	_ = fr.WriteData(id, end, data)
}
