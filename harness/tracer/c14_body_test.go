//go:build verif

package tracer

import (
	"bytes"
	"encoding/binary"
	"errors"
	"fmt"
	"io"
	"net/http"
	"net/http/httptest"
	"reflect"
	"sort"
	"strings"
	"sync"
	"sync/atomic"
	"testing"
	"time"

	"connectrpc.com/conformance/internal/verifkit"
)

type vfEnv struct {
	Flags    byte
	Declared uint32 // declared length == len(Payload) in well-formed bodies
	Payload  []byte
	EndRaw   string // for end-stream items: the uncompressed content
}

type vfBody struct {
	Proto     string // connect | grpc | grpc-web | unary (non-stream content type)
	Encoding  string
	Envs      []vfEnv
	Stream    []byte
	IsRequest bool
}

func (b *vfBody) headers() http.Header {
	h := http.Header{}
	switch b.Proto {
	case "connect":
		h.Set("Content-Type", "application/connect+proto")
		if b.Encoding != "" {
			h.Set("Connect-Content-Encoding", b.Encoding)
		}
	case "grpc":
		h.Set("Content-Type", "application/grpc+proto")
		if b.Encoding != "" {
			h.Set("Grpc-Encoding", b.Encoding)
		}
	case "grpc-web":
		h.Set("Content-Type", "application/grpc-web+proto")
		if b.Encoding != "" {
			h.Set("Grpc-Encoding", b.Encoding)
		}
	default:
		h.Set("Content-Type", "application/proto")
	}
	return h
}

func vfGenBody(r *verifkit.Rand, isRequest bool) *vfBody {
	b := &vfBody{IsRequest: isRequest}
	b.Proto = verifkit.Pick(r, []string{"connect", "connect", "grpc", "grpc-web", "grpc-web", "unary"})
	b.Encoding = verifkit.Pick(r, []string{"", "identity", "gzip", "gzip", "br", "zstd", "deflate", "snappy"})
	if r.Chance(1, 6) {
		b.Encoding = strings.ToUpper(b.Encoding[:len(b.Encoding)/2]) + b.Encoding[len(b.Encoding)/2:] // names are case-insensitive
	}
	n := r.Intn(5)
	for i := 0; i < n; i++ {
		p := r.Bytes(verifkit.Pick(r, []int{0, 0, 1, 4, 5, 6, 30, 200}))
		fl := byte(r.Intn(256)) &^ 0x82 // data messages: any flag bits except the two end-of-stream markers
		if r.Chance(1, 2) {
			fl &= 1
		}
		b.Envs = append(b.Envs, vfEnv{Flags: fl, Declared: uint32(len(p)), Payload: p})
	}
	if b.Proto != "unary" && b.Proto != "grpc" && r.Chance(2, 3) {
		content := verifkit.Pick(r, []string{"", "{}", `{"error":{"code":"internal","message":"boom"},"metadata":{"x":["y"]}}`, "grpc-status: 0\r\ngrpc-message: ok\r\n"})
		fl := byte(0x02)
		if b.Proto == "grpc-web" {
			fl = 0x80
		}
		payload := []byte(content)
		if r.Bool() {
			// compressed end-stream in the negotiated encoding
			enc := strings.ToLower(b.Encoding)
			c, err := verifkit.IndepCompress(enc, payload)
			if err == nil {
				payload = c
				fl |= 1
			}
		}
		b.Envs = append(b.Envs, vfEnv{Flags: fl, Declared: uint32(len(payload)), Payload: payload, EndRaw: content})
	}
	for _, e := range b.Envs {
		var pre [5]byte
		pre[0] = e.Flags
		binary.BigEndian.PutUint32(pre[1:], e.Declared)
		b.Stream = append(append(b.Stream, pre[:]...), e.Payload...)
	}
	if b.Proto == "unary" {
		b.Stream = r.Bytes(verifkit.Pick(r, []int{0, 1, 7, 100}))
		b.Envs = nil
	}
	return b
}

// vfSig renders body events canonically.
func vfSig(evs []Event, isRequest bool) []string {
	var out []string
	for _, e := range evs {
		switch e := e.(type) {
		case *RequestBodyData:
			out = append(out, vfDataSig(e.MessageIndex, e.Envelope, e.Len))
		case *ResponseBodyData:
			out = append(out, vfDataSig(e.MessageIndex, e.Envelope, e.Len))
		case *ResponseBodyEndStream:
			out = append(out, fmt.Sprintf("end-stream %q", e.Content))
		case *RequestBodyEnd:
			if isRequest {
				out = append(out, fmt.Sprintf("body-end err=%v", e.Err != nil))
			}
		case *ResponseBodyEnd:
			if !isRequest {
				out = append(out, fmt.Sprintf("body-end err=%v", e.Err != nil))
			}
		}
	}
	return out
}

func vfDataSig(idx int, env *Envelope, l uint64) string {
	if env == nil {
		return fmt.Sprintf("data#%d no-envelope seen=%d", idx, l)
	}
	return fmt.Sprintf("data#%d flags=%d declared=%d seen=%d", idx, env.Flags, env.Len, l)
}

// vfModelEvents: expected event signatures for body[:cut]. wildcard marks a
// cut exactly after a complete prefix (unconstrained by the statement).
func vfModelEvents(b *vfBody, cut int, endErr bool) (want []string, wildcardAt int) {
	wildcardAt = -1
	if b.Proto == "unary" {
		if cut > 0 {
			want = append(want, fmt.Sprintf("data#0 no-envelope seen=%d", cut))
		}
		want = append(want, fmt.Sprintf("body-end err=%v", endErr))
		return want, -1
	}
	pos, idx := 0, 0
	for _, e := range b.Envs {
		if pos >= cut {
			break
		}
		if pos+5 > cut {
			want = append(want, fmt.Sprintf("data#%d no-envelope seen=%d", idx, cut-pos))
			pos = cut
			break
		}
		if pos+5+len(e.Payload) > cut {
			seen := cut - pos - 5
			if seen > 0 {
				want = append(want, fmt.Sprintf("data#%d flags=%d declared=%d seen=%d", idx, e.Flags, e.Declared, seen))
			} else {
				wildcardAt = len(want)
			}
			pos = cut
			break
		}
		want = append(want, fmt.Sprintf("data#%d flags=%d declared=%d seen=%d", idx, e.Flags, e.Declared, len(e.Payload)))
		if !b.IsRequest && e.Flags&0x82 != 0 && len(e.Payload) > 0 {
			content := string(e.Payload)
			if e.Flags&1 != 0 {
				// decompressed exactly when the compressed flag is set
				dec, err := verifkit.IndepDecompress(strings.ToLower(b.Encoding), e.Payload)
				if err != nil {
					content = ""
				} else {
					content = string(dec)
				}
			}
			if content != "" {
				want = append(want, fmt.Sprintf("end-stream %q", content))
			}
		}
		pos += 5 + len(e.Payload)
		idx++
	}
	want = append(want, fmt.Sprintf("body-end err=%v", endErr))
	return want, wildcardAt
}

func vfSigEqual(got, want []string, wildcardAt int) bool {
	if reflect.DeepEqual(got, want) {
		return true
	}
	if wildcardAt >= 0 && len(got) == len(want)+1 {
		// optional event for "prefix complete, 0 payload bytes seen"
		g := append(append([]string{}, got[:wildcardAt]...), got[wildcardAt+1:]...)
		return reflect.DeepEqual(g, want) && strings.HasSuffix(got[wildcardAt], "seen=0")
	}
	return false
}

func vfClassify(b *vfBody, cut int) string {
	side := "response"
	if b.IsRequest {
		side = "request"
	}
	if b.Proto == "unary" {
		return side + "/non-stream"
	}
	pos := 0
	for _, e := range b.Envs {
		if cut >= pos+5+len(e.Payload) {
			if e.Flags&0x82 != 0 && !b.IsRequest {
				comp := "uncompressed"
				if e.Flags&1 != 0 {
					comp = "compressed"
				}
				neg := "negotiated"
				if b.Encoding == "" || strings.EqualFold(b.Encoding, "identity") {
					neg = "identity"
				}
				return side + "/end-stream-" + comp + "-" + neg
			}
			pos += 5 + len(e.Payload)
			continue
		}
		if cut > pos && cut < pos+5 {
			return side + "/cut-in-prefix"
		}
		if cut > pos+5 {
			return side + "/cut-in-payload"
		}
		break
	}
	return side + "/messages"
}

// TestVerifC14Reader: tracingReader under every cut x partition plan.
func TestVerifC14Reader(t *testing.T) {
	rep := verifkit.Begin("C14", "reader", "envelope sequences (0-4 data messages with any flags outside the end-stream markers, payloads 0-200 bytes, optional end-stream in the protocol's flag, compressed in the negotiated encoding or not; Connect, gRPC, gRPC-Web and non-stream content types; 6 encodings, any letter case) x every truncation offset x 7 partition plans x data+EOF / (0,nil) reads / non-EOF final error, request and response side; distinct = (body, cut, plan, flags)")
	defer rep.Write()
	rng := verifkit.Stream("c14reader")
	n := verifkit.Scale(250, 8000)
	for it := 0; it < n; it++ {
		body := vfGenBody(rng, it%2 == 0)
		plans := verifkit.Plans(rng, 5)
		names := verifkit.SortedKeys(plans)
		for cut := 0; cut <= len(body.Stream); cut++ {
			use := names
			if len(body.Stream) > 60 && cut%7 != 0 && cut != len(body.Stream) {
				use = []string{names[rng.Intn(len(names))]}
			}
			for _, pn := range use {
				eofWithData, zeroEvery := rng.Bool(), []int{0, 0, 3}[rng.Intn(3)]
				var finalErr error
				if rng.Chance(1, 5) {
					finalErr = errors.New("connection reset")
				}
				vfRunReader(rep, body, cut, pn, plans[pn], eofWithData, zeroEvery, finalErr, 1+rng.Intn(40))
			}
		}
	}
	rep.Sample(map[string]any{"proto": "connect", "encoding": "gzip", "envelopes": "[flags=0 len=4][flags=2 len=2 '{}' uncompressed]", "cut": "end", "expect": []string{"data#0 flags=0 declared=4 seen=4", "data#1 flags=2 declared=2 seen=2", `end-stream "{}"`, "body-end err=false"}})
	for _, k := range []string{"response/cut-in-prefix", "response/cut-in-payload", "request/cut-in-payload", "response/end-stream-compressed-negotiated", "response/end-stream-uncompressed-negotiated", "response/non-stream"} {
		rep.RequireMin("class:"+k, 5)
	}
}

func vfRunReader(rep *verifkit.Report, body *vfBody, cut int, planName string, plan []int, eofWithData bool, zeroEvery int, finalErr error, bufSize int) {
	rep.Eval(1)
	rep.DistinctKey(body.Proto, body.Encoding, body.IsRequest, body.Stream, cut, planName, eofWithData, zeroEvery, finalErr != nil)
	class := vfClassify(body, cut)
	rep.Count("class:"+class, 1)
	w := map[string]any{"proto": body.Proto, "encoding": body.Encoding, "request_side": body.IsRequest, "envelopes": vfDescribeEnvs(body), "stream_len": len(body.Stream), "cut": cut, "plan": planName, "eof_with_data": eofWithData, "zero_every": zeroEvery, "final_error": finalErr != nil, "buf": bufSize}
	rep.InFlight(w)
	coll := &vfCollector{}
	bld := vfNewBuilder(coll, false)
	inner := &verifkit.ScriptReader{Data: append([]byte(nil), body.Stream[:cut]...), Plan: plan, EOFWithData: eofWithData, ZeroEvery: zeroEvery, StallAt: -1, FinalErr: finalErr}
	var gotBytes []byte
	var gotLog []verifkit.ReadResult
	pn := verifkit.Catch(func() {
		rd := vfNewReader(body.headers(), inner, body.IsRequest, bld, func() {})
		buf := make([]byte, bufSize)
		for i := 0; i < 100000; i++ {
			n, err := rd.Read(buf)
			gotBytes = append(gotBytes, buf[:n]...)
			e := ""
			if err != nil {
				e = err.Error()
			}
			gotLog = append(gotLog, verifkit.ReadResult{N: n, Err: e})
			if err != nil {
				break
			}
		}
		// what the inner reader answers after its end / after Close must reach the application unchanged too
		for extra := 0; extra < 3; extra++ {
			if extra == 2 {
				_ = rd.Close()
			}
			n, err := rd.Read(buf)
			gotBytes = append(gotBytes, buf[:n]...)
			e := ""
			if err != nil {
				e = err.Error()
			}
			gotLog = append(gotLog, verifkit.ReadResult{N: n, Err: e})
		}
		bld.build() // flush (request side does not complete on a clean body end)
	})
	if pn != nil {
		rep.Violation("body/reader/panic/"+pn.Site, pn.Value, map[string]any{"input": w, "stack": pn.Stack})
		return
	}
	// transparency
	if !bytes.Equal(gotBytes, body.Stream[:cut]) {
		rep.Violation("body/reader/bytes-altered", fmt.Sprintf("application received %d bytes, inner reader delivered %d; contents differ", len(gotBytes), cut), w)
	}
	if !reflect.DeepEqual(gotLog, inner.Log) {
		rep.Violation("body/reader/results-altered", fmt.Sprintf("(n, err) sequence seen by the application %v differs from the inner reader's %v", vfTail(gotLog), vfTail(inner.Log)), w)
	}
	traces := coll.Traces()
	if len(traces) != 1 {
		rep.Violation("body/reader/trace-count", fmt.Sprintf("%d traces completed, want 1", len(traces)), w)
		return
	}
	got := vfSig(traces[0].Events, body.IsRequest)
	want, wc := vfModelEvents(body, cut, finalErr != nil)
	if !vfSigEqual(got, want, wc) {
		w["got_events"], w["want_events"] = got, want
		rep.Violation("body/events/"+class, fmt.Sprintf("events %q, specification %q", got, want), w)
	}
}

func vfTail(l []verifkit.ReadResult) []verifkit.ReadResult {
	if len(l) > 4 {
		return l[len(l)-4:]
	}
	return l
}

func vfDescribeEnvs(b *vfBody) []string {
	var out []string
	for _, e := range b.Envs {
		out = append(out, fmt.Sprintf("flags=%d declared=%d payload=%x endraw=%q", e.Flags, e.Declared, e.Payload, e.EndRaw))
	}
	if b.Proto == "unary" {
		out = append(out, fmt.Sprintf("raw %x", b.Stream))
	}
	return out
}

// vfFakeWriter is an http.ResponseWriter that records what it is given and
// can fail after a number of bytes.
type vfFakeWriter struct {
	h       http.Header
	status  int
	body    bytes.Buffer
	failAt  int // <0 never
	calls   []int
	flushes []string // state of the writer at every Flush it was given
}

func (f *vfFakeWriter) Flush() {
	if f.status == 0 {
		f.status = 200 // net/http commits the header at the first flush
	}
	f.flushes = append(f.flushes, fmt.Sprintf("status=%d bytes=%d", f.status, f.body.Len()))
}

func (f *vfFakeWriter) Header() http.Header { return f.h }
func (f *vfFakeWriter) WriteHeader(s int) {
	if f.status == 0 {
		f.status = s
	}
}
func (f *vfFakeWriter) Write(p []byte) (int, error) {
	if f.status == 0 {
		f.status = 200
	}
	if f.failAt >= 0 && f.body.Len()+len(p) > f.failAt {
		n := f.failAt - f.body.Len()
		f.body.Write(p[:n])
		f.calls = append(f.calls, n)
		return n, io.ErrClosedPipe
	}
	f.body.Write(p)
	f.calls = append(f.calls, len(p))
	return len(p), nil
}

// TestVerifC14Writer: tracingResponseWriter (via TracingHandler) under every
// cut x partition; the handler's view (n, err) and what the real writer
// receives must be what they would be without tracing.
func TestVerifC14Writer(t *testing.T) {
	rep := verifkit.Begin("C14", "writer", "the same envelope sequences written by a handler through TracingHandler to a recording ResponseWriter, partitioned by every plan, complete or failing (short write + error) after every byte offset; handlers that return or panic (plain value, http.ErrAbortHandler, wrapped) after all or some writes; with flushes never / before the first write (headers first) / after every write / both; headers, status, trailers (declared and TrailerPrefix), bytes, flush moments and (n, err) compared with the unwrapped run; distinct = (body, fail offset, plan)")
	defer rep.Write()
	rng := verifkit.Stream("c14writer")
	n := verifkit.Scale(150, 5000)
	for it := 0; it < n; it++ {
		body := vfGenBody(rng, false)
		plans := verifkit.Plans(rng, 5)
		names := verifkit.SortedKeys(plans)
		for failAt := -1; failAt < len(body.Stream); failAt++ {
			if failAt >= 0 && len(body.Stream) > 50 && failAt%5 != 0 {
				continue
			}
			pn := names[rng.Intn(len(names))]
			vfRunWriter(rep, rng, body, failAt, pn, plans[pn])
		}
	}
	rep.Sample(map[string]any{"proto": "grpc-web", "envelopes": "[flags=0 len=6][flags=0x81 trailers compressed]", "fail_after": 8, "expect": "data#0 ... seen=3 partial, one body-end with error; handler sees (3, closed pipe)"})
	rep.RequireMin("writer_failures_injected", 50)
	rep.RequireMin("writer_complete", 50)
	rep.RequireMin("flush_mode_1", 20)
}

func vfRunWriter(rep *verifkit.Report, rng *verifkit.Rand, body *vfBody, failAt int, planName string, plan []int) {
	rep.Eval(1)
	rep.DistinctKey(body.Proto, body.Encoding, body.Stream, failAt, planName)
	w := map[string]any{"proto": body.Proto, "encoding": body.Encoding, "envelopes": vfDescribeEnvs(body), "stream_len": len(body.Stream), "fail_after_bytes": failAt, "plan": planName}
	rep.InFlight(w)
	status := verifkit.Pick(rng, []int{0, 200, 200, 404, 500})
	flushMode := rng.Intn(4) // 0 never; 1 once, before anything was written (headers first); 2 after every write; 3 both
	if flushMode == 1 || flushMode == 3 {
		status = verifkit.Pick(rng, []int{0, 200})
	}
	w["flush_mode(0=never,1=before first write,2=after every write,3=both)"] = flushMode
	// how the handler ends: it returns, or it panics (net/http's documented way to abort a response is panic(http.ErrAbortHandler))
	var panicWith any
	switch rng.Intn(10) {
	case 7:
		panicWith = "boom"
	case 8:
		panicWith = http.ErrAbortHandler
	case 9:
		panicWith = fmt.Errorf("giving up: %w", http.ErrAbortHandler)
	}
	panicAfter := -1 // number of Write calls after which the handler panics (-1: after everything)
	if panicWith != nil && rng.Bool() {
		panicAfter = rng.Intn(3)
	}
	w["handler_ends_with_panic"] = fmt.Sprint(panicWith)
	type wr struct {
		N   int
		Err bool
	}
	reqKind := rng.Intn(3) // 0: POST with a body, 1: GET without a body (Connect GET), 2: POST with http.NoBody
	var seenReq [2]string
	seenIdx := 0
	handler := func(log *[]wr) http.Handler {
		return http.HandlerFunc(func(rw http.ResponseWriter, r *http.Request) {
			// what the application sees of the request must not depend on tracing either
			var keys []string
			for k := range r.Header {
				keys = append(keys, k)
			}
			sort.Strings(keys)
			desc := fmt.Sprintf("%s %s content-length=%d te=%v", r.Method, r.URL.String(), r.ContentLength, r.TransferEncoding)
			for _, k := range keys {
				desc += fmt.Sprintf(" | %s=%q", k, r.Header[k])
			}
			if b, err := io.ReadAll(r.Body); err == nil {
				desc += fmt.Sprintf(" | body=%q", b)
			}
			seenReq[seenIdx] = desc
			for k, v := range body.headers() {
				rw.Header()[k] = v
			}
			rw.Header().Set("X-Custom", "v1")
			rw.Header().Add("X-Custom", "v2")
			rw.Header().Set("Trailer", "X-Declared-Trailer")
			flush := func() {
				if f, ok := rw.(http.Flusher); ok {
					f.Flush()
				}
			}
			if flushMode == 1 || flushMode == 3 {
				flush() // headers first: the peer sees them before any body byte exists
			}
			if status != 0 {
				rw.WriteHeader(status)
			}
			data := body.Stream
			i := 0
			for len(data) > 0 {
				n := 1
				if len(plan) > 0 {
					n = plan[i%len(plan)]
					i++
				}
				if n > len(data) {
					n = len(data)
				}
				wn, err := rw.Write(data[:n])
				*log = append(*log, wr{wn, err != nil})
				if err != nil {
					return
				}
				if flushMode >= 2 {
					flush()
				}
				data = data[n:]
				if panicWith != nil && panicAfter >= 0 && i > panicAfter {
					panic(panicWith)
				}
			}
			if panicWith != nil {
				panic(panicWith)
			}
			rw.Header().Set("X-Declared-Trailer", "t1")
			rw.Header().Set(http.TrailerPrefix+"X-Late-Trailer", "t2")
		})
	}
	var panics [2]any // what came out of ServeHTTP as a panic, without / with tracing
	run := func(traced bool, coll *vfCollector) (*vfFakeWriter, []wr) {
		fw := &vfFakeWriter{h: http.Header{}, failAt: failAt}
		var log []wr
		var req *http.Request
		switch reqKind {
		case 0:
			req = httptest.NewRequest("POST", "/svc/Method", strings.NewReader(""))
		case 1:
			req = httptest.NewRequest("GET", "/svc/Method?encoding=proto&message=AAA", http.NoBody)
		default:
			req = httptest.NewRequest("POST", "/svc/Method", http.NoBody)
		}
		req.Header.Set("X-Test-Case-Name", "Suite/T")
		req.Header.Set("X-Other", "kept")
		h := handler(&log)
		seenIdx = 0
		if traced {
			seenIdx = 1
			h = TracingHandler(h, coll)
		}
		func() {
			defer func() { panics[seenIdx] = recover() }()
			h.ServeHTTP(fw, req)
		}()
		return fw, log
	}
	plain, plainLog := run(false, nil)
	coll := &vfCollector{}
	var traced *vfFakeWriter
	var tracedLog []wr
	if pn := verifkit.Catch(func() { traced, tracedLog = run(true, coll) }); pn != nil {
		rep.Violation("body/writer/panic/"+pn.Site, pn.Value, map[string]any{"input": w, "stack": pn.Stack})
		return
	}
	if panicWith != nil {
		rep.Count("handler_panics:"+fmt.Sprintf("%T", panicWith), 1)
	}
	if fmt.Sprint(panics[0]) != fmt.Sprint(panics[1]) || (panics[0] == nil) != (panics[1] == nil) {
		rep.Violation("body/writer/panic-not-propagated", fmt.Sprintf("the handler's panic reaches the server as %v without tracing and as %v with tracing", panics[0], panics[1]), w)
	} else if e0, ok := panics[0].(error); ok {
		if e1, ok1 := panics[1].(error); !ok1 || errors.Is(e0, http.ErrAbortHandler) != errors.Is(e1, http.ErrAbortHandler) {
			rep.Violation("body/writer/panic-not-propagated", "the handler aborted with http.ErrAbortHandler; with tracing the server no longer sees that sentinel", w)
		}
	}
	if failAt >= 0 {
		rep.Count("writer_failures_injected", 1)
	} else {
		rep.Count("writer_complete", 1)
	}
	if !bytes.Equal(plain.body.Bytes(), traced.body.Bytes()) {
		rep.Violation("body/writer/bytes-altered", fmt.Sprintf("real writer received %d bytes with tracing, %d without (or different contents)", traced.body.Len(), plain.body.Len()), w)
	}
	if !reflect.DeepEqual(plainLog, tracedLog) {
		rep.Violation("body/writer/results-altered", fmt.Sprintf("handler saw write results %v with tracing, %v without", tracedLog, plainLog), w)
	}
	if !reflect.DeepEqual(plain.flushes, traced.flushes) {
		w["flushes_without_tracing"], w["flushes_with_tracing"] = plain.flushes, traced.flushes
		rep.Violation(fmt.Sprintf("body/writer/flush-altered/mode-%d", flushMode), fmt.Sprintf("the real writer was flushed %d times with tracing, %d without (or at other moments)", len(traced.flushes), len(plain.flushes)), w)
	}
	rep.Count(fmt.Sprintf("flush_mode_%d", flushMode), 1)
	if !reflect.DeepEqual(plain.calls, traced.calls) {
		rep.Violation("body/writer/partition-altered", "the real writer was called with a different partition of the bytes", w)
	}
	if seenReq[0] != seenReq[1] {
		w["request_seen_without_tracing"], w["request_seen_with_tracing"] = seenReq[0], seenReq[1]
		rep.Violation(fmt.Sprintf("body/writer/request-altered/kind-%d", reqKind), "the handler sees a different request (method, URL, headers, content length or body) when tracing is on", w)
	}
	rep.Count(fmt.Sprintf("request_kind_%d", reqKind), 1)
	pstatus, tstatus := plain.status, traced.status
	if pstatus == 0 {
		pstatus = 200 // net/http applies 200 when the handler never wrote; the tracer makes that explicit
	}
	if tstatus == 0 {
		tstatus = 200
	}
	if pstatus != tstatus {
		rep.Violation("body/writer/status-altered", fmt.Sprintf("status %d with tracing, %d without", tstatus, pstatus), w)
	}
	if !reflect.DeepEqual(plain.h, traced.h) {
		rep.Violation("body/writer/headers-altered", fmt.Sprintf("headers/trailers with tracing %v, without %v", traced.h, plain.h), w)
	}
	traces := coll.Traces()
	if len(traces) != 1 {
		rep.Violation("body/writer/trace-count", fmt.Sprintf("%d traces completed, want 1", len(traces)), w)
		return
	}
	if panics[0] != nil {
		return // (the event list of an aborted response is not modelled here)
	}
	cut := len(body.Stream)
	if failAt >= 0 {
		cut = failAt
	}
	got := vfSig(traces[0].Events, false)
	want, wc := vfModelEvents(body, cut, failAt >= 0)
	if !vfSigEqual(got, want, wc) {
		w["got_events"], w["want_events"] = got, want
		rep.Violation("body/events/writer/"+strings.TrimPrefix(vfClassify(body, cut), "response/"), fmt.Sprintf("events %q, specification %q", got, want), w)
	}
	// the trace's response snapshot: status, headers, trailers
	if tr := traces[0].Response; tr != nil && failAt < 0 {
		if tr.StatusCode != tstatus {
			rep.Violation("body/writer/trace-status", fmt.Sprintf("trace records status %d, wire %d", tr.StatusCode, tstatus), w)
		}
		if tr.Header.Get("X-Custom") != "v1" || len(tr.Header.Values("X-Custom")) != 2 {
			rep.Violation("body/writer/trace-headers", fmt.Sprintf("trace headers %v", tr.Header), w)
		}
		if tr.Trailer.Get("X-Declared-Trailer") != "t1" || tr.Trailer.Get("X-Late-Trailer") != "t2" {
			rep.Violation("body/writer/trace-trailers", fmt.Sprintf("trace trailers %v", tr.Trailer), w)
		}
	}
}

// vfRaceBody is a goroutine-safe inner body that hands out its chunks with small pauses.
type vfRaceBody struct {
	mu     sync.Mutex
	chunks [][]byte
	pause  time.Duration
	closed bool
}

func (b *vfRaceBody) Read(p []byte) (int, error) {
	if b.pause > 0 {
		time.Sleep(b.pause)
	}
	b.mu.Lock()
	defer b.mu.Unlock()
	if b.closed {
		return 0, errors.New("read on closed body")
	}
	if len(b.chunks) == 0 {
		return 0, io.EOF
	}
	n := copy(p, b.chunks[0])
	b.chunks[0] = b.chunks[0][n:]
	if len(b.chunks[0]) == 0 {
		b.chunks = b.chunks[1:]
	}
	return n, nil
}

func (b *vfRaceBody) Close() error {
	b.mu.Lock()
	b.closed = true
	b.mu.Unlock()
	return nil
}

// TestVerifC14CloseRace: a body is read by one goroutine and closed by another
// (what HTTP transports do); the end of the body must be recorded once.
func TestVerifC14CloseRace(t *testing.T) {
	rep := verifkit.Begin("C14", "close-race", "a traced request or response body (2 envelopes in 1-4 chunks, 0-60 us between chunks) is read to its end by one goroutine while a second goroutine calls Close 0-150 us after the start; oracle: exactly one body-end event in the trace, the completion callback runs exactly once, data events are a prefix of the model's; distinct = (side, chunking, which of Read-EOF / Close finished the body)")
	defer rep.Write()
	n := verifkit.Scale(3000, 60000)
	stream := append(vfEnvelopeC14(0, []byte("first")), vfEnvelopeC14(0, []byte("second message"))...)
	for i := 0; i < n; i++ {
		rng := verifkit.Stream("c14closerace", i)
		isRequest := rng.Bool()
		var chunks [][]byte
		rest := stream
		for k := 1 + rng.Intn(4); k > 1 && len(rest) > 1; k-- {
			c := 1 + rng.Intn(len(rest)-1)
			chunks = append(chunks, append([]byte(nil), rest[:c]...))
			rest = rest[c:]
		}
		chunks = append(chunks, append([]byte(nil), rest...))
		inner := &vfRaceBody{chunks: chunks, pause: time.Duration(rng.Intn(60)) * time.Microsecond}
		closeAfter := time.Duration(rng.Intn(150)) * time.Microsecond
		coll := &vfCollector{}
		bld := vfNewBuilder(coll, false)
		var done atomic.Int32
		hdr := http.Header{"Content-Type": {"application/connect+proto"}}
		rd := vfNewReader(hdr, inner, isRequest, bld, func() { done.Add(1) })
		var wg sync.WaitGroup
		wg.Add(2)
		go func() {
			defer wg.Done()
			buf := make([]byte, 64)
			for {
				if _, err := rd.Read(buf); err != nil {
					return
				}
			}
		}()
		go func() {
			defer wg.Done()
			time.Sleep(closeAfter)
			_ = rd.Close()
		}()
		wg.Wait()
		bld.build()
		rep.Eval(1)
		w := map[string]any{"request_side": isRequest, "chunks": len(chunks), "pause_us": inner.pause.Microseconds(), "close_after_us": closeAfter.Microseconds()}
		traces := coll.Traces()
		if len(traces) != 1 {
			rep.Violation("body/close-race/trace-count", fmt.Sprintf("%d traces completed, want 1", len(traces)), w)
			continue
		}
		ends, clean := 0, false
		for _, e := range traces[0].Events {
			switch ev := e.(type) {
			case *RequestBodyEnd:
				ends++
				clean = ev.Err == nil
			case *ResponseBodyEnd:
				ends++
				clean = ev.Err == nil
			}
		}
		rep.DistinctKey(isRequest, len(chunks), clean)
		if clean {
			rep.Count("finished_by_read", 1)
		} else {
			rep.Count("finished_by_close", 1)
		}
		if ends != 1 {
			w["events"] = vfSig(traces[0].Events, isRequest)
			rep.Violation(fmt.Sprintf("body/close-race/body-end-count/%d", ends), fmt.Sprintf("the body's end was recorded %d times", ends), w)
		}
		if d := done.Load(); d != 1 {
			rep.Violation(fmt.Sprintf("body/close-race/done-callback-count/%d", d), fmt.Sprintf("the reader's completion callback ran %d times", d), w)
		}
	}
	rep.Sample(map[string]any{"side": "response", "chunks": 3, "close_after_us": 40, "expect": "one ResponseBodyEnd, one completion callback"})
	rep.RequireMin("finished_by_read", 20)
	rep.RequireMin("finished_by_close", 20)
}

func vfEnvelopeC14(flags byte, p []byte) []byte {
	b := make([]byte, 5+len(p))
	b[0] = flags
	b[1], b[2], b[3], b[4] = byte(len(p)>>24), byte(len(p)>>16), byte(len(p)>>8), byte(len(p))
	copy(b[5:], p)
	return b
}

// TestVerifC14AfterEndStream: bytes that follow the end-of-stream message (a
// misbehaving peer keeps writing) never become part of its content.
func TestVerifC14AfterEndStream(t *testing.T) {
	rep := verifkit.Begin("C14", "after-end-stream", "Connect streaming and gRPC-Web response bodies: one data message, the end-of-stream message (plain, or gzip-compressed with the encoding negotiated), then further bytes {another data message, a second end-of-stream message, garbage}; delivered whole, in 1..9-byte reads, and split exactly after the end-of-stream payload; oracle: the first end-of-stream event carries exactly its own content; the application receives all bytes unchanged; distinct = (protocol, compressed, tail, chunking)")
	defer rep.Write()
	for _, proto := range []string{"connect", "grpc-web"} {
		for _, compressed := range []bool{false, true} {
			content, flag, hdr, ct := `{"metadata":{"x-end":["1"]}}`, byte(2), "Connect-Content-Encoding", "application/connect+proto"
			if proto == "grpc-web" {
				content, flag, hdr, ct = "grpc-status: 0\r\nx-end: 1\r\n", 0x80, "Grpc-Encoding", "application/grpc-web+proto"
			}
			payload := []byte(content)
			fl := flag
			h := http.Header{"Content-Type": {ct}}
			if compressed {
				payload, _ = verifkit.IndepCompress("gzip", []byte(content))
				fl |= 1
				h.Set(hdr, "gzip")
			}
			head := append(vfEnvelopeC14(0, []byte("data")), vfEnvelopeC14(fl, payload)...)
			tails := map[string][]byte{
				"data-message":      vfEnvelopeC14(0, []byte("late data")),
				"second-end-stream": vfEnvelopeC14(flag, []byte(`{"second":true}`)),
				"garbage":           []byte("\x00\x01GARBAGE AFTER THE END"),
				"nothing":           nil,
			}
			for tname, tail := range tails {
				body := append(append([]byte(nil), head...), tail...)
				for _, chunking := range []string{"whole", "small", "split-after-end-stream", "split-inside-tail"} {
					rep.Eval(1)
					rep.DistinctKey(proto, compressed, tname, chunking)
					var chunks []int
					switch chunking {
					case "whole":
						chunks = []int{len(body)}
					case "small":
						chunks = []int{3, 1, 9, 2, 5}
					case "split-after-end-stream":
						chunks = []int{len(head), 1 << 20}
					default:
						chunks = []int{len(head) + 2, 1 << 20}
					}
					coll := &vfCollector{}
					bld := vfNewBuilder(coll, false)
					inner := &verifkit.ScriptReader{Data: append([]byte(nil), body...), Plan: chunks, StallAt: -1}
					var got []byte
					w := map[string]any{"protocol": proto, "end_stream_compressed": compressed, "bytes_after_end_stream": tname, "chunking": chunking}
					pn := verifkit.Catch(func() {
						rd := vfNewReader(h, inner, false, bld, func() {})
						got, _ = io.ReadAll(rd)
						bld.build()
					})
					if pn != nil {
						rep.Violation("body/after-end-stream/panic/"+pn.Site, pn.Value, w)
						continue
					}
					if !bytes.Equal(got, body) {
						rep.Violation("body/after-end-stream/bytes-altered", "the application did not receive the body unchanged", w)
					}
					ts := coll.Traces()
					if len(ts) != 1 {
						rep.Violation("body/after-end-stream/trace-count", fmt.Sprintf("%d traces", len(ts)), w)
						continue
					}
					first, found := "", false
					for _, e := range ts[0].Events {
						if es, ok := e.(*ResponseBodyEndStream); ok && !found {
							first, found = es.Content, true
						}
					}
					if !found || first != content {
						w["reported"] = verifkit.Trunc(first, 120)
						rep.Violation("body/after-end-stream/content-differs/"+tname, fmt.Sprintf("end-of-stream content reported as %q (found=%v), it is %q", verifkit.Trunc(first, 60), found, content), w)
					} else {
						rep.Count("end_stream_content_exact", 1)
					}
				}
			}
		}
	}
	rep.Sample(map[string]any{"body": "[data][end-stream '{...}'][data 'late data'] in one read", "expect": "end-of-stream content = '{...}' only"})
	rep.RequireMin("end_stream_content_exact", 40)
}
