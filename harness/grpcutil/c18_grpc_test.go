//go:build verif

package grpcutil

import (
	"encoding/base64"
	"bytes"
	"context"
	"fmt"
	"net/url"
	"reflect"
	"sort"
	"strings"
	"testing"

	conformancev1 "connectrpc.com/conformance/internal/gen/proto/go/connectrpc/conformance/v1"
	"connectrpc.com/conformance/internal/verifkit"
	"google.golang.org/grpc/metadata"
	"google.golang.org/protobuf/proto"
	"google.golang.org/protobuf/types/known/anypb"
	"google.golang.org/protobuf/types/known/durationpb"
	"google.golang.org/protobuf/types/known/wrapperspb"
)

// VfRandDetails: details of registered types, with deliberately non-canonical
// encodings (unknown field appended, fields in reverse order).
func vfRandDetails(r *verifkit.Rand) []*anypb.Any {
	var out []*anypb.Any
	for k := r.Intn(4); k > 0; k-- {
		var m proto.Message
		switch r.Intn(4) {
		case 0:
			m = &conformancev1.Header{Name: verifkit.RandUTF8(r, 6, false), Value: []string{"v1", verifkit.RandUTF8(r, 4, true)}}
		case 1:
			m = &conformancev1.ConformancePayload_RequestInfo{TimeoutMs: proto.Int64(int64(r.Intn(10000))), RequestHeaders: []*conformancev1.Header{{Name: "h", Value: []string{"x"}}}}
		case 2:
			m = wrapperspb.String(verifkit.RandUTF8(r, 8, true))
		default:
			m = durationpb.New(1234567)
		}
		a, _ := anypb.New(m)
		switch r.Intn(4) {
		case 0:
			// an unknown field (number 1000, varint) at the end: bytes must survive untouched
			a.Value = append(a.Value, 0xc0, 0x3e, 0x01)
		case 1:
			// non-minimal varint for an unknown field
			a.Value = append(a.Value, 0xc0, 0x3e, 0x81, 0x00)
		}
		out = append(out, a)
	}
	return out
}

func vfRandError(r *verifkit.Rand) *conformancev1.Error {
	e := &conformancev1.Error{Code: conformancev1.Code(1 + r.Intn(16)), Details: vfRandDetails(r)}
	if r.Chance(5, 6) {
		e.Message = proto.String(verifkit.RandUTF8(r, 12, true))
	}
	return e
}

func vfTypeName(a *anypb.Any) string {
	if i := strings.LastIndex(a.TypeUrl, "/"); i >= 0 {
		return a.TypeUrl[i+1:]
	}
	return a.TypeUrl
}

func vfSameError(a, b *conformancev1.Error) string {
	if a.Code != b.Code {
		return fmt.Sprintf("code %v -> %v", a.Code, b.Code)
	}
	if a.GetMessage() != b.GetMessage() {
		return fmt.Sprintf("message %q -> %q", a.GetMessage(), b.GetMessage())
	}
	if len(a.Details) != len(b.Details) {
		return fmt.Sprintf("%d details -> %d", len(a.Details), len(b.Details))
	}
	for i := range a.Details {
		if vfTypeName(a.Details[i]) != vfTypeName(b.Details[i]) {
			return fmt.Sprintf("detail #%d type %q -> %q", i+1, a.Details[i].TypeUrl, b.Details[i].TypeUrl)
		}
		if !bytes.Equal(a.Details[i].Value, b.Details[i].Value) {
			return fmt.Sprintf("detail #%d bytes %x -> %x", i+1, a.Details[i].Value, b.Details[i].Value)
		}
	}
	return ""
}

func TestVerifC18GrpcError(t *testing.T) {
	rep := verifkit.Begin("C18", "grpc-error", "random errors (codes 1..16, UTF-8 messages incl. control characters and percent signs, 0-3 details of registered types with canonical and non-canonical encodings) through proto -> gRPC status -> proto; distinct = error values")
	defer rep.Write()
	rng := verifkit.Stream("c18grpcerr")
	n := verifkit.Scale(20000, 1600000)
	for i := 0; i < n; i++ {
		e := vfRandError(rng)
		orig := proto.Clone(e).(*conformancev1.Error)
		rep.Eval(1)
		rep.DistinctKey(e.String())
		rep.InFlight(e.String())
		var back *conformancev1.Error
		if p := verifkit.Catch(func() { back = ConvertGrpcToProtoError(ConvertProtoToGrpcError(e)) }); p != nil {
			rep.Violation("conv/grpc-error/panic/"+p.Site, p.Value, e.String())
			continue
		}
		if back == nil {
			rep.Violation("conv/grpc-error/lost", "error became nil", orig.String())
			continue
		}
		if d := vfSameError(orig, back); d != "" {
			rep.Violation("conv/grpc-error/changed", "proto -> gRPC status -> proto changed the error: "+d, map[string]any{"in": orig.String(), "out": back.String()})
		}
		if !proto.Equal(orig, e) {
			rep.Violation("conv/grpc-error/input-mutated", "conversion modified its input", orig.String())
		}
	}
	if ConvertProtoToGrpcError(nil) != nil || ConvertGrpcToProtoError(nil) != nil {
		rep.Violation("conv/grpc-error/nil", "nil does not map to nil", nil)
	}
	rep.Sample(map[string]any{"in": "code=5 message='ünï%41' details=[Header(+unknown field)]", "law": "ConvertGrpcToProtoError(ConvertProtoToGrpcError(e)) keeps code, message, detail types and bytes"})
}

type vfHdr struct {
	Name   string
	Values []string
}

func vfRandHeaders(r *verifkit.Rand) ([]*conformancev1.Header, map[string][]string) {
	var hs []*conformancev1.Header
	want := map[string][]string{} // lower-cased name -> all values in order
	for k := r.Intn(6); k > 0; k-- {
		bin := r.Chance(1, 3)
		h := &conformancev1.Header{Name: verifkit.HeaderName(r, bin)}
		var canon []string // -bin values in the one encoding the conversions produce (unpadded)
		for v := 1 + r.Intn(3); v > 0; v-- {
			if bin {
				raw := r.Bytes(r.Intn(9))
				canon = append(canon, verifkit.RawB64(raw))
				if r.Chance(1, 4) {
					// peers may send padded base64 (the gRPC spec: "implementations MUST accept padded and un-padded values")
					h.Value = append(h.Value, base64.StdEncoding.EncodeToString(raw))
				} else {
					h.Value = append(h.Value, verifkit.RawB64(raw))
				}
			} else {
				h.Value = append(h.Value, verifkit.Pick(r, []string{"a", "B", "c d", "e,f", "", "Zz", "aGVsbG8"}))
			}
		}
		hs = append(hs, h)
		k := strings.ToLower(h.Name)
		if bin {
			want[k] = append(want[k], canon...)
		} else {
			want[k] = append(want[k], h.Value...)
		}
	}
	return hs, want
}

func vfHeaderMap(hs []*conformancev1.Header) map[string][]string {
	m := map[string][]string{}
	for _, h := range hs {
		k := strings.ToLower(h.Name)
		m[k] = append(m[k], h.Value...)
	}
	return m
}

func vfDescribeHeaders(hs []*conformancev1.Header) []string {
	var out []string
	for _, h := range hs {
		out = append(out, fmt.Sprintf("%s=%q", h.Name, h.Value))
	}
	return out
}

func vfShapeOfHeaders(hs []*conformancev1.Header) string {
	names := map[string]int{}
	bin := false
	for _, h := range hs {
		names[strings.ToLower(h.Name)]++
		if strings.HasSuffix(strings.ToLower(h.Name), "-bin") {
			bin = true
		}
	}
	rep := false
	for _, c := range names {
		if c > 1 {
			rep = true
		}
	}
	return fmt.Sprintf("repeated-keys=%v,bin=%v", rep, bin)
}

func TestVerifC18Metadata(t *testing.T) {
	rep := verifkit.Begin("C18", "metadata", "random header lists (0-5 entries, mixed-case names, repeated names in different case, -bin names with unpadded and (1 in 4) padded base64 values - compared as the decoded bytes / their unpadded encoding, 1-3 values) through (a) header list -> metadata.MD -> header list, (b) the client path AppendToOutgoingContext -> FromOutgoingContext -> header list, (c) repeated conversion of the same MD; distinct = header lists")
	defer rep.Write()
	rng := verifkit.Stream("c18md")
	n := verifkit.Scale(20000, 1600000)
	for i := 0; i < n; i++ {
		hs, want := vfRandHeaders(rng)
		rep.Eval(1)
		rep.DistinctKey(vfDescribeHeaders(hs))
		desc := vfDescribeHeaders(hs)
		shape := vfShapeOfHeaders(hs)
		rep.Count("shape:"+shape, 1)
		rep.InFlight(desc)
		orig := make([]*conformancev1.Header, len(hs))
		for j, h := range hs {
			orig[j] = proto.Clone(h).(*conformancev1.Header)
		}
		p := verifkit.Catch(func() {
			// (a) server path
			md := ConvertProtoHeaderToMetadata(hs)
			for k, vals := range md {
				if strings.HasSuffix(k, "-bin") {
					// grpc-go encodes these on the wire: they must be the decoded bytes
					wantRaw := want[k]
					for vi, v := range vals {
						if vi < len(wantRaw) && verifkit.RawB64([]byte(v)) != wantRaw[vi] {
							rep.Violation("conv/metadata/bin-not-decoded/"+shape, fmt.Sprintf("metadata value for %s is %q, want the decoded bytes of %q", k, v, wantRaw[vi]), desc)
						}
					}
				}
			}
			mdCopy := md.Copy()
			back := ConvertMetadataToProtoHeader(md)
			if got := vfHeaderMap(back); !reflect.DeepEqual(got, want) && !(len(got) == 0 && len(want) == 0) {
				rep.Violation("conv/metadata/roundtrip/"+shape, fmt.Sprintf("header list -> MD -> header list: got %v want %v", got, want), desc)
			}
			if !reflect.DeepEqual(md, mdCopy) {
				rep.Violation("conv/metadata/input-mutated", fmt.Sprintf("ConvertMetadataToProtoHeader modified its argument: %v -> %v", mdCopy, md), desc)
			}
			again := ConvertMetadataToProtoHeader(md)
			if !reflect.DeepEqual(vfHeaderMap(again), vfHeaderMap(back)) {
				rep.Violation("conv/metadata/encoded-twice", fmt.Sprintf("converting the same metadata a second time gives %v, first time %v", vfHeaderMap(again), vfHeaderMap(back)), desc)
			}
			// (b) client path
			ctx := AppendToOutgoingContext(context.Background(), hs)
			out, _ := metadata.FromOutgoingContext(ctx)
			if len(hs) > 0 {
				got := vfHeaderMap(ConvertMetadataToProtoHeader(out.Copy()))
				if !reflect.DeepEqual(got, want) {
					rep.Violation("conv/metadata/client-path/"+shape, fmt.Sprintf("AppendToOutgoingContext -> outgoing metadata -> header list: got %v want %v", got, want), desc)
				}
			}
		})
		if p != nil {
			rep.Violation("conv/metadata/panic/"+p.Site, p.Value, desc)
		}
		for j := range hs {
			if !proto.Equal(hs[j], orig[j]) {
				rep.Violation("conv/metadata/header-input-mutated", "conversion modified the input header list", desc)
				break
			}
		}
	}
	rep.Sample(map[string]any{"headers": []string{`X-A=["1"]`, `x-a=["2","3"]`, `X-K-Bin=["aGVsbG8"]`}, "law": "MD has x-a=[1,2,3], x-k-bin=['hello']; back: same values, -bin encoded once"})
	rep.RequireMin("shape:repeated-keys=true,bin=true", 20)
}

func TestVerifC18Percent(t *testing.T) {
	rep := verifkit.Begin("C18", "percent", "PercentEncodeMessage on all byte strings of length <= 2 (65,793, exhaustive) and random longer byte strings incl. invalid UTF-8; law: output is printable ASCII (0x20-0x7E) and standard percent-decoding returns the input; distinct = inputs")
	defer rep.Write()
	check := func(in string) {
		rep.Eval(1)
		var enc string
		if p := verifkit.Catch(func() { enc = PercentEncodeMessage(in) }); p != nil {
			rep.Violation("conv/percent/panic/"+p.Site, p.Value, fmt.Sprintf("%x", in))
			return
		}
		for i := 0; i < len(enc); i++ {
			if enc[i] < 0x20 || enc[i] > 0x7e {
				rep.Violation("conv/percent/not-printable", fmt.Sprintf("output %q of input %x contains byte %#x", enc, in, enc[i]), fmt.Sprintf("%x", in))
				return
			}
		}
		dec, err := url.PathUnescape(enc)
		if err != nil || dec != in {
			cls := "ascii"
			for i := 0; i < len(in); i++ {
				if in[i] >= 0x80 {
					cls = "non-ascii"
				}
			}
			if strings.Contains(in, "%") {
				cls += "+percent"
			}
			rep.Violation("conv/percent/not-invertible/"+cls, fmt.Sprintf("input %x encodes to %q which decodes to %x (err %v)", in, enc, dec, err), fmt.Sprintf("%x", in))
		}
	}
	check("")
	for a := 0; a < 256; a++ {
		check(string([]byte{byte(a)}))
		for b := 0; b < 256; b++ {
			check(string([]byte{byte(a), byte(b)}))
		}
	}
	rng := verifkit.Stream("c18percent")
	n := verifkit.Scale(30000, 4000000)
	for i := 0; i < n; i++ {
		var s string
		switch rng.Intn(4) {
		case 0:
			s = string(rng.Bytes(rng.Intn(40)))
		case 1:
			// text that already looks percent-encoded must survive as text
			for k := 1 + rng.Intn(4); k > 0; k-- {
				s += verifkit.Pick(rng, []string{"%41", "%2F", "%e4", "%%", "%4", "%zz", "100%", "a b", "é", "%25", "%0a"})
			}
		default:
			s = verifkit.RandUTF8(rng, 20, true)
		}
		check(s)
	}
	rep.Distinct = rep.Evaluations
	rep.Sample(map[string]any{"in_hex": "ff25", "law": "printable ASCII out; PathUnescape(out) == in"})
	_ = sort.Strings
}
