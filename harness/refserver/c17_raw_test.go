//go:build verif

package referenceserver

import (
	"bytes"
	"encoding/binary"
	"fmt"
	"io"
	"net/http"
	"net/http/httptest"
	"reflect"
	"runtime"
	"strings"
	"sync"
	"sync/atomic"
	"testing"

	conformancev1 "connectrpc.com/conformance/internal/gen/proto/go/connectrpc/conformance/v1"
	"connectrpc.com/conformance/internal/verifkit"
	"google.golang.org/protobuf/proto"
	"google.golang.org/protobuf/types/known/anypb"
)

func vfRandMessageContents(r *verifkit.Rand) *conformancev1.MessageContents {
	m := &conformancev1.MessageContents{Compression: conformancev1.Compression(r.Intn(7))}
	switch r.Intn(5) {
	case 0:
		m.Data = &conformancev1.MessageContents_Binary{Binary: r.Bytes(r.Intn(60))}
	case 1:
		m.Data = &conformancev1.MessageContents_Text{Text: verifkit.RandUTF8(r, 30, true)}
	case 2:
		a, _ := anypb.New(&conformancev1.UnaryResponse{Payload: &conformancev1.ConformancePayload{Data: r.Bytes(r.Intn(20))}})
		m.Data = &conformancev1.MessageContents_BinaryMessage{BinaryMessage: a}
	case 3:
		m.Data = &conformancev1.MessageContents_Binary{Binary: []byte{}} // present but empty
	default:
		m.Data = nil
		m.Compression = 0
	}
	return m
}

func vfRandRawHeaders(r *verifkit.Rand, prefix string) []*conformancev1.Header {
	var hs []*conformancev1.Header
	used := map[string]bool{}
	for k := r.Intn(5); k > 0; k-- {
		names := []string{"X-" + prefix + "-A", "x-" + strings.ToLower(prefix) + "-b", "X-" + prefix + "-Multi", "Grpc-Status", "Connect-Custom", "Grpc-Message", "X-" + prefix + "-Bin"}
		if prefix == "Trl" {
			// trailer names that look like well-known header fields
			names = append(names, "Cache-Control", "Authorization", "If-Match")
		}
		name := verifkit.Pick(r, names)
		if used[strings.ToLower(name)] {
			continue
		}
		used[strings.ToLower(name)] = true
		h := &conformancev1.Header{Name: name}
		for v := 1 + r.Intn(3); v > 0; v-- {
			h.Value = append(h.Value, verifkit.Pick(r, []string{"v1", "v 2", "a,b", "0", "Zz", "dGVzdA"}))
		}
		hs = append(hs, h)
	}
	return hs
}

var vfForbiddenTrailer = map[string]bool{"Cache-Control": true, "Authorization": true, "If-Match": true}

func vfRandRawResponse(r *verifkit.Rand) *conformancev1.RawHTTPResponse {
	raw := &conformancev1.RawHTTPResponse{Headers: vfRandRawHeaders(r, "Hdr"), Trailers: vfRandRawHeaders(r, "Trl")}
	// mostly disjoint header and trailer names; sometimes one name on both sides (a gRPC-style test of
	// header/trailer separation would do that)
	inHdr := map[string]bool{}
	for _, h := range raw.Headers {
		inHdr[strings.ToLower(h.Name)] = true
	}
	var tr []*conformancev1.Header
	for _, h := range raw.Trailers {
		if !inHdr[strings.ToLower(h.Name)] || r.Chance(1, 3) {
			tr = append(tr, h)
		}
	}
	raw.Trailers = tr
	raw.StatusCode = uint32(verifkit.Pick(r, []int{0, 0, 200, 201, 400, 404, 418, 429, 500, 503, 599}))
	if r.Chance(2, 3) {
		raw.Headers = append(raw.Headers, &conformancev1.Header{Name: "Content-Type", Value: []string{verifkit.Pick(r, []string{"application/proto", "application/connect+proto", "application/grpc-web+proto", "application/json", "text/weird; charset=x"})}})
	}
	switch r.Intn(3) {
	case 0:
		raw.Body = &conformancev1.RawHTTPResponse_Unary{Unary: vfRandMessageContents(r)}
	case 1:
		sc := &conformancev1.StreamContents{}
		for k := r.Intn(5); k > 0; k-- {
			it := &conformancev1.StreamContents_StreamItem{Flags: uint32(r.Intn(256)), Payload: vfRandMessageContents(r)}
			switch r.Intn(5) {
			case 0:
				it.Length = proto.Uint32(0) // explicit zero although the payload may be non-empty
			case 1:
				it.Length = proto.Uint32(uint32(r.Intn(100)))
			case 2:
				it.Length = proto.Uint32(1 << 20) // lies
			}
			sc.Items = append(sc.Items, it)
		}
		raw.Body = &conformancev1.RawHTTPResponse_Stream{Stream: sc}
	}
	return raw
}

func vfExpectedRawBody(raw *conformancev1.RawHTTPResponse) ([]byte, error) {
	switch b := raw.GetBody().(type) {
	case *conformancev1.RawHTTPResponse_Unary:
		if b.Unary.GetData() == nil {
			return nil, nil
		}
		return verifkit.IndepCompress(verifkit.CompressionName(b.Unary.GetCompression()), verifkit.RawMessagePlain(b.Unary))
	case *conformancev1.RawHTTPResponse_Stream:
		return verifkit.RawStreamExpected(b.Stream)
	}
	return nil, nil
}

func vfConnectEnvelope(m proto.Message) []byte {
	b, _ := proto.Marshal(m)
	out := make([]byte, 5+len(b))
	binary.BigEndian.PutUint32(out[1:], uint32(len(b)))
	copy(out[5:], b)
	return out
}

// infrastructure headers the HTTP stack / CORS layer may add on its own
var vfInfraHeaders = map[string]bool{"Vary": true, "Content-Length": true, "Transfer-Encoding": true, "Trailer": true, "Date": true, "Access-Control-Allow-Origin": true,
	"Access-Control-Allow-Credentials": true, "Access-Control-Expose-Headers": true, "Connection": true}

// TestVerifC17ServerRaw: raw responses reach the wire exactly as specified.
func TestVerifC17ServerRaw(t *testing.T) {
	rep := verifkit.Begin("C17", "server-raw", "random RawHTTPResponse definitions (status unset/2xx/4xx/5xx, 0-4 headers and trailers with 1-3 values incl. protocol-looking names, unary body text/binary/binary_message x 7 compression values incl. present-but-empty, stream body of 0-4 items with flags 0..255, length unset/0/other/lying, per-item compression) sent as the response definition of unary, client-stream, server-stream and bidi requests to the real reference server over HTTP/1.1 and h2c; a plain HTTP client observes status, headers, body bytes and trailers; distinct = (definition, rpc, transport)")
	defer rep.Write()
	rng := verifkit.Stream("c17server")
	n := verifkit.Scale(120, 4000)
	for _, ver := range []int{1, 2} {
		srv, err := vfStartServer(&conformancev1.ServerCompatRequest{Protocol: conformancev1.Protocol_PROTOCOL_CONNECT, HttpVersion: conformancev1.HTTPVersion(ver)}, true)
		if err != nil {
			rep.Inconcl("cannot start server: " + err.Error())
			continue
		}
		client, base, _ := srv.Client(ver, false, false)
		for i := 0; i < n; i++ {
			raw := vfRandRawResponse(rng)
			rpc := verifkit.Pick(rng, []string{"Unary", "ClientStream", "ServerStream", "BidiStream"})
			if rpc == "BidiStream" && ver == 1 && rng.Bool() {
				rpc = "ServerStream"
			}
			name := fmt.Sprintf("Raw/%d/%d", ver, i)
			var body []byte
			ct := "application/connect+proto"
			switch rpc {
			case "Unary":
				body, _ = proto.Marshal(&conformancev1.UnaryRequest{RequestData: []byte("req"), ResponseDefinition: &conformancev1.UnaryResponseDefinition{RawResponse: raw, ResponseHeaders: []*conformancev1.Header{{Name: "X-Handler-Header", Value: []string{"must-not-appear"}}}, Response: &conformancev1.UnaryResponseDefinition_ResponseData{ResponseData: []byte("HANDLER-BODY-MUST-NOT-APPEAR")}}})
				ct = "application/proto"
			case "ClientStream":
				body = append(vfConnectEnvelope(&conformancev1.ClientStreamRequest{RequestData: []byte("r1"), ResponseDefinition: &conformancev1.UnaryResponseDefinition{RawResponse: raw, ResponseHeaders: []*conformancev1.Header{{Name: "X-Handler-Header", Value: []string{"must-not-appear"}}}}}),
					vfConnectEnvelope(&conformancev1.ClientStreamRequest{RequestData: []byte("r2")})...)
			case "ServerStream":
				body = vfConnectEnvelope(&conformancev1.ServerStreamRequest{ResponseDefinition: &conformancev1.StreamResponseDefinition{RawResponse: raw, ResponseHeaders: []*conformancev1.Header{{Name: "X-Handler-Header", Value: []string{"must-not-appear"}}}, ResponseData: [][]byte{[]byte("HANDLER-BODY-MUST-NOT-APPEAR")}}})
			default:
				body = append(vfConnectEnvelope(&conformancev1.BidiStreamRequest{FullDuplex: false, ResponseDefinition: &conformancev1.StreamResponseDefinition{RawResponse: raw, ResponseHeaders: []*conformancev1.Header{{Name: "X-Handler-Header", Value: []string{"must-not-appear"}}}, ResponseData: [][]byte{[]byte("HANDLER-BODY-MUST-NOT-APPEAR")}}}),
					vfConnectEnvelope(&conformancev1.BidiStreamRequest{RequestData: []byte("r2")})...)
			}
			hreq, _ := http.NewRequest("POST", base+"/connectrpc.conformance.v1.ConformanceService/"+rpc, bytes.NewReader(body))
			hreq.Header.Set("Content-Type", ct)
			hreq.Header.Set("X-Test-Case-Name", name)
			hreq.Header.Set("Connect-Protocol-Version", "1")
			vfExpectHeadersC20(hreq.Header, ver, 1)
			rep.Eval(1)
			rep.DistinctKey(raw.String(), rpc, ver)
			w := map[string]any{"definition": verifkit.Trunc(raw.String(), 1500), "rpc": rpc, "http_version": ver}
			resp, err := client.Do(hreq)
			if err != nil {
				rep.Inconcl(fmt.Sprintf("%s: %v", name, err))
				continue
			}
			got, rerr := io.ReadAll(resp.Body)
			resp.Body.Close()
			rep.Count("rpc:"+rpc, 1)
			wantStatus := int(raw.StatusCode)
			if wantStatus == 0 {
				wantStatus = 200
				rep.Count("status_unset", 1)
			}
			if resp.StatusCode != wantStatus {
				rep.Violation("raw/server/status", fmt.Sprintf("status %d on the wire, definition says %d", resp.StatusCode, wantStatus), w)
			}
			want, eerr := vfExpectedRawBody(raw)
			if eerr != nil {
				rep.Inconcl("independent encoder failed: " + eerr.Error())
				continue
			}
			if rerr != nil && len(got) < len(want) {
				rep.Inconcl(fmt.Sprintf("%s: body read error %v", name, rerr))
				continue
			}
			if !bytes.Equal(got, want) {
				cls := "unary"
				if _, ok := raw.Body.(*conformancev1.RawHTTPResponse_Stream); ok {
					cls = "stream"
				} else if raw.Body == nil {
					cls = "none"
				}
				if bytes.Contains(got, []byte("HANDLER-BODY-MUST-NOT-APPEAR")) {
					cls += "-handler-bytes-leaked"
				}
				w["got_body_hex"], w["want_body_hex"] = verifkit.Trunc(fmt.Sprintf("%x", got), 600), verifkit.Trunc(fmt.Sprintf("%x", want), 600)
				rep.Violation("raw/server/body/"+cls, fmt.Sprintf("body on the wire (%d bytes) differs from the specified body (%d bytes)", len(got), len(want)), w)
			} else {
				rep.Count("bodies_equal", 1)
				// the encoders are invertible: decoding what was written gives the specified items
				if u, ok := raw.Body.(*conformancev1.RawHTTPResponse_Unary); ok {
					dec, derr := verifkit.RawMessageDecode(u.Unary, got)
					if derr != nil || !bytes.Equal(dec, verifkit.RawMessagePlain(u.Unary)) {
						rep.Violation("raw/server/not-invertible", fmt.Sprintf("decoding the wire bytes does not return the specified payload (%v)", derr), w)
					}
				}
			}
			// every given header / trailer with its values in order
			onBothSides := map[string]bool{}
			for _, h := range raw.Headers {
				for _, tr := range raw.Trailers {
					if strings.EqualFold(h.Name, tr.Name) {
						onBothSides[strings.ToLower(h.Name)] = true
					}
				}
			}
			if len(onBothSides) > 0 {
				rep.Count(fmt.Sprintf("same_name_in_headers_and_trailers_http%d", resp.ProtoMajor), 1)
			}
			for _, h := range raw.Headers {
				if gotV := resp.Header.Values(h.Name); !reflect.DeepEqual(gotV, h.Value) {
					key := "raw/server/header"
					if onBothSides[strings.ToLower(h.Name)] {
						key = fmt.Sprintf("raw/server/same-name-in-headers-and-trailers/http%d/header", resp.ProtoMajor)
					}
					rep.Violation(key, fmt.Sprintf("header %s: got %q want %q", h.Name, gotV, h.Value), w)
				}
			}
			for _, h := range raw.Trailers {
				if resp.ProtoMajor == 2 && vfForbiddenTrailer[http.CanonicalHeaderKey(h.Name)] {
					// RFC 9110 6.5.1 field names that must not be sent as trailers: golang.org/x/net/http2 drops them
					// whatever the handler does; only HTTP/1.1 (where the server sends them) is judged
					rep.Count("forbidden_trailer_name_over_http2_not_judged", 1)
					continue
				}
				if gotV := resp.Trailer.Values(h.Name); !reflect.DeepEqual(gotV, h.Value) {
					key := "raw/server/trailer"
					if onBothSides[strings.ToLower(h.Name)] {
						key = fmt.Sprintf("raw/server/same-name-in-headers-and-trailers/http%d/trailer", resp.ProtoMajor)
					}
					rep.Violation(key, fmt.Sprintf("trailer %s: got %q want %q (all trailers %v)", h.Name, gotV, h.Value, resp.Trailer), w)
				}
			}
			given := map[string]bool{}
			for _, h := range raw.Headers {
				given[http.CanonicalHeaderKey(h.Name)] = true
			}
			for k, v := range resp.Header {
				if given[k] || vfInfraHeaders[k] {
					continue
				}
				if k == "Content-Type" {
					// only a sniffed type is acceptable when none was specified
					if strings.HasPrefix(v[0], "text/plain") || strings.HasPrefix(v[0], "application/octet-stream") || strings.HasPrefix(v[0], "text/html") || strings.HasPrefix(v[0], "text/xml") || strings.HasPrefix(v[0], "application/x-gzip") || strings.HasPrefix(v[0], "image/") || strings.HasPrefix(v[0], "application/pdf") || strings.HasPrefix(v[0], "video/") || strings.HasPrefix(v[0], "audio/") || strings.HasPrefix(v[0], "font/") || strings.HasPrefix(v[0], "application/zip") || strings.HasPrefix(v[0], "application/wasm") || strings.HasPrefix(v[0], "application/vnd") || strings.HasPrefix(v[0], "application/ogg") || strings.HasPrefix(v[0], "application/x-rar") || strings.HasPrefix(v[0], "application/postscript") {
						continue
					}
				}
				rep.Violation("raw/server/handler-header-leaked/"+k, fmt.Sprintf("header %s: %q is on the wire although the raw response does not specify it", k, v), w)
			}
			for k := range resp.Trailer {
				ok := false
				for _, h := range raw.Trailers {
					ok = ok || http.CanonicalHeaderKey(h.Name) == k
				}
				if !ok {
					rep.Violation("raw/server/handler-trailer-leaked", fmt.Sprintf("trailer %s on the wire although not specified", k), w)
				}
			}
		}
		srv.Stop()
	}
	rep.Sample(map[string]any{"definition": "status unset, headers X-Hdr-Multi=[v1,'v 2'], stream [flags=255 length=0 payload 'abc' gzip]", "expect": "200; header values in order; body = ff 00000000 + gzip('abc')"})
	rep.RequireMin("bodies_equal", 100)
	rep.RequireMin("status_unset", 20)
	rep.RequireMin("rpc:BidiStream", 10)
}

// TestVerifC17Responder: a raw response and the handler's own response are
// mutually exclusive, for every order of header/flush/write/raw operations.
func TestVerifC17Responder(t *testing.T) {
	rep := verifkit.Begin("C17", "responder-sequences", "every sequence of up to 5 handler operations over {set header, Flush, WriteHeader(201), Write, setRawResponse} behind the real rawResponder, served by a real HTTP/1.1 and HTTP/2 test server; oracle: if the raw response was accepted the wire carries exactly it (status, headers, body; no handler header, no handler bytes); if it was refused (the handler had already started its response) the handler's response is intact; distinct = (sequence, transport)")
	defer rep.Write()
	raw := &conformancev1.RawHTTPResponse{StatusCode: 418, Headers: []*conformancev1.Header{{Name: "X-Raw", Value: []string{"yes"}}, {Name: "Content-Type", Value: []string{"raw/type"}}},
		Body: &conformancev1.RawHTTPResponse_Unary{Unary: &conformancev1.MessageContents{Data: &conformancev1.MessageContents_Text{Text: "raw-body"}}}}
	ops := []byte("HFSWR")
	var seqs []string
	var rec func(cur string)
	rec = func(cur string) {
		if len(cur) > 0 {
			seqs = append(seqs, cur)
		}
		if len(cur) == 5 {
			return
		}
		for _, o := range ops {
			rec(cur + string(o))
		}
	}
	rec("")
	type result struct {
		rawErrs []error
	}
	for _, h2 := range []bool{false, true} {
		var cur string
		resCh := make(chan result, 1)
		handler := http.HandlerFunc(func(w http.ResponseWriter, r *http.Request) {
			var res result
			nW := 0
			for _, o := range cur {
				switch o {
				case 'H':
					w.Header().Set("Content-Type", "handler/type")
					w.Header().Set("X-Handler", "1")
					w.Header().Add("Vary", "handler") // same keys as the outer middleware already set
					w.Header().Set("X-Outer", "handler")
				case 'F':
					if f, ok := w.(http.Flusher); ok {
						f.Flush()
					}
				case 'S':
					w.WriteHeader(201)
				case 'W':
					nW++
					_, _ = w.Write([]byte(fmt.Sprintf("handler-body-%d;", nW)))
				case 'R':
					res.rawErrs = append(res.rawErrs, setRawResponse(r.Context(), raw))
				}
			}
			resCh <- res
		})
		// an outer middleware (like CORS in the real server) sets headers before the responder sees the request
		outer := func(next http.Handler) http.Handler {
			return http.HandlerFunc(func(w http.ResponseWriter, r *http.Request) {
				w.Header().Set("Vary", "outer")
				w.Header().Set("X-Outer", "1")
				next.ServeHTTP(w, r)
			})
		}
		svr := httptest.NewUnstartedServer(outer(rawResponder(handler)))
		svr.EnableHTTP2 = h2
		svr.StartTLS()
		client := svr.Client()
		stride := 1
		if !verifkit.Thorough() && h2 {
			stride = 4
		}
		for si := 0; si < len(seqs); si += stride {
			cur = seqs[si]
			rep.Eval(1)
			rep.DistinctKey(cur, h2)
			resp, err := client.Get(svr.URL + "/")
			if err != nil {
				rep.Inconcl(fmt.Sprintf("sequence %s: %v", cur, err))
				continue
			}
			body, _ := io.ReadAll(resp.Body)
			resp.Body.Close()
			res := <-resCh
			w := map[string]any{"sequence(H=set header,F=flush,S=WriteHeader 201,W=write,R=setRawResponse)": cur, "http2": h2, "status": resp.StatusCode, "content_type": resp.Header.Get("Content-Type"), "x_handler": resp.Header.Get("X-Handler"), "x_raw": resp.Header.Get("X-Raw"), "body": string(body)}
			// model
			started, accepted, sawR := false, false, false
			status, hdrSet, wantBody := 200, false, ""
			nW := 0
			committed := false
			hdrCommitted := false
			for _, o := range cur {
				switch o {
				case 'H':
					if !committed {
						hdrSet = true
					}
				case 'F', 'W', 'S':
					if accepted {
						continue // swallowed: the raw response owns the wire
					}
					started = true
					if !committed {
						committed = true
						hdrCommitted = hdrSet
						if o == 'S' {
							status = 201
						}
					}
					if o == 'W' {
						nW++
						wantBody += fmt.Sprintf("handler-body-%d;", nW)
					}
				case 'R':
					if !sawR {
						sawR = true
						accepted = !started
					}
				}
				if o == 'W' && accepted {
					nW++ // the handler still counts its writes
				}
			}
			if !sawR {
				continue
			}
			gotAccepted := len(res.rawErrs) > 0 && res.rawErrs[0] == nil
			rep.Count("sequences_with_raw", 1)
			if gotAccepted != accepted {
				rep.Violation("raw/responder/acceptance", fmt.Sprintf("sequence %s: setRawResponse accepted=%v, but the handler had started its own response=%v", cur, gotAccepted, started), w)
				// fallthrough: whatever was decided, the wire must be consistent with the decision
			}
			if gotAccepted {
				rep.Count("raw_accepted", 1)
				if resp.StatusCode != 418 || resp.Header.Get("X-Raw") != "yes" || resp.Header.Get("Content-Type") != "raw/type" || string(body) != "raw-body" {
					rep.Violation("raw/responder/accepted-but-not-on-wire", fmt.Sprintf("sequence %s: raw response accepted but the wire shows status %d, X-Raw %q, Content-Type %q, body %q", cur, resp.StatusCode, resp.Header.Get("X-Raw"), resp.Header.Get("Content-Type"), body), w)
				}
				if v := resp.Header.Values("Vary"); len(v) != 1 || v[0] != "outer" || resp.Header.Get("X-Outer") != "1" {
					rep.Violation("raw/responder/handler-value-on-middleware-header", fmt.Sprintf("sequence %s: raw response accepted but headers the outer middleware had set now read Vary=%q X-Outer=%q (want [outer], 1)", cur, v, resp.Header.Get("X-Outer")), w)
				}
				if resp.Header.Get("X-Handler") != "" || strings.Contains(string(body), "handler-body") {
					rep.Violation("raw/responder/handler-output-leaked", fmt.Sprintf("sequence %s: raw response accepted but handler output is on the wire", cur), w)
				}
			} else {
				rep.Count("raw_refused", 1)
				if resp.StatusCode != status || string(body) != wantBody || (hdrCommitted && resp.Header.Get("X-Handler") != "1") || resp.Header.Get("X-Raw") != "" {
					rep.Violation("raw/responder/refused-but-response-damaged", fmt.Sprintf("sequence %s: raw response refused but the handler's response is not intact: status %d (want %d), body %q (want %q), X-Handler %q, X-Raw %q", cur, resp.StatusCode, status, body, wantBody, resp.Header.Get("X-Handler"), resp.Header.Get("X-Raw")), w)
				}
			}
		}
		svr.Close()
	}
	rep.Exhaustive = verifkit.Thorough()
	rep.Sample(map[string]any{"sequence": "HFRW", "expect": "raw refused (headers were flushed); wire: 200, X-Handler: 1, body handler-body-1;"})
	rep.RequireMin("raw_accepted", 100)
	rep.RequireMin("raw_refused", 100)
}

// TestVerifC17ResponderConcurrent: the recorder of a raw response and the handler's first
// use of the ResponseWriter may run on different goroutines (that is what the responder's
// mutex is for). Whatever the interleaving, exactly one of them owns the wire.
func TestVerifC17ResponderConcurrent(t *testing.T) {
	rep := verifkit.Begin("C17", "responder-concurrent", "one goroutine plays the handler (set header, then Write or WriteHeader or Flush+Write), another records a raw response, released together by a spin barrier on a fresh rawResponseWriter over a response recorder; then finish(); oracle: raw accepted => the recorded response is exactly the raw one (no handler header, no handler bytes); raw refused => exactly the handler's; distinct = (handler's first operation, who won)")
	defer rep.Write()
	raw := &conformancev1.RawHTTPResponse{StatusCode: 418, Headers: []*conformancev1.Header{{Name: "X-Raw", Value: []string{"yes"}}},
		Body: &conformancev1.RawHTTPResponse_Unary{Unary: &conformancev1.MessageContents{Data: &conformancev1.MessageContents_Text{Text: "raw"}}}}
	n := verifkit.Scale(60000, 600000)
	for i := 0; i < n; i++ {
		rep.Eval(1)
		first := i % 3
		recd := httptest.NewRecorder()
		rw := &rawResponseWriter{respWriter: recd}
		snapshot := recd.Header().Clone()
		var ready atomic.Int32
		var accepted bool
		var wg sync.WaitGroup
		wg.Add(2)
		go func() {
			defer wg.Done()
			ready.Add(1)
			for ready.Load() < 2 {
			}
			rw.Header().Set("X-Handler", "1")
			switch first {
			case 0:
				_, _ = rw.Write([]byte("handler"))
			case 1:
				rw.WriteHeader(201)
				_, _ = rw.Write([]byte("handler"))
			case 2:
				rw.Flush()
				_, _ = rw.Write([]byte("handler"))
			}
		}()
		go func() {
			defer wg.Done()
			ready.Add(1)
			for ready.Load() < 2 {
			}
			if i%2 == 1 {
				runtime.Gosched()
			}
			accepted = rw.setRawResponse(raw)
		}()
		wg.Wait()
		rw.finish(snapshot)
		res := recd.Result()
		body, _ := io.ReadAll(res.Body)
		w := map[string]any{"handler_first_operation(0=Write,1=WriteHeader,2=Flush)": first, "raw_accepted": accepted, "status": res.StatusCode, "x_raw": res.Header.Get("X-Raw"), "x_handler": res.Header.Get("X-Handler"), "body": string(body)}
		rep.DistinctKey(first, accepted)
		if accepted {
			rep.Count("concurrent_raw_won", 1)
			if res.StatusCode != 418 || res.Header.Get("X-Raw") != "yes" || res.Header.Get("X-Handler") != "" || string(body) != "raw" {
				rep.Violation("raw/responder/concurrent/accepted-but-handler-output-on-wire", fmt.Sprintf("raw response accepted but the response is status %d, X-Raw %q, X-Handler %q, body %q", res.StatusCode, res.Header.Get("X-Raw"), res.Header.Get("X-Handler"), body), w)
			}
		} else {
			rep.Count("concurrent_handler_won", 1)
			wantStatus := 200
			if first == 1 {
				wantStatus = 201
			}
			if res.StatusCode != wantStatus || res.Header.Get("X-Raw") != "" || res.Header.Get("X-Handler") != "1" || string(body) != "handler" {
				rep.Violation("raw/responder/concurrent/refused-but-response-damaged", fmt.Sprintf("raw response refused but the response is status %d (want %d), X-Raw %q, X-Handler %q, body %q", res.StatusCode, wantStatus, res.Header.Get("X-Raw"), res.Header.Get("X-Handler"), body), w)
			}
		}
	}
	rep.Sample(map[string]any{"interleaving": "setRawResponse between the handler's header set and its Write", "expect": "either 418/raw or 200/handler, never a mix"})
	rep.RequireMin("concurrent_raw_won", 20)
	rep.RequireMin("concurrent_handler_won", 20)
}
