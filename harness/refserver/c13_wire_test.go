//go:build verif

package referenceserver

import (
	"bytes"
	"encoding/base64"
	"encoding/binary"
	"encoding/json"
	"errors"
	"fmt"
	"io"
	"net/http"
	"reflect"
	"runtime"
	"strings"
	"testing"

	"connectrpc.com/conformance/internal"
	"connectrpc.com/conformance/internal/app/referenceclient"
	conformancev1 "connectrpc.com/conformance/internal/gen/proto/go/connectrpc/conformance/v1"
	"connectrpc.com/conformance/internal/verifkit"
	"connectrpc.com/connect"
	statuspb "google.golang.org/genproto/googleapis/rpc/status"
	"google.golang.org/protobuf/encoding/protojson"
	"google.golang.org/protobuf/proto"
	"google.golang.org/protobuf/types/known/anypb"
)

// ---- spec-written encoders (independent of the repository's) ----

type vfWireErr struct {
	Code    int
	Message string
	Details []*anypb.Any
	Meta    map[string][]string
	// DebugAnyPrefix: when set, a detail's "debug" member is written in google.protobuf.Any JSON form
	// (as connect-go does) with "@type": DebugAnyPrefix + "/" + full name
	DebugAnyPrefix string
}

var vfCodeNames = []string{"", "canceled", "unknown", "invalid_argument", "deadline_exceeded", "not_found", "already_exists", "permission_denied", "resource_exhausted", "failed_precondition", "aborted", "out_of_range", "unimplemented", "internal", "unavailable", "data_loss", "unauthenticated"}

func vfRawB64(b []byte) string { return base64.RawStdEncoding.EncodeToString(b) }

func vfSpecPercent(s string) string {
	var sb strings.Builder
	for i := 0; i < len(s); i++ {
		c := s[i]
		if c < 0x20 || c > 0x7e || c == '%' {
			fmt.Fprintf(&sb, "%%%02X", c)
		} else {
			sb.WriteByte(c)
		}
	}
	return sb.String()
}

func (e *vfWireErr) connectJSON(withDebug bool) map[string]any {
	m := map[string]any{"code": vfCodeNames[e.Code]}
	if e.Message != "" {
		m["message"] = e.Message
	}
	if len(e.Details) > 0 {
		var ds []any
		for _, d := range e.Details {
			dm := map[string]any{"type": string(d.MessageName()), "value": vfRawB64(d.Value)}
			if withDebug {
				if msg, err := d.UnmarshalNew(); err == nil {
					if js, err := protojson.Marshal(msg); err == nil {
						if e.DebugAnyPrefix != "" {
							typ, _ := json.Marshal(e.DebugAnyPrefix + "/" + string(d.MessageName()))
							if string(js) == "{}" {
								js = []byte(`{"@type":` + string(typ) + `}`)
							} else {
								js = append([]byte(`{"@type":`+string(typ)+`,`), js[1:]...)
							}
						}
						dm["debug"] = json.RawMessage(js)
					}
				}
			}
			ds = append(ds, dm)
		}
		m["details"] = ds
	}
	return m
}

func (e *vfWireErr) statusTrailers() [][2]string {
	out := [][2]string{{"grpc-status", fmt.Sprint(e.Code)}}
	if e.Message != "" || true {
		out = append(out, [2]string{"grpc-message", vfSpecPercent(e.Message)})
	}
	if len(e.Details) > 0 {
		b, err := proto.Marshal(&statuspb.Status{Code: int32(e.Code), Message: e.Message, Details: e.Details})
		if err == nil {
			out = append(out, [2]string{"grpc-status-details-bin", vfRawB64(b)})
		}
	}
	for _, k := range verifkit.SortedKeys(e.Meta) {
		for _, v := range e.Meta[k] {
			out = append(out, [2]string{strings.ToLower(k), v})
		}
	}
	return out
}

func vfTrailerBlock(kv [][2]string) string {
	var sb strings.Builder
	for _, p := range kv {
		sb.WriteString(p[0] + ": " + p[1] + "\r\n")
	}
	return sb.String()
}

func vfEnv(flags byte, p []byte) []byte {
	b := make([]byte, 5+len(p))
	b[0] = flags
	binary.BigEndian.PutUint32(b[1:], uint32(len(p)))
	copy(b[5:], p)
	return b
}

func vfGenWireErr(r *verifkit.Rand, allowInvalidUTF8 bool) *vfWireErr {
	e := &vfWireErr{Code: 1 + r.Intn(16), Meta: map[string][]string{}}
	e.DebugAnyPrefix = verifkit.Pick(r, []string{"", "", "type.googleapis.com", "https://type.googleapis.com", "example.com/types/v1", "buf.build/googleapis/googleapis"})
	switch r.Intn(8) {
	case 0:
	case 1:
		e.Message = "plain ascii message"
	case 2:
		e.Message = verifkit.Pick(r, []string{"100% sure %41 %zz %", "1+1=2 & a+b; c%2Bd +", "query=like?x=1&y=2+3#frag", "semi;colon,comma \"quote\" back\\slash"})
	case 3:
		e.Message = "ünïcödé ✓ 漢字 😀"
	case 4:
		e.Message = "tab\tnl\ncr\rnul\x00del\x7f"
	case 5:
		e.Message = strings.Repeat("long ", 100) + "x"
	default:
		e.Message = strings.TrimSpace(verifkit.RandUTF8(r, 16, true))
	}
	e.Message = strings.Trim(e.Message, " \t\r\n") // leading/trailing whitespace cannot be carried faithfully (protocol limit)
	if allowInvalidUTF8 && r.Chance(1, 12) {
		e.Message = "x\xff\xfe invalid utf8"
	}
	valid := !strings.ContainsRune(e.Message, 0xfffd) && json.Valid([]byte(`"x"`))
	_ = valid
	if !strings.Contains(e.Message, "\xff") {
		for k := r.Intn(4); k > 0; k-- {
			var m proto.Message
			switch r.Intn(3) {
			case 0:
				m = &conformancev1.Header{Name: "detail", Value: []string{verifkit.RandUTF8(r, 5, false)}}
			case 1:
				m = &conformancev1.ConformancePayload_RequestInfo{TimeoutMs: proto.Int64(int64(r.Intn(1000))), RequestHeaders: []*conformancev1.Header{{Name: "h", Value: []string{"v"}}}}
			default:
				m = &conformancev1.Error{Code: conformancev1.Code(1 + r.Intn(16)), Message: proto.String("nested")}
			}
			a, _ := anypb.New(m)
			e.Details = append(e.Details, a)
		}
	}
	for k := r.Intn(3); k > 0; k-- {
		name := verifkit.Pick(r, []string{"x-custom", "x-other.name", "x-a_b", "x~tilde", "x-Mixed"})
		e.Meta[strings.ToLower(name)] = append(e.Meta[strings.ToLower(name)], verifkit.Pick(r, []string{"v1", "v 2", "with\ttab", "a,b", "~!@#$%^&*()"}))
	}
	if r.Chance(1, 3) {
		e.Meta["x-data-bin"] = []string{vfRawB64(r.Bytes(1 + r.Intn(8)))}
	}
	return e
}

// ---- synthetic transport ----

type vfFakeRT struct {
	status  int
	header  http.Header
	body    []byte
	trailer http.Header
	chunk   int // >0: the body is delivered in reads of at most this many bytes
}

func (f *vfFakeRT) RoundTrip(req *http.Request) (*http.Response, error) {
	if req.Body != nil {
		_, _ = io.Copy(io.Discard, req.Body)
		_ = req.Body.Close()
	}
	var body io.Reader = bytes.NewReader(f.body)
	if f.chunk > 0 {
		body = &vfChunkReader{data: f.body, chunk: f.chunk}
	}
	return &http.Response{StatusCode: f.status, Status: fmt.Sprintf("%d %s", f.status, http.StatusText(f.status)), Proto: "HTTP/2.0", ProtoMajor: 2,
		Header: f.header.Clone(), Body: io.NopCloser(body), Trailer: f.trailer.Clone(), Request: req, ContentLength: -1}, nil
}

// vfChunkReader delivers at most chunk bytes per Read (what a network does to a body).
type vfChunkReader struct {
	data  []byte
	chunk int
}

func (c *vfChunkReader) Read(p []byte) (int, error) {
	if len(c.data) == 0 {
		return 0, io.EOF
	}
	n := c.chunk
	if n > len(c.data) {
		n = len(c.data)
	}
	if n > len(p) {
		n = len(p)
	}
	copy(p, c.data[:n])
	c.data = c.data[n:]
	return n, nil
}

var vfTransportVariant int
var vfTransportVariantSeen = map[string]int{}

// vfTransportVariants re-renders the same response the way transports may
// legitimately deliver it: in small reads, with its end-of-stream message
// compressed in a negotiated encoding, with trailer names announced up front
// by a trailers-only response. The examiner's verdict must not depend on it.
func vfTransportVariants(f *vfFakeRT) *vfFakeRT {
	vfTransportVariant++
	v := vfTransportVariant % 5
	out := &vfFakeRT{status: f.status, header: f.header.Clone(), body: f.body, trailer: f.trailer.Clone()}
	name := "as-is"
	switch v {
	case 1:
		out.chunk, name = 1, "1-byte-reads"
	case 2:
		out.chunk, name = 7, "7-byte-reads"
	case 3, 4:
		ct := out.header.Get("Content-Type")
		encHeader, endFlag := "", byte(0)
		switch {
		case strings.HasPrefix(ct, "application/connect+"):
			encHeader, endFlag = "Connect-Content-Encoding", 2
		case strings.HasPrefix(ct, "application/grpc-web"):
			encHeader, endFlag = "Grpc-Encoding", 0x80
		case strings.HasPrefix(ct, "application/grpc") && len(out.body) == 0 && len(out.trailer) == 0:
			// trailers-only response whose header block also announces trailer names (that are then not sent)
			out.trailer = http.Header{"X-Checksum": nil}
			if v == 4 {
				out.trailer = http.Header{"Grpc-Status": nil, "Grpc-Message": nil}
			}
			name = "trailers-only-with-announced-names"
		}
		if encHeader != "" && out.header.Get(encHeader) == "" {
			// find the last envelope; compress it if it is the end-of-stream message
			b, off := out.body, 0
			last := -1
			for off+5 <= len(b) {
				l := int(binary.BigEndian.Uint32(b[off+1 : off+5]))
				if off+5+l > len(b) {
					break
				}
				last = off
				off += 5 + l
			}
			if last >= 0 && off == len(b) && b[last]&endFlag != 0 && b[last]&1 == 0 {
				payload := b[last+5:]
				if z, err := verifkit.IndepCompress("gzip", payload); err == nil {
					nb := append([]byte(nil), b[:last]...)
					nb = append(nb, vfEnv(b[last]|1, z)...)
					out.body = nb
					out.header.Set(encHeader, "gzip")
					name = "end-stream-gzip-compressed"
					if v == 4 {
						out.chunk = 5
						name = "end-stream-gzip-compressed-5-byte-reads"
					}
				}
			}
		}
		if name == "as-is" {
			out.chunk, name = 3, "3-byte-reads"
		}
	}
	vfTransportVariantSeen[name]++
	return out
}

func vfExamineSynthetic(f *vfFakeRT) ([]string, *verifkit.Panic) {
	f = vfTransportVariants(f)
	req, _ := http.NewRequest("POST", "http://example.test/connectrpc.conformance.v1.ConformanceService/Unary", strings.NewReader("x"))
	req.Header.Set("X-Test-Case-Name", "Wire/T")
	var fb []string
	pn := verifkit.Catch(func() {
		_, _, fb, _, _ = referenceclient.VfExamineExchange(f, req)
	})
	if pn == nil && len(fb) > 0 {
		fb = append(fb, fmt.Sprintf("(transport variant: chunk=%d encoding=%q trailer=%v)", f.chunk, f.header.Get("Connect-Content-Encoding")+f.header.Get("Grpc-Encoding"), f.trailer))
	}
	return fb, pn
}

type vfRendering struct {
	Proto string // connect-unary | connect-stream | grpc-web | grpc-web-trailers-only | grpc | grpc-trailers-only
	RT    *vfFakeRT
}

func vfRenderAll(r *verifkit.Rand, e *vfWireErr, blockOverride string, jsonOverride []byte) []vfRendering {
	var out []vfRendering
	js, _ := json.Marshal(e.connectJSON(r.Bool()))
	if jsonOverride != nil {
		js = jsonOverride
	}
	hdr := func(ct string) http.Header { return http.Header{"Content-Type": {ct}} }
	out = append(out, vfRendering{"connect-unary", &vfFakeRT{status: 400 + e.Code, header: hdr("application/json"), body: js}})
	if r.Bool() && jsonOverride == nil {
		gz, _ := verifkit.IndepCompress("gzip", js)
		h := hdr("application/json")
		h.Set("Content-Encoding", "gzip")
		out = append(out, vfRendering{"connect-unary-gzip", &vfFakeRT{status: 500, header: h, body: gz}})
	}
	meta := map[string][]string{}
	for k, v := range e.Meta {
		meta[k] = v
	}
	es := map[string]any{"error": json.RawMessage(js)}
	if len(meta) > 0 {
		es["metadata"] = meta
	}
	esJS, _ := json.Marshal(es)
	body := append(vfEnv(0, []byte("data1")), vfEnv(2, esJS)...)
	out = append(out, vfRendering{"connect-stream", &vfFakeRT{status: 200, header: hdr("application/connect+proto"), body: body}})
	block := vfTrailerBlock(e.statusTrailers())
	if blockOverride != "" {
		block = blockOverride
	}
	out = append(out, vfRendering{"grpc-web", &vfFakeRT{status: 200, header: hdr("application/grpc-web+proto"), body: append(vfEnv(0, []byte("d")), vfEnv(0x80, []byte(block))...)}})
	tr := http.Header{}
	for _, kv := range e.statusTrailers() {
		tr.Add(kv[0], kv[1])
	}
	out = append(out, vfRendering{"grpc", &vfFakeRT{status: 200, header: hdr("application/grpc+proto"), body: vfEnv(0, []byte("d")), trailer: tr}})
	h := hdr("application/grpc")
	for k, v := range tr {
		h[k] = v
	}
	out = append(out, vfRendering{"grpc-trailers-only", &vfFakeRT{status: 200, header: h}})
	return out
}

// TestVerifC13WellFormed: spec-conformant renderings (independent encoder and
// the reference server's own encoders) must produce no feedback.
func TestVerifC13WellFormed(t *testing.T) {
	rep := verifkit.Begin("C13", "wellformed", "errors (16 codes x messages: empty, ASCII, %, %41, multi-byte UTF-8, control bytes, 500 chars, random UTF-8, invalid UTF-8 without details; no leading/trailing whitespace) x 0-3 details of registered types x metadata (valid field names/values, -bin entries) rendered by (1) an independent spec encoder as Connect error JSON (plain and gzip), Connect end-stream, gRPC-Web trailer block, gRPC trailers and trailers-only, (2) the reference server's grpcStatusTrailers/grpcWebStatusEndStream; all examined through the reference client's real capture+trace+examineWireDetails chain, each under a rotating transport variant (one read, 1/3/7-byte reads, end-of-stream message gzip-compressed in the negotiated encoding with and without 5-byte reads, trailers-only response that announces trailer names); distinct = (error, rendering)")
	defer rep.Write()
	rng := verifkit.Stream("c13wf")
	n := verifkit.Scale(1500, 40000)
	for i := 0; i < n; i++ {
		e := vfGenWireErr(rng, true)
		invalidUTF8 := strings.Contains(e.Message, "\xff")
		for _, rd := range vfRenderAll(rng, e, "", nil) {
			if invalidUTF8 && strings.HasPrefix(rd.Proto, "connect") {
				continue // JSON cannot carry invalid UTF-8
			}
			rep.Eval(1)
			rep.DistinctKey(e.Code, e.Message, len(e.Details), e.Meta, rd.Proto)
			fb, pn := vfExamineSynthetic(rd.RT)
			w := map[string]any{"rendering": rd.Proto, "code": e.Code, "message": e.Message, "details": len(e.Details), "metadata": e.Meta, "body": verifkit.Trunc(string(rd.RT.body), 600), "trailers": rd.RT.trailer}
			if pn != nil {
				rep.Violation("wire/panic/"+pn.Site, pn.Value, w)
				continue
			}
			rep.Count("wellformed:"+rd.Proto, 1)
			if len(fb) > 0 {
				rep.Violation("wire/wellformed-flagged/"+rd.Proto+"/"+vfMsgClass(e.Message), fmt.Sprintf("well-formed %s rendering flagged: %q", rd.Proto, fb), w)
			}
		}
		// (2) the reference server's own encoders
		ce := connect.NewError(connect.Code(e.Code), errors.New(e.Message))
		for _, d := range e.Details {
			if cd, err := connect.NewErrorDetail(d); err == nil {
				ce.AddDetail(cd)
			}
		}
		var trailers []*conformancev1.Header
		for ki, k := range verifkit.SortedKeys(e.Meta) {
			// test cases spell custom trailer names in any letter case; what the server emits must be lower-case
			name := k
			switch (i + ki) % 3 {
			case 1:
				name = http.CanonicalHeaderKey(k)
			case 2:
				name = strings.ToUpper(k)
			}
			trailers = append(trailers, &conformancev1.Header{Name: name, Value: e.Meta[k]})
		}
		block := grpcWebStatusEndStream(ce, trailers)
		tr := http.Header{}
		internal.AddHeaders(grpcStatusTrailers(ce), tr)
		for _, rd := range []vfRendering{
			{"refserver-grpc-web", &vfFakeRT{status: 200, header: http.Header{"Content-Type": {"application/grpc-web+proto"}}, body: vfEnv(0x80, []byte(block))}},
			{"refserver-grpc", &vfFakeRT{status: 200, header: http.Header{"Content-Type": {"application/grpc+proto"}}, body: vfEnv(0, []byte("d")), trailer: tr}},
		} {
			rep.Eval(1)
			fb, pn := vfExamineSynthetic(rd.RT)
			w := map[string]any{"rendering": rd.Proto, "code": e.Code, "message": e.Message, "details": len(e.Details), "metadata": e.Meta, "block": block}
			if pn != nil {
				rep.Violation("wire/panic/"+pn.Site, pn.Value, w)
				continue
			}
			rep.Count("wellformed:"+rd.Proto, 1)
			if len(fb) > 0 {
				rep.Violation("wire/refserver-output-flagged/"+rd.Proto+"/"+vfMsgClass(e.Message), fmt.Sprintf("what the reference server emits is flagged by the reference client: %q", fb), w)
			}
		}
	}
	rep.Sample(map[string]any{"code": 9, "message": "100% sure %41", "rendering": "grpc-web trailer block 'grpc-status: 9\\r\\ngrpc-message: 100%25 sure %2541\\r\\n'", "expect": "no feedback"})
	for k, v := range vfTransportVariantSeen {
		rep.Count("transport:"+k, v)
	}
	rep.RequireMin("transport:end-stream-gzip-compressed-5-byte-reads", 20)
	rep.RequireMin("transport:trailers-only-with-announced-names", 20)
	rep.RequireMin("wellformed:connect-stream", 100)
	rep.RequireMin("wellformed:refserver-grpc-web", 100)
}

func vfMsgClass(m string) string {
	switch {
	case m == "":
		return "empty"
	case strings.Contains(m, "\xff"):
		return "invalid-utf8"
	case strings.Contains(m, "%"):
		return "percent"
	}
	for i := 0; i < len(m); i++ {
		if m[i] < 0x20 || m[i] == 0x7f {
			return "control"
		}
		if m[i] >= 0x80 {
			return "non-ascii"
		}
	}
	return "ascii"
}

// TestVerifC13Malformed: one malformation at a time; each must be flagged.
func TestVerifC13Malformed(t *testing.T) {
	rep := verifkit.Begin("C13", "malformed", "well-formed renderings with exactly one malformation of a class the checks name: code missing/numeric/unknown, duplicate key at top level / in a detail / in metadata, unknown key, non-string message, detail type invalid, detail value padded or not base64, debug disagreeing with value, metadata with invalid field name or value, LF-only line ending, missing final CRLF, blank line, upper-case key, obsolete folding, raw byte that must be percent-encoded, %G1, dangling %, grpc-status missing/repeated/non-numeric/out of range, status vs details-bin code or message disagreement, padded details-bin, details-bin not base64/not proto, HTTP trailers on a non-gRPC response; oracle: at least one feedback line; distinct = (class, base error)")
	defer rep.Write()
	rng := verifkit.Stream("c13mal")
	n := verifkit.Scale(150, 4000)
	for i := 0; i < n; i++ {
		e := vfGenWireErr(rng, false)
		if len(e.Details) == 0 {
			a, _ := anypb.New(&conformancev1.Header{Name: "detail", Value: []string{"v"}})
			e.Details = []*anypb.Any{a}
		}
		if e.Message == "" {
			e.Message = "msg"
		}
		base := e.connectJSON(true)
		jsonCases := map[string]func() []byte{
			"code-missing":       func() []byte { m := vfCopyMap(base); delete(m, "code"); return vfJSON(m) },
			"code-numeric":       func() []byte { m := vfCopyMap(base); m["code"] = e.Code; return vfJSON(m) },
			"code-unknown":       func() []byte { m := vfCopyMap(base); m["code"] = "no_such_code"; return vfJSON(m) },
			"code-numbered-17":   func() []byte { m := vfCopyMap(base); m["code"] = "code_17"; return vfJSON(m) },
			"code-numbered-0":    func() []byte { m := vfCopyMap(base); m["code"] = "code_0"; return vfJSON(m) },
			"code-numbered-ok":   func() []byte { m := vfCopyMap(base); m["code"] = fmt.Sprintf("code_%d", e.Code); return vfJSON(m) },
			"code-uppercase":     func() []byte { m := vfCopyMap(base); m["code"] = strings.ToUpper(vfCodeNames[e.Code]); return vfJSON(m) },
			"unknown-key":        func() []byte { m := vfCopyMap(base); m["extra"] = 1; return vfJSON(m) },
			"message-not-string": func() []byte { m := vfCopyMap(base); m["message"] = 42; return vfJSON(m) },
			"details-not-array":  func() []byte { m := vfCopyMap(base); m["details"] = "x"; return vfJSON(m) },
			"duplicate-key-top":  func() []byte { js := vfJSON(base); return append(append([]byte(`{"code":"internal",`), js[1:]...)) },
			"duplicate-key-in-detail": func() []byte {
				js := string(vfJSON(base))
				return []byte(strings.Replace(js, `"type":`, `"type":"a.B","type":`, 1))
			},
			"detail-type-invalid": func() []byte {
				m := vfCopyMap(base)
				d := vfCopyMap(m["details"].([]any)[0].(map[string]any))
				d["type"] = "not a valid name!"
				m["details"] = []any{d}
				return vfJSON(m)
			},
			"detail-value-padded": func() []byte {
				m := vfCopyMap(base)
				d := vfCopyMap(m["details"].([]any)[0].(map[string]any))
				v := base64.StdEncoding.EncodeToString(append(e.Details[0].Value, 0)) // force a length that needs padding
				if !strings.HasSuffix(v, "=") {
					v = base64.StdEncoding.EncodeToString(append(e.Details[0].Value, 0, 0))
				}
				if !strings.HasSuffix(v, "=") {
					v = base64.StdEncoding.EncodeToString(append(e.Details[0].Value, 0, 0, 0, 0))
				}
				delete(d, "debug")
				d["value"] = v
				m["details"] = []any{d}
				return vfJSON(m)
			},
			"detail-value-not-base64": func() []byte {
				m := vfCopyMap(base)
				d := vfCopyMap(m["details"].([]any)[0].(map[string]any))
				d["value"] = "***not base64***"
				m["details"] = []any{d}
				return vfJSON(m)
			},
			"detail-value-missing": func() []byte {
				m := vfCopyMap(base)
				d := vfCopyMap(m["details"].([]any)[0].(map[string]any))
				delete(d, "value")
				m["details"] = []any{d}
				return vfJSON(m)
			},
			"detail-debug-disagrees": func() []byte {
				other, _ := anypb.New(&conformancev1.Header{Name: "completely", Value: []string{"different"}})
				m := vfCopyMap(base)
				d := map[string]any{"type": string(other.MessageName()), "value": vfRawB64(other.Value), "debug": json.RawMessage(`{"name":"something else"}`)}
				m["details"] = []any{d}
				return vfJSON(m)
			},
			"not-an-object": func() []byte { return []byte(`["code"]`) },
			"null":          func() []byte { return []byte(`null`) },
		}
		for class, mk := range jsonCases {
			js := mk()
			for _, rd := range vfRenderAll(rng, e, "", js)[:2] {
				// connect-unary and connect-stream carry the error JSON
				vfExpectFeedback(rep, "json/"+class, rd, e)
			}
		}
		// end-stream metadata malformations
		for class, meta := range map[string]string{
			"metadata-invalid-name":     `{"bad name":["v"]}`,
			"metadata-invalid-value":    `{"x-a":["ctl\u0001"]}`,
			"metadata-value-not-array":  `{"x-a":"v"}`,
			"metadata-value-not-string": `{"x-a":[1]}`,
			"metadata-duplicate-key":    `{"x-a":["1"],"x-a":["2"]}`,
			"metadata-not-object":       `["x"]`,
		} {
			es := []byte(`{"error":` + string(vfJSON(base)) + `,"metadata":` + meta + `}`)
			rd := vfRendering{"connect-stream", &vfFakeRT{status: 200, header: http.Header{"Content-Type": {"application/connect+proto"}}, body: vfEnv(2, es)}}
			vfExpectFeedback(rep, "endstream/"+class, rd, e)
		}
		rd := vfRendering{"connect-stream", &vfFakeRT{status: 200, header: http.Header{"Content-Type": {"application/connect+proto"}}, body: vfEnv(2, []byte(`{"error":`+string(vfJSON(base))+`,"extra":true}`))}}
		vfExpectFeedback(rep, "endstream/unknown-key", rd, e)
		rd = vfRendering{"connect-stream", &vfFakeRT{status: 200, header: http.Header{"Content-Type": {"application/connect+proto"}}, body: vfEnv(2, []byte(`{"error":"oops"}`))}}
		vfExpectFeedback(rep, "endstream/error-not-object", rd, e)

		// gRPC-Web trailer block malformations
		good := e.statusTrailers()
		goodBlock := vfTrailerBlock(good)
		blockCases := map[string]string{
			"lf-only-line-endings": strings.ReplaceAll(goodBlock, "\r\n", "\n"),
			"missing-final-crlf":   strings.TrimSuffix(goodBlock, "\r\n"),
			"blank-line-middle":    strings.Replace(goodBlock, "\r\n", "\r\n\r\n", 1),
			"blank-line-end":       goodBlock + "\r\n",
			"upper-case-key":       strings.Replace(goodBlock, "grpc-status:", "Grpc-Status:", 1),
			"obsolete-folding":     strings.Replace(goodBlock, "\r\n", "\r\n continued\r\n", 1),
			"missing-colon":        goodBlock + "novalue\r\n",
			"invalid-name-char":    goodBlock + "bad name: v\r\n",
			"invalid-value-char":   goodBlock + "x-a: ctl\x01\r\n",
			"value-edge-vertical-tab": goodBlock + "x-a: \x0bvalue\r\n",
			"value-edge-form-feed":    goodBlock + "x-a: value\x0c\r\n",
			"value-edge-cr":           goodBlock + "x-a: \rvalue\r\n",
			"doubled-cr-line-ending":  strings.Replace(goodBlock, "\r\n", "\r\r\n", 1),
			"blank-first-line-then-folded": "\r\n " + goodBlock,
			"folded-first-line":            " " + goodBlock,
			"only-blank-lines":             "\r\n\r\n",
			"tab-folded-after-blank":       "\r\n\t" + goodBlock,
			"invalid-value-del":       goodBlock + "x-a: a\x7fb\r\n",
		}
		for class, block := range blockCases {
			r := vfRenderAll(rng, e, block, nil)
			for _, rd := range r {
				if rd.Proto == "grpc-web" {
					vfExpectFeedback(rep, "block/"+class, rd, e)
				}
			}
		}
		// status trailer malformations (apply to gRPC trailers, trailers-only and the gRPC-Web block)
		mut := func(f func(kv [][2]string) [][2]string) [][2]string {
			cp := append([][2]string(nil), good...)
			return f(cp)
		}
		set := func(kv [][2]string, k, v string) [][2]string {
			for i := range kv {
				if kv[i][0] == k {
					kv[i][1] = v
				}
			}
			return kv
		}
		del := func(kv [][2]string, k string) [][2]string {
			var out [][2]string
			for _, p := range kv {
				if p[0] != k {
					out = append(out, p)
				}
			}
			return out
		}
		otherCode := e.Code%16 + 1
		badDetails, _ := proto.Marshal(&statuspb.Status{Code: int32(otherCode), Message: e.Message, Details: e.Details})
		badMsgDetails, _ := proto.Marshal(&statuspb.Status{Code: int32(e.Code), Message: e.Message + " but different", Details: e.Details})
		okDetails, _ := proto.Marshal(&statuspb.Status{Code: int32(e.Code), Message: e.Message, Details: e.Details})
		padded := base64.StdEncoding.EncodeToString(okDetails)
		for len(padded) > 0 && !strings.HasSuffix(padded, "=") {
			okDetails2, _ := proto.Marshal(&statuspb.Status{Code: int32(e.Code), Message: e.Message, Details: append(e.Details, e.Details[0])})
			padded = base64.StdEncoding.EncodeToString(okDetails2)
			if !strings.HasSuffix(padded, "=") {
				okDetails3, _ := proto.Marshal(&statuspb.Status{Code: int32(e.Code), Message: e.Message + "x", Details: e.Details})
				padded = base64.StdEncoding.EncodeToString(okDetails3)
				e2 := *e
				e2.Message = e.Message + "x"
				good = e2.statusTrailers()
			}
			break
		}
		statusCases := map[string][][2]string{
			"grpc-status-missing":      mut(func(kv [][2]string) [][2]string { return del(kv, "grpc-status") }),
			"grpc-status-repeated":     mut(func(kv [][2]string) [][2]string { return append(kv, [2]string{"grpc-status", fmt.Sprint(e.Code)}) }),
			"grpc-status-not-numeric":  mut(func(kv [][2]string) [][2]string { return set(kv, "grpc-status", "internal") }),
			"grpc-status-out-of-range": mut(func(kv [][2]string) [][2]string { return set(kv, "grpc-status", "17") }),
			"grpc-status-negative":     mut(func(kv [][2]string) [][2]string { return set(kv, "grpc-status", "-1") }),
			"grpc-message-raw-byte":    mut(func(kv [][2]string) [][2]string { return set(kv, "grpc-message", "caf\xc3\xa9") }),
			"grpc-message-bad-hex":     mut(func(kv [][2]string) [][2]string { return set(kv, "grpc-message", "bad %G1 escape") }),
			"grpc-message-dangling":    mut(func(kv [][2]string) [][2]string { return set(kv, "grpc-message", "dangling %4") }),
			"grpc-message-repeated":    mut(func(kv [][2]string) [][2]string { return append(kv, [2]string{"grpc-message", "again"}) }),
			"details-code-disagrees":   mut(func(kv [][2]string) [][2]string { return set(kv, "grpc-status-details-bin", vfRawB64(badDetails)) }),
			"details-message-disagrees": mut(func(kv [][2]string) [][2]string {
				return set(kv, "grpc-status-details-bin", vfRawB64(badMsgDetails))
			}),
			"details-not-base64": mut(func(kv [][2]string) [][2]string { return set(kv, "grpc-status-details-bin", "!!!") }),
			"details-not-proto":  mut(func(kv [][2]string) [][2]string { return set(kv, "grpc-status-details-bin", vfRawB64([]byte{0xff, 0xff, 0xff})) }),
		}
		hasKey := func(kv [][2]string, k string) bool {
			for _, p := range kv {
				if p[0] == k {
					return true
				}
			}
			return false
		}
		if e.Message != "" && hasKey(good, "grpc-message") && hasKey(good, "grpc-status-details-bin") {
			// a grpc-message that is present but empty disagrees with a details message that is not
			statusCases["details-message-vs-empty-grpc-message"] = mut(func(kv [][2]string) [][2]string { return set(kv, "grpc-message", "") })
		}
		if strings.HasSuffix(padded, "=") {
			statusCases["details-padded"] = append(del(append([][2]string(nil), good...), "grpc-status-details-bin"), [2]string{"grpc-status-details-bin", padded})
		}
		for class, kv := range statusCases {
			tr := http.Header{}
			for _, p := range kv {
				tr.Add(p[0], p[1])
			}
			rds := []vfRendering{
				{"grpc", &vfFakeRT{status: 200, header: http.Header{"Content-Type": {"application/grpc+proto"}}, body: vfEnv(0, []byte("d")), trailer: tr}},
				{"grpc-web", &vfFakeRT{status: 200, header: http.Header{"Content-Type": {"application/grpc-web+proto"}}, body: vfEnv(0x80, []byte(vfTrailerBlock(kv)))}},
			}
			h := http.Header{"Content-Type": {"application/grpc"}}
			for k, v := range tr {
				h[k] = v
			}
			rds = append(rds, vfRendering{"grpc-trailers-only", &vfFakeRT{status: 200, header: h}})
			for _, rd := range rds {
				vfExpectFeedback(rep, "status/"+class, rd, e)
			}
		}
		// OK status with a message / details
		okTr := http.Header{"Grpc-Status": {"0"}, "Grpc-Message": {"should be empty"}}
		vfExpectFeedback(rep, "status/ok-with-message", vfRendering{"grpc", &vfFakeRT{status: 200, header: http.Header{"Content-Type": {"application/grpc+proto"}}, body: vfEnv(0, []byte("d")), trailer: okTr}}, e)
		// HTTP trailers on a non-gRPC response
		for _, ct := range []string{"application/connect+proto", "application/grpc-web+proto", "application/proto"} {
			body := vfEnv(2, []byte(`{}`))
			if strings.Contains(ct, "grpc-web") {
				body = vfEnv(0x80, []byte("grpc-status: 0\r\n"))
			}
			rd := vfRendering{"http-trailers-outside-grpc", &vfFakeRT{status: 200, header: http.Header{"Content-Type": {ct}}, body: body, trailer: http.Header{"X-Trailer": {"v"}}}}
			vfExpectFeedback(rep, "http-trailers/"+strings.TrimPrefix(ct, "application/"), rd, e)
		}
	}
	rep.Sample(map[string]any{"class": "block/lf-only-line-endings", "input": "grpc-status: 9\\ngrpc-message: x\\n", "expect": ">= 1 feedback line"})
	for k, v := range vfTransportVariantSeen {
		rep.Count("transport:"+k, v)
	}
	rep.RequireMin("transport:end-stream-gzip-compressed-5-byte-reads", 20)
	rep.RequireMin("malformed_flagged", 1000)
}

func vfExpectFeedback(rep *verifkit.Report, class string, rd vfRendering, e *vfWireErr) {
	rep.Eval(1)
	rep.DistinctKey(class, rd.Proto, e.Code, e.Message, len(e.Details))
	fb, pn := vfExamineSynthetic(rd.RT)
	w := map[string]any{"class": class, "rendering": rd.Proto, "body": verifkit.Trunc(string(rd.RT.body), 800), "trailers": rd.RT.trailer, "headers": rd.RT.header}
	if pn != nil {
		rep.Violation("wire/panic/"+pn.Site, pn.Value, w)
		return
	}
	if len(fb) == 0 {
		rep.Violation("wire/malformed-not-flagged/"+class+"/"+rd.Proto, fmt.Sprintf("malformation %q in a %s response produced no feedback", class, rd.Proto), w)
		return
	}
	rep.Count("malformed_flagged", 1)
	rep.Count("class:"+class, 1)
}

func vfCopyMap(m map[string]any) map[string]any {
	out := map[string]any{}
	for k, v := range m {
		out[k] = v
	}
	return out
}

func vfJSON(v any) []byte {
	b, _ := json.Marshal(v)
	return b
}

// TestVerifC13Fuzz: arbitrary bytes never crash the examiners.
func TestVerifC13Fuzz(t *testing.T) {
	rep := verifkit.Begin("C13", "fuzz", "seeded structure-aware mutations of well-formed renderings (bit flips, truncation, insertion, deletion, splice) and random bytes, as response body / end-stream / trailer values under every content type, through examineWireDetails and the examiners directly; oracle: no panic; distinct = inputs")
	defer rep.Write()
	// declared-length lies: an end-stream envelope that announces far more than it carries
	for _, tc := range []struct {
		ct    string
		flags byte
	}{{"application/connect+proto", 0x02}, {"application/connect+json", 0x03}, {"application/grpc-web+proto", 0x80}, {"application/grpc-web", 0x81}} {
		for _, declared := range []uint32{1 << 20, 1 << 28, 1<<31 - 1} {
			body := []byte{tc.flags, byte(declared >> 24), byte(declared >> 16), byte(declared >> 8), byte(declared), '{', '}'}
			rt := &vfFakeRT{status: 200, header: http.Header{"Content-Type": {tc.ct}}, body: body}
			var ms1, ms2 runtime.MemStats
			runtime.ReadMemStats(&ms1)
			_, pn := vfExamineSynthetic(rt)
			runtime.ReadMemStats(&ms2)
			rep.Eval(1)
			rep.Count("declared_length_lies", 1)
			if pn != nil {
				rep.Violation("wire/panic/"+pn.Site, pn.Value, map[string]any{"body_hex": fmt.Sprintf("%x", body)})
			}
			if grew := ms2.TotalAlloc - ms1.TotalAlloc; grew > 64<<20 {
				rep.Violation("wire/huge-allocation", fmt.Sprintf("a 7-byte %s body whose end-stream envelope declares %d bytes made the examiner allocate %d MB", tc.ct, declared, grew>>20),
					map[string]any{"content_type": tc.ct, "body_hex": fmt.Sprintf("%x", body)})
			}
		}
	}
	n := verifkit.Scale(15000, 400000)
	if fn := verifkit.EnvInt("VERIF_C13_FUZZ_N", 0); fn > 0 {
		n = fn
	}
	for i := 0; i < n; i++ {
		r := verifkit.Stream("c13fuzz", i)
		if i%1000 == 0 {
			rep.InFlightDisk(map[string]any{"fuzz_inputs": fmt.Sprintf("%d..%d", i, i+999)})
		}
		e := vfGenWireErr(r, true)
		rds := vfRenderAll(r, e, "", nil)
		rd := rds[r.Intn(len(rds))]
		switch r.Intn(4) {
		case 0:
			rd.RT.body = r.Bytes(r.Intn(120))
		default:
			rd.RT.body = vfMutateWire(r, rd.RT.body)
		}
		for k := range rd.RT.trailer {
			if r.Chance(1, 3) {
				rd.RT.trailer[k] = []string{string(vfMutateWire(r, []byte(rd.RT.trailer[k][0])))}
			}
		}
		if r.Chance(1, 10) {
			rd.RT.header.Set("Content-Type", verifkit.Pick(r, []string{"application/json", "application/connect+json", "application/grpc-web", "application/grpc", "text/html", ""}))
		}
		if r.Chance(1, 10) {
			rd.RT.header.Set("Content-Encoding", verifkit.Pick(r, []string{"gzip", "br", "zstd", "nonsense"}))
		}
		rep.Eval(1)
		rep.DistinctKey(i)
		var ms1, ms2 runtime.MemStats
		runtime.ReadMemStats(&ms1)
		_, pn := vfExamineSynthetic(rd.RT)
		runtime.ReadMemStats(&ms2)
		if grew := ms2.TotalAlloc - ms1.TotalAlloc; grew > 256<<20 {
			// with finite memory this is a crash (fatal error: out of memory); inputs here are < 2 KB
			rep.Violation("wire/huge-allocation", fmt.Sprintf("examining a %d-byte response allocated %d MB (allocation driven by a declared length, not by the data received)", len(rd.RT.body), grew>>20),
				map[string]any{"input": i, "content_type": rd.RT.header.Get("Content-Type"), "body_hex": fmt.Sprintf("%x", rd.RT.body)})
		}
		if pn != nil {
			rep.Violation("wire/panic/"+pn.Site, pn.Value, map[string]any{"input": i, "content_type": rd.RT.header.Get("Content-Type"), "body_hex": fmt.Sprintf("%x", rd.RT.body), "trailers": rd.RT.trailer, "stack": verifkit.Trunc(pn.Stack, 2500)})
		}
		// direct calls with raw bytes
		raw := rd.RT.body
		for name, f := range map[string]func(){
			"examineConnectError":     func() { referenceclient.VfExamineConnectError(raw, &internal.SimplePrinter{}) },
			"examineConnectEndStream": func() { referenceclient.VfExamineConnectEndStream(raw, &internal.SimplePrinter{}) },
			"examineGRPCEndStream": func() {
				p := &internal.SimplePrinter{}
				referenceclient.VfCheckGRPCStatus(referenceclient.VfExamineGRPCEndStream(string(raw), p), p)
			},
		} {
			if pn := verifkit.Catch(f); pn != nil {
				rep.Violation("wire/panic/"+pn.Site, name+": "+pn.Value, map[string]any{"input": i, "bytes_hex": fmt.Sprintf("%x", raw), "stack": verifkit.Trunc(pn.Stack, 2500)})
			}
		}
	}
	rep.Sample(map[string]any{"input": "connect end-stream JSON with a flipped bit inside \"metadata\"", "expect": "no panic"})
}

func vfMutateWire(r *verifkit.Rand, b []byte) []byte {
	b = append([]byte(nil), b...)
	for k := 1 + r.Intn(3); k > 0 && len(b) > 0; k-- {
		switch r.Intn(5) {
		case 0:
			b[r.Intn(len(b))] ^= 1 << uint(r.Intn(8))
		case 1:
			b = b[:r.Intn(len(b)+1)]
		case 2:
			i := r.Intn(len(b))
			b = append(b[:i], append([]byte{verifkit.Pick(r, []byte{'{', '}', '[', ']', '"', ':', ',', '%', '\r', '\n', 0, 0xff})}, b[i:]...)...)
		case 3:
			i, j := r.Intn(len(b)), r.Intn(len(b))
			if i > j {
				i, j = j, i
			}
			b = append(b[:i], b[j:]...)
		case 4:
			i, j := r.Intn(len(b)), r.Intn(len(b))
			if i > j {
				i, j = j, i
			}
			b = append(b[:j], append(append([]byte(nil), b[i:j]...), b[j:]...)...)
		}
	}
	return b
}

// TestVerifC13History: what the examiner says about a response does not depend on the responses it saw
// before - in particular not on an earlier response it had to give up on (a body labelled with an encoding
// it is not in, a body cut inside its encoding's header, an encoding it does not know).
func TestVerifC13History(t *testing.T) {
	rep := verifkit.Begin("C13", "history", "unary Connect error responses examined one after another by the real capture + trace + examineWireDetails chain on one goroutine (GOMAXPROCS 1 for the duration): a well-formed body, a gzip body, a body with an unknown key - each first in isolation, then again right after a troublesome response (plain JSON labelled Content-Encoding: gzip; gzip data cut after 5 / 12 bytes; unknown encoding; empty body labelled gzip); oracle: the feedback for a response is the same with and without the predecessor (none for the well-formed ones); distinct = (predecessor, response kind, error)")
	defer rep.Write()
	defer runtime.GOMAXPROCS(runtime.GOMAXPROCS(1))
	rng := verifkit.Stream("c13history")
	hdr := func(ct, enc string) http.Header {
		h := http.Header{"Content-Type": {ct}}
		if enc != "" {
			h.Set("Content-Encoding", enc)
		}
		return h
	}
	strip := func(fb []string) []string {
		var out []string
		for _, l := range fb {
			if !strings.HasPrefix(l, "(transport variant") {
				out = append(out, l)
			}
		}
		return out
	}
	n := verifkit.Scale(60, 1500)
	for i := 0; i < n; i++ {
		e := vfGenWireErr(rng, false)
		js, _ := json.Marshal(e.connectJSON(false))
		gz, _ := verifkit.IndepCompress("gzip", js)
		withKey := vfCopyMap(e.connectJSON(false))
		withKey["unknown_key"] = 1
		badJS, _ := json.Marshal(withKey)
		subjects := map[string]*vfFakeRT{
			"well-formed":      {status: 400 + e.Code, header: hdr("application/json", ""), body: js},
			"well-formed-gzip": {status: 500, header: hdr("application/json", "gzip"), body: gz},
			"unknown-key":      {status: 400 + e.Code, header: hdr("application/json", ""), body: badJS},
		}
		cut := func(k int) []byte {
			if k > len(gz) {
				k = len(gz)
			}
			return gz[:k]
		}
		predecessors := map[string]*vfFakeRT{
			"plain-json-labelled-gzip": {status: 500, header: hdr("application/json", "gzip"), body: js},
			"gzip-cut-after-5":         {status: 500, header: hdr("application/json", "gzip"), body: cut(5)},
			"gzip-cut-after-12":        {status: 500, header: hdr("application/json", "gzip"), body: cut(12)},
			"unknown-encoding":         {status: 500, header: hdr("application/json", "x-verif"), body: js},
			"empty-labelled-gzip":      {status: 500, header: hdr("application/json", "gzip"), body: nil},
		}
		examine := func(f *vfFakeRT) ([]string, *verifkit.Panic) {
			req, _ := http.NewRequest("POST", "http://example.test/connectrpc.conformance.v1.ConformanceService/Unary", strings.NewReader("x"))
			req.Header.Set("X-Test-Case-Name", "Wire/History")
			var fb []string
			pn := verifkit.Catch(func() { _, _, fb, _, _ = referenceclient.VfExamineExchange(f, req) })
			return strip(fb), pn
		}
		for _, sk := range verifkit.SortedKeys(subjects) {
			alone, pn := examine(subjects[sk])
			if pn != nil {
				rep.Violation("wire/panic/"+pn.Site, pn.Value, sk)
				continue
			}
			if sk != "unknown-key" && len(alone) > 0 {
				continue // (judged by the well-formed monitor)
			}
			for _, pk := range verifkit.SortedKeys(predecessors) {
				rep.Eval(1)
				rep.DistinctKey(pk, sk, e.Code, e.Message)
				if _, pn := examine(predecessors[pk]); pn != nil {
					rep.Violation("wire/panic/"+pn.Site, pn.Value, pk)
					continue
				}
				after, pn := examine(subjects[sk])
				if pn != nil {
					rep.Violation("wire/panic/"+pn.Site, pn.Value, sk)
					continue
				}
				w := map[string]any{"predecessor": pk, "response": sk, "body": verifkit.Trunc(string(subjects[sk].body), 300), "feedback_alone": alone, "feedback_after_predecessor": after}
				if !reflect.DeepEqual(alone, after) {
					rep.Violation("wire/history-dependent/"+sk+"/after-"+pk, fmt.Sprintf("a %s response gets feedback %q on its own and %q when it is examined right after a %s response", sk, alone, after, pk), w)
				} else {
					rep.Count("history_independent:"+sk, 1)
				}
			}
		}
	}
	rep.Sample(map[string]any{"history": "plain JSON labelled gzip, then a well-formed error body", "expect": "no feedback for the second"})
	rep.RequireMin("history_independent:well-formed", 100)
	rep.RequireMin("history_independent:unknown-key", 100)
}
