//go:build verif

package referenceserver

import (
	"bytes"
	"crypto/tls"
	"crypto/x509"
	"crypto/x509/pkix"
	"fmt"
	"io"
	"math"
	"math/big"
	"net/http"
	"net/http/httptest"
	"net/url"
	"regexp"
	"sort"
	"strings"
	"sync"
	"testing"
	"time"

	"connectrpc.com/conformance/internal"
	conformancev1 "connectrpc.com/conformance/internal/gen/proto/go/connectrpc/conformance/v1"
	"connectrpc.com/conformance/internal/tracer"
	"connectrpc.com/conformance/internal/verifkit"
	"google.golang.org/protobuf/proto"
)

type vfTup struct {
	Ver    int  // 1,2,3
	Get    bool // HTTP method GET
	Proto  int  // 1 connect 2 grpc 3 grpc-web
	Codec  int  // 1 proto 2 json
	Comp   int  // 1..6
	TLS    bool
	Cert   bool
	Stream bool // Connect streaming content-type (actual side only)
}

var vfCompNames = []string{"", "identity", "gzip", "br", "zstd", "deflate", "snappy"}
var vfCodecNames = []string{"", "proto", "json"}

// vfSynth builds the request a conforming client of tuple a would send, plus
// the runner's expectation headers for tuple e.
// vfSpelling selects how the same request is written: 0 plain; 1 the identity encoding is stated explicitly;
// 2 the sub-format "+proto" is left out of gRPC / gRPC-Web content types (it is the default)
var vfSpelling int

func vfSynth(a, e vfTup, name string) *http.Request {
	method := "POST"
	if a.Get {
		method = "GET"
	}
	req := httptest.NewRequest(method, "/connectrpc.conformance.v1.ConformanceService/Unary", strings.NewReader(""))
	req.ProtoMajor = a.Ver
	if a.Get && a.Ver == 3 {
		// quic-go's HTTP/3 server does not know the length of a body-less request up front
		req.ContentLength = -1
	}
	h := req.Header
	if name != "" {
		h.Set("X-Test-Case-Name", name)
	}
	enc := func(hdr string) {
		if a.Comp != 1 {
			h.Set(hdr, vfCompNames[a.Comp])
		} else if vfSpelling == 1 {
			h.Set(hdr, "identity")
		}
	}
	bare := func(ct string) string {
		if vfSpelling == 2 && a.Codec == 1 {
			return strings.TrimSuffix(ct, "+proto")
		}
		return ct
	}
	switch {
	case a.Get:
		q := url.Values{"encoding": {vfCodecNames[a.Codec]}, "connect": {"v1"}, "message": {""}}
		if a.Comp != 1 {
			q.Set("compression", vfCompNames[a.Comp])
		} else if vfSpelling == 1 {
			q.Set("compression", "identity")
		}
		req.URL.RawQuery = q.Encode()
		req.Body = http.NoBody
	case a.Proto == 1 && !a.Stream:
		h.Set("Content-Type", "application/"+vfCodecNames[a.Codec])
		enc("Content-Encoding")
	case a.Proto == 1:
		h.Set("Content-Type", "application/connect+"+vfCodecNames[a.Codec])
		enc("Connect-Content-Encoding")
	case a.Proto == 2:
		h.Set("Content-Type", bare("application/grpc+"+vfCodecNames[a.Codec]))
		h.Set("Te", "trailers")
		enc("Grpc-Encoding")
	case a.Proto == 3:
		h.Set("Content-Type", bare("application/grpc-web+"+vfCodecNames[a.Codec]))
		enc("Grpc-Encoding")
	}
	if a.TLS {
		cs := &tls.ConnectionState{}
		if a.Cert {
			cs.PeerCertificates = []*x509.Certificate{{Subject: pkix.Name{CommonName: internal.ClientCertName}}}
		}
		req.TLS = cs
	} else {
		req.TLS = nil
	}
	vfExpectHeaders(h, e)
	return req
}

func vfExpectHeaders(h http.Header, e vfTup) {
	h.Set("X-Expect-Http-Version", fmt.Sprint(e.Ver))
	m := "POST"
	if e.Get {
		m = "GET"
	}
	h.Set("X-Expect-Http-Method", m)
	h.Set("X-Expect-Protocol", fmt.Sprint(e.Proto))
	h.Set("X-Expect-Codec", fmt.Sprint(e.Codec))
	h.Set("X-Expect-Compression", fmt.Sprint(e.Comp))
	h.Set("X-Expect-Tls", fmt.Sprint(e.TLS))
	if e.Cert {
		h.Set("X-Expect-Client-Cert", internal.ClientCertName)
	}
}

func vfAllTuples(realisable bool) []vfTup {
	var out []vfTup
	for ver := 1; ver <= 3; ver++ {
		for _, get := range []bool{false, true} {
			for pr := 1; pr <= 3; pr++ {
				for codec := 1; codec <= 2; codec++ {
					for comp := 1; comp <= 6; comp++ {
						for _, tl := range []bool{false, true} {
							for _, cert := range []bool{false, true} {
								if realisable && ((get && pr != 1) || (cert && !tl)) {
									continue
								}
								out = append(out, vfTup{Ver: ver, Get: get, Proto: pr, Codec: codec, Comp: comp, TLS: tl, Cert: cert})
							}
						}
					}
				}
			}
		}
	}
	return out
}

// vfAspect classifies a feedback line by the aspect it talks about.
func vfAspect(line string) string {
	l := strings.ToLower(line)
	switch {
	case strings.Contains(l, "client cert"):
		return "cert"
	case strings.Contains(l, "http version"):
		return "version"
	case strings.Contains(l, "http method"):
		return "method"
	case strings.Contains(l, "protocol"):
		return "protocol"
	case strings.Contains(l, "codec"):
		return "codec"
	case strings.Contains(l, "compression"):
		return "compression"
	case strings.Contains(l, "tls") || strings.Contains(l, "plain-text"):
		return "tls"
	case strings.Contains(l, "another request"):
		return "repeat"
	case strings.Contains(l, "trailers"):
		return "trailers"
	case strings.Contains(l, "timeout"):
		return "timeout"
	}
	return "other:" + strings.TrimSpace(line)
}

func vfWantAspects(a, e vfTup) map[string]bool {
	want := map[string]bool{}
	if a.Ver != e.Ver {
		want["version"] = true
	}
	if a.Get != e.Get {
		want["method"] = true
	}
	if a.Proto != e.Proto {
		want["protocol"] = true
	}
	if a.Codec != e.Codec {
		want["codec"] = true
	}
	if a.Comp != e.Comp {
		want["compression"] = true
	}
	if a.TLS != e.TLS {
		want["tls"] = true
	} else if a.TLS && a.Cert != e.Cert {
		want["cert"] = true
	}
	return want
}

func vfCompareAspects(rep *verifkit.Report, where string, a, e vfTup, name string, msgs []string, innerCalled bool, extraAllowed map[string]bool, alsoWanted ...string) {
	want := vfWantAspects(a, e)
	for _, k := range alsoWanted {
		want[k] = true
	}
	got := map[string]bool{}
	for _, m := range msgs {
		if !strings.HasPrefix(m, name+": ") {
			rep.Violation("checks/"+where+"/feedback-not-named", fmt.Sprintf("feedback line does not name the test case %q: %q", name, m), map[string]any{"actual": a, "expected": e})
		}
		got[vfAspect(strings.TrimPrefix(m, name+": "))] = true
	}
	w := map[string]any{"actual": a, "expected": e, "feedback": msgs}
	if !innerCalled {
		rep.Violation("checks/"+where+"/handler-not-invoked", "request with a test name was not passed to the handler", w)
	}
	for k := range want {
		if !got[k] {
			rep.Violation("checks/"+where+"/missed/"+k, fmt.Sprintf("request deviates in %s but no feedback mentions it", k), w)
		}
	}
	for k := range got {
		if !want[k] && !extraAllowed[k] {
			kk := k
			if strings.HasPrefix(kk, "other:") {
				kk = "other"
			}
			rep.Violation("checks/"+where+"/spurious/"+kk, fmt.Sprintf("feedback about %s although that aspect matches", k), w)
		}
	}
}

// TestVerifC12Matrix: full expected x actual matrix through the real
// referenceServerChecks middleware (synthesised requests).
func TestVerifC12Matrix(t *testing.T) {
	rep := verifkit.Begin("C12", "matrix", "every realisable actual tuple (3 HTTP versions x GET/POST x 3 protocols x 2 codecs x 6 compressions x TLS x client cert; GET only with Connect unary, cert only with TLS; Connect streaming content-types too) x all 864 expected tuples; feedback is compared both after the request and at the moment the RPC handler is entered (a request that never completes must have been reported by then); distinct = (actual, expected) pairs")
	defer rep.Write()
	acts, exps := vfAllTuples(true), vfAllTuples(false)
	for _, a := range acts {
		for _, stream := range []bool{false, true} {
			if stream && (a.Proto != 1 || a.Get) {
				continue
			}
			a.Stream = stream
			for ei, e := range exps {
				rep.Eval(1)
				vfSpelling = (ei + a.Ver + a.Comp) % 3
				rep.Count(fmt.Sprintf("spelling_%d", vfSpelling), 1)
				p := &internal.SimplePrinter{}
				called := false
				var atEntry []string // what had been reported when the RPC handler was entered: a request that stays open (or never ends) has been reported by then
				h := referenceServerChecks(http.HandlerFunc(func(http.ResponseWriter, *http.Request) {
					called = true
					atEntry = append([]string{}, p.Messages...)
				}), p)
				rep.InFlight(map[string]any{"actual": a, "expected": e})
				if pn := verifkit.Catch(func() { h(httptest.NewRecorder(), vfSynth(a, e, "Suite/T")) }); pn != nil {
					rep.Violation("checks/panic/"+pn.Site, pn.Value, map[string]any{"actual": a, "expected": e, "stack": pn.Stack})
					continue
				}
				if len(vfWantAspects(a, e)) == 0 {
					rep.Count("conforming_pairs", 1)
				} else {
					rep.Count("deviating_pairs", 1)
				}
				vfCompareAspects(rep, "matrix", a, e, "Suite/T", p.Messages, called, nil)
				if called && len(vfWantAspects(a, e)) > 0 {
					vfCompareAspects(rep, "matrix-while-the-request-is-open", a, e, "Suite/T", atEntry, called, nil)
					rep.Count("deviating_pairs_checked_while_open", 1)
				}
			}
		}
	}
	vfSpelling = 0
	rep.Distinct = rep.Evaluations
	rep.Exhaustive = true
	rep.Sample(map[string]any{"actual": vfTup{Ver: 2, Proto: 2, Codec: 1, Comp: 2}, "expected": vfTup{Ver: 2, Proto: 2, Codec: 2, Comp: 2}, "want_feedback": []string{"codec"}})
	rep.RequireMin("conforming_pairs", 400)

	// repeat / trailers / missing name
	p := &internal.SimplePrinter{}
	calls := 0
	h := referenceServerChecks(http.HandlerFunc(func(http.ResponseWriter, *http.Request) { calls++ }), p)
	a := vfTup{Ver: 1, Proto: 1, Codec: 1, Comp: 1}
	for i := 1; i <= 3; i++ {
		before := len(p.Messages)
		h(httptest.NewRecorder(), vfSynth(a, a, "Suite/Rep"))
		h(httptest.NewRecorder(), vfSynth(a, a, fmt.Sprintf("Suite/Other%d", i)))
		got := p.Messages[before:]
		rep.Eval(1)
		if i == 1 && len(got) != 0 {
			rep.Violation("checks/repeat/spurious", fmt.Sprintf("first request of a test flagged: %q", got), nil)
		}
		if i > 1 {
			ok := false
			for _, m := range got {
				if strings.HasPrefix(m, "Suite/Rep: ") && vfAspect(m) == "repeat" {
					ok = true
				}
			}
			if !ok {
				rep.Violation("checks/repeat/missed", fmt.Sprintf("request #%d of the same test not flagged: %q", i, got), nil)
			}
		}
	}
	// request trailers
	p = &internal.SimplePrinter{}
	h = referenceServerChecks(http.HandlerFunc(func(http.ResponseWriter, *http.Request) {}), p)
	r := vfSynth(a, a, "Suite/Trailers")
	r.Trailer = http.Header{"X-Tr": {"v"}}
	h(httptest.NewRecorder(), r)
	rep.Eval(1)
	okTr := false
	for _, m := range p.Messages {
		if strings.HasPrefix(m, "Suite/Trailers: ") && vfAspect(m) == "trailers" {
			okTr = true
		}
	}
	if !okTr {
		rep.Violation("checks/trailers/missed", fmt.Sprintf("request trailers not flagged: %q", p.Messages), nil)
	}
	// no test name: rejected outright, handler not invoked
	for _, tp := range []vfTup{a, {Ver: 2, Proto: 2, Codec: 1, Comp: 1}, {Ver: 2, Proto: 3, Codec: 2, Comp: 2, TLS: true}} {
		p = &internal.SimplePrinter{}
		called := false
		h = referenceServerChecks(http.HandlerFunc(func(http.ResponseWriter, *http.Request) { called = true }), p)
		for _, blank := range []string{"absent", "present-but-empty", "two-empty-values"} {
			called = false
			p.Messages = nil
			rec := httptest.NewRecorder()
			nreq := vfSynth(tp, tp, "")
			switch blank {
			case "present-but-empty":
				nreq.Header["X-Test-Case-Name"] = []string{""}
			case "two-empty-values":
				nreq.Header["X-Test-Case-Name"] = []string{"", ""}
			}
			h(rec, nreq)
			rep.Eval(1)
			rep.Count("noname_requests:"+blank, 1)
			body := rec.Body.String()
			isErr := rec.Code >= 400 || strings.Contains(body, "invalid_argument") || rec.Header().Get("Grpc-Status") != "" && rec.Header().Get("Grpc-Status") != "0" || strings.Contains(body, "grpc-status: 3")
			if called {
				rep.Violation("checks/noname/handler-invoked", "request without a test name reached the handler", map[string]any{"actual": tp, "test_name_header": blank})
			}
			if !isErr {
				rep.Violation("checks/noname/not-rejected", fmt.Sprintf("request without a test name not answered with an error: status %d headers %v body %q", rec.Code, rec.Header(), body), map[string]any{"actual": tp, "test_name_header": blank})
			}
			if len(p.Messages) > 0 {
				rep.Violation("checks/noname/feedback-without-a-name", fmt.Sprintf("request without a test name produced feedback: %q", p.Messages), map[string]any{"actual": tp, "test_name_header": blank})
			}
		}
	}
}

var (
	vfConnectTimeoutRE = regexp.MustCompile(`^[0-9]{1,10}$`)
	vfGRPCTimeoutRE    = regexp.MustCompile(`^[0-9]{1,8}[HMSmun]$`)
)

// vfTimeoutModel: grammar + exact conversion, saturating at MaxInt64 ns.
func vfTimeoutModel(protocol int, s string) (time.Duration, bool) {
	n := new(big.Int)
	mult := big.NewInt(int64(time.Millisecond))
	if protocol == 1 {
		if !vfConnectTimeoutRE.MatchString(s) {
			return 0, false
		}
		n.SetString(s, 10)
	} else {
		if !vfGRPCTimeoutRE.MatchString(s) {
			return 0, false
		}
		n.SetString(s[:len(s)-1], 10)
		switch s[len(s)-1] {
		case 'H':
			mult = big.NewInt(int64(time.Hour))
		case 'M':
			mult = big.NewInt(int64(time.Minute))
		case 'S':
			mult = big.NewInt(int64(time.Second))
		case 'm':
			mult = big.NewInt(int64(time.Millisecond))
		case 'u':
			mult = big.NewInt(int64(time.Microsecond))
		case 'n':
			mult = big.NewInt(1)
		}
	}
	n.Mul(n, mult)
	if n.Cmp(big.NewInt(math.MaxInt64)) > 0 {
		return time.Duration(math.MaxInt64), true
	}
	return time.Duration(n.Int64()), true
}

// TestVerifC12Timeout: a timeout header is accepted exactly when grammatical,
// converted exactly, removed from what the handler sees, and echoed.
func TestVerifC12Timeout(t *testing.T) {
	rep := verifkit.Begin("C12", "timeout", "timeout header strings x {Connect, gRPC, gRPC-Web}: all strings up to length 3 over {0,1,9,+,-,space,H,M,S,m,u,n,x}, every length 1-12 of 9..9 / 0..01 / 10..0 with every unit, hour-overflow boundaries, seeded random digit strings with signs/units; distinct = (protocol, string)")
	defer rep.Write()
	check := func(protocol int, s string) {
		rep.Eval(1)
		rep.DistinctKey(protocol, s)
		a := vfTup{Ver: 2, Proto: protocol, Codec: 1, Comp: 1, Stream: true}
		req := vfSynth(a, a, "Suite/Timeout")
		hdr := "Grpc-Timeout"
		if protocol == 1 {
			hdr = "Connect-Timeout-Ms"
		}
		req.Header[hdr] = []string{s}
		p := &internal.SimplePrinter{}
		var seenHdr []string
		var ctxTimeout time.Duration
		var ctxHas bool
		var echoed *int64
		h := referenceServerChecks(http.HandlerFunc(func(_ http.ResponseWriter, r *http.Request) {
			seenHdr = r.Header.Values(hdr)
			ctxTimeout, ctxHas = timeoutFromContext(r.Context())
			// what the RPC handlers put into the response's RequestInfo
			echoed = createRequestInfo(r.Context(), r.Header, nil, nil).TimeoutMs
		}), p)
		w := map[string]any{"protocol": protocol, "header": hdr, "value": s}
		rep.InFlight(w)
		if pn := verifkit.Catch(func() { h(httptest.NewRecorder(), req) }); pn != nil {
			rep.Violation("timeout/panic/"+pn.Site, pn.Value, w)
			return
		}
		want, ok := vfTimeoutModel(protocol, s)
		flagged := false
		for _, m := range p.Messages {
			if vfAspect(m) == "timeout" || strings.Contains(m, hdr) {
				flagged = true
			} else {
				rep.Violation("timeout/unrelated-feedback", fmt.Sprintf("unrelated feedback %q", m), w)
			}
		}
		w["feedback"] = p.Messages
		w["model_accepts"] = ok
		if len(seenHdr) != 0 {
			rep.Violation("timeout/not-removed", fmt.Sprintf("handler still sees %s: %q", hdr, seenHdr), w)
		}
		cls := vfTimeoutClass(s)
		switch {
		case ok && (flagged || !ctxHas):
			rep.Count("grammatical", 1)
			rep.Violation("timeout/rejected-valid/"+cls, fmt.Sprintf("grammatical %s value %q rejected (feedback=%v, recorded=%v)", hdr, s, p.Messages, ctxHas), w)
		case ok:
			rep.Count("grammatical", 1)
			if ctxTimeout != want {
				rep.Violation("timeout/wrong-duration/"+cls, fmt.Sprintf("%s %q converted to %d ns, exact value is %d ns", hdr, s, int64(ctxTimeout), int64(want)), w)
			}
			if echoed == nil {
				rep.Violation("timeout/not-echoed/"+cls, fmt.Sprintf("%s %q was accepted but RequestInfo carries no timeout_ms (want %d)", hdr, s, want.Milliseconds()), w)
			} else if *echoed != want.Milliseconds() {
				rep.Violation("timeout/wrong-echo/"+cls, fmt.Sprintf("echoed timeout_ms %d want %d", *echoed, want.Milliseconds()), w)
			}
		case !ok && (ctxHas || echoed != nil):
			rep.Count("ungrammatical", 1)
			rep.Violation("timeout/accepted-invalid/"+cls, fmt.Sprintf("ungrammatical %s value %q accepted as %v", hdr, s, ctxTimeout), w)
		default:
			rep.Count("ungrammatical", 1)
			if !flagged {
				rep.Violation("timeout/invalid-not-flagged/"+cls, fmt.Sprintf("ungrammatical %s value %q produced no feedback", hdr, s), w)
			}
		}
	}
	alpha := []string{"0", "1", "9", "+", "-", " ", "H", "M", "S", "m", "u", "n", "x"}
	var rec func(cur string, depth int)
	var all []string
	rec = func(cur string, depth int) {
		if cur != "" {
			all = append(all, cur)
		}
		if depth == 3 {
			return
		}
		for _, a := range alpha {
			rec(cur+a, depth+1)
		}
	}
	rec("", 0)
	all = append(all, "")
	units := []string{"", "H", "M", "S", "m", "u", "n"}
	for l := 1; l <= 12; l++ {
		for _, u := range units {
			all = append(all, strings.Repeat("9", l)+u, strings.Repeat("0", l-1)+"1"+u, "1"+strings.Repeat("0", l-1)+u, strings.Repeat("0", l)+u)
		}
	}
	for _, v := range []string{"2562047", "2562048", "2562049", "5124095", "5124096", "6000000", "99999999", "10000000", "153722867", "153722868", "9223372036", "9223372037", "9223372036854", "9223372036855", "9223372036854775807", "9223372036854775808", "18446744073709551616"} {
		for _, u := range units {
			all = append(all, v+u)
		}
	}
	rng := verifkit.Stream("c12timeout")
	nr := verifkit.Scale(60000, 4000000)
	for i := 0; i < nr; i++ {
		l := 1 + rng.Intn(12)
		var sb strings.Builder
		if rng.Chance(1, 12) {
			sb.WriteString(verifkit.Pick(rng, []string{"+", "-", " ", "0x"}))
		}
		for j := 0; j < l; j++ {
			sb.WriteByte(byte('0' + rng.Intn(10)))
		}
		if rng.Chance(1, 30) {
			sb.WriteString(verifkit.Pick(rng, []string{" ", ".", "e3", "_"}))
		}
		sb.WriteString(verifkit.Pick(rng, units))
		if rng.Chance(1, 40) {
			sb.WriteString(verifkit.Pick(rng, []string{"s", "h", "µ", " "}))
		}
		all = append(all, sb.String())
	}
	for _, s := range all {
		for pr := 1; pr <= 3; pr++ {
			check(pr, s)
		}
	}
	rep.Sample(map[string]any{"protocol": "gRPC", "Grpc-Timeout": "2562048H", "model": "accepted, saturates to MaxInt64 ns"})
	rep.Sample(map[string]any{"protocol": "Connect", "Connect-Timeout-Ms": "+5", "model": "rejected (not digits only)"})
	rep.RequireMin("grammatical", 1000)
	rep.RequireMin("ungrammatical", 1000)
}

func vfTimeoutClass(s string) string {
	switch {
	case s == "":
		return "empty"
	case strings.HasPrefix(s, "+"):
		return "plus-sign"
	case strings.HasPrefix(s, "-"):
		return "minus-sign"
	case strings.ContainsAny(s, " "):
		return "space"
	}
	digits := strings.TrimRight(s, "HMSmun")
	allDigits := digits != ""
	for _, c := range digits {
		if c < '0' || c > '9' {
			allDigits = false
		}
	}
	if allDigits {
		switch {
		case len(digits) > 10:
			return "digits>10"
		case len(digits) > 8:
			return "digits9-10"
		}
		return "digits<=8"
	}
	return "other"
}

// TestVerifC12Wire: real reference server over HTTP/1.1, h2c, TLS and mTLS;
// a plain HTTP client sends conforming and deviating Connect unary requests;
// stderr lines are the observation.
func TestVerifC12Wire(t *testing.T) {
	rep := verifkit.Begin("C12", "wire", "real RunInReferenceMode servers on {HTTP/1.1, h2c, HTTP/1.1+TLS, h2+TLS, h2+mTLS presenting a certificate}; each with and without a wire tracer; plain net/http client sends a Connect unary request (also the BidiStream procedure, and requests with HTTP trailers) conforming to actual tuple, expectation headers range over single-aspect deviations (thorough: random expected tuples too); distinct = (transport, expected tuple)")
	defer rep.Write()
	body, _ := proto.Marshal(&conformancev1.UnaryRequest{})
	type transport struct {
		name               string
		ver                int
		tls, mtls, present bool
		traced             bool
	}
	transports := []transport{{"h1", 1, false, false, false, false}, {"h2c", 2, false, false, false, false}, {"h1-tls", 1, true, false, false, false}, {"h2-tls", 2, true, false, false, false}, {"h2-mtls-cert", 2, true, true, true, false}}
	rng := verifkit.Stream("c12wire")
	var runs []transport
	for _, tr := range transports {
		runs = append(runs, tr)
		traced := tr
		traced.name += "+tracer"
		traced.traced = true
		runs = append(runs, traced)
	}
	for _, tr := range runs {
		// the real server runs with or without a wire tracer (the runner's --trace); the checks must not care
		vfServerTracer = nil
		if tr.traced {
			vfServerTracer = &tracer.Tracer{}
		}
		sreq := &conformancev1.ServerCompatRequest{Protocol: conformancev1.Protocol_PROTOCOL_CONNECT, HttpVersion: conformancev1.HTTPVersion(tr.ver), UseTls: tr.tls}
		if tr.mtls {
			sreq.ClientTlsCert = []byte("?")
		}
		srv, err := vfStartServer(sreq, true)
		if err != nil {
			rep.Inconcl("cannot start reference server for " + tr.name + ": " + err.Error())
			continue
		}
		client, base, err := srv.Client(tr.ver, tr.tls, tr.present)
		if err != nil {
			rep.Inconcl(err.Error())
			srv.Stop()
			continue
		}
		a := vfTup{Ver: tr.ver, Proto: 1, Codec: 1, Comp: 1, TLS: tr.tls, Cert: tr.present}
		var exps []vfTup
		exps = append(exps, a)
		for _, mod := range []func(*vfTup){
			func(e *vfTup) { e.Ver = e.Ver%3 + 1 }, func(e *vfTup) { e.Get = true }, func(e *vfTup) { e.Proto = 2 }, func(e *vfTup) { e.Proto = 3 },
			func(e *vfTup) { e.Codec = 2 }, func(e *vfTup) { e.Comp = 2 }, func(e *vfTup) { e.Comp = 6 }, func(e *vfTup) { e.TLS = !e.TLS; e.Cert = false },
			func(e *vfTup) { e.Cert = !e.Cert },
		} {
			e := a
			mod(&e)
			exps = append(exps, e)
		}
		all := vfAllTuples(false)
		for k := verifkit.Scale(6, 120); k > 0; k-- {
			exps = append(exps, verifkit.Pick(rng, all))
		}
		for i, e := range exps {
			for _, kind := range []string{"unary", "bidi", "trailers"} {
				if kind == "trailers" && i%3 != 0 {
					continue
				}
				// test-case names are free text: percent signs, format verbs, colons
				name := fmt.Sprintf("Wire/%s/%d/%s", tr.name, i, kind) + []string{"", " 100%", " %d %s %v", " a: b", " %", "%%/x", " %!s(MISSING)"}[i%7]
				hreq, _ := http.NewRequest("POST", base+"/connectrpc.conformance.v1.ConformanceService/Unary", bytes.NewReader(body))
				hreq.Header.Set("Content-Type", "application/proto")
				var alsoWanted []string
				switch kind {
				case "bidi":
					// the bidi procedure (the server has a shim that presents HTTP/1.1 bidi requests as HTTP/2 to the RPC library)
					bidi, _ := proto.Marshal(&conformancev1.BidiStreamRequest{})
					env := append([]byte{0, 0, 0, 0, byte(len(bidi))}, bidi...)
					hreq, _ = http.NewRequest("POST", base+"/connectrpc.conformance.v1.ConformanceService/BidiStream", bytes.NewReader(env))
					hreq.Header.Set("Content-Type", "application/connect+proto")
					rep.Count("wire_bidi_procedure", 1)
				case "trailers":
					// request trailers are never expected
					hreq, _ = http.NewRequest("POST", base+"/connectrpc.conformance.v1.ConformanceService/Unary", io.NopCloser(bytes.NewReader(body)))
					hreq.Header.Set("Content-Type", "application/proto")
					hreq.ContentLength = -1
					hreq.Trailer = http.Header{"X-Request-Trailer": {"sent"}}
					alsoWanted = append(alsoWanted, "trailers")
					rep.Count("wire_request_trailers", 1)
				}
				hreq.Header.Set("X-Test-Case-Name", name)
				vfExpectHeaders(hreq.Header, e)
				before := len(srv.stderr.Lines())
				resp, err := client.Do(hreq)
				rep.Eval(1)
				rep.DistinctKey(tr.name, e, kind)
				if err != nil {
					rep.Inconcl(fmt.Sprintf("%s: request failed: %v", name, err))
					continue
				}
				_, _ = io.Copy(io.Discard, resp.Body)
				resp.Body.Close()
				time.Sleep(2 * time.Millisecond)
				lines := srv.stderr.Lines()[before:]
				var mine []string
				for _, l := range lines {
					if strings.HasPrefix(l, name+": ") {
						mine = append(mine, l)
					} else {
						rep.Count("stderr_other_lines", 1)
					}
				}
				sort.Strings(mine)
				if len(vfWantAspects(a, e)) == 0 {
					rep.Count("wire_conforming", 1)
				} else {
					rep.Count("wire_deviating", 1)
				}
				if resp.ProtoMajor != tr.ver {
					rep.Inconcl(fmt.Sprintf("%s: client spoke HTTP/%d instead of %d", name, resp.ProtoMajor, tr.ver))
					continue
				}
				vfCompareAspects(rep, "wire-"+tr.name+"-"+kind, a, e, name, mine, true, nil, alsoWanted...)
			}
		}
		srv.Stop()
	}
	rep.Sample(map[string]any{"transport": "h2-tls", "expected": "client cert", "want_feedback": []string{"cert"}})
	vfServerTracer = nil
	rep.RequireMin("wire_bidi_procedure", 10)
	rep.RequireMin("wire_request_trailers", 10)
	rep.RequireMin("wire_conforming", 5)
	rep.RequireMin("wire_deviating", 40)
}

type vfLockedPrinter struct {
	mu    sync.Mutex
	lines []string
}

func (l *vfLockedPrinter) Printf(msg string, args ...any) {
	l.mu.Lock()
	l.lines = append(l.lines, fmt.Sprintf(msg, args...))
	l.mu.Unlock()
}

func (l *vfLockedPrinter) PrefixPrintf(prefix, msg string, args ...any) {
	l.mu.Lock()
	l.lines = append(l.lines, prefix+": "+fmt.Sprintf(msg, args...))
	l.mu.Unlock()
}

// TestVerifC12RepeatConcurrent: repeated requests for one test case are
// numbered without gaps or duplicates when they arrive at the same time.
func TestVerifC12RepeatConcurrent(t *testing.T) {
	rep := verifkit.Begin("C12", "repeat-concurrent", "one referenceServerChecks middleware (as in the real server); for each of N test-case names, k in 2..8 otherwise conformant requests released together by a barrier from k goroutines, several names in flight at once; oracle: per name exactly the feedback lines #2..#k, each once, and no other feedback; distinct = (name, k)")
	defer rep.Write()
	p := &vfLockedPrinter{}
	h := referenceServerChecks(http.HandlerFunc(func(http.ResponseWriter, *http.Request) {}), p)
	n := verifkit.Scale(400, 6000)
	a := vfTup{Ver: 2, Proto: 1, Codec: 1, Comp: 1, Stream: true}
	ks := make([]int, n)
	var wg sync.WaitGroup
	sem := make(chan struct{}, 8) // names in flight at once
	for i := 0; i < n; i++ {
		k := 2 + i%7
		ks[i] = k
		name := fmt.Sprintf("Repeat/concurrent/%d", i)
		sem <- struct{}{}
		wg.Add(1)
		go func() {
			defer wg.Done()
			defer func() { <-sem }()
			var ready, inner sync.WaitGroup
			start := make(chan struct{})
			for g := 0; g < k; g++ {
				req := vfSynth(a, a, name)
				ready.Add(1)
				inner.Add(1)
				go func() {
					defer inner.Done()
					ready.Done()
					<-start
					h(httptest.NewRecorder(), req)
				}()
			}
			ready.Wait()
			close(start)
			inner.Wait()
		}()
	}
	wg.Wait()
	perName := map[string]map[string]int{}
	for _, l := range p.lines {
		parts := strings.SplitN(l, ": ", 2)
		if len(parts) != 2 {
			continue
		}
		if perName[parts[0]] == nil {
			perName[parts[0]] = map[string]int{}
		}
		perName[parts[0]][strings.TrimSpace(parts[1])]++
	}
	for i := 0; i < n; i++ {
		name := fmt.Sprintf("Repeat/concurrent/%d", i)
		rep.Eval(1)
		rep.DistinctKey(name, ks[i])
		got := perName[name]
		w := map[string]any{"name": name, "simultaneous_requests": ks[i], "feedback": got}
		bad := ""
		for j := 2; j <= ks[i]; j++ {
			line := fmt.Sprintf("client sent another request (#%d) for the same test case", j)
			if got[line] != 1 {
				bad = fmt.Sprintf("%q printed %d times, want once", line, got[line])
				break
			}
		}
		if bad == "" && len(got) != ks[i]-1 {
			bad = fmt.Sprintf("%d distinct feedback lines, want %d", len(got), ks[i]-1)
		}
		if bad != "" {
			rep.Violation("checks/repeat-concurrent/miscounted", fmt.Sprintf("%d simultaneous requests for %s: %s", ks[i], name, bad), w)
		} else {
			rep.Count("names_counted_exactly", 1)
		}
	}
	rep.Sample(map[string]any{"name": "Repeat/concurrent/5", "simultaneous_requests": 7, "expect": "#2 #3 #4 #5 #6 #7, each once"})
	rep.RequireMin("names_counted_exactly", 1)
}

type vfLockedBuf struct {
	mu sync.Mutex
	b  bytes.Buffer
}

func (l *vfLockedBuf) Write(p []byte) (int, error) {
	l.mu.Lock()
	defer l.mu.Unlock()
	return l.b.Write(p)
}

// TestVerifC12PrinterConcurrent: feedback from many requests at once, through
// the printer the real server uses (internal.NewPrinter): every line still
// names its own test case.
func TestVerifC12PrinterConcurrent(t *testing.T) {
	rep := verifkit.Begin("C12", "printer-concurrent", "referenceServerChecks writing through internal.NewPrinter (the server's stderr printer); 16 goroutines x 150 requests, each with its own test-case name and exactly two deviating aspects (codec and compression); oracle: the output consists of whole lines '<name>: <message>', each name appears on exactly two lines (one per aspect); distinct = request")
	defer rep.Write()
	out := &vfLockedBuf{}
	h := referenceServerChecks(http.HandlerFunc(func(http.ResponseWriter, *http.Request) {}), internal.NewPrinter(out))
	const workers, per = 16, 150
	var wg sync.WaitGroup
	start := make(chan struct{})
	for g := 0; g < workers; g++ {
		wg.Add(1)
		go func(g int) {
			defer wg.Done()
			<-start
			for i := 0; i < per; i++ {
				a := vfTup{Ver: 2, Proto: 1, Codec: 1, Comp: 1, Stream: true}
				e := a
				e.Codec, e.Comp = 2, 2
				h(httptest.NewRecorder(), vfSynth(a, e, fmt.Sprintf("Printer/worker %d/request %d", g, i)))
			}
		}(g)
	}
	close(start)
	wg.Wait()
	out.mu.Lock()
	text := out.b.String()
	out.mu.Unlock()
	perName := map[string][]string{}
	bad := 0
	for _, line := range strings.Split(strings.TrimSuffix(text, "\n"), "\n") {
		parts := strings.SplitN(line, ": ", 2)
		if len(parts) != 2 || !strings.HasPrefix(parts[0], "Printer/worker ") || strings.Contains(parts[1], "Printer/worker ") {
			bad++
			if bad <= 3 {
				rep.Violation("checks/printer/garbled-line", fmt.Sprintf("feedback line is not of the form '<name>: <message>': %q", verifkit.Trunc(line, 200)), nil)
			}
			continue
		}
		perName[parts[0]] = append(perName[parts[0]], vfAspect(parts[1]))
	}
	for g := 0; g < workers; g++ {
		for i := 0; i < per; i++ {
			name := fmt.Sprintf("Printer/worker %d/request %d", g, i)
			rep.Eval(1)
			rep.DistinctKey(name)
			got := perName[name]
			sort.Strings(got)
			if strings.Join(got, ",") != "codec,compression" {
				rep.Violation("checks/printer/feedback-misattributed", fmt.Sprintf("%q deviates in codec and compression; the lines carrying its name talk about %q", name, got), nil)
			} else {
				rep.Count("printer_names_ok", 1)
			}
		}
	}
	rep.Sample(map[string]any{"concurrent_requests": workers * per, "expect": "two whole lines per name"})
	rep.RequireMin("printer_names_ok", 1)
}
