//go:build verif

package referenceserver

import (
	"bytes"
	"context"
	"crypto/tls"
	"crypto/x509"
	"fmt"
	"io"
	"net"
	"net/http"
	"strings"
	"sync"
	"time"

	"connectrpc.com/conformance/internal"
	"connectrpc.com/conformance/internal/tracer"
	conformancev1 "connectrpc.com/conformance/internal/gen/proto/go/connectrpc/conformance/v1"
	"golang.org/x/net/http2"
)

// vfServer is a real reference server (RunInReferenceMode) started through
// the same pipes the runner uses.
type vfServer struct {
	Addr    string
	PemCert []byte
	stderr  *vfSyncBuf
	cancel  context.CancelFunc
	done    chan error
	ClientCert, ClientKey []byte
}

type vfSyncBuf struct {
	mu sync.Mutex
	b  bytes.Buffer
}

func (s *vfSyncBuf) Write(p []byte) (int, error) {
	s.mu.Lock()
	defer s.mu.Unlock()
	return s.b.Write(p)
}
func (s *vfSyncBuf) Close() error { return nil }
func (s *vfSyncBuf) String() string {
	s.mu.Lock()
	defer s.mu.Unlock()
	return s.b.String()
}
func (s *vfSyncBuf) Lines() []string {
	var out []string
	for _, l := range strings.Split(s.String(), "\n") {
		if strings.TrimSpace(l) != "" {
			out = append(out, l)
		}
	}
	return out
}

type vfNopWriteCloser struct{ io.Writer }

func (vfNopWriteCloser) Close() error { return nil }

// vfServerTracer, when set, is handed to the next reference server started in reference mode.
var vfServerTracer *tracer.Tracer

func vfStartServer(req *conformancev1.ServerCompatRequest, referenceMode bool) (*vfServer, error) {
	s := &vfServer{stderr: &vfSyncBuf{}, done: make(chan error, 1)}
	if req.UseTls {
		cert, key, err := internal.NewServerCert()
		if err != nil {
			return nil, err
		}
		req.ServerCreds = &conformancev1.TLSCreds{Cert: cert, Key: key}
		if len(req.ClientTlsCert) == 1 && req.ClientTlsCert[0] == '?' {
			cc, ck, err := internal.NewClientCert()
			if err != nil {
				return nil, err
			}
			req.ClientTlsCert = cc
			s.ClientCert, s.ClientKey = cc, ck
		}
	}
	var in bytes.Buffer
	if err := internal.NewCodec(false).NewEncoder(&in).Encode(req); err != nil {
		return nil, err
	}
	inR, inW := io.Pipe()
	go func() { _, _ = inW.Write(in.Bytes()) }() // keep stdin open like the runner does
	outR, outW := io.Pipe()
	ctx, cancel := context.WithCancel(context.Background())
	s.cancel = func() { cancel(); _ = inW.Close() }
	tr := vfServerTracer
	go func() {
		var err error
		args := []string{"referenceserver", "-port", "0", "-bind", "127.0.0.1"}
		if referenceMode {
			err = RunInReferenceMode(ctx, args, inR, outW, s.stderr, tr)
		} else {
			err = Run(ctx, args, inR, outW, s.stderr)
		}
		_ = outW.CloseWithError(io.EOF)
		s.done <- err
	}()
	resp := &conformancev1.ServerCompatResponse{}
	errc := make(chan error, 1)
	go func() { errc <- internal.NewCodec(false).NewDecoder(outR).DecodeNext(resp) }()
	select {
	case err := <-errc:
		if err != nil {
			s.cancel()
			return nil, fmt.Errorf("server did not answer: %w (stderr %q)", err, s.stderr.String())
		}
	case <-time.After(20 * time.Second):
		s.cancel()
		return nil, fmt.Errorf("server start timed out")
	}
	go func() { _, _ = io.Copy(io.Discard, outR) }()
	s.Addr = net.JoinHostPort(resp.Host, fmt.Sprint(resp.Port))
	s.PemCert = resp.PemCert
	return s, nil
}

func (s *vfServer) Stop() {
	s.cancel()
	select {
	case <-s.done:
	case <-time.After(15 * time.Second):
	}
}

func (s *vfServer) tlsConfig(withClientCert bool, alpn ...string) (*tls.Config, error) {
	pool := x509.NewCertPool()
	if !pool.AppendCertsFromPEM(s.PemCert) {
		return nil, fmt.Errorf("server returned no usable certificate")
	}
	conf := &tls.Config{RootCAs: pool, NextProtos: alpn, MinVersion: tls.VersionTLS12}
	if withClientCert {
		pair, err := tls.X509KeyPair(s.ClientCert, s.ClientKey)
		if err != nil {
			return nil, err
		}
		conf.Certificates = []tls.Certificate{pair}
	}
	return conf, nil
}

// Client returns a plain net/http client for the given HTTP version (1 or 2).
func (s *vfServer) Client(version int, useTLS, withClientCert bool) (*http.Client, string, error) {
	scheme := "http"
	if useTLS {
		scheme = "https"
	}
	base := scheme + "://" + s.Addr
	switch {
	case version == 1 && !useTLS:
		return &http.Client{Transport: &http.Transport{DisableCompression: true}}, base, nil
	case version == 1:
		conf, err := s.tlsConfig(withClientCert, "http/1.1")
		if err != nil {
			return nil, "", err
		}
		return &http.Client{Transport: &http.Transport{TLSClientConfig: conf, DisableCompression: true, ForceAttemptHTTP2: false}}, base, nil
	case !useTLS:
		return &http.Client{Transport: &http2.Transport{AllowHTTP: true, DisableCompression: true,
			DialTLSContext: func(ctx context.Context, network, addr string, _ *tls.Config) (net.Conn, error) {
				var d net.Dialer
				return d.DialContext(ctx, network, addr)
			}}}, base, nil
	default:
		conf, err := s.tlsConfig(withClientCert, "h2")
		if err != nil {
			return nil, "", err
		}
		return &http.Client{Transport: &http2.Transport{TLSClientConfig: conf, DisableCompression: true}}, base, nil
	}
}

func vfExpectHeadersC20(h http.Header, ver, comp int) {
	h.Set("X-Expect-Http-Version", fmt.Sprint(ver))
	h.Set("X-Expect-Http-Method", "POST")
	h.Set("X-Expect-Protocol", "1")
	h.Set("X-Expect-Codec", "1")
	h.Set("X-Expect-Compression", fmt.Sprint(comp))
	h.Set("X-Expect-Tls", "false")
}
