//go:build verif

package referenceserver

import (
	"bytes"
	"context"
	"encoding/binary"
	"errors"
	"fmt"
	"io"
	"net/http"
	"strings"
	"testing"
	"time"

	"connectrpc.com/conformance/internal/compression"
	conformancev1 "connectrpc.com/conformance/internal/gen/proto/go/connectrpc/conformance/v1"
	"connectrpc.com/conformance/internal/gen/proto/go/connectrpc/conformance/v1/conformancev1connect"
	"connectrpc.com/conformance/internal/verifkit"
	"connectrpc.com/connect"
	"google.golang.org/protobuf/proto"
)

func vfCompressionOpts(comp string) []connect.ClientOption {
	switch comp {
	case compression.Gzip:
		return []connect.ClientOption{connect.WithSendGzip()}
	case compression.Brotli:
		return []connect.ClientOption{connect.WithAcceptCompression(comp, compression.NewBrotliDecompressor, compression.NewBrotliCompressor), connect.WithSendCompression(comp)}
	case compression.Zstd:
		return []connect.ClientOption{connect.WithAcceptCompression(comp, compression.NewZstdDecompressor, compression.NewZstdCompressor), connect.WithSendCompression(comp)}
	case compression.Deflate:
		return []connect.ClientOption{connect.WithAcceptCompression(comp, compression.NewDeflateDecompressor, compression.NewDeflateCompressor), connect.WithSendCompression(comp)}
	case compression.Snappy:
		return []connect.ClientOption{connect.WithAcceptCompression(comp, compression.NewSnappyDecompressor, compression.NewSnappyCompressor), connect.WithSendCompression(comp)}
	}
	return nil
}

// vfPayloadFor returns request_data such that a message {request_data} has
// exactly size serialized bytes (nil if unreachable).
func vfPayloadFor(size int, zero bool, mk func([]byte) proto.Message) []byte {
	for _, guess := range []int{size - 2, size - 3, size - 4, size - 5} {
		if guess < 0 {
			continue
		}
		d := make([]byte, guess)
		if !zero {
			x := uint32(2463534242)
			for i := range d {
				x ^= x << 13
				x ^= x >> 17
				x ^= x << 5
				d[i] = byte(x)
			}
		}
		if proto.Size(mk(d)) == size {
			return d
		}
	}
	return nil
}

// TestVerifC19ServerSharp: the reference server accepts exactly the limit and
// rejects one byte more with resource_exhausted, on the uncompressed size.
func TestVerifC19ServerSharp(t *testing.T) {
	rep := verifkit.Begin("C19", "server-sharp", "real reference server (h2c) with MessageReceiveLimit L in {64, 4096, 204800, 1048576}; connect-go client (third-party, no limit) sends unary and client-stream messages (the latter after a small first message that does or does not configure an error response) of exactly L-1, L, L+1 serialized bytes x {Connect, gRPC, gRPC-Web} x 6 compressions x {all-zero, incompressible} padding; plus full-duplex bidi streams with the sized request at every position up to one past the configured responses, and long client streams (16, 17, 40 messages of exactly L, many small ones; last message at L or L+1); oracle: <= L accepted and echoed, L+1 resource_exhausted, per message; distinct = (limit, protocol, compression, padding, delta, rpc)")
	defer rep.Write()
	for _, L := range []int{64, 4096, 200 * 1024, 1 << 20} {
		srv, err := vfStartServer(&conformancev1.ServerCompatRequest{Protocol: conformancev1.Protocol_PROTOCOL_CONNECT, HttpVersion: conformancev1.HTTPVersion_HTTP_VERSION_2, MessageReceiveLimit: uint32(L)}, true)
		if err != nil {
			rep.Inconcl("cannot start server: " + err.Error())
			continue
		}
		httpc, base, _ := srv.Client(2, false, false)
		for _, po := range []struct {
			name string
			opt  connect.ClientOption
		}{{"connect", nil}, {"grpc", connect.WithGRPC()}, {"grpc-web", connect.WithGRPCWeb()}} {
			for _, comp := range verifkit.Encodings {
				for _, zero := range []bool{true, false} {
					for _, delta := range []int{-1, 0, 1} {
						for _, rpc := range []string{"unary", "client-stream", "client-stream-errdef", "idempotent-get"} {
							if rpc != "unary" && rpc != "idempotent-get" && L > 5000 && !verifkit.Thorough() {
								continue
							}
							if rpc == "idempotent-get" && (po.name != "connect" || L > 200*1024 || (comp != "identity" && comp != "gzip")) {
								continue // GET is a Connect feature; the message travels base64-encoded in the URL
							}
							var opts []connect.ClientOption
							if po.opt != nil {
								opts = append(opts, po.opt)
							}
							opts = append(opts, vfCompressionOpts(comp)...)
							opts = append(opts, connect.WithCompressMinBytes(0))
							cl := conformancev1connect.NewConformanceServiceClient(httpc, base, opts...)
							size := L + delta
							rep.Eval(1)
							rep.DistinctKey(L, po.name, comp, zero, delta, rpc)
							name := fmt.Sprintf("Sharp/%d/%s/%s/%v/%d/%s", L, po.name, comp, zero, delta, rpc)
							w := map[string]any{"limit": L, "protocol": po.name, "compression": comp, "zero_padding": zero, "size": size, "rpc": rpc}
							var callErr error
							var echoedOK bool
							var compressedLen int
							switch rpc {
							case "idempotent-get":
								d := vfPayloadFor(size, zero, func(b []byte) proto.Message { return &conformancev1.IdempotentUnaryRequest{RequestData: b} })
								if d == nil {
									rep.Count("unreachable_size", 1)
									continue
								}
								msg := &conformancev1.IdempotentUnaryRequest{RequestData: d}
								raw, _ := proto.Marshal(msg)
								c, _ := verifkit.IndepCompress(comp, raw)
								compressedLen = len(c)
								gcl := conformancev1connect.NewConformanceServiceClient(httpc, base, append(append([]connect.ClientOption{}, opts...), connect.WithHTTPGet())...)
								req := connect.NewRequest(msg)
								req.Header().Set("X-Test-Case-Name", name)
								resp, err := gcl.IdempotentUnary(context.Background(), req)
								callErr = err
								if err == nil {
									echoedOK = resp.Msg.GetPayload().GetRequestInfo().GetConnectGetInfo() != nil || len(resp.Msg.GetPayload().GetRequestInfo().GetRequests()) == 1
									rep.Count("get_requests_accepted", 1)
								}
							case "unary":
								d := vfPayloadFor(size, zero, func(b []byte) proto.Message { return &conformancev1.UnaryRequest{RequestData: b} })
								if d == nil {
									rep.Count("unreachable_size", 1)
									continue
								}
								msg := &conformancev1.UnaryRequest{RequestData: d}
								raw, _ := proto.Marshal(msg)
								c, _ := verifkit.IndepCompress(comp, raw)
								compressedLen = len(c)
								req := connect.NewRequest(msg)
								req.Header().Set("X-Test-Case-Name", name)
								resp, err := cl.Unary(context.Background(), req)
								callErr = err
								if err == nil {
									rs := resp.Msg.GetPayload().GetRequestInfo().GetRequests()
									echoedOK = len(rs) == 1 && len(rs[0].Value) == size
								}
							default:
								d := vfPayloadFor(size, zero, func(b []byte) proto.Message { return &conformancev1.ClientStreamRequest{RequestData: b} })
								if d == nil {
									rep.Count("unreachable_size", 1)
									continue
								}
								raw, _ := proto.Marshal(&conformancev1.ClientStreamRequest{RequestData: d})
								c, _ := verifkit.IndepCompress(comp, raw)
								compressedLen = len(c)
								stream := cl.ClientStream(context.Background())
								stream.RequestHeader().Set("X-Test-Case-Name", name)
								first := &conformancev1.ClientStreamRequest{RequestData: []byte("small first message")}
								if rpc == "client-stream-errdef" {
									first.RequestData = []byte("1st") // (keeps the first message itself far below the smallest limit)
									// the first message asks for an error response; a later message is the sized one
									first.ResponseDefinition = &conformancev1.UnaryResponseDefinition{Response: &conformancev1.UnaryResponseDefinition_Error{Error: &conformancev1.Error{Code: conformancev1.Code_CODE_ABORTED, Message: proto.String("cfg")}}}
								}
								_ = stream.Send(first)
								_ = stream.Send(&conformancev1.ClientStreamRequest{RequestData: d})
								resp, err := stream.CloseAndReceive()
								callErr = err
								if err == nil {
									rs := resp.Msg.GetPayload().GetRequestInfo().GetRequests()
									echoedOK = len(rs) == 2 && len(rs[1].Value) == size
								}
							}
							w["compressed_len"] = compressedLen
							verdict := "accepted"
							if callErr != nil {
								verdict = connect.CodeOf(callErr).String()
							}
							w["verdict"] = verdict
							if callErr != nil {
								w["error"] = verifkit.Trunc(callErr.Error(), 200)
							}
							switch {
							case delta > 0:
								rep.Count("over_limit_cases", 1)
								if verdict != "resource_exhausted" {
									rep.Violation("sharp/server/over-limit-"+verdict, fmt.Sprintf("message of %d bytes (limit %d) over %s/%s: %s, want resource_exhausted", size, L, po.name, comp, verdict), w)
								}
							case rpc == "client-stream-errdef" && verdict == "aborted":
								rep.Count("within_limit_configured_error", 1) // in-limit stream: the configured error is the answer
							case verdict == "accepted" && rpc != "client-stream-errdef":
								rep.Count("within_limit_accepted", 1)
								if !echoedOK {
									rep.Violation("sharp/server/echo-wrong", "accepted but the request was not echoed with its full size", w)
								}
							case verdict == "resource_exhausted" && compressedLen > L:
								// the envelope on the wire is larger than the limit although the message is not
								rep.Violation("sharp/server/compressed-larger-than-limit", fmt.Sprintf("message of %d bytes (limit %d) rejected because its %s form has %d bytes", size, L, comp, compressedLen), w)
							default:
								rep.Violation("sharp/server/within-limit-"+verdict, fmt.Sprintf("message of %d bytes (limit %d) over %s/%s: %s, want accepted", size, L, po.name, comp, verdict), w)
							}
						}
					}
				}
			}
		}
		// the limit is per message, not per body: a buffered upload (declared Content-Length) of several
		// messages that are each within the limit must be accepted
		if L <= 4096 || verifkit.Thorough() {
			for _, ct := range []string{"application/connect+proto", "application/grpc-web+proto", "application/grpc+proto"} {
				for _, sizes := range [][]int{{10, L}, {L, 10}, {L - 1, L - 1, L - 1}, {L, L, L, L}} {
					var body bytes.Buffer
					okSizes := true
					for _, sz := range sizes {
						d := vfPayloadFor(sz, true, func(b []byte) proto.Message { return &conformancev1.ClientStreamRequest{RequestData: b} })
						if d == nil {
							okSizes = false
							break
						}
						raw, _ := proto.Marshal(&conformancev1.ClientStreamRequest{RequestData: d})
						body.Write(vfEnvC19(0, raw))
					}
					if !okSizes {
						continue
					}
					name := fmt.Sprintf("Sharp/%d/buffered/%s/%v", L, ct, sizes)
					hreq, _ := http.NewRequest("POST", base+"/connectrpc.conformance.v1.ConformanceService/ClientStream", bytes.NewReader(body.Bytes()))
					hreq.Header.Set("Content-Type", ct)
					hreq.Header.Set("X-Test-Case-Name", name)
					hreq.Header.Set("Te", "trailers")
					rep.Eval(1)
					rep.DistinctKey(L, ct, fmt.Sprint(sizes), "buffered")
					w := map[string]any{"limit": L, "content_type": ct, "message_sizes": sizes, "content_length": body.Len()}
					resp, err := httpc.Do(hreq)
					if err != nil {
						rep.Inconcl(fmt.Sprintf("%s: %v", name, err))
						continue
					}
					rb, _ := io.ReadAll(resp.Body)
					resp.Body.Close()
					verdict := "?"
					switch {
					case strings.HasPrefix(ct, "application/connect+"):
						verdict = "accepted"
						// the last envelope is the end-of-stream message
						off, last := 0, -1
						for off+5 <= len(rb) {
							l := int(binary.BigEndian.Uint32(rb[off+1 : off+5]))
							last = off
							off += 5 + l
						}
						if last < 0 || rb[last]&2 == 0 {
							verdict = fmt.Sprintf("no end-of-stream message (HTTP %d)", resp.StatusCode)
						} else if strings.Contains(string(rb[last+5:]), `"error"`) {
							verdict = "error: " + verifkit.Trunc(string(rb[last+5:]), 120)
						}
					case strings.HasPrefix(ct, "application/grpc-web"):
						verdict = "accepted"
						if !strings.Contains(string(rb), "grpc-status: 0") && !strings.Contains(string(rb), "grpc-status:0") {
							verdict = "error: " + verifkit.Trunc(string(rb[len(rb)-min(len(rb), 120):]), 120) + " / header grpc-status=" + resp.Header.Get("Grpc-Status")
						}
					default:
						verdict = "accepted"
						if st := resp.Trailer.Get("Grpc-Status") + resp.Header.Get("Grpc-Status"); st != "0" {
							verdict = "error: grpc-status " + st + " " + resp.Trailer.Get("Grpc-Message") + resp.Header.Get("Grpc-Message")
						}
					}
					w["verdict"] = verdict
					if verdict != "accepted" {
						rep.Violation("sharp/server/buffered-multi-message-body-rejected", fmt.Sprintf("a %d-byte body of %d messages, each within the limit of %d, was not accepted: %s", body.Len(), len(sizes), L, verdict), w)
					} else {
						rep.Count("buffered_multi_message_bodies_accepted", 1)
					}
				}
			}
		}
		// the limit is per message, not a budget for the stream: long client streams of messages that are each
		// within the limit (16 x limit and more in total) are accepted; the same stream with a last message one byte over is refused
		if L <= 4096 || verifkit.Thorough() {
			for _, po := range []struct {
				name string
				opt  connect.ClientOption
			}{{"connect", nil}, {"grpc", connect.WithGRPC()}, {"grpc-web", connect.WithGRPCWeb()}} {
				for _, shape := range []struct {
					count, size int
				}{{16, L}, {17, L}, {40, L}, {20 * (L/16 + 1), 16}} {
					for _, lastDelta := range []int{0, 1} {
						if (shape.size != L && lastDelta != 0) || shape.count > 10000 || shape.count*shape.size > 24<<20 {
							continue
						}
						var opts []connect.ClientOption
						if po.opt != nil {
							opts = append(opts, po.opt)
						}
						cl := conformancev1connect.NewConformanceServiceClient(httpc, base, opts...)
						name := fmt.Sprintf("Sharp/%d/long-stream/%s/%dx%d/%+d", L, po.name, shape.count, shape.size, lastDelta)
						rep.Eval(1)
						rep.DistinctKey(L, po.name, shape.count, shape.size, lastDelta, "long-stream")
						w := map[string]any{"limit": L, "protocol": po.name, "messages": shape.count, "message_size": shape.size, "last_message_delta": lastDelta, "total_bytes": shape.count * shape.size}
						mk := func(b []byte) proto.Message { return &conformancev1.ClientStreamRequest{RequestData: b} }
						d, dLast := vfPayloadFor(shape.size, false, mk), vfPayloadFor(shape.size+lastDelta, false, mk)
						if d == nil || dLast == nil {
							rep.Count("unreachable_size", 1)
							continue
						}
						stream := cl.ClientStream(context.Background())
						stream.RequestHeader().Set("X-Test-Case-Name", name)
						_ = stream.Send(&conformancev1.ClientStreamRequest{RequestData: []byte("1st")})
						for i := 0; i < shape.count; i++ {
							if i == shape.count-1 {
								_ = stream.Send(&conformancev1.ClientStreamRequest{RequestData: dLast})
							} else {
								_ = stream.Send(&conformancev1.ClientStreamRequest{RequestData: d})
							}
						}
						resp, err := stream.CloseAndReceive()
						verdict := "accepted"
						if err != nil {
							verdict = connect.CodeOf(err).String()
							w["error"] = verifkit.Trunc(err.Error(), 200)
						}
						w["verdict"] = verdict
						switch {
						case lastDelta > 0 && verdict != "resource_exhausted":
							rep.Violation("sharp/server/long-stream/over-limit-"+verdict, fmt.Sprintf("%d messages, the last of %d bytes (limit %d): %s, want resource_exhausted", shape.count, shape.size+lastDelta, L, verdict), w)
						case lastDelta == 0 && verdict != "accepted":
							rep.Violation("sharp/server/long-stream/within-limit-"+verdict, fmt.Sprintf("%d messages of %d bytes each (limit %d per message): %s, want accepted", shape.count, shape.size, L, verdict), w)
						case lastDelta == 0:
							if rs := resp.Msg.GetPayload().GetRequestInfo().GetRequests(); len(rs) != shape.count+1 {
								rep.Violation("sharp/server/long-stream/echo-wrong", fmt.Sprintf("accepted but %d of %d requests echoed", len(rs), shape.count+1), w)
							} else {
								rep.Count("long_streams_accepted", 1)
							}
						default:
							rep.Count("long_streams_last_over_refused", 1)
						}
					}
				}
			}
		}
		// full-duplex bidi streams: the limit holds at every position of the upload, including the one request the
		// server still reads after it has sent its last response
		if L <= 4096 || verifkit.Thorough() {
			for _, po := range []struct {
				name string
				opt  connect.ClientOption
			}{{"connect", nil}, {"grpc", connect.WithGRPC()}, {"grpc-web", connect.WithGRPCWeb()}} {
				for _, R := range []int{1, 3} {
					for pos := 1; pos <= R+1; pos++ {
						for _, delta := range []int{0, 1} {
							var opts []connect.ClientOption
							if po.opt != nil {
								opts = append(opts, po.opt)
							}
							cl := conformancev1connect.NewConformanceServiceClient(httpc, base, opts...)
							name := fmt.Sprintf("Sharp/%d/full-duplex/%s/R%d/pos%d/%+d", L, po.name, R, pos, delta)
							rep.Eval(1)
							rep.DistinctKey(L, po.name, R, pos, delta, "full-duplex")
							w := map[string]any{"limit": L, "protocol": po.name, "responses_configured": R, "sized_request_position": pos, "size": L + delta}
							def := &conformancev1.StreamResponseDefinition{}
							for k := 0; k < R; k++ {
								def.ResponseData = append(def.ResponseData, []byte("r"))
							}
							mkAt := func(i int) func([]byte) proto.Message {
								return func(b []byte) proto.Message {
									m := &conformancev1.BidiStreamRequest{RequestData: b}
									if i == 1 {
										m.FullDuplex, m.ResponseDefinition = true, def
									}
									return m
								}
							}
							sized := vfPayloadFor(L+delta, false, mkAt(pos))
							if sized == nil {
								rep.Count("unreachable_size", 1)
								continue
							}
							ctx, cancel := context.WithTimeout(context.Background(), 60*time.Second)
							stream := cl.BidiStream(ctx)
							stream.RequestHeader().Set("X-Test-Case-Name", name)
							var callErr error
							got := 0
							for i := 1; i <= R+1 && callErr == nil; i++ {
								data := []byte("s")
								if i == pos {
									data = sized
								}
								if err := stream.Send(mkAt(i)(data).(*conformancev1.BidiStreamRequest)); err != nil {
									break // the error itself comes from Receive
								}
								if i <= R {
									if _, err := stream.Receive(); err != nil {
										callErr = err
									} else {
										got++
									}
								}
							}
							_ = stream.CloseRequest()
							for callErr == nil {
								if _, err := stream.Receive(); err != nil {
									if !errors.Is(err, io.EOF) {
										callErr = err
									}
									break
								}
								got++
							}
							_ = stream.CloseResponse()
							cancel()
							verdict := "accepted"
							if callErr != nil {
								verdict = connect.CodeOf(callErr).String()
								w["error"] = verifkit.Trunc(callErr.Error(), 200)
							}
							w["verdict"], w["responses_received"] = verdict, got
							switch {
							case delta > 0 && verdict != "resource_exhausted":
								rep.Violation("sharp/server/full-duplex/over-limit-"+verdict, fmt.Sprintf("request #%d of a full-duplex stream (%d responses configured) has %d bytes (limit %d): %s, want resource_exhausted", pos, R, L+delta, L, verdict), w)
							case delta == 0 && (verdict != "accepted" || got != R):
								rep.Violation("sharp/server/full-duplex/within-limit-"+verdict, fmt.Sprintf("request #%d of a full-duplex stream has exactly %d bytes (the limit): %s with %d of %d responses, want accepted", pos, L, verdict, got, R), w)
							default:
								rep.Count(fmt.Sprintf("full_duplex_ok/delta%+d", delta), 1)
							}
						}
					}
				}
			}
		}
		for _, l := range srv.stderr.Lines() {
			rep.Count("server_stderr_lines", 1)
			_ = l
		}
		srv.Stop()
	}
	_ = http.MethodPost
	rep.Sample(map[string]any{"limit": 4096, "protocol": "grpc", "compression": "zstd", "size": 4097, "expect": "resource_exhausted although the zero padding compresses to a few bytes"})
	rep.RequireMin("buffered_multi_message_bodies_accepted", 12)
	rep.RequireMin("long_streams_accepted", 12)
	rep.RequireMin("full_duplex_ok/delta+1", 12)
	rep.RequireMin("full_duplex_ok/delta+0", 12)
	rep.RequireMin("over_limit_cases", 100)
	rep.RequireMin("within_limit_accepted", 150)
}

func vfEnvC19(flags byte, p []byte) []byte {
	b := make([]byte, 5+len(p))
	b[0] = flags
	binary.BigEndian.PutUint32(b[1:], uint32(len(p)))
	copy(b[5:], p)
	return b
}
