//go:build verif

package referenceserver

import (
	"bytes"
	"fmt"
	"io"
	"net/http"
	"testing"

	conformancev1 "connectrpc.com/conformance/internal/gen/proto/go/connectrpc/conformance/v1"
	"connectrpc.com/conformance/internal/verifkit"
	"google.golang.org/protobuf/proto"
)

// TestVerifC20Wire: a plain HTTP client compresses a Connect unary request
// independently with encoding X; the real reference server must accept it
// and answer in X (same name, same algorithm).
func TestVerifC20Wire(t *testing.T) {
	rep := verifkit.Begin("C20", "server-wire", "real reference server (h2c and HTTP/1.1) x 6 encodings x payloads: request body compressed by an independent encoder under Content-Encoding X with Accept-Encoding X; the response must be 200, carry Content-Encoding X (or identity for tiny bodies) and decode, by an independent decoder, to a UnaryResponse echoing the request data; distinct = (transport, encoding, payload)")
	defer rep.Write()
	rng := verifkit.Stream("c20wire")
	for _, ver := range []int{1, 2} {
		srv, err := vfStartServer(&conformancev1.ServerCompatRequest{Protocol: conformancev1.Protocol_PROTOCOL_CONNECT, HttpVersion: conformancev1.HTTPVersion(ver)}, true)
		if err != nil {
			rep.Inconcl("cannot start server: " + err.Error())
			continue
		}
		client, base, _ := srv.Client(ver, false, false)
		for ei, enc := range verifkit.Encodings {
			for pi, payload := range [][]byte{{}, []byte("hello"), rng.Bytes(4000), bytes.Repeat([]byte("z"), 20000)} {
				rep.Eval(1)
				rep.DistinctKey(ver, enc, payload)
				name := fmt.Sprintf("C20/%d/%s/%d", ver, enc, pi)
				reqMsg := &conformancev1.UnaryRequest{RequestData: payload, ResponseDefinition: &conformancev1.UnaryResponseDefinition{Response: &conformancev1.UnaryResponseDefinition_ResponseData{ResponseData: payload}}}
				raw, _ := proto.Marshal(reqMsg)
				body, _ := verifkit.IndepCompress(enc, raw)
				hreq, _ := http.NewRequest("POST", base+"/connectrpc.conformance.v1.ConformanceService/Unary", bytes.NewReader(body))
				hreq.Header.Set("Content-Type", "application/proto")
				hreq.Header.Set("X-Test-Case-Name", name)
				if enc != "identity" {
					hreq.Header.Set("Content-Encoding", enc)
				}
				hreq.Header.Set("Accept-Encoding", enc)
				vfExpectHeadersC20(hreq.Header, ver, ei+1)
				resp, err := client.Do(hreq)
				w := map[string]any{"http_version": ver, "encoding": enc, "payload_len": len(payload)}
				if err != nil {
					rep.Inconcl(fmt.Sprintf("%s: %v", name, err))
					continue
				}
				rbody, _ := io.ReadAll(resp.Body)
				resp.Body.Close()
				if resp.StatusCode != 200 {
					rep.Violation("compress/"+enc+"/server-rejects", fmt.Sprintf("request compressed with an independent %s encoder rejected: HTTP %d %s", enc, resp.StatusCode, verifkit.Trunc(string(rbody), 200)), w)
					continue
				}
				renc := resp.Header.Get("Content-Encoding")
				if renc == "" {
					renc = "identity"
				}
				if renc != enc && renc != "identity" {
					rep.Violation("compress/"+enc+"/server-answers-other-encoding", fmt.Sprintf("asked for %s, answered in %s", enc, renc), w)
					continue
				}
				if renc == enc && enc != "identity" {
					rep.Count("responses_in_requested_encoding", 1)
				}
				plain, derr := verifkit.IndepDecompress(renc, rbody)
				out := &conformancev1.UnaryResponse{}
				if derr != nil || proto.Unmarshal(plain, out) != nil || !bytes.Equal(out.GetPayload().GetData(), payload) {
					rep.Violation("compress/"+enc+"/server-response-not-the-named-algorithm", fmt.Sprintf("response labelled %s does not decode with an independent %s decoder to the echoed payload (%v)", renc, renc, derr), w)
					continue
				}
				if len(out.GetPayload().GetRequestInfo().GetRequests()) != 1 {
					rep.Violation("compress/"+enc+"/server-misread-request", "request info does not echo the request", w)
				}
				rep.Count("wire_roundtrips", 1)
			}
		}
		for _, l := range srv.stderr.Lines() {
			rep.Violation("compress/server-feedback", "reference server feedback on an independently compressed request: "+l, nil)
		}
		srv.Stop()
	}
	rep.Sample(map[string]any{"encoding": "snappy", "request": "UnaryRequest compressed by golang/snappy framing writer", "expect": "200, Content-Encoding snappy, decodable"})
	rep.RequireMin("wire_roundtrips", 40)
	rep.RequireMin("responses_in_requested_encoding", 10)
}

