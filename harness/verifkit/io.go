//go:build verif

package verifkit

import (
	"errors"
	"io"
	"sync"
)

// ScriptReader delivers Data according to a partition plan. It is the
// hostile peer of every framing/tracing monitor.
type ScriptReader struct {
	Data        []byte
	Plan        []int // chunk sizes, used cyclically; empty = 1-byte reads
	EOFWithData bool  // the last chunk is returned together with io.EOF
	ZeroEvery   int   // every n-th call returns (0, nil) first
	StallAt     int   // <0: never; otherwise block once this many bytes were delivered
	FinalErr    error // error at end of data (default io.EOF)
	Block       chan struct{}

	mu        sync.Mutex
	closed    bool
	i         int
	calls     int
	Delivered int
	Log       []ReadResult // what the consumer was given (n, err) per call
}

// ErrReadAfterClose is what a ScriptReader returns once it was closed.
var ErrReadAfterClose = errors.New("read on closed body")

type ReadResult struct {
	N   int
	Err string
}

func (c *ScriptReader) record(n int, err error) (int, error) {
	e := ""
	if err != nil {
		e = err.Error()
	}
	c.Log = append(c.Log, ReadResult{n, e})
	return n, err
}

func (c *ScriptReader) Read(p []byte) (int, error) {
	c.mu.Lock()
	if len(p) == 0 {
		defer c.mu.Unlock()
		return c.record(0, nil)
	}
	c.calls++
	if c.closed {
		defer c.mu.Unlock()
		return c.record(0, ErrReadAfterClose)
	}
	if c.StallAt >= 0 && c.Block != nil && c.Delivered >= c.StallAt {
		c.mu.Unlock()
		<-c.Block
		return 0, io.EOF
	}
	defer c.mu.Unlock()
	if c.ZeroEvery > 0 && c.calls%c.ZeroEvery == 0 {
		return c.record(0, nil)
	}
	if len(c.Data) == 0 {
		if c.FinalErr != nil {
			return c.record(0, c.FinalErr)
		}
		return c.record(0, io.EOF)
	}
	n := 1
	if len(c.Plan) > 0 {
		n = c.Plan[c.i%len(c.Plan)]
		c.i++
		if n <= 0 {
			n = 1
		}
	}
	if n > len(p) {
		n = len(p)
	}
	if n > len(c.Data) {
		n = len(c.Data)
	}
	if c.StallAt >= 0 && c.Block != nil && c.Delivered+n > c.StallAt {
		n = c.StallAt - c.Delivered
	}
	copy(p, c.Data[:n])
	c.Data = c.Data[n:]
	c.Delivered += n
	if len(c.Data) == 0 && c.EOFWithData {
		if c.FinalErr != nil {
			return c.record(n, c.FinalErr)
		}
		return c.record(n, io.EOF)
	}
	return c.record(n, nil)
}

// Close marks the reader closed: later Reads fail the way a closed HTTP body does.
func (c *ScriptReader) Close() error {
	c.mu.Lock()
	c.closed = true
	c.mu.Unlock()
	return nil
}

// Plans returns the named partition plans used by the chunking monitors.
func Plans(r *Rand, prefixLen int) map[string][]int {
	rnd := make([]int, 64)
	for i := range rnd {
		rnd[i] = 1 + r.Intn(9)
	}
	return map[string][]int{
		"1-byte":        {1},
		"prefix-exact":  {prefixLen, 1 << 20},
		"prefix-split":  {prefixLen - 1, 1, 1 << 20},
		"straddle":      {prefixLen + 1, 3},
		"random-1to9":   rnd,
		"whole":         {1 << 30},
		"two-byte":      {2},
	}
}
