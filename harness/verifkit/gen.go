//go:build verif

package verifkit

import (
	"encoding/base64"
	"strings"
	"unicode/utf8"
)

// RandUTF8 returns a valid UTF-8 string with ASCII, multi-byte runes, percent
// signs and (optionally) control characters.
func RandUTF8(r *Rand, maxRunes int, control bool) string {
	n := r.Intn(maxRunes + 1)
	var sb strings.Builder
	for i := 0; i < n; i++ {
		switch r.Intn(10) {
		case 0:
			sb.WriteRune(rune(0x80 + r.Intn(0x700))) // 2-byte
		case 1:
			sb.WriteRune(rune(0x4e00 + r.Intn(0x1000))) // 3-byte
		case 2:
			sb.WriteRune(rune(0x1f600 + r.Intn(64))) // 4-byte
		case 3:
			sb.WriteByte('%')
		case 4:
			if control {
				sb.WriteByte(byte(r.Intn(32)))
			} else {
				sb.WriteByte(' ')
			}
		case 5:
			sb.WriteString(Pick(r, []string{"%41", "%G1", "+", "&", "=", "\"", "\\", "/", "~", "\x7f"}))
		default:
			sb.WriteByte(byte(0x21 + r.Intn(0x5e)))
		}
	}
	s := sb.String()
	if !utf8.ValidString(s) {
		return strings.ToValidUTF8(s, "?")
	}
	return s
}

// RawB64 is gRPC/Connect's binary header text form: standard alphabet, no padding.
func RawB64(b []byte) string { return base64.RawStdEncoding.EncodeToString(b) }

// HeaderName returns a valid, non-reserved header field name in mixed case.
func HeaderName(r *Rand, bin bool) string {
	base := Pick(r, []string{"x-verif", "X-Verif", "x-VERIF", "X-vErIf"}) + "-" + Pick(r, []string{"a", "b", "c", "D", "E"})
	if bin {
		return base + Pick(r, []string{"-bin", "-Bin", "-BIN"})
	}
	return base
}
