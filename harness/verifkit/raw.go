//go:build verif

package verifkit

import (
	"encoding/binary"
	"fmt"

	conformancev1 "connectrpc.com/conformance/internal/gen/proto/go/connectrpc/conformance/v1"
)

// Independent encoders for the raw-payload definitions of the suite schema
// (RawHTTPRequest / RawHTTPResponse bodies), written from the proto comments.

var compNames = map[conformancev1.Compression]string{0: "identity", 1: "identity", 2: "gzip", 3: "br", 4: "zstd", 5: "deflate", 6: "snappy"}

func CompressionName(c conformancev1.Compression) string { return compNames[c] }

func RawMessagePlain(m *conformancev1.MessageContents) []byte {
	switch d := m.GetData().(type) {
	case *conformancev1.MessageContents_Binary:
		return d.Binary
	case *conformancev1.MessageContents_Text:
		return []byte(d.Text)
	case *conformancev1.MessageContents_BinaryMessage:
		return d.BinaryMessage.GetValue()
	}
	return nil
}

// RawMessageDecode inverts the message encoding: wire bytes -> specified payload.
func RawMessageDecode(m *conformancev1.MessageContents, wire []byte) ([]byte, error) {
	if m.GetData() == nil {
		if len(wire) != 0 {
			return nil, fmt.Errorf("no data specified but %d bytes on the wire", len(wire))
		}
		return nil, nil
	}
	return IndepDecompress(compNames[m.GetCompression()], wire)
}

type RawItem struct {
	Flags   byte
	Length  uint32
	Payload []byte // bytes following the prefix that belong to this item
}

// RawStreamSplit parses wire bytes into items given the specification (the
// number of payload bytes of each item is what its encoder produced, which is
// only known by decoding: for explicit lengths that lie, the payload size is
// taken from the specification's independent encoding).
func RawStreamExpected(s *conformancev1.StreamContents) ([]byte, error) {
	var out []byte
	for _, it := range s.GetItems() {
		var enc []byte
		if it.GetPayload().GetData() != nil {
			var err error
			enc, err = IndepCompress(compNames[it.GetPayload().GetCompression()], RawMessagePlain(it.GetPayload()))
			if err != nil {
				return nil, err
			}
		}
		var pre [5]byte
		pre[0] = byte(it.GetFlags())
		l := uint32(len(enc))
		if it.Length != nil {
			l = it.GetLength()
		}
		binary.BigEndian.PutUint32(pre[1:], l)
		out = append(append(out, pre[:]...), enc...)
	}
	return out, nil
}
