//go:build verif

// Package verifkit is injected into the repository at build time (go build
// -overlay) by /verif/check. It holds what every monitor shares: a seeded
// PRNG, the per-monitor report (what was observed, violations with witnesses),
// panic capture, scripted readers/writers and a monotonic event log.
package verifkit

import (
	"crypto/sha256"
	"encoding/binary"
	"encoding/json"
	"fmt"
	"os"
	"path/filepath"
	"regexp"
	"runtime/debug"
	"sort"
	"strconv"
	"strings"
	"sync"
	"time"
)

// ---------------------------------------------------------------- env

func Seed() uint64 {
	s, err := strconv.ParseUint(os.Getenv("VERIF_SEED"), 10, 64)
	if err != nil {
		return 1
	}
	return s
}

func Thorough() bool { return os.Getenv("VERIF_TIER") == "thorough" }

// Scale picks the bound for the current tier.
func Scale(quick, thorough int) int {
	if Thorough() {
		return thorough
	}
	return quick
}

// EnvInt reads an integer knob (used by the driver to shard work).
func EnvInt(name string, def int) int {
	v, err := strconv.Atoi(os.Getenv(name))
	if err != nil {
		return def
	}
	return v
}

// ---------------------------------------------------------------- PRNG

// Rand is splitmix64; deterministic, cheap, forkable by name.
type Rand struct{ s uint64 }

func NewRand(seed uint64) *Rand { return &Rand{s: seed*0x9E3779B97F4A7C15 + 0x1234567} }

// Stream derives an independent generator from the run seed and a name.
func Stream(name string, idx ...int) *Rand {
	h := sha256.New()
	fmt.Fprintf(h, "%d/%s", Seed(), name)
	for _, i := range idx {
		fmt.Fprintf(h, "/%d", i)
	}
	sum := h.Sum(nil)
	return &Rand{s: binary.LittleEndian.Uint64(sum[:8])}
}

func (r *Rand) Uint64() uint64 {
	r.s += 0x9E3779B97F4A7C15
	z := r.s
	z = (z ^ (z >> 30)) * 0xBF58476D1CE4E5B9
	z = (z ^ (z >> 27)) * 0x94D049BB133111EB
	return z ^ (z >> 31)
}
func (r *Rand) Intn(n int) int {
	if n <= 0 {
		return 0
	}
	return int(r.Uint64() % uint64(n))
}
func (r *Rand) Range(lo, hi int) int { return lo + r.Intn(hi-lo+1) }
func (r *Rand) Bool() bool          { return r.Uint64()&1 == 1 }
func (r *Rand) Chance(num, den int) bool {
	return r.Intn(den) < num
}
func (r *Rand) Bytes(n int) []byte {
	b := make([]byte, n)
	for i := 0; i < n; i += 8 {
		v := r.Uint64()
		for j := 0; j < 8 && i+j < n; j++ {
			b[i+j] = byte(v >> (8 * j))
		}
	}
	return b
}
func (r *Rand) Perm(n int) []int {
	p := make([]int, n)
	for i := range p {
		p[i] = i
	}
	for i := n - 1; i > 0; i-- {
		j := r.Intn(i + 1)
		p[i], p[j] = p[j], p[i]
	}
	return p
}
func Pick[T any](r *Rand, xs []T) T { return xs[r.Intn(len(xs))] }

// Fork gives a child generator without disturbing reproducibility of siblings.
func (r *Rand) Fork() *Rand { return &Rand{s: r.Uint64()} }

// ---------------------------------------------------------------- report

type Violation struct {
	Key     string `json:"key"`
	What    string `json:"what"`
	Witness any    `json:"witness,omitempty"`
}

// Report is what one monitor (one "part" of a property's check) observed.
type Report struct {
	mu sync.Mutex

	Property       string           `json:"property"`
	Part           string           `json:"part"`
	Rule           string           `json:"rule"`
	Evaluations    int64            `json:"evaluations"`
	Distinct       int64            `json:"distinct_nontrivial"`
	Samples        []any            `json:"samples"`
	Counts         map[string]int64 `json:"counts"`
	Violations     []Violation      `json:"violations"`
	ViolationCount map[string]int64 `json:"violation_counts"`
	Inconclusive   []string         `json:"inconclusive"`
	Exhaustive     bool             `json:"exhaustive"`
	Notes          []string         `json:"notes,omitempty"`
	WallS          float64          `json:"wall_s"`

	distinct map[[16]byte]struct{}
	inflight any
	start    time.Time
	dir      string
}

func reportDir() string {
	d := os.Getenv("VERIF_REPORT_DIR")
	if d == "" {
		d = os.TempDir()
	}
	return d
}

// Begin opens a report and leaves a marker so that the driver notices a
// monitor that died before it could write its report.
func Begin(property, part, rule string) *Report {
	r := &Report{Property: property, Part: part, Rule: rule,
		Counts: map[string]int64{}, ViolationCount: map[string]int64{},
		distinct: map[[16]byte]struct{}{}, start: time.Now(), dir: reportDir()}
	_ = os.WriteFile(filepath.Join(r.dir, part+".started"), []byte(property), 0o644)
	return r
}

func (r *Report) Eval(n int) {
	r.mu.Lock()
	r.Evaluations += int64(n)
	r.mu.Unlock()
}

// DistinctKey counts a non-trivial case once per distinct key.
func (r *Report) DistinctKey(parts ...any) {
	h := sha256.Sum256([]byte(fmt.Sprint(parts...)))
	var k [16]byte
	copy(k[:], h[:16])
	r.mu.Lock()
	if _, ok := r.distinct[k]; !ok {
		r.distinct[k] = struct{}{}
		r.Distinct++
	}
	r.mu.Unlock()
}

func (r *Report) Count(kind string, n int) {
	r.mu.Lock()
	r.Counts[kind] += int64(n)
	r.mu.Unlock()
}

// Sample keeps up to 4 written-out cases.
func (r *Report) Sample(v any) {
	r.mu.Lock()
	if len(r.Samples) < 4 {
		r.Samples = append(r.Samples, v)
	}
	r.mu.Unlock()
}

// Violation records a refuting observation. key identifies the failing
// input class / call site (used by known-findings); at most 3 witnesses per
// key and 60 in total are kept, every occurrence is counted.
func (r *Report) Violation(key, what string, witness any) {
	r.mu.Lock()
	defer r.mu.Unlock()
	r.ViolationCount[key]++
	if r.ViolationCount[key] <= 3 && len(r.Violations) < 60 {
		r.Violations = append(r.Violations, Violation{Key: key, What: what, Witness: witness})
	}
}

func (r *Report) NViolations() int {
	r.mu.Lock()
	defer r.mu.Unlock()
	n := 0
	for _, c := range r.ViolationCount {
		n += int(c)
	}
	return n
}

func (r *Report) Inconcl(what string) {
	r.mu.Lock()
	if len(r.Inconclusive) < 50 {
		r.Inconclusive = append(r.Inconclusive, what)
	}
	r.mu.Unlock()
}

func (r *Report) Note(format string, a ...any) {
	r.mu.Lock()
	r.Notes = append(r.Notes, fmt.Sprintf(format, a...))
	r.mu.Unlock()
}

// InFlight remembers the input of the call about to be made (cheap, in
// memory); a recovered panic reports it. InFlightDisk additionally writes it
// to disk so that a fatal runtime error (which recover() never sees) still
// leaves a witness - use it per batch in crash-prone monitors.
func (r *Report) InFlight(v any) {
	r.mu.Lock()
	r.inflight = v
	r.mu.Unlock()
}

func (r *Report) InFlightDisk(v any) {
	r.InFlight(v)
	b, err := json.Marshal(v)
	if err != nil {
		b = []byte(fmt.Sprintf("%q", fmt.Sprint(v)))
	}
	_ = os.WriteFile(filepath.Join(r.dir, r.Part+".inflight.json"), b, 0o644)
}

// RequireMin makes the run inconclusive when fewer than n events of a kind
// were observed (a monitor that saw nothing must not pass).
func (r *Report) RequireMin(kind string, n int64) {
	r.mu.Lock()
	got := r.Counts[kind]
	r.mu.Unlock()
	if got < n {
		r.Inconcl(fmt.Sprintf("only %d events of kind %q observed (minimum %d)", got, kind, n))
	}
}

func (r *Report) Write() {
	r.mu.Lock()
	defer r.mu.Unlock()
	r.WallS = time.Since(r.start).Seconds()
	if r.Samples == nil {
		r.Samples = []any{}
	}
	if r.Violations == nil {
		r.Violations = []Violation{}
	}
	if r.Inconclusive == nil {
		r.Inconclusive = []string{}
	}
	b, err := json.MarshalIndent(r, "", " ")
	if err != nil {
		b, _ = json.Marshal(map[string]any{"property": r.Property, "part": r.Part, "marshal_error": err.Error(),
			"inconclusive": []string{"report could not be encoded: " + err.Error()}})
	}
	tmp := filepath.Join(r.dir, r.Part+".json.tmp")
	_ = os.WriteFile(tmp, b, 0o644)
	_ = os.Rename(tmp, filepath.Join(r.dir, r.Part+".json"))
}

// ---------------------------------------------------------------- panics

type Panic struct {
	Value string
	Site  string // first frame inside the repository (function name, no line)
	Stack string
}

var frameRE = regexp.MustCompile(`(?m)^(connectrpc\.com/conformance/[^\s(]+(?:\([^)]*\))?[^\s(]*)\(`)

// PanicSite extracts the innermost repository frame that is not harness code.
func PanicSite(stack string) string {
	for _, m := range frameRE.FindAllStringSubmatch(stack, -1) {
		f := m[1]
		if strings.Contains(f, "verifkit") || strings.Contains(f, ".vf") || strings.Contains(f, ".Vf") ||
			strings.Contains(f, ".TestVerif") || strings.Contains(f, "verifpeer") {
			continue
		}
		f = strings.TrimPrefix(f, "connectrpc.com/conformance/")
		return f
	}
	return "unknown"
}

// Catch runs f and converts a panic in the calling goroutine into a value.
func Catch(f func()) (p *Panic) {
	defer func() {
		if v := recover(); v != nil {
			st := string(debug.Stack())
			// drop the frames of the recover machinery itself
			if i := strings.Index(st, "panic("); i >= 0 {
				st = st[i:]
			}
			p = &Panic{Value: fmt.Sprint(v), Site: PanicSite(st), Stack: st}
		}
	}()
	f()
	return nil
}

// ---------------------------------------------------------------- misc

func SortedKeys[V any](m map[string]V) []string {
	ks := make([]string, 0, len(m))
	for k := range m {
		ks = append(ks, k)
	}
	sort.Strings(ks)
	return ks
}

func Trunc(s string, n int) string {
	if len(s) > n {
		return s[:n] + "…"
	}
	return s
}
