//go:build verif

package verifkit

import (
	"bytes"
	"compress/gzip"
	"compress/zlib"
	"fmt"
	"io"

	"github.com/andybalholm/brotli"
	"github.com/golang/snappy"
	"github.com/klauspost/compress/zstd"
)

// Independent use of the algorithms the six encoding names denote
// (IANA/Connect names): identity, gzip (RFC 1952), br, zstd, deflate (zlib
// wrapper, RFC 1950, as HTTP means it), snappy (framing format).
var Encodings = []string{"identity", "gzip", "br", "zstd", "deflate", "snappy"}

func IndepCompress(enc string, data []byte) ([]byte, error) {
	var b bytes.Buffer
	var w io.WriteCloser
	switch enc {
	case "", "identity":
		return append([]byte(nil), data...), nil
	case "gzip":
		w = gzip.NewWriter(&b)
	case "br":
		w = brotli.NewWriter(&b)
	case "zstd":
		zw, err := zstd.NewWriter(&b)
		if err != nil {
			return nil, err
		}
		w = zw
	case "deflate":
		w = zlib.NewWriter(&b)
	case "snappy":
		w = snappy.NewBufferedWriter(&b)
	default:
		return nil, fmt.Errorf("unknown encoding %q", enc)
	}
	if _, err := w.Write(data); err != nil {
		return nil, err
	}
	if err := w.Close(); err != nil {
		return nil, err
	}
	return b.Bytes(), nil
}

func IndepDecompress(enc string, data []byte) ([]byte, error) {
	var r io.Reader
	switch enc {
	case "", "identity":
		return append([]byte(nil), data...), nil
	case "gzip":
		zr, err := gzip.NewReader(bytes.NewReader(data))
		if err != nil {
			return nil, err
		}
		r = zr
	case "br":
		r = brotli.NewReader(bytes.NewReader(data))
	case "zstd":
		zr, err := zstd.NewReader(bytes.NewReader(data))
		if err != nil {
			return nil, err
		}
		defer zr.Close()
		r = zr
	case "deflate":
		zr, err := zlib.NewReader(bytes.NewReader(data))
		if err != nil {
			return nil, err
		}
		r = zr
	case "snappy":
		r = snappy.NewReader(bytes.NewReader(data))
	default:
		return nil, fmt.Errorf("unknown encoding %q", enc)
	}
	return io.ReadAll(r)
}
