//go:build verif

package referenceclient

import (
	"context"
	"fmt"
	"net/http"
	"net/http/httptest"
	"testing"

	"connectrpc.com/conformance/internal/compression"
	conformancev1 "connectrpc.com/conformance/internal/gen/proto/go/connectrpc/conformance/v1"
	"connectrpc.com/conformance/internal/gen/proto/go/connectrpc/conformance/v1/conformancev1connect"
	"connectrpc.com/conformance/internal/verifkit"
	"connectrpc.com/connect"
	"golang.org/x/net/http2"
	"golang.org/x/net/http2/h2c"
	"google.golang.org/protobuf/encoding/protojson"
	"google.golang.org/protobuf/proto"
	"google.golang.org/protobuf/types/known/anypb"
)

// vfSizedServer is a crafted connect-go server (third party, no limits) that
// answers Unary and ServerStream with responses of an exact serialized size.
type vfSizedServer struct {
	conformancev1connect.UnimplementedConformanceServiceHandler
}

func vfDataForResponseSize(size int, zero bool, mk func([]byte) proto.Message) []byte {
	for _, guess := range []int{size - 4, size - 5, size - 6, size - 7, size - 8, size - 3, size - 2} {
		if guess < 0 {
			continue
		}
		d := make([]byte, guess)
		if !zero {
			x := uint32(2463534242)
			for i := range d {
				x ^= x << 13
				x ^= x >> 17
				x ^= x << 5
				d[i] = byte(x)
			}
		}
		if proto.Size(mk(d)) == size {
			return d
		}
	}
	return nil
}

func (s *vfSizedServer) Unary(_ context.Context, req *connect.Request[conformancev1.UnaryRequest]) (*connect.Response[conformancev1.UnaryResponse], error) {
	// the request's response_data is passed through verbatim; the harness computed it for the size it wants
	return connect.NewResponse(&conformancev1.UnaryResponse{Payload: &conformancev1.ConformancePayload{Data: req.Msg.GetResponseDefinition().GetResponseData()}}), nil
}

func (s *vfSizedServer) ServerStream(_ context.Context, req *connect.Request[conformancev1.ServerStreamRequest], stream *connect.ServerStream[conformancev1.ServerStreamResponse]) error {
	for _, d := range req.Msg.GetResponseDefinition().GetResponseData() {
		if err := stream.Send(&conformancev1.ServerStreamResponse{Payload: &conformancev1.ConformancePayload{Data: d}}); err != nil {
			return err
		}
	}
	return nil
}

// TestVerifC19ClientSharp: the reference client accepts a response of exactly
// its receive limit and reports one byte more as resource_exhausted.
func TestVerifC19ClientSharp(t *testing.T) {
	rep := verifkit.Begin("C19", "client-sharp", "real reference client with message_receive_limit L in {64, 4096, 204800, 1048576 (the runner's own client limit)} against a crafted connect-go server answering unary and server-stream responses of exactly L-1, L, L+1 serialized bytes x {Connect, gRPC, gRPC-Web} x 6 compressions x {all-zero, incompressible}; plus JSON-codec responses clearly below / above the limit (by 100 bytes, a fifth, three tenths); plus long server streams (17/24 responses of 1 MiB, 300 of 4 KiB, 90 of 200 KiB; last at L or L+1); oracle: <= L delivered, L+1 resource_exhausted, per message; distinct = (limit, protocol, compression, padding, delta, rpc)")
	defer rep.Write()
	mux := http.NewServeMux()
	mux.Handle(conformancev1connect.NewConformanceServiceHandler(&vfSizedServer{},
		connect.WithCompression(compression.Brotli, compression.NewBrotliDecompressor, compression.NewBrotliCompressor),
		connect.WithCompression(compression.Deflate, compression.NewDeflateDecompressor, compression.NewDeflateCompressor),
		connect.WithCompression(compression.Snappy, compression.NewSnappyDecompressor, compression.NewSnappyCompressor),
		connect.WithCompression(compression.Zstd, compression.NewZstdDecompressor, compression.NewZstdCompressor),
		connect.WithCompressMinBytes(0)))
	srv := httptest.NewUnstartedServer(h2c.NewHandler(mux, &http2.Server{}))
	srv.Start()
	defer srv.Close()
	cs := &vfCaptureServer{srv: srv}
	host, port := cs.HostPort()
	cl := vfStartClient(true)
	defer cl.Stop()
	comps := []conformancev1.Compression{1, 2, 3, 4, 5, 6}
	names := map[conformancev1.Compression]string{1: "identity", 2: "gzip", 3: "br", 4: "zstd", 5: "deflate", 6: "snappy"}
	for _, L := range []int{64, 4096, 200 * 1024, 1 << 20} {
		for _, pr := range []conformancev1.Protocol{1, 2, 3} {
			for _, comp := range comps {
				for _, zero := range []bool{true, false} {
					for _, delta := range []int{-1, 0, 1} {
						for _, rpc := range []string{"unary", "server-stream"} {
							if rpc == "server-stream" && L > 5000 && !verifkit.Thorough() {
								continue
							}
							size := L + delta
							rep.Eval(1)
							rep.DistinctKey(L, pr, comp, zero, delta, rpc)
							name := fmt.Sprintf("ClientSharp/%d/%v/%v/%v/%d/%s", L, pr, comp, zero, delta, rpc)
							req := &conformancev1.ClientCompatRequest{TestName: name, HttpVersion: conformancev1.HTTPVersion_HTTP_VERSION_2, Protocol: pr, Codec: conformancev1.Codec_CODEC_PROTO, Compression: comp,
								Host: host, Port: port, Service: proto.String("connectrpc.conformance.v1.ConformanceService"), MessageReceiveLimit: uint32(L),
								RequestHeaders: []*conformancev1.Header{{Name: "x-test-case-name", Value: []string{name}}}}
							var compressedLen int
							if rpc == "unary" {
								d := vfDataForResponseSize(size, zero, func(b []byte) proto.Message {
									return &conformancev1.UnaryResponse{Payload: &conformancev1.ConformancePayload{Data: b}}
								})
								if d == nil {
									rep.Count("unreachable_size", 1)
									continue
								}
								raw, _ := proto.Marshal(&conformancev1.UnaryResponse{Payload: &conformancev1.ConformancePayload{Data: d}})
								c, _ := verifkit.IndepCompress(names[comp], raw)
								compressedLen = len(c)
								m, _ := anypb.New(&conformancev1.UnaryRequest{ResponseDefinition: &conformancev1.UnaryResponseDefinition{Response: &conformancev1.UnaryResponseDefinition_ResponseData{ResponseData: d}}})
								req.StreamType, req.Method, req.RequestMessages = conformancev1.StreamType_STREAM_TYPE_UNARY, proto.String("Unary"), []*anypb.Any{m}
							} else {
								d := vfDataForResponseSize(size, zero, func(b []byte) proto.Message {
									return &conformancev1.ServerStreamResponse{Payload: &conformancev1.ConformancePayload{Data: b}}
								})
								if d == nil {
									rep.Count("unreachable_size", 1)
									continue
								}
								raw, _ := proto.Marshal(&conformancev1.ServerStreamResponse{Payload: &conformancev1.ConformancePayload{Data: d}})
								c, _ := verifkit.IndepCompress(names[comp], raw)
								compressedLen = len(c)
								m, _ := anypb.New(&conformancev1.ServerStreamRequest{ResponseDefinition: &conformancev1.StreamResponseDefinition{ResponseData: [][]byte{[]byte("small first"), d}}})
								req.StreamType, req.Method, req.RequestMessages = conformancev1.StreamType_STREAM_TYPE_SERVER_STREAM, proto.String("ServerStream"), []*anypb.Any{m}
							}
							resp, err := cl.Do(req)
							w := map[string]any{"limit": L, "protocol": pr.String(), "compression": comp.String(), "zero_padding": zero, "size": size, "rpc": rpc, "compressed_len": compressedLen}
							if err != nil {
								rep.Inconcl(fmt.Sprintf("%s: %v", name, err))
								continue
							}
							if resp.GetError() != nil {
								rep.Violation("sharp/client/client-error", "reference client reported an internal error: "+resp.GetError().Message, w)
								continue
							}
							res := resp.GetResponse()
							verdict := "accepted"
							if res.GetError() != nil {
								verdict = connect.Code(res.GetError().Code).String()
								w["error"] = res.GetError().GetMessage()
							}
							w["verdict"] = verdict
							delivered := 0
							for _, p := range res.GetPayloads() {
								delivered = len(p.GetData())
							}
							switch {
							case delta > 0:
								rep.Count("over_limit_cases", 1)
								if verdict != "resource_exhausted" {
									rep.Violation("sharp/client/over-limit-"+verdict, fmt.Sprintf("response of %d bytes (limit %d): %s, want resource_exhausted", size, L, verdict), w)
								}
							case verdict == "accepted":
								rep.Count("within_limit_accepted", 1)
								if delivered < size-10 {
									rep.Violation("sharp/client/short-delivery", fmt.Sprintf("accepted but only %d data bytes delivered", delivered), w)
								}
							case verdict == "resource_exhausted" && compressedLen > L:
								rep.Violation("sharp/client/compressed-larger-than-limit", fmt.Sprintf("response of %d bytes (limit %d) rejected because its %s form has %d bytes", size, L, names[comp], compressedLen), w)
							default:
								rep.Violation("sharp/client/within-limit-"+verdict, fmt.Sprintf("response of %d bytes (limit %d): %s, want accepted", size, L, verdict), w)
							}
						}
					}
				}
			}
		}
	}
	// the JSON codec: the limit applies to the serialized (JSON) message just the same - no allowance for base64
	for _, L := range []int{4096, 200 * 1024} {
		for _, pr := range []conformancev1.Protocol{1, 2, 3} {
			for _, target := range []struct {
				what string
				size int
			}{{"below", L - 100}, {"above", L + 100}, {"above-by-a-fifth", L + L/5}, {"above-by-3-tenths", L + 3*L/10}} {
				for _, rpc := range []string{"unary", "server-stream"} {
					d := make([]byte, (target.size-40)*3/4)
					for i := range d {
						d[i] = byte(i * 7)
					}
					var jsonLen int
					name := fmt.Sprintf("ClientSharp/json/%d/%v/%s/%s", L, pr, target.what, rpc)
					req := &conformancev1.ClientCompatRequest{TestName: name, HttpVersion: conformancev1.HTTPVersion_HTTP_VERSION_2, Protocol: pr, Codec: conformancev1.Codec_CODEC_JSON, Compression: conformancev1.Compression_COMPRESSION_IDENTITY,
						Host: host, Port: port, Service: proto.String("connectrpc.conformance.v1.ConformanceService"), MessageReceiveLimit: uint32(L),
						RequestHeaders: []*conformancev1.Header{{Name: "x-test-case-name", Value: []string{name}}}}
					if rpc == "unary" {
						js, _ := protojson.Marshal(&conformancev1.UnaryResponse{Payload: &conformancev1.ConformancePayload{Data: d}})
						jsonLen = len(js)
						m, _ := anypb.New(&conformancev1.UnaryRequest{ResponseDefinition: &conformancev1.UnaryResponseDefinition{Response: &conformancev1.UnaryResponseDefinition_ResponseData{ResponseData: d}}})
						req.StreamType, req.Method, req.RequestMessages = conformancev1.StreamType_STREAM_TYPE_UNARY, proto.String("Unary"), []*anypb.Any{m}
					} else {
						js, _ := protojson.Marshal(&conformancev1.ServerStreamResponse{Payload: &conformancev1.ConformancePayload{Data: d}})
						jsonLen = len(js)
						m, _ := anypb.New(&conformancev1.ServerStreamRequest{ResponseDefinition: &conformancev1.StreamResponseDefinition{ResponseData: [][]byte{[]byte("small first"), d}}})
						req.StreamType, req.Method, req.RequestMessages = conformancev1.StreamType_STREAM_TYPE_SERVER_STREAM, proto.String("ServerStream"), []*anypb.Any{m}
					}
					if jsonLen > L-20 && jsonLen < L+20 {
						continue // too close to call: the peer's JSON encoder may space its output differently by a few bytes
					}
					rep.Eval(1)
					rep.DistinctKey(L, pr, target.what, rpc, "json")
					w := map[string]any{"limit": L, "protocol": pr.String(), "codec": "json", "json_message_bytes(approx)": jsonLen, "rpc": rpc}
					resp, err := cl.Do(req)
					if err != nil {
						rep.Inconcl(fmt.Sprintf("%s: %v", name, err))
						continue
					}
					if resp.GetError() != nil {
						rep.Violation("sharp/client/client-error", "reference client reported an internal error: "+resp.GetError().Message, w)
						continue
					}
					res := resp.GetResponse()
					verdict := "accepted"
					if res.GetError() != nil {
						verdict = connect.Code(res.GetError().Code).String()
						w["error"] = verifkit.Trunc(res.GetError().GetMessage(), 200)
					}
					w["verdict"] = verdict
					switch {
					case jsonLen > L && verdict != "resource_exhausted":
						rep.Violation("sharp/client/json/over-limit-"+verdict, fmt.Sprintf("JSON response of about %d bytes (limit %d): %s, want resource_exhausted", jsonLen, L, verdict), w)
					case jsonLen <= L && verdict != "accepted":
						rep.Violation("sharp/client/json/within-limit-"+verdict, fmt.Sprintf("JSON response of about %d bytes (limit %d): %s, want accepted", jsonLen, L, verdict), w)
					default:
						rep.Count("json_cases_ok:"+target.what, 1)
					}
				}
			}
		}
	}
	// the limit is per response message, not a budget for the response body: long server streams of responses that are
	// each within the limit are delivered in full; with a last response one byte over, all but the last are delivered
	for _, pr := range []conformancev1.Protocol{1, 2, 3} {
		for _, shape := range []struct{ L, count int }{{1 << 20, 17}, {1 << 20, 24}, {4096, 300}, {200 * 1024, 90}} {
			for _, lastDelta := range []int{0, 1} {
				if !verifkit.Thorough() && (shape.count == 24 || shape.L == 200*1024) {
					continue
				}
				mk := func(b []byte) proto.Message {
					return &conformancev1.ServerStreamResponse{Payload: &conformancev1.ConformancePayload{Data: b}}
				}
				d, dLast := vfDataForResponseSize(shape.L, false, mk), vfDataForResponseSize(shape.L+lastDelta, false, mk)
				if d == nil || dLast == nil {
					rep.Count("unreachable_size", 1)
					continue
				}
				rep.Eval(1)
				rep.DistinctKey(shape.L, pr, shape.count, lastDelta, "long-stream")
				name := fmt.Sprintf("ClientSharp/%d/%v/long-stream/%d/%+d", shape.L, pr, shape.count, lastDelta)
				data := make([][]byte, shape.count)
				for i := range data {
					data[i] = d
				}
				data[shape.count-1] = dLast
				m, _ := anypb.New(&conformancev1.ServerStreamRequest{ResponseDefinition: &conformancev1.StreamResponseDefinition{ResponseData: data}})
				req := &conformancev1.ClientCompatRequest{TestName: name, HttpVersion: conformancev1.HTTPVersion_HTTP_VERSION_2, Protocol: pr, Codec: conformancev1.Codec_CODEC_PROTO, Compression: conformancev1.Compression_COMPRESSION_IDENTITY,
					Host: host, Port: port, Service: proto.String("connectrpc.conformance.v1.ConformanceService"), MessageReceiveLimit: uint32(shape.L),
					RequestHeaders: []*conformancev1.Header{{Name: "x-test-case-name", Value: []string{name}}},
					StreamType:     conformancev1.StreamType_STREAM_TYPE_SERVER_STREAM, Method: proto.String("ServerStream"), RequestMessages: []*anypb.Any{m}}
				resp, err := cl.Do(req)
				w := map[string]any{"limit": shape.L, "protocol": pr.String(), "responses": shape.count, "last_response_delta": lastDelta, "total_bytes": shape.count * shape.L}
				if err != nil {
					rep.Inconcl(fmt.Sprintf("%s: %v", name, err))
					continue
				}
				if resp.GetError() != nil {
					rep.Violation("sharp/client/client-error", "reference client reported an internal error: "+resp.GetError().Message, w)
					continue
				}
				res := resp.GetResponse()
				verdict := "accepted"
				if res.GetError() != nil {
					verdict = connect.Code(res.GetError().Code).String()
					w["error"] = verifkit.Trunc(res.GetError().GetMessage(), 200)
				}
				w["verdict"], w["payloads_delivered"] = verdict, len(res.GetPayloads())
				switch {
				case lastDelta == 0 && (verdict != "accepted" || len(res.GetPayloads()) != shape.count):
					rep.Violation("sharp/client/long-stream/within-limit-"+verdict, fmt.Sprintf("%d responses of %d bytes each (limit %d per message): %s after %d payloads, want all accepted", shape.count, shape.L, shape.L, verdict, len(res.GetPayloads())), w)
				case lastDelta > 0 && (verdict != "resource_exhausted" || len(res.GetPayloads()) != shape.count-1):
					rep.Violation("sharp/client/long-stream/last-over-limit-"+verdict, fmt.Sprintf("%d responses, only the last over the limit: %s after %d payloads, want resource_exhausted after %d", shape.count, verdict, len(res.GetPayloads()), shape.count-1), w)
				default:
					rep.Count("long_streams_ok", 1)
				}
			}
		}
	}
	rep.Sample(map[string]any{"limit": 64, "protocol": "PROTOCOL_GRPC_WEB", "compression": "COMPRESSION_SNAPPY", "size": 65, "expect": "resource_exhausted"})
	rep.RequireMin("over_limit_cases", 100)
	rep.RequireMin("within_limit_accepted", 150)
	rep.RequireMin("long_streams_ok", 9)
	rep.RequireMin("json_cases_ok:above-by-a-fifth", 6)
	rep.RequireMin("json_cases_ok:below", 6)
}
