//go:build verif

package referenceclient

import (
	"bytes"
	"fmt"
	"io"
	"net"
	"strconv"
	"sync"
	"testing"

	conformancev1 "connectrpc.com/conformance/internal/gen/proto/go/connectrpc/conformance/v1"
	"connectrpc.com/conformance/internal/verifkit"
	"golang.org/x/net/http2"
	"golang.org/x/net/http2/hpack"
	"google.golang.org/protobuf/proto"
	"google.golang.org/protobuf/types/known/anypb"
)

// vfTurnAwayServer is a minimal prior-knowledge HTTP/2 server (written with http2.Framer) that turns
// the first request of a scenario away in a way HTTP/2 defines as safe to retry, and answers every
// other complete request with 200. Every complete request it saw is recorded.
type vfTurnAwayServer struct {
	lis  net.Listener
	mu   sync.Mutex
	mode string // "none", "refused" (RST_STREAM REFUSED_STREAM), "goaway" (GOAWAY, last stream 0)
	arm  bool
	seen []vfTurnedReq
	away int
}

type vfTurnedReq struct {
	Method, Path string
	Header       map[string][]string
	Body         []byte
}

func vfStartTurnAwayServer() *vfTurnAwayServer {
	lis, err := net.Listen("tcp", "127.0.0.1:0")
	if err != nil {
		panic(err)
	}
	s := &vfTurnAwayServer{lis: lis}
	go func() {
		for {
			c, err := lis.Accept()
			if err != nil {
				return
			}
			go s.serve(c)
		}
	}()
	return s
}

func (s *vfTurnAwayServer) serve(conn net.Conn) {
	defer conn.Close()
	preface := make([]byte, len(http2.ClientPreface))
	if _, err := io.ReadFull(conn, preface); err != nil || string(preface) != http2.ClientPreface {
		return
	}
	fr := http2.NewFramer(conn, conn)
	fr.ReadMetaHeaders = hpack.NewDecoder(4096, nil)
	_ = fr.WriteSettings()
	open := map[uint32]*vfTurnedReq{}
	turned := map[uint32]bool{}
	var hbuf bytes.Buffer
	enc := hpack.NewEncoder(&hbuf)
	complete := func(id uint32) {
		r := open[id]
		delete(open, id)
		s.mu.Lock()
		s.seen = append(s.seen, *r)
		s.mu.Unlock()
		hbuf.Reset()
		_ = enc.WriteField(hpack.HeaderField{Name: ":status", Value: "200"})
		_ = enc.WriteField(hpack.HeaderField{Name: "content-type", Value: "application/proto"})
		_ = enc.WriteField(hpack.HeaderField{Name: "content-length", Value: "0"})
		_ = fr.WriteHeaders(http2.HeadersFrameParam{StreamID: id, BlockFragment: hbuf.Bytes(), EndHeaders: true, EndStream: true})
	}
	for {
		f, err := fr.ReadFrame()
		if err != nil {
			return
		}
		switch f := f.(type) {
		case *http2.SettingsFrame:
			if !f.IsAck() {
				_ = fr.WriteSettingsAck()
			}
		case *http2.PingFrame:
			if !f.IsAck() {
				_ = fr.WritePing(true, f.Data)
			}
		case *http2.MetaHeadersFrame:
			s.mu.Lock()
			turn := s.arm && s.mode != "none"
			if turn {
				s.arm = false
				s.away++
			}
			mode := s.mode
			s.mu.Unlock()
			if turn {
				turned[f.StreamID] = true
				if mode == "refused" {
					_ = fr.WriteRSTStream(f.StreamID, http2.ErrCodeRefusedStream)
				} else {
					_ = fr.WriteGoAway(0, http2.ErrCodeNo, []byte("draining"))
				}
				continue
			}
			r := &vfTurnedReq{Header: map[string][]string{}}
			for _, hf := range f.Fields {
				switch hf.Name {
				case ":method":
					r.Method = hf.Value
				case ":path":
					r.Path = hf.Value
				default:
					r.Header[hf.Name] = append(r.Header[hf.Name], hf.Value)
				}
			}
			open[f.StreamID] = r
			if f.StreamEnded() {
				complete(f.StreamID)
			}
		case *http2.DataFrame:
			if n := len(f.Data()); n > 0 {
				_ = fr.WriteWindowUpdate(0, uint32(n))
			}
			if turned[f.StreamID] {
				continue
			}
			if r := open[f.StreamID]; r != nil {
				r.Body = append(r.Body, f.Data()...)
				if f.StreamEnded() {
					complete(f.StreamID)
				}
			}
		}
	}
}

func (s *vfTurnAwayServer) scenario(mode string) {
	s.mu.Lock()
	s.mode, s.arm, s.seen = mode, true, nil
	s.mu.Unlock()
}

func (s *vfTurnAwayServer) taken() ([]vfTurnedReq, int) {
	s.mu.Lock()
	defer s.mu.Unlock()
	return append([]vfTurnedReq(nil), s.seen...), s.away
}

// TestVerifC17ClientRawRetry: a raw request stays the raw request when the transport has to
// send it again (or gives up): whatever complete request reaches the server carries exactly the
// prescribed body, never the request the client would have built.
func TestVerifC17ClientRawRetry(t *testing.T) {
	rep := verifkit.Begin("C17", "client-raw-retry", "real reference client (h2c) sending raw unary requests (POST with a body, POST without, GET) to a framer-level HTTP/2 server that turns the first attempt away with RST_STREAM(REFUSED_STREAM) or GOAWAY(last stream 0) - both retryable by definition - or not at all; oracle: every complete request the server saw has the raw method, path, listed headers and exactly the raw body (the call itself may fail when turned away); distinct = (fault, verb, body length)")
	defer rep.Write()
	srv := vfStartTurnAwayServer()
	defer srv.lis.Close()
	host, portStr, _ := net.SplitHostPort(srv.lis.Addr().String())
	port, _ := strconv.Atoi(portStr)
	rng := verifkit.Stream("c17retry")
	n := verifkit.Scale(60, 1500)
	for i := 0; i < n; i++ {
		// a fresh client per scenario: a connection that got GOAWAY must not be the one the next scenario starts on
		cl := vfStartClient(true)
		mode := []string{"refused", "goaway", "none"}[i%3]
		verb := verifkit.Pick(rng, []string{"POST", "POST", "GET", "PUT"})
		var body []byte
		if verb != "GET" && rng.Chance(3, 4) {
			body = rng.Bytes(1 + rng.Intn(3000))
		}
		name := fmt.Sprintf("RawRetry/%d", i)
		raw := &conformancev1.RawHTTPRequest{Verb: verb, Uri: "/raw/path", Headers: []*conformancev1.Header{{Name: "x-raw", Value: []string{"a", "b"}}, {Name: "x-test-case-name", Value: []string{name}}}}
		if body != nil {
			raw.Body = &conformancev1.RawHTTPRequest_Unary{Unary: &conformancev1.MessageContents{Data: &conformancev1.MessageContents_Binary{Binary: body}}}
		}
		normal, _ := anypb.New(&conformancev1.UnaryRequest{RequestData: []byte("NORMAL-REQUEST-BODY-MUST-NOT-APPEAR")})
		req := &conformancev1.ClientCompatRequest{TestName: name, HttpVersion: conformancev1.HTTPVersion_HTTP_VERSION_2, Protocol: conformancev1.Protocol_PROTOCOL_CONNECT, Codec: conformancev1.Codec_CODEC_PROTO, Compression: conformancev1.Compression_COMPRESSION_IDENTITY,
			Host: host, Port: uint32(port), Service: proto.String("connectrpc.conformance.v1.ConformanceService"), Method: proto.String("Unary"), StreamType: conformancev1.StreamType_STREAM_TYPE_UNARY,
			RequestMessages: []*anypb.Any{normal}, RawRequest: raw, RequestHeaders: []*conformancev1.Header{{Name: "X-Normal-Header", Value: []string{"must-not-appear"}}, {Name: "x-test-case-name", Value: []string{name}}}}
		srv.scenario(mode)
		rep.Eval(1)
		rep.DistinctKey(mode, verb, len(body))
		w := map[string]any{"first_attempt": mode, "verb": verb, "raw_body_len": len(body)}
		_, err := cl.Do(req)
		cl.Stop()
		if err != nil {
			rep.Inconcl(fmt.Sprintf("%s: %v", name, err))
			continue
		}
		seen, away := srv.taken()
		_ = away
		rep.Count("first_attempt:"+mode, 1)
		if mode != "none" {
			rep.Count("requests_seen_after_being_turned_away", len(seen))
		} else if len(seen) != 1 {
			rep.Violation("raw/client/retry/request-count", fmt.Sprintf("%d complete requests arrived for one raw request that was not turned away", len(seen)), w)
		}
		for k, r := range seen {
			rep.Count("complete_requests_checked", 1)
			if r.Method != verb || r.Path != "/raw/path" || len(r.Header["x-raw"]) != 2 || len(r.Header["x-normal-header"]) != 0 {
				w["seen"] = fmt.Sprintf("%s %s %v", r.Method, r.Path, r.Header)
				rep.Violation("raw/client/retry/request-line-or-headers/"+mode, fmt.Sprintf("complete request #%d on the wire is %s %s with headers %v", k+1, r.Method, r.Path, r.Header), w)
			}
			if !bytes.Equal(r.Body, body) {
				w["body_on_wire"] = verifkit.Trunc(fmt.Sprintf("%q", r.Body), 300)
				what := "other bytes"
				if bytes.Contains(r.Body, []byte("NORMAL-REQUEST-BODY")) {
					what = "the request the client would have built"
				}
				rep.Violation("raw/client/retry/body/"+mode, fmt.Sprintf("complete request #%d carries %d body bytes (%s), the raw request prescribes %d", k+1, len(r.Body), what, len(body)), w)
			}
		}
	}
	srv.mu.Lock()
	rep.Count("first_attempts_turned_away", srv.away)
	srv.mu.Unlock()
	rep.Sample(map[string]any{"first_attempt": "RST_STREAM(REFUSED_STREAM)", "expect": "no complete request, or a complete request with the raw body"})
	rep.RequireMin("first_attempts_turned_away", 20)
	rep.RequireMin("complete_requests_checked", 15)
}
