//go:build verif

package referenceclient

import (
	"bytes"
	"fmt"
	"net/http"
	"testing"

	conformancev1 "connectrpc.com/conformance/internal/gen/proto/go/connectrpc/conformance/v1"
	"connectrpc.com/conformance/internal/verifkit"
	"google.golang.org/protobuf/proto"
	"google.golang.org/protobuf/types/known/anypb"
)

// TestVerifC20ClientWire: what the reference client sends under encoding X is
// decodable by an independent X decoder, and it accepts an independently
// X-compressed response.
func TestVerifC20ClientWire(t *testing.T) {
	rep := verifkit.Begin("C20", "client-wire", "real reference client x 6 compressions x payloads x {HTTP/1.1, h2c}: a plain server captures the Connect unary request (Content-Encoding name + body decoded by an independent decoder) and answers with a body compressed by an independent encoder under the same name; the client must deliver the echoed payload; distinct = (transport, encoding, payload)")
	defer rep.Write()
	names := map[conformancev1.Compression]string{1: "identity", 2: "gzip", 3: "br", 4: "zstd", 5: "deflate", 6: "snappy"}
	cs := vfStartCaptureServer(func(w http.ResponseWriter, r *http.Request, body []byte) {
		enc := r.Header.Get("Content-Encoding")
		if enc == "" {
			enc = "identity"
		}
		plain, err := verifkit.IndepDecompress(enc, body)
		req := &conformancev1.UnaryRequest{}
		if err != nil || proto.Unmarshal(plain, req) != nil {
			w.Header().Set("X-Verif-Decode", "failed")
			w.WriteHeader(400)
			return
		}
		out, _ := proto.Marshal(&conformancev1.UnaryResponse{Payload: &conformancev1.ConformancePayload{Data: req.RequestData}})
		c, _ := verifkit.IndepCompress(enc, out)
		w.Header().Set("Content-Type", "application/proto")
		if enc != "identity" {
			w.Header().Set("Content-Encoding", enc)
		}
		w.WriteHeader(200)
		_, _ = w.Write(c)
	})
	defer cs.Close()
	host, port := cs.HostPort()
	cl := vfStartClient(false)
	defer cl.Stop()
	rng := verifkit.Stream("c20client")
	for _, ver := range []conformancev1.HTTPVersion{1, 2} {
		for comp := conformancev1.Compression(1); comp <= 6; comp++ {
			for pi, payload := range [][]byte{{}, []byte("hello"), rng.Bytes(4000), bytes.Repeat([]byte("z"), 30000)} {
				name := fmt.Sprintf("C20c/%v/%v/%d", ver, comp, pi)
				m, _ := anypb.New(&conformancev1.UnaryRequest{RequestData: payload})
				req := &conformancev1.ClientCompatRequest{TestName: name, HttpVersion: ver, Protocol: conformancev1.Protocol_PROTOCOL_CONNECT, Codec: conformancev1.Codec_CODEC_PROTO, Compression: comp,
					Host: host, Port: port, Service: proto.String("connectrpc.conformance.v1.ConformanceService"), Method: proto.String("Unary"), StreamType: conformancev1.StreamType_STREAM_TYPE_UNARY,
					RequestMessages: []*anypb.Any{m}, RequestHeaders: []*conformancev1.Header{{Name: "x-test-case-name", Value: []string{name}}}}
				rep.Eval(1)
				rep.DistinctKey(ver, comp, payload)
				w := map[string]any{"http_version": ver.String(), "compression": comp.String(), "payload_len": len(payload)}
				resp, err := cl.Do(req)
				if err != nil {
					rep.Inconcl(fmt.Sprintf("%s: %v", name, err))
					continue
				}
				caps := cs.Take(name)
				if len(caps) != 1 {
					rep.Violation("compress/"+names[comp]+"/client-request-count", fmt.Sprintf("%d requests captured", len(caps)), w)
					continue
				}
				enc := caps[0].Header.Get("Content-Encoding")
				if enc == "" {
					enc = "identity"
				}
				// small bodies may legitimately go uncompressed
				if enc != names[comp] && enc != "identity" {
					rep.Violation("compress/"+names[comp]+"/client-uses-other-name", fmt.Sprintf("request for %v was sent with Content-Encoding %q", comp, enc), w)
					continue
				}
				if enc == names[comp] && comp != 1 {
					rep.Count("requests_in_requested_encoding", 1)
				}
				plain, derr := verifkit.IndepDecompress(enc, caps[0].Body)
				got := &conformancev1.UnaryRequest{}
				if derr != nil || proto.Unmarshal(plain, got) != nil || !bytes.Equal(got.RequestData, payload) {
					rep.Violation("compress/"+names[comp]+"/client-request-not-the-named-algorithm", fmt.Sprintf("request labelled %s is not decodable by an independent %s decoder (%v)", enc, enc, derr), w)
					continue
				}
				if resp.GetError() != nil || resp.GetResponse().GetError() != nil {
					rep.Violation("compress/"+names[comp]+"/client-rejects-independent-response", fmt.Sprintf("client could not read a response compressed by an independent %s encoder: %v %v", enc, resp.GetError(), resp.GetResponse().GetError()), w)
					continue
				}
				ps := resp.GetResponse().GetPayloads()
				if len(ps) != 1 || !bytes.Equal(ps[0].Data, payload) {
					rep.Violation("compress/"+names[comp]+"/client-decoded-differently", "payload delivered by the client differs from what the server sent", w)
					continue
				}
				rep.Count("client_roundtrips", 1)
			}
		}
	}
	rep.Sample(map[string]any{"compression": "COMPRESSION_DEFLATE", "expect": "request body is a zlib stream labelled deflate; zlib-compressed response is delivered"})
	rep.RequireMin("client_roundtrips", 40)
	rep.RequireMin("requests_in_requested_encoding", 10)
}
