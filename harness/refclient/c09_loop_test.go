//go:build verif

package referenceclient

import (
	"bytes"
	"context"
	"fmt"
	"io"
	"sort"
	"strings"
	"testing"
	"time"

	"connectrpc.com/conformance/internal"
	conformancev1 "connectrpc.com/conformance/internal/gen/proto/go/connectrpc/conformance/v1"
	"connectrpc.com/conformance/internal/verifkit"
	"google.golang.org/protobuf/proto"
	"google.golang.org/protobuf/types/known/anypb"
)

type vfSyncBuf struct {
	bytes.Buffer
}

func (b *vfSyncBuf) Close() error { return nil }

// TestVerifC09ClientLoop: the reference client's own request loop (the
// peer-side consumer of the runner's request stream), binary and -json, reads
// every request of a stream exactly once however the bytes are chunked.
func TestVerifC09ClientLoop(t *testing.T) {
	rep := verifkit.Begin("C09", "client-loop", "referenceclient.Run (binary and -json) fed a stream of 3-14 ClientCompatRequests (1 B - 40 KB each; the RPCs go to a closed port and fail fast) through a scripted stdin under 7 partition plans, data+EOF, (0,nil) reads; plus cuts inside the last message; oracle: Run ends without error and answers every request exactly once (names as a multiset) for complete streams; a stream cut inside a message makes Run return an error and never yields an answer for the incomplete request; distinct = (codec, plan, stream)")
	defer rep.Write()
	n := verifkit.Scale(12, 300)
	for it := 0; it < n; it++ {
		rng := verifkit.Stream("c09loop", it)
		for _, useJSON := range []bool{false, true} {
			codec := internal.NewCodec(useJSON)
			var stream bytes.Buffer
			enc := codec.NewEncoder(&stream)
			var names []string
			var ends []int
			for k := 3 + rng.Intn(12); k > 0; k-- {
				name := fmt.Sprintf("Loop/%d/%v/%d", it, useJSON, k)
				msg, _ := anypb.New(&conformancev1.UnaryRequest{RequestData: rng.Bytes(verifkit.Pick(rng, []int{0, 1, 100, 3000, 40000}))})
				req := &conformancev1.ClientCompatRequest{TestName: name, HttpVersion: conformancev1.HTTPVersion_HTTP_VERSION_1, Protocol: conformancev1.Protocol_PROTOCOL_CONNECT, Codec: conformancev1.Codec_CODEC_PROTO,
					Compression: conformancev1.Compression_COMPRESSION_IDENTITY, Host: "127.0.0.1", Port: 1, Service: proto.String("connectrpc.conformance.v1.ConformanceService"), Method: proto.String("Unary"),
					StreamType: conformancev1.StreamType_STREAM_TYPE_UNARY, RequestMessages: []*anypb.Any{msg}, TimeoutMs: proto.Uint32(2000)}
				if err := enc.Encode(req); err != nil {
					t.Fatal(err)
				}
				names = append(names, name)
				ends = append(ends, stream.Len())
			}
			plans := verifkit.Plans(rng, 4)
			for _, pn := range verifkit.SortedKeys(plans) {
				for _, cut := range []int{-1, 1 + rng.Intn(7)} {
					data := stream.Bytes()
					complete := names
					if cut > 0 {
						// cut inside the last message
						lastStart := 0
						if len(ends) > 1 {
							lastStart = ends[len(ends)-2]
						}
						span := len(data) - lastStart
						if span < 3 {
							continue
						}
						data = data[:lastStart+1+(cut*span/9)%(span-1)]
						complete = names[:len(names)-1]
					}
					rep.Eval(1)
					rep.DistinctKey(useJSON, pn, it, cut > 0)
					in := &verifkit.ScriptReader{Data: append([]byte(nil), data...), Plan: plans[pn], EOFWithData: rng.Bool(), ZeroEvery: []int{0, 0, 5}[rng.Intn(3)], StallAt: -1}
					out := &vfSyncBuf{}
					args := []string{"referenceclient", "-p", "3"}
					if useJSON {
						args = append(args, "-json")
					}
					w := map[string]any{"json": useJSON, "plan": pn, "requests": len(names), "stream_bytes": len(data), "cut_inside_last_message": cut > 0}
					done := make(chan error, 1)
					var pnc *verifkit.Panic
					go func() {
						var err error
						pnc = verifkit.Catch(func() { err = Run(context.Background(), args, io.NopCloser(in), out, vfDiscardCloser{}) })
						done <- err
					}()
					var runErr error
					select {
					case runErr = <-done:
					case <-time.After(60 * time.Second):
						rep.Violation("framing/client-loop/not-terminating", "referenceclient.Run did not return after its input ended", w)
						continue
					}
					if pnc != nil {
						rep.Violation("framing/client-loop/panic/"+pnc.Site, pnc.Value, w)
						continue
					}
					var got []string
					dec := codec.NewDecoder(bytes.NewReader(out.Bytes()))
					for {
						resp := &conformancev1.ClientCompatResponse{}
						if err := dec.DecodeNext(resp); err != nil {
							break
						}
						got = append(got, resp.TestName)
					}
					sort.Strings(got)
					want := append([]string(nil), complete...)
					sort.Strings(want)
					w["answered"], w["run_error"] = len(got), fmt.Sprint(runErr)
					if strings.Join(got, "|") != strings.Join(want, "|") {
						rep.Violation("framing/client-loop/answers-differ-from-requests", fmt.Sprintf("%d requests were written completely, %d answers came back (json=%v, plan %s): requests were dropped, duplicated or mangled by the client's reader", len(want), len(got), useJSON, pn), w)
						continue
					}
					if cut < 0 && runErr != nil {
						rep.Violation("framing/client-loop/error-on-complete-stream", fmt.Sprintf("Run returned %v for a complete request stream", runErr), w)
					}
					if cut > 0 && runErr == nil {
						rep.Violation("framing/client-loop/truncation-read-as-clean-end", "the request stream was cut inside a message but Run ended without error", w)
					}
					rep.Count("client_loop_streams_ok", 1)
				}
			}
		}
	}
	rep.Sample(map[string]any{"json": true, "plan": "random-1to9", "requests": 9, "expect": "9 answers, one per name; Run returns nil"})
	rep.RequireMin("client_loop_streams_ok", 50)
}
