//go:build verif

package referenceclient

import (
	"bytes"
	"context"
	"fmt"
	"io"
	"net"
	"net/http"
	"net/http/httptest"
	"strconv"
	"strings"
	"sync"
	"time"

	"connectrpc.com/conformance/internal"
	conformancev1 "connectrpc.com/conformance/internal/gen/proto/go/connectrpc/conformance/v1"
	"golang.org/x/net/http2"
	"golang.org/x/net/http2/h2c"
)

// vfClient is a real reference client (RunInReferenceMode) driven through the
// pipes the runner uses.
type vfClient struct {
	in     *io.PipeWriter
	out    *io.PipeReader
	cancel context.CancelFunc
	done   chan error
	mu     sync.Mutex
	dec    internal.StreamDecoder
}

type vfDiscardCloser struct{}

func (vfDiscardCloser) Write(p []byte) (int, error) { return len(p), nil }
func (vfDiscardCloser) Close() error                { return nil }

func vfStartClient(referenceMode bool) *vfClient {
	inR, inW := io.Pipe()
	outR, outW := io.Pipe()
	ctx, cancel := context.WithCancel(context.Background())
	c := &vfClient{in: inW, out: outR, cancel: cancel, done: make(chan error, 1)}
	c.dec = internal.NewCodec(false).NewDecoder(outR)
	go func() {
		var err error
		args := []string{"referenceclient", "-p", "4"}
		if referenceMode {
			err = RunInReferenceMode(ctx, args, inR, outW, vfDiscardCloser{}, nil)
		} else {
			err = Run(ctx, args, inR, outW, vfDiscardCloser{})
		}
		_ = outW.CloseWithError(io.EOF)
		c.done <- err
	}()
	return c
}

// Do sends one request and waits for its answer (sequential use).
func (c *vfClient) Do(req *conformancev1.ClientCompatRequest) (*conformancev1.ClientCompatResponse, error) {
	c.mu.Lock()
	defer c.mu.Unlock()
	var buf bytes.Buffer
	if err := internal.NewCodec(false).NewEncoder(&buf).Encode(req); err != nil {
		return nil, err
	}
	errc := make(chan error, 1)
	go func() { _, err := c.in.Write(buf.Bytes()); errc <- err }()
	resp := &conformancev1.ClientCompatResponse{}
	rc := make(chan error, 1)
	go func() { rc <- c.dec.DecodeNext(resp) }()
	select {
	case err := <-rc:
		if err != nil {
			return nil, err
		}
	case <-time.After(30 * time.Second):
		return nil, fmt.Errorf("reference client did not answer %q within 30 s", req.TestName)
	}
	if err := <-errc; err != nil {
		return nil, err
	}
	if resp.TestName != req.TestName {
		return nil, fmt.Errorf("answer for %q while waiting for %q", resp.TestName, req.TestName)
	}
	return resp, nil
}

func (c *vfClient) Stop() {
	_ = c.in.Close()
	select {
	case <-c.done:
	case <-time.After(10 * time.Second):
		c.cancel()
	}
	c.cancel()
}

// vfCapture is what a plain HTTP server saw.
type vfCapture struct {
	Method     string
	Path       string
	RawQuery   string
	Header     http.Header
	Body       []byte
	ProtoMajor int
	Trailer    http.Header
	// ContentLength and TransferEncoding as the server's HTTP stack saw them
	ContentLength    int64
	TransferEncoding []string
	// RequestTarget: the path exactly as it was on the request line / :path (escapes untouched), without the query
	RequestTarget string
}

// vfCaptureServer records every request and answers with a canned response.
type vfCaptureServer struct {
	srv     *httptest.Server
	mu      sync.Mutex
	byName  map[string][]*vfCapture
	Respond func(w http.ResponseWriter, r *http.Request, body []byte)
}

func vfStartCaptureServer(respond func(w http.ResponseWriter, r *http.Request, body []byte)) *vfCaptureServer {
	cs := &vfCaptureServer{byName: map[string][]*vfCapture{}, Respond: respond}
	handler := http.HandlerFunc(func(w http.ResponseWriter, r *http.Request) {
		body, _ := io.ReadAll(r.Body)
		c := &vfCapture{Method: r.Method, Path: r.URL.Path, RawQuery: r.URL.RawQuery, Header: r.Header.Clone(), Body: body, ProtoMajor: r.ProtoMajor, Trailer: r.Trailer.Clone(), ContentLength: r.ContentLength, TransferEncoding: append([]string(nil), r.TransferEncoding...), RequestTarget: strings.SplitN(r.RequestURI, "?", 2)[0]}
		name := r.Header.Get("X-Test-Case-Name")
		cs.mu.Lock()
		cs.byName[name] = append(cs.byName[name], c)
		cs.mu.Unlock()
		if cs.Respond != nil {
			cs.Respond(w, r, body)
			return
		}
		w.Header().Set("Content-Type", "application/proto")
		w.WriteHeader(200)
	})
	cs.srv = httptest.NewUnstartedServer(h2c.NewHandler(handler, &http2.Server{}))
	cs.srv.Start()
	return cs
}

func (cs *vfCaptureServer) HostPort() (string, uint32) {
	host, port, _ := net.SplitHostPort(cs.srv.Listener.Addr().String())
	p, _ := strconv.Atoi(port)
	return host, uint32(p)
}

func (cs *vfCaptureServer) Take(name string) []*vfCapture {
	cs.mu.Lock()
	defer cs.mu.Unlock()
	out := cs.byName[name]
	delete(cs.byName, name)
	return out
}

func (cs *vfCaptureServer) Close() { cs.srv.Close() }
