//go:build verif

package referenceclient

import (
	"io"
	"net/http"

	"connectrpc.com/conformance/internal"
)

// Export shim for the monitors that live in other packages (injected by the
// build overlay only; carries the verif build tag).

// VfExamineExchange sends req through the reference client's real wire
// capture + tracing round-tripper chain on top of base, drains the body and
// returns the feedback lines examineWireDetails produced.
func VfExamineExchange(base http.RoundTripper, req *http.Request) (resp *http.Response, body []byte, feedback []string, examined bool, err error) {
	ctx := withWireCapture(req.Context())
	rt := newWireCaptureTransport(base, nil)
	resp, err = rt.RoundTrip(req.WithContext(ctx))
	if err != nil {
		return nil, nil, nil, false, err
	}
	body, _ = io.ReadAll(resp.Body)
	_ = resp.Body.Close()
	p := &internal.SimplePrinter{}
	_, examined = examineWireDetails(ctx, p)
	return resp, body, p.Messages, examined, nil
}

func VfExamineConnectError(b []byte, p internal.Printer)     { examineConnectError(b, p) }
func VfExamineConnectEndStream(b []byte, p internal.Printer) { examineConnectEndStream(b, p) }
func VfExamineGRPCEndStream(s string, p internal.Printer) http.Header {
	return examineGRPCEndStream(s, p)
}
func VfCheckGRPCStatus(h http.Header, p internal.Printer) { checkGRPCStatus(h, p) }
