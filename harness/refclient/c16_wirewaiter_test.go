//go:build verif

package referenceclient

import (
	"context"
	"fmt"
	"net/http"
	"strings"
	"sync"
	"sync/atomic"
	"testing"
	"time"

	"connectrpc.com/conformance/internal"
	"connectrpc.com/conformance/internal/tracer"
	"connectrpc.com/conformance/internal/verifkit"
)

// TestVerifC16WireWaiter: the reference client's own consumer of completed
// traces (wireTracer.Complete -> setWireTrace -> examineWireDetails).
func TestVerifC16WireWaiter(t *testing.T) {
	rep := verifkit.Begin("C16", "wire-waiter", "examineWireDetails waiting on a call context that is {live, cancelled, past its deadline} while wireTracer.Complete hands the trace over {before the wait, 2 ms, 30 ms, 250 ms after it began}, 40 repetitions each, plus the never-completed case; oracle: the waiter gets the trace (status 200, no 'unable to examine' feedback), the plain Tracer behind the wireTracer receives the same completion exactly once, and a trace that never comes makes the wait end by itself within its grace period; hand-overs that the machine delayed beyond 700 ms are inconclusive; distinct = (context state, delay)")
	defer rep.Write()
	type ctxKind struct {
		name string
		mk   func() (context.Context, context.CancelFunc)
	}
	kinds := []ctxKind{
		{"live", func() (context.Context, context.CancelFunc) { return context.WithCancel(context.Background()) }},
		{"cancelled", func() (context.Context, context.CancelFunc) {
			c, cancel := context.WithCancel(context.Background())
			cancel()
			return c, cancel
		}},
		{"deadline-exceeded", func() (context.Context, context.CancelFunc) {
			return context.WithDeadline(context.Background(), time.Now().Add(-time.Second))
		}},
	}
	delays := []time.Duration{-1, 2 * time.Millisecond, 30 * time.Millisecond, 250 * time.Millisecond}
	reps := verifkit.Scale(40, 600)
	var wg sync.WaitGroup
	var mu sync.Mutex
	sem := make(chan struct{}, 32)
	for _, k := range kinds {
		for _, d := range delays {
			for i := 0; i < reps; i++ {
				wg.Add(1)
				sem <- struct{}{}
				go func(k ctxKind, d time.Duration, i int) {
					defer wg.Done()
					defer func() { <-sem }()
					base, cancel := k.mk()
					defer cancel()
					ctx := withWireCapture(base)
					name := fmt.Sprintf("Wire/%s/%v/%d", k.name, d, i)
					tr := tracer.Tracer{}
					tr.Init(name)
					wt := &wireTracer{tracer: &tr}
					req, _ := http.NewRequestWithContext(ctx, "POST", "http://x/y", nil)
					req.Header.Set("X-Test-Case-Name", name)
					trace := tracer.Trace{TestName: name, Request: req, Response: &http.Response{StatusCode: 200, Header: http.Header{"Content-Type": {"application/proto"}}}}
					start := time.Now()
					var handedNS atomic.Int64
					if d < 0 {
						wt.Complete(trace)
					} else {
						go func() {
							time.Sleep(d)
							handedNS.Store(int64(time.Since(start)))
							wt.Complete(trace)
						}()
					}
					p := &internal.SimplePrinter{}
					status, ok := examineWireDetails(ctx, p)
					took := time.Since(start)
					time.Sleep(d + 5*time.Millisecond) // the hand-over goroutine has certainly run by now
					awaitCtx, c2 := context.WithTimeout(context.Background(), 3*time.Second)
					got, aerr := tr.Await(awaitCtx, name)
					c2()
					handedAt := time.Duration(handedNS.Load())
					mu.Lock()
					defer mu.Unlock()
					rep.Eval(1)
					rep.DistinctKey(k.name, d)
					w := map[string]any{"context": k.name, "hand_over_after": d.String(), "handed_over_at_ms": handedAt.Milliseconds(), "waiter_returned_after_ms": took.Milliseconds(), "status": status, "ok": ok, "feedback": p.Messages}
					if handedAt > 700*time.Millisecond {
						rep.Inconcl(fmt.Sprintf("wire-waiter: hand-over delayed to %v by the machine", handedAt))
						return
					}
					rep.Count("wire_waits_decided", 1)
					if !ok || status != 200 || strings.Contains(strings.Join(p.Messages, " "), "unable to examine") {
						rep.Violation("handoff/wire-waiter/trace-missed/"+k.name, fmt.Sprintf("the trace was handed over %v after the wait began (context %s) but the waiter returned (%d, %v) with feedback %q", d, k.name, status, ok, p.Messages), w)
					}
					if aerr != nil || got == nil || got.TestName != name {
						rep.Violation("handoff/wire-waiter/plain-tracer-not-completed", fmt.Sprintf("the Tracer behind the wire tracer did not receive the completion: %v", aerr), w)
					}
				}(k, d, i)
			}
		}
	}
	wg.Wait()
	// never completed: the wait ends by itself
	for _, k := range kinds {
		base, cancel := k.mk()
		ctx := withWireCapture(base)
		p := &internal.SimplePrinter{}
		start := time.Now()
		done := make(chan bool, 1)
		go func() { _, ok := examineWireDetails(ctx, p); done <- ok }()
		rep.Eval(1)
		rep.DistinctKey(k.name, "never")
		select {
		case ok := <-done:
			if ok {
				rep.Violation("handoff/wire-waiter/trace-from-nowhere", "no trace was ever completed but the waiter reports one", map[string]any{"context": k.name})
			}
			rep.Count("wire_never_completed_returns", 1)
			rep.Note("never completed, context %s: waiter gave up after %v", k.name, time.Since(start).Round(10*time.Millisecond))
		case <-time.After(20 * time.Second):
			rep.Violation("handoff/wire-waiter/wait-does-not-end", "the wait for a trace that never comes did not end within 20 s", map[string]any{"context": k.name})
		}
		cancel()
	}
	rep.Sample(map[string]any{"context": "cancelled", "hand_over_after": "30ms", "expect": "status 200, no feedback"})
	rep.RequireMin("wire_waits_decided", 100)
}
