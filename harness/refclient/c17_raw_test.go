//go:build verif

package referenceclient

import (
	"bytes"
	"encoding/base64"
	"fmt"
	"net/url"
	"reflect"
	"strings"
	"testing"

	conformancev1 "connectrpc.com/conformance/internal/gen/proto/go/connectrpc/conformance/v1"
	"connectrpc.com/conformance/internal/verifkit"
	"google.golang.org/protobuf/proto"
	"google.golang.org/protobuf/types/known/anypb"
)

func vfRandContents(r *verifkit.Rand) *conformancev1.MessageContents {
	m := &conformancev1.MessageContents{Compression: conformancev1.Compression(r.Intn(7))}
	switch r.Intn(4) {
	case 0:
		m.Data = &conformancev1.MessageContents_Binary{Binary: r.Bytes(r.Intn(60))}
	case 1:
		m.Data = &conformancev1.MessageContents_Text{Text: verifkit.RandUTF8(r, 30, false)}
	case 2:
		a, _ := anypb.New(&conformancev1.UnaryRequest{RequestData: r.Bytes(r.Intn(20))})
		m.Data = &conformancev1.MessageContents_BinaryMessage{BinaryMessage: a}
	default:
		m.Data = nil
		m.Compression = 0
	}
	return m
}

// TestVerifC17ClientRaw: raw requests leave the reference client exactly as specified.
func TestVerifC17ClientRaw(t *testing.T) {
	rep := verifkit.Begin("C17", "client-raw", "random RawHTTPRequest definitions (verb POST/GET/PUT, URI with and without own query, 0-3 raw and 0-3 encoded query parameters with/without base64 and per-value compression, 0-4 headers with 1-3 values incl. content-type, unary or stream body with flags 0..255, explicit/lying lengths, per-item compression) sent by the real reference client (HTTP/1.1 and h2c) to a capturing plain server; oracle: method, path, every query parameter, every listed header, exact body; nothing of the request the client would have built; distinct = (definition, transport)")
	defer rep.Write()
	cs := vfStartCaptureServer(nil)
	defer cs.Close()
	host, port := cs.HostPort()
	cl := vfStartClient(true)
	defer cl.Stop()
	rng := verifkit.Stream("c17client")
	n := verifkit.Scale(150, 5000)
	for i := 0; i < n; i++ {
		ver := conformancev1.HTTPVersion(1 + i%2)
		raw := &conformancev1.RawHTTPRequest{Verb: verifkit.Pick(rng, []string{"POST", "POST", "GET", "PUT"})}
		path := verifkit.Pick(rng, []string{"/connectrpc.conformance.v1.ConformanceService/Unary", "/some/other/path", "/x",
			// escapes that must reach the server as written
			"/connectrpc.conformance.v1.ConformanceService%2FUnary", "/a%2fb/%55nary", "/sp%20ace/%7Etilde", "/pct%25/plus+sign"})
		raw.Uri = path
		wantQuery := url.Values{}
		if rng.Chance(1, 3) {
			raw.Uri += "?own=1&own=2"
			wantQuery["own"] = []string{"1", "2"}
		}
		for k := rng.Intn(4); k > 0; k-- {
			h := &conformancev1.Header{Name: verifkit.Pick(rng, []string{"encoding", "q", "message", "x y"}), Value: []string{verifkit.Pick(rng, []string{"proto", "a b", "ü&=?", ""})}}
			raw.RawQueryParams = append(raw.RawQueryParams, h)
			wantQuery[h.Name] = append(wantQuery[h.Name], h.Value...)
		}
		for k := rng.Intn(4); k > 0; k-- {
			p := &conformancev1.RawHTTPRequest_EncodedQueryParam{Name: verifkit.Pick(rng, []string{"message", "enc", "m2"}), Value: vfRandContents(rng), Base64Encode: rng.Bool()}
			raw.EncodedQueryParams = append(raw.EncodedQueryParams, p)
			var enc []byte
			if p.Value.GetData() != nil {
				enc, _ = verifkit.IndepCompress(verifkit.CompressionName(p.Value.GetCompression()), verifkit.RawMessagePlain(p.Value))
			}
			val := string(enc)
			if p.Base64Encode {
				val = base64.URLEncoding.EncodeToString(enc)
			}
			wantQuery[p.Name] = append(wantQuery[p.Name], val)
		}
		used := map[string]bool{}
		for k := rng.Intn(5); k > 0; k-- {
			name := verifkit.Pick(rng, []string{"X-Raw-A", "x-raw-b", "Content-Type", "Connect-Protocol-Version", "Grpc-Timeout", "X-Raw-Multi"})
			if used[strings.ToLower(name)] {
				continue
			}
			used[strings.ToLower(name)] = true
			h := &conformancev1.Header{Name: name}
			nv := 1 + rng.Intn(3)
			if strings.EqualFold(name, "content-type") {
				nv = 1
			}
			for v := 0; v < nv; v++ {
				h.Value = append(h.Value, verifkit.Pick(rng, []string{"application/weird", "v 2", "a,b", "1"}))
			}
			raw.Headers = append(raw.Headers, h)
		}
		name := fmt.Sprintf("RawReq/%d", i)
		raw.Headers = append(raw.Headers, &conformancev1.Header{Name: "x-test-case-name", Value: []string{name}})
		var wantBody []byte
		if raw.Verb != "GET" {
			switch rng.Intn(3) {
			case 0:
				mc := vfRandContents(rng)
				raw.Body = &conformancev1.RawHTTPRequest_Unary{Unary: mc}
				if mc.GetData() != nil {
					wantBody, _ = verifkit.IndepCompress(verifkit.CompressionName(mc.GetCompression()), verifkit.RawMessagePlain(mc))
				}
			case 1:
				sc := &conformancev1.StreamContents{}
				for k := rng.Intn(4); k > 0; k-- {
					it := &conformancev1.StreamContents_StreamItem{Flags: uint32(rng.Intn(256)), Payload: vfRandContents(rng)}
					switch rng.Intn(4) {
					case 0:
						it.Length = proto.Uint32(0)
					case 1:
						it.Length = proto.Uint32(uint32(rng.Intn(1000)))
					}
					sc.Items = append(sc.Items, it)
				}
				raw.Body = &conformancev1.RawHTTPRequest_Stream{Stream: sc}
				wantBody, _ = verifkit.RawStreamExpected(sc)
			}
		}
		declaredLen := false
		if len(wantBody) > 0 && rng.Chance(1, 3) {
			// a raw request may declare its own (truthful) Content-Length, under any spelling of the name
			declaredLen = true
			raw.Headers = append(raw.Headers, &conformancev1.Header{Name: verifkit.Pick(rng, []string{"Content-Length", "content-length", "CONTENT-LENGTH", "Content-length"}), Value: []string{fmt.Sprint(len(wantBody))}})
		}
		normal, _ := anypb.New(&conformancev1.UnaryRequest{RequestData: []byte("NORMAL-REQUEST-BODY-MUST-NOT-APPEAR")})
		req := &conformancev1.ClientCompatRequest{TestName: name, HttpVersion: ver, Protocol: conformancev1.Protocol_PROTOCOL_CONNECT, Codec: conformancev1.Codec_CODEC_PROTO, Compression: conformancev1.Compression_COMPRESSION_IDENTITY,
			Host: host, Port: port, Service: proto.String("connectrpc.conformance.v1.ConformanceService"), Method: proto.String("Unary"), StreamType: conformancev1.StreamType_STREAM_TYPE_UNARY,
			RequestMessages: []*anypb.Any{normal}, RawRequest: raw, RequestHeaders: []*conformancev1.Header{{Name: "X-Normal-Header", Value: []string{"must-not-appear"}}, {Name: "x-test-case-name", Value: []string{name}}}}
		rep.Eval(1)
		rep.DistinctKey(raw.String(), ver)
		w := map[string]any{"definition": verifkit.Trunc(raw.String(), 1500), "http_version": ver.String()}
		if _, err := cl.Do(req); err != nil {
			rep.Inconcl(fmt.Sprintf("%s: %v", name, err))
			continue
		}
		caps := cs.Take(name)
		if len(caps) != 1 {
			rep.Violation(fmt.Sprintf("raw/client/request-count/%d", len(caps)), fmt.Sprintf("%d requests arrived for one raw request", len(caps)), w)
			continue
		}
		c := caps[0]
		rep.Count("captured", 1)
		if c.ProtoMajor != int(ver) {
			rep.Inconcl(fmt.Sprintf("client spoke HTTP/%d instead of %v", c.ProtoMajor, ver))
		}
		if c.Method != raw.Verb {
			rep.Violation("raw/client/method", fmt.Sprintf("method %s on the wire, definition says %s", c.Method, raw.Verb), w)
		}
		if c.RequestTarget != path {
			rep.Violation("raw/client/path", fmt.Sprintf("request target %q on the wire, definition says %q", c.RequestTarget, path), w)
		}
		if strings.Contains(path, "%") {
			rep.Count("paths_with_escapes", 1)
		}
		gotQuery, _ := url.ParseQuery(c.RawQuery)
		for k, vs := range wantQuery {
			if !reflect.DeepEqual(gotQuery[k], vs) {
				w["got_query"], w["want_query"] = c.RawQuery, wantQuery.Encode()
				rep.Violation("raw/client/query-param", fmt.Sprintf("query parameter %q: got %q want %q", k, gotQuery[k], vs), w)
			}
		}
		for k := range gotQuery {
			if _, ok := wantQuery[k]; !ok {
				rep.Violation("raw/client/query-param-extra", fmt.Sprintf("query parameter %q was not specified", k), w)
			}
		}
		for _, h := range raw.Headers {
			if got := c.Header.Values(h.Name); !reflect.DeepEqual(got, h.Value) {
				rep.Violation("raw/client/header", fmt.Sprintf("header %s: got %q want %q", h.Name, got, h.Value), w)
			}
		}
		if declaredLen {
			rep.Count("declared_content_length", 1)
			if c.ContentLength != int64(len(wantBody)) || len(c.TransferEncoding) > 0 {
				rep.Violation("raw/client/declared-content-length-not-sent", fmt.Sprintf("the definition declares Content-Length %d; the server saw content length %d, transfer encoding %v", len(wantBody), c.ContentLength, c.TransferEncoding), w)
			}
		}
		if c.Header.Get("X-Normal-Header") != "" {
			rep.Violation("raw/client/normal-header-leaked", "a header of the request the client would have built is on the wire", w)
		}
		if !used["content-type"] && c.Header.Get("Content-Type") != "" {
			rep.Violation("raw/client/normal-content-type-leaked", fmt.Sprintf("Content-Type %q on the wire although not specified", c.Header.Get("Content-Type")), w)
		}
		if !bytes.Equal(c.Body, wantBody) {
			cls := "differs"
			if bytes.Contains(c.Body, []byte("NORMAL-REQUEST-BODY")) {
				cls = "normal-body-leaked"
			}
			w["got_body_hex"], w["want_body_hex"] = verifkit.Trunc(fmt.Sprintf("%x", c.Body), 600), verifkit.Trunc(fmt.Sprintf("%x", wantBody), 600)
			rep.Violation("raw/client/body/"+cls, fmt.Sprintf("body on the wire (%d bytes) differs from the specified body (%d bytes)", len(c.Body), len(wantBody)), w)
		} else {
			rep.Count("bodies_equal", 1)
		}
	}
	rep.Sample(map[string]any{"definition": "GET /x?own=1 rawQueryParams[encoding=proto] encodedQueryParams[message=gzip('abc') base64]", "expect": "GET /x with own=1, encoding=proto, message=<urlsafe b64 of gzip(abc)>; no body"})
	rep.RequireMin("bodies_equal", 100)
}
