//go:build verif

package internal

import (
	"bytes"
	"encoding/binary"
	"fmt"
	"testing"

	conformancev1 "connectrpc.com/conformance/internal/gen/proto/go/connectrpc/conformance/v1"
	"connectrpc.com/conformance/internal/verifkit"
	"google.golang.org/protobuf/proto"
	"google.golang.org/protobuf/types/known/anypb"
)

// TestVerifC17Inverse: the raw body encoders are invertible.
func TestVerifC17Inverse(t *testing.T) {
	rep := verifkit.Begin("C17", "encoders-inverse", "random MessageContents (binary/text/binary_message/absent/present-but-empty x 7 compression values) and StreamContents (0-5 items, flags 0..255, length unset or explicit) through WriteRawMessageContents / WriteRawStreamContents; decoding the output with independent decompressors and an independent envelope parser returns the specified items; flags above 255 are rejected; distinct = definitions")
	defer rep.Write()
	rng := verifkit.Stream("c17inv")
	n := verifkit.Scale(6000, 200000)
	mk := func() *conformancev1.MessageContents {
		m := &conformancev1.MessageContents{Compression: conformancev1.Compression(rng.Intn(7))}
		switch rng.Intn(5) {
		case 0:
			m.Data = &conformancev1.MessageContents_Binary{Binary: rng.Bytes(rng.Intn(200))}
		case 1:
			m.Data = &conformancev1.MessageContents_Text{Text: verifkit.RandUTF8(rng, 40, true)}
		case 2:
			a, _ := anypb.New(&conformancev1.Header{Name: "n", Value: []string{verifkit.RandUTF8(rng, 5, false)}})
			m.Data = &conformancev1.MessageContents_BinaryMessage{BinaryMessage: a}
		case 3:
			m.Data = &conformancev1.MessageContents_Binary{Binary: []byte{}}
		default:
			m.Data, m.Compression = nil, 0
		}
		return m
	}
	for i := 0; i < n; i++ {
		rep.Eval(1)
		if i%2 == 0 {
			m := mk()
			rep.DistinctKey(m.String())
			var buf bytes.Buffer
			var err error
			if p := verifkit.Catch(func() { err = WriteRawMessageContents(m, &buf) }); p != nil {
				rep.Violation("raw/encoder/panic/"+p.Site, p.Value, m.String())
				continue
			}
			if err != nil {
				rep.Violation("raw/encoder/error", err.Error(), m.String())
				continue
			}
			dec, derr := verifkit.RawMessageDecode(m, buf.Bytes())
			if derr != nil || !bytes.Equal(dec, verifkit.RawMessagePlain(m)) {
				cls := "non-empty"
				if len(verifkit.RawMessagePlain(m)) == 0 {
					cls = "empty-payload"
				}
				rep.Violation("raw/encoder/message-not-invertible/"+cls, fmt.Sprintf("decoding %d written bytes with an independent %s decoder does not return the payload (%v)", buf.Len(), verifkit.CompressionName(m.Compression), derr), verifkit.Trunc(m.String(), 300))
			}
			rep.Count("messages", 1)
			continue
		}
		sc := &conformancev1.StreamContents{}
		for k := rng.Intn(6); k > 0; k-- {
			it := &conformancev1.StreamContents_StreamItem{Flags: uint32(rng.Intn(256)), Payload: mk()}
			if rng.Chance(1, 3) {
				it.Length = proto.Uint32(uint32(rng.Intn(300)))
			} else if rng.Chance(1, 6) {
				it.Length = proto.Uint32(0)
			}
			sc.Items = append(sc.Items, it)
		}
		rep.DistinctKey(sc.String())
		var buf bytes.Buffer
		var err error
		if p := verifkit.Catch(func() { err = WriteRawStreamContents(sc, &buf) }); p != nil {
			rep.Violation("raw/encoder/panic/"+p.Site, p.Value, sc.String())
			continue
		}
		if err != nil {
			rep.Violation("raw/encoder/error", err.Error(), sc.String())
			continue
		}
		// parse back: each item = prefix + as many payload bytes as its own encoding produced
		wire := buf.Bytes()
		ok := true
		for idx, it := range sc.Items {
			if len(wire) < 5 {
				ok = false
				break
			}
			var payloadLen int
			if it.GetPayload().GetData() != nil {
				enc, _ := verifkit.IndepCompress(verifkit.CompressionName(it.GetPayload().GetCompression()), verifkit.RawMessagePlain(it.GetPayload()))
				payloadLen = len(enc)
			}
			declared := binary.BigEndian.Uint32(wire[1:5])
			if wire[0] != byte(it.Flags) {
				rep.Violation("raw/encoder/stream-flags", fmt.Sprintf("item %d: flags %d written, %d specified", idx, wire[0], it.Flags), verifkit.Trunc(sc.String(), 400))
			}
			wantLen := uint32(payloadLen)
			if it.Length != nil {
				wantLen = it.GetLength()
			}
			if declared != wantLen {
				cls := "computed"
				if it.Length != nil {
					cls = "explicit"
					if it.GetLength() == 0 {
						cls = "explicit-zero"
					}
				}
				rep.Violation("raw/encoder/stream-length/"+cls, fmt.Sprintf("item %d: length %d written, want %d", idx, declared, wantLen), verifkit.Trunc(sc.String(), 400))
			}
			if len(wire) < 5+payloadLen {
				ok = false
				break
			}
			dec, derr := verifkit.RawMessageDecode(it.GetPayload(), wire[5:5+payloadLen])
			if derr != nil || !bytes.Equal(dec, verifkit.RawMessagePlain(it.GetPayload())) {
				rep.Violation("raw/encoder/stream-item-not-invertible", fmt.Sprintf("item %d does not decode to its payload (%v)", idx, derr), verifkit.Trunc(sc.String(), 400))
			}
			wire = wire[5+payloadLen:]
		}
		if !ok || len(wire) != 0 {
			rep.Violation("raw/encoder/stream-framing", "the written stream cannot be parsed back into the specified items", verifkit.Trunc(sc.String(), 400))
		}
		rep.Count("streams", 1)
	}
	// flags outside a byte must be rejected
	var buf bytes.Buffer
	if err := WriteRawStreamContents(&conformancev1.StreamContents{Items: []*conformancev1.StreamContents_StreamItem{{Flags: 256}}}, &buf); err == nil {
		rep.Violation("raw/encoder/flags-out-of-range-accepted", "flags 256 accepted", nil)
	}
	rep.Eval(1)
	rep.Sample(map[string]any{"stream": "[flags=2 length=0 payload gzip('x')]", "expect": "02 00000000 + gzip bytes; gunzip returns 'x'"})
}
