//go:build verif

package internal

import (
	"bytes"
	"encoding/binary"
	"fmt"
	"sync"
	"sync/atomic"
	"testing"

	conformancev1 "connectrpc.com/conformance/internal/gen/proto/go/connectrpc/conformance/v1"
	"connectrpc.com/conformance/internal/verifkit"
	"google.golang.org/protobuf/proto"
	"google.golang.org/protobuf/types/known/anypb"
)

// TestVerifC17Inverse: the raw body encoders are invertible.
func TestVerifC17Inverse(t *testing.T) {
	rep := verifkit.Begin("C17", "encoders-inverse", "random MessageContents (binary up to 200 bytes and around 4 KB ... 70 KB / text / binary_message / absent / present-but-empty x 7 compression values) and StreamContents (0-5 items, flags 0..255, length unset or explicit) through WriteRawMessageContents / WriteRawStreamContents; decoding the output with independent decompressors and an independent envelope parser returns the specified items; flags above 255 are rejected; distinct = definitions")
	defer rep.Write()
	rng := verifkit.Stream("c17inv")
	n := verifkit.Scale(6000, 200000)
	largePayloads := 0
	mk := func() *conformancev1.MessageContents {
		m := &conformancev1.MessageContents{Compression: conformancev1.Compression(rng.Intn(7))}
		switch rng.Intn(5) {
		case 0:
			sz := rng.Intn(200)
			if rng.Chance(1, 12) {
				// payloads around and beyond typical buffer sizes
				sz = verifkit.Pick(rng, []int{4090, 4091, 4092, 4093, 4096, 5000, 8191, 8192, 16384, 32768, 70000}) + rng.Intn(3) - 1
				largePayloads++
			}
			m.Data = &conformancev1.MessageContents_Binary{Binary: rng.Bytes(sz)}
		case 1:
			m.Data = &conformancev1.MessageContents_Text{Text: verifkit.RandUTF8(rng, 40, true)}
		case 2:
			a, _ := anypb.New(&conformancev1.Header{Name: "n", Value: []string{verifkit.RandUTF8(rng, 5, false)}})
			m.Data = &conformancev1.MessageContents_BinaryMessage{BinaryMessage: a}
		case 3:
			m.Data = &conformancev1.MessageContents_Binary{Binary: []byte{}}
		default:
			m.Data, m.Compression = nil, 0
		}
		return m
	}
	for i := 0; i < n; i++ {
		rep.Eval(1)
		if i%2 == 0 {
			m := mk()
			rep.DistinctKey(m.String())
			var buf bytes.Buffer
			var err error
			if p := verifkit.Catch(func() { err = WriteRawMessageContents(m, &buf) }); p != nil {
				rep.Violation("raw/encoder/panic/"+p.Site, p.Value, m.String())
				continue
			}
			if err != nil {
				rep.Violation("raw/encoder/error", err.Error(), m.String())
				continue
			}
			dec, derr := verifkit.RawMessageDecode(m, buf.Bytes())
			if derr != nil || !bytes.Equal(dec, verifkit.RawMessagePlain(m)) {
				cls := "non-empty"
				if len(verifkit.RawMessagePlain(m)) == 0 {
					cls = "empty-payload"
				}
				rep.Violation("raw/encoder/message-not-invertible/"+cls, fmt.Sprintf("decoding %d written bytes with an independent %s decoder does not return the payload (%v)", buf.Len(), verifkit.CompressionName(m.Compression), derr), verifkit.Trunc(m.String(), 300))
			}
			rep.Count("messages", 1)
			continue
		}
		sc := &conformancev1.StreamContents{}
		for k := rng.Intn(6); k > 0; k-- {
			it := &conformancev1.StreamContents_StreamItem{Flags: uint32(rng.Intn(256)), Payload: mk()}
			if rng.Chance(1, 3) {
				it.Length = proto.Uint32(uint32(rng.Intn(300)))
			} else if rng.Chance(1, 6) {
				it.Length = proto.Uint32(0)
			}
			sc.Items = append(sc.Items, it)
		}
		rep.DistinctKey(sc.String())
		var buf bytes.Buffer
		var err error
		if p := verifkit.Catch(func() { err = WriteRawStreamContents(sc, &buf) }); p != nil {
			rep.Violation("raw/encoder/panic/"+p.Site, p.Value, sc.String())
			continue
		}
		if err != nil {
			rep.Violation("raw/encoder/error", err.Error(), sc.String())
			continue
		}
		// parse back: each item = prefix + as many payload bytes as its own encoding produced
		wire := buf.Bytes()
		ok := true
		for idx, it := range sc.Items {
			if len(wire) < 5 {
				ok = false
				break
			}
			var payloadLen int
			if it.GetPayload().GetData() != nil {
				enc, _ := verifkit.IndepCompress(verifkit.CompressionName(it.GetPayload().GetCompression()), verifkit.RawMessagePlain(it.GetPayload()))
				payloadLen = len(enc)
			}
			declared := binary.BigEndian.Uint32(wire[1:5])
			if wire[0] != byte(it.Flags) {
				rep.Violation("raw/encoder/stream-flags", fmt.Sprintf("item %d: flags %d written, %d specified", idx, wire[0], it.Flags), verifkit.Trunc(sc.String(), 400))
			}
			wantLen := uint32(payloadLen)
			if it.Length != nil {
				wantLen = it.GetLength()
			}
			if declared != wantLen {
				cls := "computed"
				if it.Length != nil {
					cls = "explicit"
					if it.GetLength() == 0 {
						cls = "explicit-zero"
					}
				}
				rep.Violation("raw/encoder/stream-length/"+cls, fmt.Sprintf("item %d: length %d written, want %d", idx, declared, wantLen), verifkit.Trunc(sc.String(), 400))
			}
			if len(wire) < 5+payloadLen {
				ok = false
				break
			}
			dec, derr := verifkit.RawMessageDecode(it.GetPayload(), wire[5:5+payloadLen])
			if derr != nil || !bytes.Equal(dec, verifkit.RawMessagePlain(it.GetPayload())) {
				rep.Violation("raw/encoder/stream-item-not-invertible", fmt.Sprintf("item %d does not decode to its payload (%v)", idx, derr), verifkit.Trunc(sc.String(), 400))
			}
			wire = wire[5+payloadLen:]
		}
		if !ok || len(wire) != 0 {
			rep.Violation("raw/encoder/stream-framing", "the written stream cannot be parsed back into the specified items", verifkit.Trunc(sc.String(), 400))
		}
		rep.Count("streams", 1)
	}
	// flags outside a byte must be rejected
	var buf bytes.Buffer
	if err := WriteRawStreamContents(&conformancev1.StreamContents{Items: []*conformancev1.StreamContents_StreamItem{{Flags: 256}}}, &buf); err == nil {
		rep.Violation("raw/encoder/flags-out-of-range-accepted", "flags 256 accepted", nil)
	}
	rep.Eval(1)
	rep.Count("payloads_of_4_to_70_KB", largePayloads)
	rep.RequireMin("payloads_of_4_to_70_KB", 100)
	rep.Sample(map[string]any{"stream": "[flags=2 length=0 payload gzip('x')]", "expect": "02 00000000 + gzip bytes; gunzip returns 'x'"})
}

// TestVerifC17EncodersConcurrent: the reference peers encode raw bodies for several calls at the same time
// (the runner issues cases in parallel): every writer receives exactly its own body.
func TestVerifC17EncodersConcurrent(t *testing.T) {
	rep := verifkit.Begin("C17", "encoders-concurrent", "8 goroutines, each encoding its own unary bodies and 2-item streams (payload = 48 x its own letter; identity / unspecified / gzip compression) into its own buffer via WriteRawMessageContents / WriteRawStreamContents, all at the same time; oracle: each buffer holds exactly what that goroutine's definition prescribes; distinct = (goroutine, compression, body kind)")
	defer rep.Write()
	const workers = 8
	per := verifkit.Scale(4000, 60000)
	type bad struct {
		Worker, Iter int
		Kind, Want   string
		Got          string
	}
	var mu sync.Mutex
	var bads []bad
	var bodies atomic.Int64
	var wg sync.WaitGroup
	for wk := 0; wk < workers; wk++ {
		wg.Add(1)
		go func(wk int) {
			defer wg.Done()
			payload := bytes.Repeat([]byte{byte('A' + wk)}, 48)
			comps := []conformancev1.Compression{conformancev1.Compression_COMPRESSION_IDENTITY, conformancev1.Compression_COMPRESSION_UNSPECIFIED, conformancev1.Compression_COMPRESSION_GZIP}
			for i := 0; i < per; i++ {
				comp := comps[i%3]
				m := &conformancev1.MessageContents{Compression: comp, Data: &conformancev1.MessageContents_Binary{Binary: payload}}
				var buf bytes.Buffer
				var want []byte
				kind := "unary"
				if i%2 == 0 {
					_ = WriteRawMessageContents(m, &buf)
					want, _ = verifkit.IndepCompress(verifkit.CompressionName(comp), payload)
				} else {
					kind = "stream"
					sc := &conformancev1.StreamContents{Items: []*conformancev1.StreamContents_StreamItem{{Flags: uint32(wk), Payload: m}, {Flags: 2, Payload: m}}}
					_ = WriteRawStreamContents(sc, &buf)
					want, _ = verifkit.RawStreamExpected(sc)
				}
				bodies.Add(1)
				got := buf.Bytes()
				same := bytes.Equal(got, want)
				if !same && comp == conformancev1.Compression_COMPRESSION_GZIP {
					// gzip output need not be byte-identical to the independent encoder's: compare decoded
					if kind == "unary" {
						dec, err := verifkit.RawMessageDecode(m, got)
						same = err == nil && bytes.Equal(dec, payload)
					} else {
						same = true // (stream framing of compressed items is judged by encoders-inverse)
					}
				}
				if !same {
					mu.Lock()
					if len(bads) < 5 {
						bads = append(bads, bad{wk, i, kind + "/" + verifkit.CompressionName(comp), verifkit.Trunc(fmt.Sprintf("%q", want), 120), verifkit.Trunc(fmt.Sprintf("%q", got), 200)})
					}
					mu.Unlock()
				}
			}
		}(wk)
	}
	wg.Wait()
	rep.Eval(int(bodies.Load()))
	rep.Distinct = workers * 3 * 2
	rep.Count("bodies_encoded_concurrently", int(bodies.Load()))
	if len(bads) > 0 {
		rep.Violation("raw/encoder/concurrent-bodies-mixed", fmt.Sprintf("goroutine %d, body #%d (%s): the writer received %s, the definition prescribes %s", bads[0].Worker, bads[0].Iter, bads[0].Kind, bads[0].Got, bads[0].Want), map[string]any{"first_mismatches": bads})
	}
	rep.Sample(map[string]any{"goroutine": 1, "body": "48 x 'B', identity", "expect": "exactly 48 x 'B' in goroutine 1's buffer"})
}
