//go:build verif

package internal

import (
	"bytes"
	"encoding/binary"
	"errors"
	"fmt"
	"io"
	"regexp"
	"runtime"
	"strconv"
	"strings"
	"testing"
	"time"

	conformancev1 "connectrpc.com/conformance/internal/gen/proto/go/connectrpc/conformance/v1"
	"connectrpc.com/conformance/internal/verifkit"
	"google.golang.org/protobuf/proto"
)

const vfMaxSize = 1 << 20

type vfSeq struct {
	msgs []*conformancev1.ClientCompatResponse
	bin  []byte // binary framing
	ends []int  // offset after each message (binary)
	js   []byte // JSON variant
	jend []int  // offset after each JSON document (excluding the separator newline)
}

func vfMakeSeq(r *verifkit.Rand, sizes []int) *vfSeq {
	s := &vfSeq{}
	var jb bytes.Buffer
	enc := NewCodec(true).NewEncoder(&jb)
	for i, sz := range sizes {
		m := &conformancev1.ClientCompatResponse{}
		if sz > 0 {
			// total serialized size sz: field 1 (test_name) tag+len+payload
			body := sz - 2
			if sz >= 130 {
				body = sz - 3
			}
			if sz >= 16387 {
				body = sz - 4
			}
			if body < 0 {
				body = 0
			}
			b := make([]byte, body)
			for k := range b {
				b[k] = byte('a' + (i+k)%26)
			}
			m.TestName = string(b)
		}
		s.msgs = append(s.msgs, m)
		data, _ := proto.Marshal(m)
		var pre [4]byte
		binary.BigEndian.PutUint32(pre[:], uint32(len(data)))
		s.bin = append(append(s.bin, pre[:]...), data...)
		s.ends = append(s.ends, len(s.bin))
		_ = enc.Encode(m)
		s.jend = append(s.jend, len(bytes.TrimRight(jb.Bytes(), "\n ")))
	}
	s.js = jb.Bytes()
	return s
}

type vfDecodeFn func(rd io.Reader) func() (*conformancev1.ClientCompatResponse, error)

func vfReadDelimited(rd io.Reader) func() (*conformancev1.ClientCompatResponse, error) {
	return func() (*conformancev1.ClientCompatResponse, error) {
		m := &conformancev1.ClientCompatResponse{}
		err := ReadDelimitedMessage(rd, m, "peer", 20*time.Second, vfMaxSize)
		return m, err
	}
}

func vfProtoDecoder(rd io.Reader) func() (*conformancev1.ClientCompatResponse, error) {
	dec := NewCodec(false).NewDecoder(rd)
	return func() (*conformancev1.ClientCompatResponse, error) {
		m := &conformancev1.ClientCompatResponse{}
		err := dec.DecodeNext(m)
		return m, err
	}
}

func vfJSONDecoder(rd io.Reader) func() (*conformancev1.ClientCompatResponse, error) {
	dec := NewCodec(true).NewDecoder(rd)
	return func() (*conformancev1.ClientCompatResponse, error) {
		m := &conformancev1.ClientCompatResponse{}
		err := dec.DecodeNext(m)
		return m, err
	}
}

// vfRunCut feeds stream[:cut] through a decoder under one partition plan and
// checks sequence + final error against the framing model.
func vfRunCut(rep *verifkit.Report, variant string, mk vfDecodeFn, s *vfSeq, stream []byte, ends []int, cut int, planName string, plan []int, eofWithData bool, zeroEvery int, sizes []int) {
	rep.Eval(1)
	nComplete, atBoundary := 0, cut == 0
	for _, e := range ends {
		if e <= cut {
			nComplete++
		}
		if e == cut {
			atBoundary = true
		}
	}
	if variant == "json" && !atBoundary {
		// whitespace after a complete document is still a clean end
		prev := 0
		for _, e := range ends {
			if e <= cut {
				prev = e
			}
		}
		if len(bytes.TrimSpace(stream[prev:cut])) == 0 {
			atBoundary = true
		}
	}
	if nComplete > 0 || !atBoundary {
		rep.DistinctKey(variant, sizes, cut, planName, eofWithData, zeroEvery)
	}
	rd := &verifkit.ScriptReader{Data: append([]byte(nil), stream[:cut]...), Plan: plan, EOFWithData: eofWithData, ZeroEvery: zeroEvery, StallAt: -1}
	w := map[string]any{"variant": variant, "message_sizes": sizes, "stream_len": len(stream), "cut": cut, "plan": planName, "eof_with_data": eofWithData, "zero_every": zeroEvery}
	rep.InFlight(w)
	var got []*conformancev1.ClientCompatResponse
	var lastErr error
	pn := verifkit.Catch(func() {
		next := mk(rd)
		for {
			m, err := next()
			if err != nil {
				lastErr = err
				return
			}
			got = append(got, m)
			if len(got) > len(s.msgs)+1 {
				return
			}
		}
	})
	if pn != nil {
		rep.Violation("framing/"+variant+"/panic/"+pn.Site, pn.Value, w)
		return
	}
	if len(got) != nComplete {
		kind := "lost"
		if len(got) > nComplete {
			kind = "invented"
		}
		rep.Violation("framing/"+variant+"/"+kind+"-message", fmt.Sprintf("decoded %d messages, the stream holds %d complete ones (final error %v)", len(got), nComplete, lastErr), w)
		return
	}
	for i := range got {
		if !proto.Equal(got[i], s.msgs[i]) {
			rep.Violation("framing/"+variant+"/message-differs", fmt.Sprintf("message #%d read back differently", i), w)
			return
		}
	}
	if atBoundary {
		rep.Count(variant+"_clean_end", 1)
		if !errors.Is(lastErr, io.EOF) || errors.Is(lastErr, io.ErrUnexpectedEOF) {
			rep.Violation("framing/"+variant+"/clean-end-misreported", fmt.Sprintf("stream ends between messages but the reader reports %v (want io.EOF)", lastErr), w)
		}
	} else {
		rep.Count(variant+"_truncated", 1)
		if !errors.Is(lastErr, io.ErrUnexpectedEOF) {
			rep.Violation("framing/"+variant+"/truncation-misreported", fmt.Sprintf("stream ends inside a prefix/message but the reader reports %v (want unexpected EOF)", lastErr), w)
		} else if errors.Is(lastErr, io.EOF) && variant != "json" {
			// callers tell a clean end from a broken stream with errors.Is(err, io.EOF)
			rep.Violation("framing/"+variant+"/truncation-also-matches-clean-end", fmt.Sprintf("the error for a stream cut inside a prefix/message (%v) also satisfies errors.Is(err, io.EOF)", lastErr), w)
		}
	}
}

// TestVerifC09Chunking: sequences x partition plans x every truncation offset.
func TestVerifC09Chunking(t *testing.T) {
	rep := verifkit.Begin("C09", "chunking", "message sequences (0-6 messages, serialized sizes from {0,1,3,4,5,127,128,129,300}) x every truncation offset of the byte stream x 7 partition plans (1-byte, prefix-exact, prefix-split, straddle, random 1-9, whole, 2-byte) with/without data+EOF and interspersed (0,nil) reads, through ReadDelimitedMessage, the binary StreamDecoder and the JSON StreamDecoder; large (16KB, limit-1, limit) messages with 64 sampled offsets; distinct = (variant, sizes, cut, plan, flags) with a complete message or a cut inside a frame")
	defer rep.Write()
	rng := verifkit.Stream("c09chunk")
	small := []int{0, 1, 3, 4, 5, 127, 128, 129, 300}
	nSeq := verifkit.Scale(40, 600)
	variants := []struct {
		name string
		mk   vfDecodeFn
	}{{"delimited", vfReadDelimited}, {"proto-decoder", vfProtoDecoder}, {"json", vfJSONDecoder}}
	for it := 0; it < nSeq; it++ {
		k := rng.Intn(7)
		if it < 3 {
			k = it // 0, 1, 2 messages always present
		}
		sizes := make([]int, k)
		for i := range sizes {
			sizes[i] = verifkit.Pick(rng, small)
		}
		s := vfMakeSeq(rng, sizes)
		plans := verifkit.Plans(rng, 4)
		for _, v := range variants {
			stream, ends := s.bin, s.ends
			if v.name == "json" {
				stream, ends = s.js, s.jend
			}
			for cut := 0; cut <= len(stream); cut++ {
				// every plan at frame-relevant offsets, two sampled plans elsewhere
				names := verifkit.SortedKeys(plans)
				relevant := cut == len(stream)
				for _, e := range ends {
					if cut >= e-5 && cut <= e+5 {
						relevant = true
					}
				}
				if !relevant {
					names = []string{names[rng.Intn(len(names))], "1-byte"}
				}
				for _, pn := range names {
					vfRunCut(rep, v.name, v.mk, s, stream, ends, cut, pn, plans[pn], rng.Bool(), []int{0, 0, 3}[rng.Intn(3)], sizes)
				}
			}
		}
	}
	// large messages: sampled offsets
	for _, sz := range []int{16 * 1024, vfMaxSize - 1, vfMaxSize} {
		if sz > 20000 && !verifkit.Thorough() && sz != vfMaxSize {
			continue
		}
		sizes := []int{3, sz, 1}
		s := vfMakeSeq(rng, sizes)
		if len(s.bin)-s.ends[0]-4-5 != sz && sz > 0 {
			rep.Note("large message has %d serialized bytes (target %d)", s.ends[1]-s.ends[0]-4, sz)
		}
		plans := verifkit.Plans(rng, 4)
		for _, v := range variants[:2] {
			cuts := []int{0, s.ends[0], s.ends[0] + 1, s.ends[0] + 4, s.ends[0] + 5, s.ends[1] - 1, s.ends[1], s.ends[1] + 3, len(s.bin) - 1, len(s.bin)}
			for i := 0; i < 54; i++ {
				cuts = append(cuts, rng.Intn(len(s.bin)+1))
			}
			for _, cut := range cuts {
				pn := verifkit.Pick(rng, []string{"whole", "prefix-exact", "straddle", "random-1to9"})
				if pn == "random-1to9" {
					pn = "whole"
				}
				vfRunCut(rep, v.name, v.mk, s, s.bin, s.ends, cut, pn, plans[pn], rng.Bool(), 0, sizes)
			}
		}
		rep.Count("large_sequences", 1)
	}
	rep.Sample(map[string]any{"variant": "delimited", "message_sizes": []int{3, 0, 128}, "cut": 9, "plan": "prefix-split", "expect": "1 message then io.ErrUnexpectedEOF"})
	rep.RequireMin("delimited_truncated", 100)
	rep.RequireMin("json_truncated", 100)
	rep.RequireMin("proto-decoder_clean_end", 20)
}

// TestVerifC09Oversize: a length above the limit is rejected before allocating.
func TestVerifC09Oversize(t *testing.T) {
	rep := verifkit.Begin("C09", "oversize", "length prefixes limit+1, limit+2, 2^24, 2^31-1, 2^31, 2^32-1 (and limit, limit-1 as controls) against limits {16, 1MB, 16MB} under 3 partition plans; oracle: error naming size and limit, and TotalAlloc growth < 1 MB during the call; distinct = (limit, declared size, plan)")
	defer rep.Write()
	for _, limit := range []int{16, 1 << 20, 16 << 20} {
		for _, size := range []uint64{uint64(limit) + 1, uint64(limit) + 2, 1 << 24, 1<<31 - 1, 1 << 31, 1<<32 - 1} {
			if size <= uint64(limit) {
				continue
			}
			for _, plan := range [][]int{{1}, {4, 1 << 20}, {1 << 20}} {
				rep.Eval(1)
				rep.DistinctKey(limit, size, plan)
				pre := []byte{byte(size >> 24), byte(size >> 16), byte(size >> 8), byte(size)}
				rd := &verifkit.ScriptReader{Data: append(pre, bytes.Repeat([]byte{1}, 64)...), Plan: plan, StallAt: -1}
				w := map[string]any{"limit": limit, "declared": size, "plan": plan}
				var ms1, ms2 runtime.MemStats
				runtime.GC()
				runtime.ReadMemStats(&ms1)
				err := ReadDelimitedMessage(rd, &conformancev1.ClientCompatResponse{}, "peer", 10*time.Second, limit)
				runtime.ReadMemStats(&ms2)
				grew := ms2.TotalAlloc - ms1.TotalAlloc
				rep.Count("oversize_calls", 1)
				if err == nil {
					rep.Violation("oversize/accepted", fmt.Sprintf("declared size %d above limit %d accepted", size, limit), w)
					continue
				}
				if !strings.Contains(err.Error(), strconv.FormatUint(size, 10)) || !strings.Contains(err.Error(), strconv.Itoa(limit)) {
					rep.Violation("oversize/error-text", fmt.Sprintf("error does not name size %d and limit %d: %v", size, limit, err), w)
				}
				if errors.Is(err, io.ErrUnexpectedEOF) || errors.Is(err, io.EOF) {
					rep.Violation("oversize/reported-as-eof", fmt.Sprintf("oversize prefix reported as %v", err), w)
				}
				if grew > 1<<20 {
					rep.Violation("oversize/allocated", fmt.Sprintf("%d bytes allocated while rejecting a %d-byte declaration (limit %d)", grew, size, limit), w)
				}
				if rd.Delivered > 4 {
					rep.Violation("oversize/body-consumed", fmt.Sprintf("%d bytes consumed; only the 4-byte prefix may be read before rejecting", rd.Delivered), w)
				}
			}
		}
		// controls: exactly the limit is accepted as a length (then truncated body => unexpected EOF)
		for _, size := range []int{limit, limit - 1} {
			pre := []byte{byte(size >> 24), byte(size >> 16), byte(size >> 8), byte(size)}
			err := ReadDelimitedMessage(bytes.NewReader(append(pre, 1, 2, 3)), &conformancev1.ClientCompatResponse{}, "peer", 10*time.Second, limit)
			rep.Eval(1)
			if !errors.Is(err, io.ErrUnexpectedEOF) {
				rep.Violation("oversize/limit-rejected", fmt.Sprintf("declared size %d (limit %d) followed by a short body reported as %v, want unexpected EOF", size, limit, err), map[string]any{"limit": limit, "declared": size})
			}
		}
	}
	// a message of exactly the limit round-trips
	m := &conformancev1.ClientCompatResponse{TestName: strings.Repeat("z", 1<<20-4)}
	var buf bytes.Buffer
	_ = WriteDelimitedMessage(&buf, m)
	if buf.Len()-4 == 1<<20 {
		got := &conformancev1.ClientCompatResponse{}
		err := ReadDelimitedMessage(&verifkit.ScriptReader{Data: buf.Bytes(), Plan: []int{4096}, StallAt: -1}, got, "peer", 10*time.Second, 1<<20)
		rep.Eval(1)
		if err != nil || !proto.Equal(got, m) {
			rep.Violation("oversize/exact-limit-message", fmt.Sprintf("message of exactly the limit not read back: %v", err), nil)
		}
	} else {
		rep.Note("exact-limit control has %d bytes", buf.Len()-4)
	}
	rep.Sample(map[string]any{"limit": 1 << 20, "declared": 1<<32 - 1, "expect": "error naming both numbers, <1MB allocated, 4 bytes consumed"})
	rep.RequireMin("oversize_calls", 30)
}

var vfStallRE = regexp.MustCompile(`read (\d+)/(\d+) bytes of (length prefix|message)`)

// TestVerifC09Stall: a stalled peer yields a timeout error no earlier than
// the configured period that says exactly how much was received.
func TestVerifC09Stall(t *testing.T) {
	rep := verifkit.Begin("C09", "stall", "peer delivers k bytes of a framed message then blocks, k over every offset of a 14-byte message plus sampled offsets of longer ones, timeout 40 ms; oracle: error after >= timeout whose text reports exactly the k/n bytes of prefix|message delivered; distinct = (message size, stall offset)")
	defer rep.Write()
	rng := verifkit.Stream("c09stall")
	type sc struct{ size, at int }
	var scs []sc
	for at := 0; at < 4+10; at++ {
		scs = append(scs, sc{10, at})
	}
	for i := verifkit.Scale(10, 120); i > 0; i-- {
		sz := verifkit.Pick(rng, []int{1, 2, 127, 128, 300, 5000})
		scs = append(scs, sc{sz, rng.Intn(4 + sz)})
	}
	run := func(s sc, timeout time.Duration) (error, time.Duration, *verifkit.ScriptReader) {
		var pre [4]byte
		binary.BigEndian.PutUint32(pre[:], uint32(s.size))
		data := append(pre[:], bytes.Repeat([]byte{7}, s.size)...)
		rd := &verifkit.ScriptReader{Data: data, Plan: []int{3}, StallAt: s.at, Block: make(chan struct{})}
		start := time.Now()
		err := ReadDelimitedMessage(rd, &conformancev1.ClientCompatResponse{}, "peer", timeout, vfMaxSize)
		el := time.Since(start)
		close(rd.Block)
		return err, el, rd
	}
	for _, s := range scs {
		rep.Eval(1)
		rep.DistinctKey(s.size, s.at)
		w := map[string]any{"message_size": s.size, "stall_after_bytes": s.at}
		timeout := 40 * time.Millisecond
		err, el, _ := run(s, timeout)
		want := ""
		switch {
		case s.at == 0:
			want = "none"
		case s.at < 4:
			want = fmt.Sprintf("read %d/4 bytes of length prefix", s.at)
		default:
			want = fmt.Sprintf("read %d/%d bytes of message", s.at-4, s.size)
		}
		ok := func(err error) bool {
			if err == nil || !strings.Contains(err.Error(), "timed out") {
				return false
			}
			m := vfStallRE.FindString(err.Error())
			if want == "none" {
				return m == ""
			}
			return m == want
		}
		if !ok(err) {
			// the reader goroutine may not have been scheduled yet on a loaded machine: decide on a 10x longer period
			timeout = 400 * time.Millisecond
			err, el, _ = run(s, timeout)
			rep.Count("stall_retried", 1)
		}
		rep.Count("stall_scenarios", 1)
		if err == nil {
			rep.Violation("stall/no-error", "stalled peer but the read returned no error", w)
			continue
		}
		if el < timeout {
			rep.Violation("stall/early", fmt.Sprintf("timeout error after %v, configured period %v", el, timeout), w)
		}
		if el > timeout+5*time.Second {
			rep.Inconcl(fmt.Sprintf("stall scenario %v took %v (machine overloaded?)", s, el))
		}
		if !ok(err) {
			rep.Violation("stall/progress-text", fmt.Sprintf("peer delivered %d bytes (%s) but the error says %q", s.at, want, err.Error()), w)
		}
		if errors.Is(err, io.EOF) || errors.Is(err, io.ErrUnexpectedEOF) {
			rep.Violation("stall/reported-as-eof", fmt.Sprintf("stall reported as %v", err), w)
		}
	}
	// the period is per message, not per phase: a prefix that arrives late does not buy the body a fresh period
	const period = time.Second
	lateRun := func(prefixDelay time.Duration) time.Duration {
		var pre [4]byte
		binary.BigEndian.PutUint32(pre[:], 100)
		rd := &vfLateReader{first: pre[:], firstDelay: prefixDelay, then: bytes.Repeat([]byte{7}, 30), block: make(chan struct{})}
		start := time.Now()
		_ = ReadDelimitedMessage(rd, &conformancev1.ClientCompatResponse{}, "peer", period, vfMaxSize)
		el := time.Since(start)
		close(rd.block)
		return el
	}
	rep.Eval(1)
	rep.DistinctKey("late-prefix-then-stall")
	worstLate, worstCtl := time.Duration(0), time.Duration(0)
	exceeded := 0
	for try := 0; try < 3; try++ {
		ctl := lateRun(0)
		late := lateRun(700 * time.Millisecond)
		if ctl > worstCtl {
			worstCtl = ctl
		}
		if late > worstLate {
			worstLate = late
		}
		if late > period+450*time.Millisecond {
			exceeded++
		} else {
			break
		}
	}
	wl := map[string]any{"configured_period_ms": period.Milliseconds(), "prefix_arrives_after_ms": 700, "then": "30 of 100 body bytes, then silence", "slowest_timeout_ms": worstLate.Milliseconds(), "control_without_delay_ms": worstCtl.Milliseconds()}
	switch {
	case worstCtl > period+450*time.Millisecond:
		rep.Inconcl(fmt.Sprintf("late-prefix scenario: even the control took %v (machine overloaded)", worstCtl))
	case exceeded == 3:
		rep.Violation("stall/period-restarted-after-prefix", fmt.Sprintf("a peer whose length prefix arrives after 0.7 s and then stalls got its timeout error only after %v (three attempts), the configured period is %v", worstLate.Round(10*time.Millisecond), period), wl)
	default:
		rep.Count("late_prefix_within_period", 1)
	}
	rep.Sample(map[string]any{"message_size": 10, "stall_after_bytes": 6, "expect": "timed out ...: read 2/10 bytes of message"})
	rep.RequireMin("stall_scenarios", 20)
}

// vfLateReader delivers `first` after a delay, then `then`, then blocks.
type vfLateReader struct {
	first      []byte
	firstDelay time.Duration
	then       []byte
	block      chan struct{}
	slept      bool
}

func (l *vfLateReader) Read(p []byte) (int, error) {
	if !l.slept {
		l.slept = true
		time.Sleep(l.firstDelay)
	}
	if len(l.first) > 0 {
		n := copy(p, l.first)
		l.first = l.first[n:]
		return n, nil
	}
	if len(l.then) > 0 {
		n := copy(p, l.then)
		l.then = l.then[n:]
		return n, nil
	}
	<-l.block
	return 0, io.EOF
}

// TestVerifC09Writer: what WriteDelimitedMessage / the StreamEncoders write is
// read back by an independent parser, for every message size in a dense range.
func TestVerifC09Writer(t *testing.T) {
	rep := verifkit.Begin("C09", "writer", "messages of every serialized size 0..1200 and around every power of two up to 2^17 (+-3), written one after another by WriteDelimitedMessage, the binary StreamEncoder and the JSON StreamEncoder (to a writer that accepts short chunks), parsed back by an independent length-prefix parser / json.Decoder; oracle: same messages in the same order; distinct = (writer, size)")
	defer rep.Write()
	var sizes []int
	for sz := 0; sz <= 1200; sz++ {
		sizes = append(sizes, sz)
	}
	for p := 11; p <= 17; p++ {
		for d := -3; d <= 3; d++ {
			sizes = append(sizes, 1<<p+d)
		}
	}
	mk := func(sz int) *conformancev1.ClientCompatResponse {
		if sz < 2 {
			return &conformancev1.ClientCompatResponse{}
		}
		for _, body := range []int{sz - 2, sz - 3, sz - 4} {
			if body < 0 {
				continue
			}
			b := make([]byte, body)
			for k := range b {
				b[k] = byte('a' + k%26)
			}
			m := &conformancev1.ClientCompatResponse{TestName: string(b)}
			if proto.Size(m) == sz {
				return m
			}
		}
		return &conformancev1.ClientCompatResponse{TestName: "x"}
	}
	for _, w := range []string{"WriteDelimitedMessage", "proto-encoder", "json-encoder"} {
		var buf bytes.Buffer
		var msgs []*conformancev1.ClientCompatResponse
		var enc StreamEncoder
		switch w {
		case "proto-encoder":
			enc = NewCodec(false).NewEncoder(&buf)
		case "json-encoder":
			enc = NewCodec(true).NewEncoder(&buf)
		}
		for _, sz := range sizes {
			if w == "json-encoder" && sz > 3000 {
				continue
			}
			m := mk(sz)
			msgs = append(msgs, m)
			var err error
			if enc != nil {
				err = enc.Encode(m)
			} else {
				err = WriteDelimitedMessage(&buf, m)
			}
			rep.Eval(1)
			rep.DistinctKey(w, sz)
			if err != nil {
				rep.Violation("framing/writer/"+w+"/error", err.Error(), map[string]any{"size": sz})
			}
		}
		// independent read-back
		data := buf.Bytes()
		if w == "json-encoder" {
			dec := NewCodec(true).NewDecoder(bytes.NewReader(data))
			for i, m := range msgs {
				got := &conformancev1.ClientCompatResponse{}
				if err := dec.DecodeNext(got); err != nil || !proto.Equal(got, m) {
					rep.Violation("framing/writer/json-encoder/mismatch", fmt.Sprintf("message #%d (%d bytes) not read back: %v", i, proto.Size(m), err), map[string]any{"index": i})
					break
				}
			}
			continue
		}
		for i, m := range msgs {
			if len(data) < 4 {
				rep.Violation("framing/writer/"+w+"/short-stream", fmt.Sprintf("stream ends before message #%d", i), nil)
				break
			}
			l := int(binary.BigEndian.Uint32(data[:4]))
			if l != proto.Size(m) || len(data) < 4+l {
				rep.Violation("framing/writer/"+w+"/prefix-or-body-length", fmt.Sprintf("message #%d: prefix announces %d bytes, message has %d, %d bytes follow", i, l, proto.Size(m), len(data)-4), map[string]any{"size": proto.Size(m)})
				break
			}
			got := &conformancev1.ClientCompatResponse{}
			if err := proto.Unmarshal(data[4:4+l], got); err != nil || !proto.Equal(got, m) {
				rep.Violation("framing/writer/"+w+"/body-differs", fmt.Sprintf("message #%d (%d bytes) written differently: %v", i, l, err), map[string]any{"size": l})
				break
			}
			data = data[4+l:]
		}
		rep.Count("writer:"+w, len(msgs))
	}
	rep.Sample(map[string]any{"writer": "WriteDelimitedMessage", "sizes": "0..1200 consecutively", "expect": "independent parser returns the same messages"})
}


// TestVerifC09LongJSONStream: the JSON variant has no per-stream budget: a long
// sequence (well beyond 16 MiB in total) is read back completely.
func TestVerifC09LongJSONStream(t *testing.T) {
	rep := verifkit.Begin("C09", "long-json-stream", "JSON StreamEncoder -> StreamDecoder over one stream of N messages of ~400 KB each, total {8, 20, 40 (thorough 150)} MiB, read with 64 KB reads; also the binary variant; oracle: all N messages come back equal, then a clean end; distinct = (variant, total size)")
	defer rep.Write()
	totals := []int{8, 20, 40}
	if verifkit.Thorough() {
		totals = append(totals, 150)
	}
	for _, useJSON := range []bool{true, false} {
		for _, mib := range totals {
			rep.Eval(1)
			rep.DistinctKey(useJSON, mib)
			codec := NewCodec(useJSON)
			pr, pw := io.Pipe()
			per := 400 * 1024
			n := mib * 1024 * 1024 / per
			go func() {
				enc := codec.NewEncoder(pw)
				for i := 0; i < n; i++ {
					b := bytes.Repeat([]byte{byte('a' + i%26)}, per)
					if err := enc.Encode(&conformancev1.ClientCompatResponse{TestName: fmt.Sprintf("m%d", i), Result: &conformancev1.ClientCompatResponse_Error{Error: &conformancev1.ClientErrorResult{Message: string(b)}}}); err != nil {
						_ = pw.CloseWithError(err)
						return
					}
				}
				_ = pw.Close()
			}()
			dec := codec.NewDecoder(pr)
			got := 0
			var lastErr error
			for {
				m := &conformancev1.ClientCompatResponse{}
				if lastErr = dec.DecodeNext(m); lastErr != nil {
					break
				}
				if m.TestName != fmt.Sprintf("m%d", got) || len(m.GetError().GetMessage()) != per {
					lastErr = fmt.Errorf("message #%d came back as %q with %d bytes", got, m.TestName, len(m.GetError().GetMessage()))
					break
				}
				got++
			}
			_ = pr.Close()
			w := map[string]any{"json": useJSON, "messages": n, "total_mib": mib, "read_back": got, "final_error": fmt.Sprint(lastErr)}
			if got != n || !errors.Is(lastErr, io.EOF) {
				rep.Violation(fmt.Sprintf("framing/long-stream/json-%v/cut-short", useJSON), fmt.Sprintf("%d of %d messages (%d MiB in total) were read back, then %v", got, n, mib, lastErr), w)
			} else {
				rep.Count("long_streams_ok", 1)
			}
		}
	}
	rep.Sample(map[string]any{"variant": "json", "total": "40 MiB in 102 messages", "expect": "102 messages, then io.EOF"})
}
