//go:build verif

package internal

import (
	"bytes"
	"fmt"
	"net/http"
	"reflect"
	"strings"
	"testing"

	conformancev1 "connectrpc.com/conformance/internal/gen/proto/go/connectrpc/conformance/v1"
	"connectrpc.com/conformance/internal/verifkit"
	"google.golang.org/protobuf/proto"
	"google.golang.org/protobuf/types/known/anypb"
	"google.golang.org/protobuf/types/known/wrapperspb"
)

func vfRandAny(r *verifkit.Rand) *anypb.Any {
	var m proto.Message
	switch r.Intn(3) {
	case 0:
		m = &conformancev1.Header{Name: verifkit.RandUTF8(r, 6, false), Value: []string{"v1", verifkit.RandUTF8(r, 4, true)}}
	case 1:
		m = &conformancev1.ConformancePayload_RequestInfo{TimeoutMs: proto.Int64(int64(r.Intn(10000)))}
	default:
		m = wrapperspb.String(verifkit.RandUTF8(r, 8, true))
	}
	a, _ := anypb.New(m)
	switch r.Intn(5) {
	case 0:
		a.Value = append(a.Value, 0xc0, 0x3e, 0x01) // unknown field 1000
	case 1:
		a.Value = append(a.Value, 0xc0, 0x3e, 0x81, 0x00) // non-minimal varint
	case 2:
		if h, ok := m.(*conformancev1.Header); ok {
			// fields written in reverse order (value before name)
			var b []byte
			for _, v := range h.Value {
				b = append(b, 0x12, byte(len(v)))
				b = append(b, v...)
			}
			b = append(b, 0x0a, byte(len(h.Name)))
			b = append(b, h.Name...)
			if len(h.Name) < 128 {
				a.Value = b
			}
		}
	}
	return a
}

func vfTypeName(a *anypb.Any) string {
	if i := strings.LastIndex(a.TypeUrl, "/"); i >= 0 {
		return a.TypeUrl[i+1:]
	}
	return a.TypeUrl
}

func TestVerifC18ConnectError(t *testing.T) {
	rep := verifkit.Begin("C18", "connect-error", "random errors (codes 1..16, UTF-8 messages, 0-3 details incl. unknown fields, non-minimal varints and reversed field order) through proto -> connect.Error -> proto (ConvertProtoToConnectError / ConvertConnectToProtoError / ConvertErrorToProtoError); distinct = error values")
	defer rep.Write()
	rng := verifkit.Stream("c18connerr")
	n := verifkit.Scale(20000, 2000000)
	for i := 0; i < n; i++ {
		e := &conformancev1.Error{Code: conformancev1.Code(1 + rng.Intn(16))}
		if rng.Chance(5, 6) {
			e.Message = proto.String(verifkit.RandUTF8(rng, 12, true))
		}
		for k := rng.Intn(4); k > 0; k-- {
			e.Details = append(e.Details, vfRandAny(rng))
		}
		orig := proto.Clone(e).(*conformancev1.Error)
		rep.Eval(1)
		rep.DistinctKey(e.String())
		rep.InFlight(e.String())
		var back, back2 *conformancev1.Error
		if p := verifkit.Catch(func() {
			ce := ConvertProtoToConnectError(e)
			back = ConvertConnectToProtoError(ce)
			back2 = ConvertErrorToProtoError(fmt.Errorf("wrapped: %w", ce))
		}); p != nil {
			rep.Violation("conv/connect-error/panic/"+p.Site, p.Value, orig.String())
			continue
		}
		for _, b := range []*conformancev1.Error{back, back2} {
			diff := ""
			switch {
			case b == nil:
				diff = "became nil"
			case b.Code != orig.Code:
				diff = fmt.Sprintf("code %v -> %v", orig.Code, b.Code)
			case b.GetMessage() != orig.GetMessage():
				diff = fmt.Sprintf("message %q -> %q", orig.GetMessage(), b.GetMessage())
			case len(b.Details) != len(orig.Details):
				diff = fmt.Sprintf("%d details -> %d", len(orig.Details), len(b.Details))
			default:
				for j := range orig.Details {
					if vfTypeName(orig.Details[j]) != vfTypeName(b.Details[j]) || !strings.Contains(b.Details[j].TypeUrl, "/") {
						diff = fmt.Sprintf("detail #%d type %q -> %q", j+1, orig.Details[j].TypeUrl, b.Details[j].TypeUrl)
					} else if !bytes.Equal(orig.Details[j].Value, b.Details[j].Value) {
						diff = fmt.Sprintf("detail #%d bytes %x -> %x", j+1, orig.Details[j].Value, b.Details[j].Value)
					}
				}
			}
			if diff != "" {
				kind := "changed"
				if strings.Contains(diff, "bytes") {
					kind = "detail-bytes"
				} else if strings.Contains(diff, "type") {
					kind = "detail-type"
				}
				rep.Violation("conv/connect-error/"+kind, "proto -> connect -> proto changed the error: "+diff, map[string]any{"in": orig.String()})
				break
			}
		}
		if !proto.Equal(orig, e) {
			rep.Violation("conv/connect-error/input-mutated", "conversion modified its input", orig.String())
		}
	}
	if ConvertProtoToConnectError(nil) != nil || ConvertConnectToProtoError(nil) != nil || ConvertErrorToProtoError(nil) != nil {
		rep.Violation("conv/connect-error/nil", "nil does not map to nil", nil)
	}
	rep.Sample(map[string]any{"in": "code=9 message='x%y' details=[Header(reversed field order)]", "law": "code, message, type name and exact bytes of every detail survive"})
}

func TestVerifC18Headers(t *testing.T) {
	rep := verifkit.Begin("C18", "headers", "random header lists through AddHeaders/AddTrailers -> http.Header -> ConvertToProtoHeader; law: every key kept up to case, values in order, repeated keys merged; two results filled from one list (1-7 values per name, slices with spare capacity) stay independent of each other and of the list under later Add / in-place edits; distinct = header lists")
	defer rep.Write()
	rng := verifkit.Stream("c18hdr")
	n := verifkit.Scale(20000, 1500000)
	for i := 0; i < n; i++ {
		var hs []*conformancev1.Header
		want := map[string][]string{}
		for k := rng.Intn(6); k > 0; k-- {
			h := &conformancev1.Header{Name: verifkit.HeaderName(rng, rng.Chance(1, 4))}
			for v := 1 + rng.Intn(3) + 4*rng.Intn(2)*rng.Intn(2); v > 0; v-- {
				h.Value = append(h.Value, verifkit.Pick(rng, []string{"a", "B", "c d", "e,f", "", "Zz"}))
			}
			hs = append(hs, h)
			want[strings.ToLower(h.Name)] = append(want[strings.ToLower(h.Name)], h.Value...)
		}
		rep.Eval(1)
		rep.DistinctKey(fmt.Sprint(hs))
		dest := http.Header{}
		AddHeaders(hs, dest)
		got := map[string][]string{}
		for _, h := range ConvertToProtoHeader(dest) {
			got[strings.ToLower(h.Name)] = append(got[strings.ToLower(h.Name)], h.Value...)
		}
		if !reflect.DeepEqual(got, want) && len(want)+len(got) > 0 {
			rep.Violation("conv/headers/roundtrip", fmt.Sprintf("AddHeaders -> ConvertToProtoHeader: got %v want %v", got, want), fmt.Sprint(hs))
		}
		// the results stay what they are: two destinations filled from the same list are independent of each
		// other and of the list, whatever is added to or changed in one of them afterwards
		if len(hs) > 0 {
			snapshot := fmt.Sprint(hs)
			d1, d2 := http.Header{}, http.Header{}
			AddHeaders(hs, d1)
			AddHeaders(hs, d2)
			for _, h := range hs {
				d1.Add(h.Name, "added-to-first")
			}
			for _, h := range hs {
				d2.Add(h.Name, "added-to-second")
			}
			for k, vs := range d2 {
				if len(vs) > 0 {
					vs[0] = "edited-in-second"
				}
				_ = k
			}
			for _, h := range hs {
				for _, v := range d1.Values(h.Name) {
					if v == "added-to-second" || v == "edited-in-second" {
						rep.Violation("conv/headers/results-share-storage", fmt.Sprintf("a value added to / edited in a second http.Header filled from the same list shows up in the first: %s=%q", h.Name, d1.Values(h.Name)), snapshot)
					}
				}
			}
			if fmt.Sprint(hs) != snapshot {
				rep.Violation("conv/headers/results-share-storage-with-source", fmt.Sprintf("editing the http.Header changed the header list it was filled from: %v", hs), snapshot)
			}
			rep.Count("aliasing_histories", 1)
		}
		tr := http.Header{}
		AddTrailers(hs, tr)
		// http.Header does not canonicalise keys containing ':' (the TrailerPrefix), so differently
		// spelled names stay separate keys; the order between separate keys is not defined
		wantT := map[string][]string{}
		for _, h := range hs {
			wantT[http.TrailerPrefix+h.Name] = append(wantT[http.TrailerPrefix+h.Name], h.Value...)
		}
		for k := range tr {
			if !strings.HasPrefix(k, http.TrailerPrefix) {
				rep.Violation("conv/headers/trailer-prefix", "trailer key without TrailerPrefix: "+k, fmt.Sprint(hs))
			}
		}
		if !reflect.DeepEqual(map[string][]string(tr), wantT) && len(wantT)+len(tr) > 0 {
			rep.Violation("conv/headers/trailers-roundtrip", fmt.Sprintf("AddTrailers: got %v want %v", tr, wantT), fmt.Sprint(hs))
		}
	}
	rep.Sample(map[string]any{"headers": "X-Verif-a=[a,B] x-verif-A=[c d]", "law": "http.Header has X-Verif-A=[a,B,c d]"})
}

func vfRandConformanceMessage(r *verifkit.Rand) proto.Message {
	hdrs := func() []*conformancev1.Header {
		var hs []*conformancev1.Header
		for k := r.Intn(3); k > 0; k-- {
			hs = append(hs, &conformancev1.Header{Name: verifkit.HeaderName(r, false), Value: []string{verifkit.RandUTF8(r, 5, false)}})
		}
		return hs
	}
	switch r.Intn(5) {
	case 0:
		return &conformancev1.UnaryRequest{RequestData: r.Bytes(r.Intn(40)), ResponseDefinition: &conformancev1.UnaryResponseDefinition{ResponseHeaders: hdrs(),
			Response: &conformancev1.UnaryResponseDefinition_ResponseData{ResponseData: r.Bytes(r.Intn(20))}, ResponseDelayMs: uint32(r.Intn(3))}}
	case 1:
		return &conformancev1.UnaryResponse{Payload: &conformancev1.ConformancePayload{Data: r.Bytes(r.Intn(30)), RequestInfo: &conformancev1.ConformancePayload_RequestInfo{RequestHeaders: hdrs(), TimeoutMs: proto.Int64(int64(r.Intn(1 << 30)))}}}
	case 2:
		return &conformancev1.BidiStreamRequest{FullDuplex: r.Bool(), RequestData: r.Bytes(r.Intn(10)), ResponseDefinition: &conformancev1.StreamResponseDefinition{ResponseData: [][]byte{r.Bytes(3), {}}, ResponseTrailers: hdrs(),
			Error: &conformancev1.Error{Code: conformancev1.Code(1 + r.Intn(16)), Message: proto.String(verifkit.RandUTF8(r, 8, true)), Details: []*anypb.Any{vfRandAnyCanonical(r)}}}}
	case 3:
		return &conformancev1.ServerStreamResponse{Payload: &conformancev1.ConformancePayload{Data: r.Bytes(r.Intn(8))}}
	default:
		return &conformancev1.ClientStreamRequest{RequestData: r.Bytes(r.Intn(64))}
	}
}

func vfRandAnyCanonical(r *verifkit.Rand) *anypb.Any {
	a, _ := anypb.New(&conformancev1.Header{Name: "n", Value: []string{verifkit.RandUTF8(r, 4, false)}})
	return a
}

type vfStrictCodec interface {
	Name() string
	Marshal(any) ([]byte, error)
	Unmarshal([]byte, any) error
	MarshalStable(any) ([]byte, error)
	MarshalAppend([]byte, any) ([]byte, error)
}

func TestVerifC18Codecs(t *testing.T) {
	rep := verifkit.Begin("C18", "codecs", "random conformance messages through StrictProtoCodec and StrictJSONCodec: Unmarshal(Marshal(m)) == m, MarshalAppend keeps the prefix, MarshalStable deterministic and decodable, a message with an appended unknown field / JSON key is rejected; distinct = (codec, message)")
	defer rep.Write()
	rng := verifkit.Stream("c18codec")
	n := verifkit.Scale(5000, 500000)
	codecs := []vfStrictCodec{StrictProtoCodec{}, StrictJSONCodec{}}
	// encodings handed out earlier must stay intact while later ones are produced (no shared buffers)
	type held struct {
		codec vfStrictCodec
		kind  string
		data  []byte
		copy  []byte
		msg   proto.Message
	}
	var holding []held
	reused := map[string]proto.Message{}
	checkHeld := func() {
		for _, h := range holding {
			if !bytes.Equal(h.data, h.copy) {
				rep.Violation("conv/codec/"+h.codec.Name()+"/"+h.kind+"-buffer-reused", fmt.Sprintf("bytes returned by %s were modified by a later call", h.kind), map[string]any{"codec": h.codec.Name(), "type": string(h.msg.ProtoReflect().Descriptor().FullName())})
				continue
			}
			out := h.msg.ProtoReflect().New().Interface()
			if err := h.codec.Unmarshal(h.data, out); err != nil || !proto.Equal(out, h.msg) {
				rep.Violation("conv/codec/"+h.codec.Name()+"/"+h.kind+"-held-encoding-changed", "an encoding kept from an earlier call no longer decodes to its message", nil)
			}
		}
		holding = holding[:0]
	}
	for i := 0; i < n; i++ {
		m := vfRandConformanceMessage(rng)
		if i%4 == 3 {
			checkHeld()
		}
		for _, c := range codecs {
			if d, err := c.MarshalStable(m); err == nil {
				holding = append(holding, held{c, "MarshalStable", d, append([]byte(nil), d...), m})
			}
			if d, err := c.Marshal(m); err == nil {
				holding = append(holding, held{c, "Marshal", d, append([]byte(nil), d...), m})
			}
			rep.Eval(1)
			rep.DistinctKey(c.Name(), m)
			w := map[string]any{"codec": c.Name(), "type": string(m.ProtoReflect().Descriptor().FullName()), "message": verifkit.Trunc(fmt.Sprint(m), 400)}
			rep.InFlight(w)
			p := verifkit.Catch(func() {
				data, err := c.Marshal(m)
				if err != nil {
					rep.Violation("conv/codec/"+c.Name()+"/marshal-error", err.Error(), w)
					return
				}
				out := m.ProtoReflect().New().Interface()
				if err := c.Unmarshal(data, out); err != nil {
					rep.Violation("conv/codec/"+c.Name()+"/does-not-decode-own-output", fmt.Sprintf("Unmarshal(Marshal(m)) fails: %v (encoded %q)", err, verifkit.Trunc(string(data), 120)), w)
					return
				}
				if !proto.Equal(m, out) {
					rep.Violation("conv/codec/"+c.Name()+"/roundtrip-differs", "Unmarshal(Marshal(m)) != m", w)
				}
				pre := []byte("PREFIX")
				app, err := c.MarshalAppend(append([]byte{}, pre...), m)
				if err != nil || !bytes.HasPrefix(app, pre) {
					rep.Violation("conv/codec/"+c.Name()+"/append", fmt.Sprintf("MarshalAppend lost the prefix or failed: %v", err), w)
				} else {
					out2 := m.ProtoReflect().New().Interface()
					if err := c.Unmarshal(app[len(pre):], out2); err != nil || !proto.Equal(m, out2) {
						rep.Violation("conv/codec/"+c.Name()+"/append-roundtrip", fmt.Sprintf("bytes appended by MarshalAppend do not decode to m: %v", err), w)
					}
				}
				s1, e1 := c.MarshalStable(m)
				s2, e2 := c.MarshalStable(proto.Clone(m))
				if e1 != nil || e2 != nil || !bytes.Equal(s1, s2) {
					rep.Violation("conv/codec/"+c.Name()+"/stable", fmt.Sprintf("MarshalStable not deterministic (%v %v)", e1, e2), w)
				} else {
					out3 := m.ProtoReflect().New().Interface()
					if err := c.Unmarshal(s1, out3); err != nil || !proto.Equal(m, out3) {
						rep.Violation("conv/codec/"+c.Name()+"/stable-roundtrip", fmt.Sprintf("MarshalStable output does not decode to m: %v", err), w)
					}
				}
				// unknown field must be rejected, not dropped
				var extended []byte
				if c.Name() == "proto" {
					canon, _ := proto.Marshal(m)
					extended = append(canon, 0xc0, 0x3e, 0x07) // field 1000, varint 7
				} else {
					js := strings.TrimSpace(string(data))
					if js == "{}" {
						extended = []byte(`{"verifUnknownKey":1}`)
					} else {
						extended = []byte(strings.TrimSuffix(js, "}") + `,"verifUnknownKey":1}`)
					}
				}
				out4 := m.ProtoReflect().New().Interface()
				if err := c.Unmarshal(extended, out4); err == nil {
					rep.Violation("conv/codec/"+c.Name()+"/unknown-field-accepted", "a message carrying an unknown field was accepted instead of rejected", w)
				} else {
					rep.Count("unknown_rejected_"+c.Name(), 1)
				}
				// a destination that already holds a message (a receive loop keeping one object): decoding replaces it.
				// The destinations are: one that holds the previous message of this type, and the one that just
				// rejected a message with an unknown field.
				typ := string(m.ProtoReflect().Descriptor().FullName())
				dsts := map[string]proto.Message{"after-rejected-message": out4}
				if prev := reused[c.Name()+"/"+typ]; prev != nil {
					dsts["holding-previous-message"] = prev
				}
				for what, dst := range dsts {
					if err := c.Unmarshal(data, dst); err != nil {
						rep.Violation("conv/codec/"+c.Name()+"/reused-destination-error/"+what, fmt.Sprintf("decoding a valid message into a destination %s fails: %v", what, err), w)
					} else if !proto.Equal(m, dst) {
						rep.Violation("conv/codec/"+c.Name()+"/reused-destination-differs/"+what, fmt.Sprintf("decoding into a destination %s does not give the decoded message (old contents survive)", what), w)
					} else {
						rep.Count("reused_destination_ok", 1)
					}
				}
				reused[c.Name()+"/"+typ] = proto.Clone(m)
				// marshal, change a nested field, marshal again with each entry point: no stale cached sizes
				nested := &conformancev1.ClientResponseResult{Payloads: []*conformancev1.ConformancePayload{{Data: []byte("short"), RequestInfo: &conformancev1.ConformancePayload_RequestInfo{RequestHeaders: []*conformancev1.Header{{Name: "h", Value: []string{"v"}}}}}}}
				for round, first := range []string{"Marshal", "MarshalAppend", "MarshalStable"} {
					switch first {
					case "Marshal":
						_, _ = c.Marshal(nested)
					case "MarshalAppend":
						_, _ = c.MarshalAppend(nil, nested)
					default:
						_, _ = c.MarshalStable(nested)
					}
					nested.Payloads[0].Data = append(nested.Payloads[0].Data, bytes.Repeat([]byte{byte('a' + round)}, 40+i%200)...)
					nested.Payloads[0].RequestInfo.RequestHeaders[0].Value = append(nested.Payloads[0].RequestInfo.RequestHeaders[0].Value, "another value")
					for _, second := range []string{"MarshalStable", "Marshal", "MarshalAppend"} {
						var enc []byte
						var err error
						switch second {
						case "Marshal":
							enc, err = c.Marshal(nested)
						case "MarshalAppend":
							enc, err = c.MarshalAppend(nil, nested)
						default:
							enc, err = c.MarshalStable(nested)
						}
						back := &conformancev1.ClientResponseResult{}
						if err != nil || c.Unmarshal(enc, back) != nil || !proto.Equal(back, nested) {
							rep.Violation("conv/codec/"+c.Name()+"/marshal-after-mutation", fmt.Sprintf("%s after %s and a change to a nested field: error %v / does not decode to the changed message", second, first, err), w)
						} else {
							rep.Count("marshal_after_mutation_ok", 1)
						}
					}
				}
			})
			if p != nil {
				rep.Violation("conv/codec/"+c.Name()+"/panic/"+p.Site, p.Value, w)
			}
		}
	}
	rep.Sample(map[string]any{"codec": "proto", "message": "UnaryRequest{request_data: 0x0102}", "law": "Unmarshal(Marshal(m)) == m; m + field 1000 rejected"})
	rep.RequireMin("unknown_rejected_json", 100)
}
