//go:build verif

package internal

import (
	"bytes"
	"fmt"
	"testing"

	conformancev1 "connectrpc.com/conformance/internal/gen/proto/go/connectrpc/conformance/v1"
	"connectrpc.com/conformance/internal/verifkit"
)

// TestVerifC20RawNames: the raw-payload encoder's per-item compression enum
// denotes the same algorithm as the encoding name.
func TestVerifC20RawNames(t *testing.T) {
	rep := verifkit.Begin("C20", "raw-encoder-names", "WriteRawMessageContents with each of the 6 compressions (+unspecified) x payloads incl. empty: output decoded by an independent decoder of the enum's IANA name; distinct = (compression, payload)")
	defer rep.Write()
	rng := verifkit.Stream("c20raw")
	names := map[conformancev1.Compression]string{0: "identity", 1: "identity", 2: "gzip", 3: "br", 4: "zstd", 5: "deflate", 6: "snappy"}
	for enc, name := range names {
		for _, in := range [][]byte{{}, []byte("a"), []byte("hello hello hello"), rng.Bytes(3000)} {
			rep.Eval(1)
			rep.DistinctKey(enc, in)
			var buf bytes.Buffer
			msg := &conformancev1.MessageContents{Data: &conformancev1.MessageContents_Binary{Binary: in}, Compression: enc}
			var err error
			if pn := verifkit.Catch(func() { err = WriteRawMessageContents(msg, &buf) }); pn != nil {
				rep.Violation("compress/"+name+"/raw-encoder-panic/"+pn.Site, pn.Value, nil)
				continue
			}
			if err != nil {
				rep.Violation("compress/"+name+"/raw-encoder-error", err.Error(), nil)
				continue
			}
			out, derr := verifkit.IndepDecompress(name, buf.Bytes())
			if derr != nil || !bytes.Equal(out, in) {
				cls := "non-empty"
				if len(in) == 0 {
					cls = "empty"
				}
				rep.Violation("compress/"+name+"/raw-encoder-name-mismatch/"+cls, fmt.Sprintf("raw encoder with %v wrote %d bytes that an independent %s decoder does not turn back into the %d-byte payload (%v)", enc, buf.Len(), name, len(in), derr), map[string]any{"compression": enc.String(), "payload_len": len(in)})
			}
		}
	}
	rep.Sample(map[string]any{"compression": "COMPRESSION_ZSTD", "payload": "hello hello hello", "law": "klauspost zstd reader returns the payload"})
}
