#!/bin/bash
# Run once after a fresh restore (offline). Warms the Go build cache so that the
# quick checks do not pay for the first compilation of the dependency graph.
set -u
export GOFLAGS=-mod=mod GOPROXY=off GOSUMDB=off GOTOOLCHAIN=local
cd "$(dirname "$0")"
chmod +x check tools/*.sh 2>/dev/null
mkdir -p evidence replays
( cd /repo && go build ./... && go test -vet=off -count=1 -run '^$' ./... >/dev/null 2>&1 ; go build -race ./... >/dev/null 2>&1 )
python3 lib/prebuild.py || true
exit 0
