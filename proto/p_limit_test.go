package referenceserver

import (
	"context"
	"crypto/tls"
	"encoding/binary"
	"fmt"
	"io"
	"net"
	"net/http"
	"sort"
	"testing"

	"connectrpc.com/conformance/internal"
	"connectrpc.com/conformance/internal/compression"
	conformancev1 "connectrpc.com/conformance/internal/gen/proto/go/connectrpc/conformance/v1"
	"connectrpc.com/conformance/internal/gen/proto/go/connectrpc/conformance/v1/conformancev1connect"
	"connectrpc.com/connect"
	"golang.org/x/net/http2"
	"google.golang.org/protobuf/proto"
)

type vfWC2 struct{ io.Writer }

func (vfWC2) Close() error { return nil }

func vfStartLimit(t *testing.T, limit uint32) (string, func()) {
	inR, inW := io.Pipe()
	outR, outW := io.Pipe()
	ctx, cancel := context.WithCancel(context.Background())
	go func() { _ = Run(ctx, []string{"refserver"}, inR, outW, vfWC2{io.Discard}) }()
	internal.WriteDelimitedMessage(inW, &conformancev1.ServerCompatRequest{Protocol: 1, HttpVersion: 2, MessageReceiveLimit: limit})
	inW.Close()
	var resp conformancev1.ServerCompatResponse
	var pre [4]byte
	io.ReadFull(outR, pre[:])
	buf := make([]byte, binary.BigEndian.Uint32(pre[:]))
	io.ReadFull(outR, buf)
	proto.Unmarshal(buf, &resp)
	return fmt.Sprintf("http://%s:%d", resp.Host, resp.Port), cancel
}

func vfSized(size int, zero bool) *conformancev1.UnaryRequest {
	for _, guess := range []int{size - 2, size - 3, size - 4, size - 5} {
		if guess < 0 {
			continue
		}
		m := &conformancev1.UnaryRequest{RequestData: make([]byte, guess)}
		if proto.Size(m) == size {
			if !zero {
				for i := range m.RequestData {
					m.RequestData[i] = byte(i*131 + 7)
				}
			}
			return m
		}
	}
	return nil
}

func TestProbeLimitSharp(t *testing.T) {
	res := map[string]int{}
	h2c := &http.Client{Transport: &http2.Transport{AllowHTTP: true, DialTLSContext: func(ctx context.Context, n, a string, _ *tls.Config) (net.Conn, error) {
		return (&net.Dialer{}).DialContext(ctx, n, a)
	}}}
	for _, L := range []int{64, 4096, 200 * 1024} {
		url, stop := vfStartLimit(t, uint32(L))
		for _, protoOpt := range []struct {
			name string
			opt  connect.ClientOption
		}{{"connect", nil}, {"grpc", connect.WithGRPC()}, {"grpcweb", connect.WithGRPCWeb()}} {
			for _, comp := range []string{"identity", compression.Gzip, compression.Brotli, compression.Zstd, compression.Deflate, compression.Snappy} {
				for _, zero := range []bool{true, false} {
					for _, delta := range []int{-1, 0, 1} {
						opts := []connect.ClientOption{}
						if protoOpt.opt != nil {
							opts = append(opts, protoOpt.opt)
						}
						switch comp {
						case compression.Gzip:
							opts = append(opts, connect.WithSendGzip())
						case compression.Brotli:
							opts = append(opts, connect.WithAcceptCompression(comp, compression.NewBrotliDecompressor, compression.NewBrotliCompressor), connect.WithSendCompression(comp))
						case compression.Zstd:
							opts = append(opts, connect.WithAcceptCompression(comp, compression.NewZstdDecompressor, compression.NewZstdCompressor), connect.WithSendCompression(comp))
						case compression.Deflate:
							opts = append(opts, connect.WithAcceptCompression(comp, compression.NewDeflateDecompressor, compression.NewDeflateCompressor), connect.WithSendCompression(comp))
						case compression.Snappy:
							opts = append(opts, connect.WithAcceptCompression(comp, compression.NewSnappyDecompressor, compression.NewSnappyCompressor), connect.WithSendCompression(comp))
						}
						cl := conformancev1connect.NewConformanceServiceClient(h2c, url, opts...)
						msg := vfSized(L+delta, zero)
						if msg == nil {
							res["unreachable-size"]++
							continue
						}
						req := connect.NewRequest(msg)
						req.Header().Set("X-Test-Case-Name", "limit")
						_, err := cl.Unary(context.Background(), req)
						var verdict string
						switch {
						case err == nil:
							verdict = "accepted"
						case connect.CodeOf(err) == connect.CodeResourceExhausted:
							verdict = "resource_exhausted"
						default:
							verdict = "other:" + connect.CodeOf(err).String() + ":" + err.Error()
							if len(verdict) > 120 {
								verdict = verdict[:120]
							}
						}
						want := "accepted"
						if delta > 0 {
							want = "resource_exhausted"
						}
						if verdict == want {
							res["ok"]++
						} else {
							res[fmt.Sprintf("MISMATCH L=%d %s %s zero=%v delta=%+d got=%s", L, protoOpt.name, comp, zero, delta, verdict)]++
						}
					}
				}
			}
		}
		stop()
	}
	var ks []string
	for k := range res {
		ks = append(ks, k)
	}
	sort.Strings(ks)
	for _, k := range ks {
		t.Logf("%5d %s", res[k], k)
	}
}
