package referenceclient

import (
	"encoding/base64"
	"fmt"
	"net/http"
	"sort"
	"strings"
	"testing"

	"connectrpc.com/conformance/internal"
	conformancev1 "connectrpc.com/conformance/internal/gen/proto/go/connectrpc/conformance/v1"
	"google.golang.org/genproto/googleapis/rpc/status"
	"google.golang.org/protobuf/proto"
	"google.golang.org/protobuf/types/known/anypb"
)

func vfFB(f func(p internal.Printer)) []string {
	p := &internal.SimplePrinter{}
	f(p)
	return p.Messages
}

func TestProbeWireMalformations(t *testing.T) {
	detail := &conformancev1.Header{Name: "d", Value: []string{"v"}}
	db, _ := proto.Marshal(detail)
	dv := base64.RawStdEncoding.EncodeToString(db)
	good := fmt.Sprintf(`{"code":"internal","message":"oops","details":[{"type":"connectrpc.conformance.v1.Header","value":"%s","debug":{"name":"d","value":["v"]}}]}`, dv)
	res := map[string]string{}
	put := func(name string, msgs []string, wantSilent bool) {
		st := "OK"
		if wantSilent && len(msgs) > 0 {
			st = "SPURIOUS: " + msgs[0]
		}
		if !wantSilent && len(msgs) == 0 {
			st = "MISSED"
		}
		res[name] = st
	}
	ce := func(js string) []string { return vfFB(func(p internal.Printer) { examineConnectError([]byte(js), p) }) }
	put("connect-error good", ce(good), true)
	put("connect-error minimal", ce(`{"code":"not_found"}`), true)
	put("connect-error missing code", ce(`{"message":"x"}`), false)
	put("connect-error numeric code", ce(`{"code":5}`), false)
	put("connect-error unknown code", ce(`{"code":"bogus"}`), false)
	put("connect-error code ok (zero)", ce(`{"code":"ok"}`), false)
	put("connect-error duplicate key", ce(`{"code":"internal","code":"internal"}`), false)
	put("connect-error duplicate nested", ce(strings.Replace(good, `"type":`, `"type":"x","type":`, 1)), false)
	put("connect-error unknown key", ce(`{"code":"internal","extra":1}`), false)
	put("connect-error message not string", ce(`{"code":"internal","message":5}`), false)
	put("connect-error details not array", ce(`{"code":"internal","details":{}}`), false)
	put("connect-error detail missing type", ce(fmt.Sprintf(`{"code":"internal","details":[{"value":"%s"}]}`, dv)), false)
	put("connect-error detail missing value", ce(`{"code":"internal","details":[{"type":"connectrpc.conformance.v1.Header"}]}`), false)
	put("connect-error detail bad type name", ce(fmt.Sprintf(`{"code":"internal","details":[{"type":"not a name","value":"%s"}]}`, dv)), false)
	put("connect-error detail padded value", ce(fmt.Sprintf(`{"code":"internal","details":[{"type":"connectrpc.conformance.v1.Header","value":"%s"}]}`, base64.StdEncoding.EncodeToString(db))), base64.StdEncoding.EncodeToString(db) == dv)
	put("connect-error detail not base64", ce(`{"code":"internal","details":[{"type":"connectrpc.conformance.v1.Header","value":"!!!"}]}`), false)
	put("connect-error detail debug mismatch", ce(strings.Replace(good, `"name":"d"`, `"name":"other"`, 1)), false)
	put("connect-error detail unknown key", ce(strings.Replace(good, `"debug":`, `"zzz":1,"debug":`, 1)), false)
	put("connect-error not object", ce(`[]`), false)
	put("connect-error null", ce(`null`), false)
	put("connect-error garbage", ce(`{`), false)

	es := func(js string) []string { return vfFB(func(p internal.Printer) { examineConnectEndStream([]byte(js), p) }) }
	put("endstream empty", es(`{}`), true)
	put("endstream good", es(`{"error":`+good+`,"metadata":{"x-a":["1","2"]}}`), true)
	put("endstream unknown key", es(`{"zzz":1}`), false)
	put("endstream error not object", es(`{"error":"x"}`), false)
	put("endstream metadata not object", es(`{"metadata":[]}`), false)
	put("endstream metadata value not array", es(`{"metadata":{"a":"b"}}`), false)
	put("endstream metadata value elem not string", es(`{"metadata":{"a":[1]}}`), false)
	put("endstream metadata bad name", es(`{"metadata":{"a b":["1"]}}`), false)
	put("endstream metadata bad value", es(`{"metadata":{"a":["x\u0001"]}}`), false)
	put("endstream nested bad error", es(`{"error":{"code":"bogus"}}`), false)

	gw := func(block string) []string {
		return vfFB(func(p internal.Printer) { h := examineGRPCEndStream(block, p); checkGRPCStatus(h, p) })
	}
	put("grpcweb good", gw("grpc-status: 0\r\ngrpc-message: \r\nx-a: 1\r\n"), true)
	put("grpcweb LF only", gw("grpc-status: 0\n"), false)
	put("grpcweb no final CRLF", gw("grpc-status: 0"), false)
	put("grpcweb blank line", gw("grpc-status: 0\r\n\r\nx: 1\r\n"), false)
	put("grpcweb trailing blank", gw("grpc-status: 0\r\n\r\n"), false)
	put("grpcweb uppercase key", gw("Grpc-Status: 0\r\n"), false)
	put("grpcweb missing colon", gw("grpc-status: 0\r\nbogus\r\n"), false)
	put("grpcweb bad name", gw("grpc-status: 0\r\nx y: 1\r\n"), false)
	put("grpcweb bad value", gw("grpc-status: 0\r\nx: a\x01b\r\n"), false)
	put("grpcweb folding", gw("grpc-status: 0\r\nx: a\r\n b\r\n"), false)
	put("grpcweb missing status", gw("x: 1\r\n"), false)
	put("grpcweb dup status", gw("grpc-status: 0\r\ngrpc-status: 0\r\n"), false)
	put("grpcweb status non-numeric", gw("grpc-status: abc\r\n"), false)
	put("grpcweb status out of range", gw("grpc-status: 17\r\n"), false)
	put("grpcweb status negative", gw("grpc-status: -1\r\n"), false)
	put("grpcweb raw non-ascii message", gw("grpc-status: 2\r\ngrpc-message: caf\xc3\xa9\r\n"), false)
	put("grpcweb bad percent", gw("grpc-status: 2\r\ngrpc-message: %G1\r\n"), false)
	put("grpcweb dangling percent", gw("grpc-status: 2\r\ngrpc-message: abc%\r\n"), false)
	put("grpcweb dup message", gw("grpc-status: 2\r\ngrpc-message: a\r\ngrpc-message: b\r\n"), false)
	put("grpcweb ok with message", gw("grpc-status: 0\r\ngrpc-message: hi\r\n"), false)
	mk := func(code int32, msg string, padded bool, withDetails bool) string {
		sp := &status.Status{Code: code, Message: msg}
		if withDetails {
			a, _ := anypb.New(detail)
			sp.Details = []*anypb.Any{a}
		}
		b, _ := proto.Marshal(sp)
		if padded {
			return base64.StdEncoding.EncodeToString(append(b, 0x28, 0x01)[:len(b)]) + ""
		}
		return base64.RawStdEncoding.EncodeToString(b)
	}
	put("grpcweb details good", gw("grpc-status: 2\r\ngrpc-message: m\r\ngrpc-status-details-bin: "+mk(2, "m", false, true)+"\r\n"), true)
	put("grpcweb details code mismatch", gw("grpc-status: 2\r\ngrpc-message: m\r\ngrpc-status-details-bin: "+mk(3, "m", false, true)+"\r\n"), false)
	put("grpcweb details msg mismatch", gw("grpc-status: 2\r\ngrpc-message: m\r\ngrpc-status-details-bin: "+mk(2, "other", false, true)+"\r\n"), false)
	put("grpcweb details not base64", gw("grpc-status: 2\r\ngrpc-status-details-bin: !!!\r\n"), false)
	put("grpcweb details not proto", gw("grpc-status: 2\r\ngrpc-status-details-bin: "+base64.RawStdEncoding.EncodeToString([]byte{0xff, 0xff, 0xff})+"\r\n"), false)
	put("grpcweb details dup", gw("grpc-status: 2\r\ngrpc-message: m\r\ngrpc-status-details-bin: "+mk(2, "m", false, true)+"\r\ngrpc-status-details-bin: "+mk(2, "m", false, true)+"\r\n"), false)
	put("grpcweb ok status with details", gw("grpc-status: 0\r\ngrpc-status-details-bin: "+mk(0, "", false, true)+"\r\n"), false)

	bm := func(h []*conformancev1.Header) []string {
		return vfFB(func(p internal.Printer) { checkBinaryMetadata("headers", h, p) })
	}
	put("bin good", bm([]*conformancev1.Header{{Name: "x-bin", Value: []string{"AAEC"}}}), true)
	put("bin padded", bm([]*conformancev1.Header{{Name: "x-bin", Value: []string{"AAE="}}}), false)
	put("bin invalid", bm([]*conformancev1.Header{{Name: "X-Bin", Value: []string{"!!"}}}), false)
	put("bin second value invalid", bm([]*conformancev1.Header{{Name: "x-bin", Value: []string{"AAEC", "!!"}}}), false)
	put("bin second header invalid", bm([]*conformancev1.Header{{Name: "a-bin", Value: []string{"AAEC"}}, {Name: "b-bin", Value: []string{"!!"}}}), false)
	_ = http.Header{}
	var ks []string
	for k := range res {
		ks = append(ks, k)
	}
	sort.Strings(ks)
	okc := 0
	for _, k := range ks {
		if res[k] == "OK" {
			okc++
			continue
		}
		t.Logf("%-45s %s", k, res[k])
	}
	t.Logf("classes=%d ok=%d", len(ks), okc)
}
