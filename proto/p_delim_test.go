package internal

import (
	"bytes"
	"errors"
	"fmt"
	"io"
	"math/rand"
	"runtime"
	"sort"
	"strings"
	"testing"
	"time"

	conformancev1 "connectrpc.com/conformance/internal/gen/proto/go/connectrpc/conformance/v1"
	"google.golang.org/protobuf/proto"
)

type vfChunk struct {
	data    []byte
	plan    []int
	i       int
	eofTog  bool
	zeroEvr int
	calls   int
	stallAt int // -1 none: block forever once this many bytes delivered
	deliv   int
	block   chan struct{}
}

func (c *vfChunk) Read(p []byte) (int, error) {
	c.calls++
	if c.stallAt >= 0 && c.deliv >= c.stallAt {
		<-c.block
		return 0, io.EOF
	}
	if c.zeroEvr > 0 && c.calls%c.zeroEvr == 0 && len(p) > 0 {
		return 0, nil
	}
	if len(c.data) == 0 {
		return 0, io.EOF
	}
	n := 1
	if c.i < len(c.plan) {
		n = c.plan[c.i]
		c.i++
	}
	if n > len(p) {
		n = len(p)
	}
	if n > len(c.data) {
		n = len(c.data)
	}
	if c.stallAt >= 0 && c.deliv+n > c.stallAt {
		n = c.stallAt - c.deliv
	}
	copy(p, c.data[:n])
	c.data = c.data[n:]
	c.deliv += n
	if len(c.data) == 0 && c.eofTog {
		return n, io.EOF
	}
	return n, nil
}

func TestProbeDelimited(t *testing.T) {
	r := rand.New(rand.NewSource(11))
	viol := map[string]int{}
	total := 0
	for iter := 0; iter < 150; iter++ {
		var msgs []*conformancev1.ClientCompatResponse
		var stream bytes.Buffer
		var ends []int
		for k := r.Intn(4); k > 0; k-- {
			m := &conformancev1.ClientCompatResponse{TestName: strings.Repeat("x", []int{0, 1, 2, 3, 120, 130, 300}[r.Intn(7)])}
			msgs = append(msgs, m)
			WriteDelimitedMessage(&stream, m)
			ends = append(ends, stream.Len())
		}
		full := stream.Bytes()
		for cut := 0; cut <= len(full); cut++ {
			total++
			var plan []int
			for k := 0; k < 40; k++ {
				plan = append(plan, 1+r.Intn(9))
			}
			rd := &vfChunk{data: append([]byte(nil), full[:cut]...), plan: plan, eofTog: r.Intn(2) == 0, zeroEvr: []int{0, 0, 3}[r.Intn(3)], stallAt: -1}
			// expected
			nComplete := 0
			atBoundary := cut == 0
			for _, e := range ends {
				if e <= cut {
					nComplete++
				}
				if e == cut {
					atBoundary = true
				}
			}
			var got []*conformancev1.ClientCompatResponse
			var lastErr error
			for {
				m := &conformancev1.ClientCompatResponse{}
				err := ReadDelimitedMessage(rd, m, "peer", 5*time.Second, 1<<20)
				if err != nil {
					lastErr = err
					break
				}
				got = append(got, m)
				if len(got) > len(msgs)+1 {
					break
				}
			}
			if len(got) != nComplete {
				viol[fmt.Sprintf("count got=%d want=%d", len(got), nComplete)]++
				continue
			}
			for i := range got {
				if !proto.Equal(got[i], msgs[i]) {
					viol["message differs"]++
				}
			}
			if atBoundary {
				if !errors.Is(lastErr, io.EOF) || errors.Is(lastErr, io.ErrUnexpectedEOF) {
					viol[fmt.Sprintf("clean end reported as %v", lastErr)]++
				}
			} else if !errors.Is(lastErr, io.ErrUnexpectedEOF) {
				viol[fmt.Sprintf("truncation reported as %v", lastErr)]++
			}
		}
	}
	// oversize: must not allocate
	for _, size := range []uint32{1<<20 + 1, 1 << 31, 1<<32 - 1} {
		var ms1, ms2 runtime.MemStats
		runtime.ReadMemStats(&ms1)
		pre := []byte{byte(size >> 24), byte(size >> 16), byte(size >> 8), byte(size)}
		err := ReadDelimitedMessage(bytes.NewReader(append(pre, 1, 2, 3)), &conformancev1.ClientCompatResponse{}, "peer", time.Second, 1<<20)
		runtime.ReadMemStats(&ms2)
		t.Logf("oversize %d: err=%v alloc-delta=%d", size, err, ms2.TotalAlloc-ms1.TotalAlloc)
	}
	// stall
	for _, st := range []int{0, 1, 3, 4, 5, 9} {
		var b bytes.Buffer
		WriteDelimitedMessage(&b, &conformancev1.ClientCompatResponse{TestName: "0123456789"})
		rd := &vfChunk{data: b.Bytes(), stallAt: st, block: make(chan struct{}), plan: []int{100, 100, 100}}
		start := time.Now()
		err := ReadDelimitedMessage(rd, &conformancev1.ClientCompatResponse{}, "peer", 30*time.Millisecond, 1<<20)
		t.Logf("stall after %d bytes: elapsed=%v err=%v", st, time.Since(start).Round(time.Millisecond), err)
		close(rd.block)
	}
	var ks []string
	for k := range viol {
		ks = append(ks, k)
	}
	sort.Strings(ks)
	t.Logf("total=%d", total)
	for _, k := range ks {
		t.Logf("%5d %s", viol[k], k)
	}
}
