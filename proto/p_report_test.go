package connectconformance

import (
	"errors"
	"fmt"
	"sort"
	"strings"
	"testing"

	"connectrpc.com/conformance/internal"
	conformancev1 "connectrpc.com/conformance/internal/gen/proto/go/connectrpc/conformance/v1"
)

// outcome kinds
const (
	vfPass = iota
	vfAssertFail
	vfClientErr
	vfSetupErr
	vfCouldNotRun
	vfNever // failRemaining marks it
	vfNoOutcome
	vfKinds
)

func TestProbeReportTable(t *testing.T) {
	bad := map[string]int{}
	ex := map[string]string{}
	n := 0
	type row struct{ kind, mark, fb int }
	var rows []row
	for k := 0; k < vfKinds; k++ {
		for m := 0; m < 3; m++ {
			for f := 0; f < 2; f++ {
				rows = append(rows, row{k, m, f})
			}
		}
	}
	run := func(cases []row) {
		n++
		var kf, kfl []string
		names := make([]string, len(cases))
		for i, c := range cases {
			names[i] = fmt.Sprintf("S/case%d", i)
			if c.mark == 1 {
				kf = append(kf, names[i])
			} else if c.mark == 2 {
				kfl = append(kfl, names[i])
			}
		}
		tf, tfl := parsePatterns(kf), parsePatterns(kfl)
		if tf == nil {
			tf = &testTrie{}
		}
		if tfl == nil {
			tfl = &testTrie{}
		}
		res := newResults(len(cases), tf, tfl, nil)
		var tcs []*conformancev1.TestCase
		for i, c := range cases {
			tc := &conformancev1.TestCase{Request: &conformancev1.ClientCompatRequest{TestName: names[i]}, ExpectedResponse: &conformancev1.ClientResponseResult{Payloads: []*conformancev1.ConformancePayload{{Data: []byte("x")}}}}
			tcs = append(tcs, tc)
			switch c.kind {
			case vfPass:
				res.assert(names[i], tc, &conformancev1.ClientResponseResult{Payloads: []*conformancev1.ConformancePayload{{Data: []byte("x")}}})
			case vfAssertFail:
				res.assert(names[i], tc, &conformancev1.ClientResponseResult{Payloads: []*conformancev1.ConformancePayload{{Data: []byte("y")}}})
			case vfClientErr:
				res.failed(names[i], &conformancev1.ClientErrorResult{Message: "client says no"})
			case vfSetupErr:
				res.setOutcome(names[i], true, errors.New("server died"))
			case vfCouldNotRun:
				res.setOutcome(names[i], true, &couldNotRunError{errors.New("pipe closed")})
			}
			if c.fb == 1 {
				res.recordSideband(names[i], "peer feedback")
			}
		}
		var never []*conformancev1.TestCase
		for i, c := range cases {
			if c.kind == vfNever {
				never = append(never, tcs[i])
			}
		}
		res.failRemaining(never, &failedToGetResultError{errNoOutcome})
		p := &internal.SimplePrinter{}
		ok := res.report(p)
		out := strings.Join(p.Messages, "")
		// oracle
		wantOK := true
		decided := true
		for i, c := range cases {
			ran := c.kind == vfPass || c.kind == vfAssertFail || c.kind == vfClientErr
			failedCase := c.kind == vfAssertFail || c.kind == vfClientErr || (c.fb == 1)
			meets := false
			if ran {
				switch c.mark {
				case 0:
					meets = !failedCase
				case 1:
					meets = failedCase
				case 2:
					meets = true
				}
			}
			if c.kind == vfCouldNotRun || c.kind == vfNoOutcome {
				decided = false // level 2 decides
			}
			if !meets {
				wantOK = false
				if c.kind != vfCouldNotRun && c.kind != vfNoOutcome && !strings.Contains(out, "FAILED: "+names[i]) {
					k := fmt.Sprintf("not named FAILED: kind=%d mark=%d fb=%d", c.kind, c.mark, c.fb)
					bad[k]++
					ex[k] = out
				}
			} else if strings.Contains(out, "FAILED: "+names[i]) {
				k := fmt.Sprintf("named FAILED but meets: kind=%d mark=%d fb=%d", c.kind, c.mark, c.fb)
				bad[k]++
				ex[k] = out
			}
		}
		if decided && ok != wantOK {
			var ks []string
			for _, c := range cases {
				ks = append(ks, fmt.Sprintf("(k%d m%d f%d)", c.kind, c.mark, c.fb))
			}
			k := fmt.Sprintf("verdict ok=%v want=%v", ok, wantOK)
			bad[k]++
			if _, has := ex[k]; !has {
				ex[k] = strings.Join(ks, " ") + "\n" + out
			}
		}
	}
	for _, a := range rows {
		run([]row{a})
		for _, b := range rows {
			run([]row{a, b})
		}
	}
	var ks []string
	for k := range bad {
		ks = append(ks, k)
	}
	sort.Strings(ks)
	t.Logf("histories=%d", n)
	for _, k := range ks {
		e := ex[k]
		if len(e) > 500 {
			e = e[:500]
		}
		t.Logf("%5d %s\n%s", bad[k], k, e)
	}
}
