module connectrpc.com/conformance

go 1.23.0

require (
	buf.build/go/protoyaml v0.3.1
	connectrpc.com/connect v1.18.1
	github.com/andybalholm/brotli v1.1.1
	github.com/golang/snappy v1.0.0
	github.com/google/go-cmp v0.7.0
	github.com/improbable-eng/grpc-web v0.15.0
	github.com/klauspost/compress v1.18.0
	github.com/quic-go/quic-go v0.50.1
	github.com/rs/cors v1.11.1
	github.com/spf13/cobra v1.9.1
	github.com/spf13/pflag v1.0.6
	github.com/stretchr/testify v1.10.0
	golang.org/x/exp v0.0.0-20240506185415-9bf2ced13842
	golang.org/x/net v0.37.0
	golang.org/x/sync v0.12.0
	google.golang.org/genproto/googleapis/rpc v0.0.0-20241202173237-19429a94021a
	google.golang.org/grpc v1.70.0
	google.golang.org/protobuf v1.36.5
)

require (
	buf.build/gen/go/bufbuild/protovalidate/protocolbuffers/go v1.36.0-20241127180247-a33202765966.1 // indirect
	cel.dev/expr v0.19.0 // indirect
	github.com/antlr4-go/antlr/v4 v4.13.0 // indirect
	github.com/bufbuild/protovalidate-go v0.8.0 // indirect
	github.com/cenkalti/backoff/v4 v4.1.1 // indirect
	github.com/davecgh/go-spew v1.1.1 // indirect
	github.com/desertbit/timer v0.0.0-20180107155436-c41aec40b27f // indirect
	github.com/go-task/slim-sprig v0.0.0-20230315185526-52ccab3ef572 // indirect
	github.com/google/cel-go v0.22.1 // indirect
	github.com/google/pprof v0.0.0-20210407192527-94a9f03dee38 // indirect
	github.com/inconshreveable/mousetrap v1.1.0 // indirect
	github.com/onsi/ginkgo/v2 v2.9.5 // indirect
	github.com/pmezard/go-difflib v1.0.0 // indirect
	github.com/quic-go/qpack v0.5.1 // indirect
	github.com/stoewer/go-strcase v1.3.0 // indirect
	go.uber.org/mock v0.5.0 // indirect
	golang.org/x/crypto v0.36.0 // indirect
	golang.org/x/mod v0.18.0 // indirect
	golang.org/x/text v0.23.0 // indirect
	golang.org/x/tools v0.22.0 // indirect
	google.golang.org/genproto/googleapis/api v0.0.0-20241202173237-19429a94021a // indirect
	gopkg.in/yaml.v3 v3.0.1 // indirect
	nhooyr.io/websocket v1.8.6 // indirect
)

require (
	github.com/anishathalye/porcupine v1.3.0
	golang.org/x/sys v0.31.0
)
