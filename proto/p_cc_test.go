package connectconformance

import (
	"testing"
	conformancev1 "connectrpc.com/conformance/internal/gen/proto/go/connectrpc/conformance/v1"
	"google.golang.org/protobuf/types/known/anypb"
)

func TestProbeExpectPanic(t *testing.T) {
	defer func() { t.Logf("recovered: %v", recover()) }()
	req := &conformancev1.BidiStreamRequest{FullDuplex: true, ResponseDefinition: &conformancev1.StreamResponseDefinition{ResponseData: [][]byte{[]byte("a"), []byte("b")}}}
	a, _ := anypb.New(req)
	tc := &conformancev1.TestCase{Request: &conformancev1.ClientCompatRequest{TestName: "x", StreamType: conformancev1.StreamType_STREAM_TYPE_FULL_DUPLEX_BIDI_STREAM, RequestMessages: []*anypb.Any{a}}}
	err := populateExpectedResponse(tc)
	t.Logf("err=%v", err)
}
