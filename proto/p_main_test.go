package main

import (
	"os"
	"testing"
)

func TestProbeArgs(t *testing.T) {
	f := t.TempDir() + "/p.txt"
	os.WriteFile(f, []byte("c\nd\n"), 0o644)
	got, err := argsToPatterns([]string{"a", "@" + f, "b"})
	t.Logf("got=%v err=%v", got, err)
}
