package tracer

import (
	"bytes"
	"fmt"
	"math/rand"
	"runtime/debug"
	"sort"
	"strings"
	"testing"

	"golang.org/x/net/http2"
	"golang.org/x/net/http2/hpack"
)

func vfBuild(r *rand.Rand, named bool) (reqBytes, respBytes []byte) {
	var rq, rs bytes.Buffer
	rq.WriteString(clientPreface)
	fq, fs := http2.NewFramer(&rq, nil), http2.NewFramer(&rs, nil)
	var hq, hs bytes.Buffer
	eq, es := hpack.NewEncoder(&hq), hpack.NewEncoder(&hs)
	blk := func(e *hpack.Encoder, b *bytes.Buffer, kv ...string) []byte {
		b.Reset()
		for i := 0; i < len(kv); i += 2 {
			e.WriteField(hpack.HeaderField{Name: kv[i], Value: kv[i+1]})
		}
		return append([]byte(nil), b.Bytes()...)
	}
	fq.WriteSettings()
	fs.WriteSettings()
	for id := uint32(1); id <= uint32(1+2*r.Intn(3)); id += 2 {
		kv := []string{":method", "POST", ":scheme", "http", ":authority", "h", ":path", "/s/M", "content-type", "application/grpc"}
		if named {
			kv = append(kv, "x-test-case-name", fmt.Sprint("t", id))
		}
		fq.WriteHeaders(http2.HeadersFrameParam{StreamID: id, BlockFragment: blk(eq, &hq, kv...), EndHeaders: true})
		fq.WriteData(id, true, append([]byte{0, 0, 0, 0, 3}, 1, 2, 3))
		fs.WriteHeaders(http2.HeadersFrameParam{StreamID: id, BlockFragment: blk(es, &hs, ":status", "200", "content-type", "application/grpc"), EndHeaders: true})
		fs.WriteData(id, false, append([]byte{0, 0, 0, 0, 2}, 9, 9))
		if r.Intn(3) == 0 {
			fs.WriteRSTStream(id, http2.ErrCode(r.Intn(14)))
		} else if named {
			fs.WriteHeaders(http2.HeadersFrameParam{StreamID: id, BlockFragment: blk(es, &hs, "grpc-status", "0"), EndHeaders: true, EndStream: true})
		} else {
			fs.WriteData(id, true, nil)
		}
		if r.Intn(4) == 0 {
			fs.WriteGoAway(id, http2.ErrCode(r.Intn(3)), nil)
		}
		if r.Intn(4) == 0 {
			fq.WritePing(false, [8]byte{1})
			fs.WriteWindowUpdate(0, 100)
		}
	}
	return rq.Bytes(), rs.Bytes()
}

func vfMutate(r *rand.Rand, b []byte) []byte {
	b = append([]byte(nil), b...)
	for k := 1 + r.Intn(4); k > 0 && len(b) > 0; k-- {
		switch r.Intn(5) {
		case 0:
			b[r.Intn(len(b))] ^= 1 << uint(r.Intn(8))
		case 1:
			b = b[:r.Intn(len(b)+1)]
		case 2:
			i := r.Intn(len(b))
			b = append(b[:i], append([]byte{byte(r.Intn(256))}, b[i:]...)...)
		case 3:
			i := r.Intn(len(b))
			b[i] = byte(r.Intn(256))
		case 4:
			i, j := r.Intn(len(b)), r.Intn(len(b))
			if i > j {
				i, j = j, i
			}
			b = append(b[:i], b[j:]...)
		}
	}
	return b
}

func TestProbeH2Fuzz(t *testing.T) {
	panics := map[string]int{}
	nontransparent := 0
	n := 30000
	for it := 0; it < n; it++ {
		r := rand.New(rand.NewSource(int64(it)))
		rq, rs := vfBuild(r, r.Intn(4) != 0)
		if r.Intn(10) == 0 {
			rq = make([]byte, r.Intn(200))
			r.Read(rq)
		} else if r.Intn(2) == 0 {
			rq = vfMutate(r, rq)
		}
		if r.Intn(2) == 0 {
			rs = vfMutate(r, rs)
		}
		for _, side := range []bool{false, true} {
			func() {
				defer func() {
					if p := recover(); p != nil {
						st := string(debug.Stack())
						// key: first tracer frame
						key := fmt.Sprint(p)
						for _, ln := range strings.Split(st, "\n") {
							if strings.Contains(ln, "/repo/internal/tracer/") && !strings.Contains(ln, "zz_p") {
								key += " @ " + strings.TrimSpace(ln[strings.LastIndex(ln, "/")+1:])
								break
							}
						}
						panics[key]++
					}
				}()
				sc := &sconn{}
				conn := TracingHTTP2Conn(sc, side, &h2coll{})
				readData, writeData := rs, rq
				if side {
					readData, writeData = rq, rs
				}
				// interleave: write all in chunks, read all in chunks
				wd := writeData
				for len(wd) > 0 {
					k := 1 + r.Intn(len(wd))
					conn.Write(wd[:k])
					wd = wd[k:]
				}
				if !bytes.Equal(sc.wrote.Bytes(), writeData) {
					nontransparent++
				}
				sc.rbuf = append([]byte(nil), readData...)
				var got []byte
				buf := make([]byte, 97)
				for len(sc.rbuf) > 0 {
					k, _ := conn.Read(buf[:1+r.Intn(96)])
					got = append(got, buf[:k]...)
				}
				if !bytes.Equal(got, readData) {
					nontransparent++
				}
				conn.Close()
			}()
		}
	}
	var ks []string
	for k := range panics {
		ks = append(ks, k)
	}
	sort.Strings(ks)
	t.Logf("inputs=%d nontransparent=%d distinct panics=%d", n*2, nontransparent, len(ks))
	for _, k := range ks {
		t.Logf("%6d %s", panics[k], k)
	}
}
