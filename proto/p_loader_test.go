package connectconformance

import (
	"fmt"
	"math/rand"
	"runtime/debug"
	"sort"
	"strings"
	"testing"

	conformancev1 "connectrpc.com/conformance/internal/gen/proto/go/connectrpc/conformance/v1"
	"google.golang.org/protobuf/encoding/protojson"
	"google.golang.org/protobuf/proto"
	"google.golang.org/protobuf/types/known/anypb"
)

func vfAnyMsg(r *rand.Rand) *anypb.Any {
	var m proto.Message
	big := make([]byte, []int{0, 1, 127, 128, 300}[r.Intn(5)])
	switch r.Intn(7) {
	case 0:
		m = &conformancev1.UnaryRequest{RequestData: big}
	case 1:
		m = &conformancev1.ClientStreamRequest{RequestData: big}
	case 2:
		m = &conformancev1.ServerStreamRequest{RequestData: big, ResponseDefinition: &conformancev1.StreamResponseDefinition{ResponseData: [][]byte{big, big}}}
	case 3:
		def := &conformancev1.StreamResponseDefinition{}
		for k := r.Intn(4); k > 0; k-- {
			def.ResponseData = append(def.ResponseData, []byte("x"))
		}
		if r.Intn(2) == 0 {
			def.Error = &conformancev1.Error{Code: 3}
		}
		m = &conformancev1.BidiStreamRequest{FullDuplex: r.Intn(2) == 0, ResponseDefinition: def}
	case 4:
		m = &conformancev1.Header{Name: "not-a-request"}
	case 5:
		m = &conformancev1.IdempotentUnaryRequest{RequestData: big}
	case 6:
		a := &anypb.Any{TypeUrl: "type.googleapis.com/does.not.Exist", Value: []byte{1, 2, 3}}
		return a
	}
	a, _ := anypb.New(m)
	if r.Intn(15) == 0 {
		a.Value = append(a.Value, 0xff) // corrupt
	}
	return a
}

func TestProbeLoaderFuzz(t *testing.T) {
	panics := map[string]int{}
	ex := map[string]string{}
	errs := 0
	oks := 0
	n := 6000
	cfgCases, _ := parseConfig("", nil)
	for it := 0; it < n; it++ {
		r := rand.New(rand.NewSource(int64(it)))
		suite := &conformancev1.TestSuite{Name: []string{"S", "", "S/T"}[r.Intn(3)%3]}
		if r.Intn(4) != 0 {
			suite.Name = "S"
		}
		suite.Mode = conformancev1.TestSuite_TestMode(r.Intn(3))
		if r.Intn(3) == 0 {
			suite.RelevantCodecs = []conformancev1.Codec{1}
		}
		suite.ReliesOnMessageReceiveLimit = r.Intn(3) == 0
		for k := 1 + r.Intn(3); k > 0; k-- {
			req := &conformancev1.ClientCompatRequest{TestName: []string{"a", "b/c", "", "a//b", "../x"}[r.Intn(5)], StreamType: conformancev1.StreamType(r.Intn(6))}
			if r.Intn(8) == 0 {
				req.Service = proto.String("svc")
			}
			if r.Intn(8) == 0 {
				req.Method = proto.String("M")
			}
			for j := r.Intn(4); j > 0; j-- {
				req.RequestMessages = append(req.RequestMessages, vfAnyMsg(r))
			}
			tc := &conformancev1.TestCase{Request: req}
			if r.Intn(3) == 0 {
				for j := r.Intn(4); j > 0; j-- {
					es := &conformancev1.TestCase_ExpandedSize{}
					if r.Intn(4) != 0 {
						es.SizeRelativeToLimit = proto.Int32([]int32{0, 1, -1, 10, -204800, -204700, -204799, -204801, -300000, 127, 128}[r.Intn(11)])
					}
					tc.ExpandRequests = append(tc.ExpandRequests, es)
				}
			}
			suite.TestCases = append(suite.TestCases, tc)
		}
		data, err := protojson.Marshal(suite)
		if err != nil {
			continue
		}
		func() {
			defer func() {
				if p := recover(); p != nil {
					st := string(debug.Stack())
					key := fmt.Sprint(p)
					if len(key) > 60 {
						key = key[:60]
					}
					for _, ln := range strings.Split(st, "\n") {
						if strings.Contains(ln, "/repo/internal/app/connectconformance/") && !strings.Contains(ln, "zz_p") {
							key += " @ " + strings.TrimSpace(ln[strings.LastIndex(ln, "/")+1:])
							break
						}
					}
					panics[key]++
					if _, ok := ex[key]; !ok {
						ex[key] = string(data)
					}
				}
			}()
			suites, err := parseTestSuites(map[string][]byte{"f.yaml": data})
			if err != nil {
				errs++
				return
			}
			for _, mode := range []conformancev1.TestSuite_TestMode{0, 1, 2} {
				// clone since expansion mutates
				cl := map[string]*conformancev1.TestSuite{}
				for k, v := range suites {
					cl[k] = proto.Clone(v).(*conformancev1.TestSuite)
				}
				if _, err := newTestCaseLibrary(cl, cfgCases, mode); err != nil {
					errs++
				} else {
					oks++
				}
			}
		}()
	}
	var ks []string
	for k := range panics {
		ks = append(ks, k)
	}
	sort.Strings(ks)
	t.Logf("inputs=%d errors=%d ok=%d distinct panics=%d", n, errs, oks, len(ks))
	for _, k := range ks {
		e := ex[k]
		if len(e) > 420 {
			e = e[:420]
		}
		t.Logf("%6d %s\n      %s", panics[k], k, e)
	}
}
