package grpcutil

import (
	"net/url"
	"testing"
)

func TestProbePercent(t *testing.T) {
	bad := 0
	n := 0
	check := func(s string) {
		n++
		enc := PercentEncodeMessage(s)
		for i := 0; i < len(enc); i++ {
			if enc[i] < 0x20 || enc[i] > 0x7e {
				bad++
				return
			}
		}
		dec, err := url.PathUnescape(enc)
		if err != nil || dec != s {
			bad++
		}
	}
	for a := 0; a < 256; a++ {
		check(string([]byte{byte(a)}))
		for b := 0; b < 256; b++ {
			check(string([]byte{byte(a), byte(b)}))
		}
	}
	t.Logf("percent: n=%d bad=%d", n, bad)
}
