package connectconformance

import (
	"context"
	"encoding/binary"
	"errors"
	"fmt"
	"io"
	"math/rand"
	"sort"
	"sync"
	"sync/atomic"
	"testing"
	"time"

	conformancev1 "connectrpc.com/conformance/internal/gen/proto/go/connectrpc/conformance/v1"
	"google.golang.org/protobuf/proto"
)

type cbRec struct {
	n     int32
	token string
	err   error
}

func readMsg(in io.Reader) (*conformancev1.ClientCompatRequest, error) {
	var pre [4]byte
	if _, err := io.ReadFull(in, pre[:]); err != nil {
		return nil, err
	}
	buf := make([]byte, binary.BigEndian.Uint32(pre[:]))
	if _, err := io.ReadFull(in, buf); err != nil {
		return nil, err
	}
	req := &conformancev1.ClientCompatRequest{}
	return req, proto.Unmarshal(buf, req)
}

func frame(resp *conformancev1.ClientCompatResponse) []byte {
	b, _ := proto.Marshal(resp)
	out := make([]byte, 4+len(b))
	binary.BigEndian.PutUint32(out, uint32(len(b)))
	copy(out[4:], b)
	return out
}

func TestProbeClientRunner(t *testing.T) {
	viol := map[string]int{}
	var violMu sync.Mutex
	note := func(k string) { violMu.Lock(); viol[k]++; violMu.Unlock() }
	kinds := map[string]int{}
	iters := 1500
	var wgAll sync.WaitGroup
	sem := make(chan struct{}, 32)
	for it := 0; it < iters; it++ {
		wgAll.Add(1)
		sem <- struct{}{}
		go func(it int) {
			defer wgAll.Done()
			defer func() { <-sem }()
			r := rand.New(rand.NewSource(int64(it)))
			nreq := 2 + r.Intn(8)
			failAfter := -1
			failKind := r.Intn(7) // 0 none,1 exit0,2 exit err,3 garbage,4 unknown name,5 duplicate answer,6 truncated
			if failKind != 0 {
				failAfter = r.Intn(nreq + 1)
			}
			violMu.Lock()
			kinds[fmt.Sprintf("fail=%d", failKind)]++
			violMu.Unlock()
			answered := sync.Map{} // name -> token of first answer written
			impl := func(_ context.Context, _ []string, in io.ReadCloser, out, _ io.WriteCloser) error {
				rr := rand.New(rand.NewSource(int64(it) * 7))
				var backlog []*conformancev1.ClientCompatRequest
				count := 0
				flush := func() error {
					rr.Shuffle(len(backlog), func(i, j int) { backlog[i], backlog[j] = backlog[j], backlog[i] })
					for _, q := range backlog {
						tok := fmt.Sprintf("tok-%s-%d", q.TestName, rr.Int())
						answered.LoadOrStore(q.TestName, tok)
						resp := &conformancev1.ClientCompatResponse{TestName: q.TestName, Result: &conformancev1.ClientCompatResponse_Error{Error: &conformancev1.ClientErrorResult{Message: tok}}}
						if _, err := out.Write(frame(resp)); err != nil {
							return err
						}
					}
					backlog = nil
					return nil
				}
				for {
					if count == failAfter {
						_ = flush()
						switch failKind {
						case 1:
							return nil
						case 2:
							return errors.New("boom")
						case 3:
							out.Write([]byte{0, 0, 0, 3, 0xff, 0xff, 0xff})
							return nil
						case 4:
							out.Write(frame(&conformancev1.ClientCompatResponse{TestName: "nobody"}))
							io.Copy(io.Discard, in)
							return nil
						case 5:
							var first string
							answered.Range(func(k, _ any) bool { first = k.(string); return false })
							if first != "" {
								out.Write(frame(&conformancev1.ClientCompatResponse{TestName: first}))
							}
							io.Copy(io.Discard, in)
							return nil
						case 6:
							f := frame(&conformancev1.ClientCompatResponse{TestName: "zzz"})
							out.Write(f[:1+rr.Intn(len(f)-1)])
							return nil
						}
					}
					q, err := readMsg(in)
					if err != nil {
						_ = flush()
						return nil
					}
					count++
					backlog = append(backlog, q)
					if rr.Intn(2) == 0 {
						if err := flush(); err != nil {
							return nil
						}
					}
				}
			}
			runner, err := runClient(context.Background(), runInProcess([]string{"x"}, impl))
			if err != nil {
				note("runClient error")
				return
			}
			recs := make([]*cbRec, nreq)
			sendErr := make([]error, nreq)
			var swg sync.WaitGroup
			nsenders := 1 + r.Intn(3)
			idx := int32(-1)
			for s := 0; s < nsenders; s++ {
				swg.Add(1)
				go func() {
					defer swg.Done()
					for {
						i := int(atomic.AddInt32(&idx, 1))
						if i >= nreq {
							return
						}
						rec := &cbRec{}
						recs[i] = rec
						name := fmt.Sprintf("case-%d", i)
						sendErr[i] = runner.sendRequest(&conformancev1.ClientCompatRequest{TestName: name}, func(n string, resp *conformancev1.ClientCompatResponse, err error) {
							atomic.AddInt32(&rec.n, 1)
							if n != name {
								note("callback for wrong name")
							}
							rec.err = err
							if resp != nil {
								rec.token = resp.GetError().GetMessage()
							}
						})
					}
				}()
			}
			swg.Wait()
			runner.closeSend()
			done := make(chan error, 1)
			go func() { done <- runner.waitForResponses() }()
			select {
			case <-done:
			case <-time.After(60 * time.Second):
				note("waitForResponses hung >60s")
				return
			}
			for i := 0; i < nreq; i++ {
				name := fmt.Sprintf("case-%d", i)
				n := atomic.LoadInt32(&recs[i].n)
				if sendErr[i] != nil {
					if n != 0 {
						note("send failed but callback fired")
					}
					continue
				}
				if n != 1 {
					note(fmt.Sprintf("send ok but callback count=%d (fail=%d)", n, failKind))
					continue
				}
				tok, was := answered.Load(name)
				if recs[i].err == nil {
					if !was || tok.(string) != recs[i].token {
						note("callback carries wrong/unknown answer")
					}
				}
			}
			// after completion: further sends refused
			if err := runner.sendRequest(&conformancev1.ClientCompatRequest{TestName: "late"}, func(string, *conformancev1.ClientCompatResponse, error) { note("late callback fired") }); err == nil {
				note("late send accepted")
			}
			if failKind != 0 && runner.isRunning() {
				note(fmt.Sprintf("isRunning true after failure kind %d", failKind))
			}
			runner.stop()
		}(it)
	}
	wgAll.Wait()
	var ks []string
	for k := range viol {
		ks = append(ks, k)
	}
	sort.Strings(ks)
	t.Logf("kinds=%v", kinds)
	for _, k := range ks {
		t.Logf("%5d %s", viol[k], k)
	}
}
