package referenceserver

import (
	"crypto/tls"
	"crypto/x509"
	"crypto/x509/pkix"
	"fmt"
	"net/http"
	"net/http/httptest"
	"net/url"
	"strings"
	"testing"

	"connectrpc.com/conformance/internal"
)

type tup struct {
	ver    int // 1,2,3
	get    bool
	proto  int // 1 connect 2 grpc 3 grpcweb
	codec  int // 1 proto 2 json
	comp   int // 1..6
	tls    bool
	cert   bool
	stream bool // connect streaming content-type
}

var compNames = []string{"", "identity", "gzip", "br", "zstd", "deflate", "snappy"}
var codecNames = []string{"", "proto", "json"}

func synth(a tup, e tup, name string) *http.Request {
	method := "POST"
	if a.get {
		method = "GET"
	}
	u := &url.URL{Path: "/connectrpc.conformance.v1.ConformanceService/Unary"}
	req := httptest.NewRequest(method, u.String(), strings.NewReader(""))
	req.ProtoMajor = a.ver
	h := req.Header
	if name != "" {
		h.Set("X-Test-Case-Name", name)
	}
	switch {
	case a.get:
		q := url.Values{"encoding": {codecNames[a.codec]}, "connect": {"v1"}, "message": {""}}
		if a.comp != 1 {
			q.Set("compression", compNames[a.comp])
		}
		req.URL.RawQuery = q.Encode()
		req.Body = http.NoBody
	case a.proto == 1 && !a.stream:
		h.Set("Content-Type", "application/"+codecNames[a.codec])
		if a.comp != 1 {
			h.Set("Content-Encoding", compNames[a.comp])
		}
	case a.proto == 1:
		h.Set("Content-Type", "application/connect+"+codecNames[a.codec])
		if a.comp != 1 {
			h.Set("Connect-Content-Encoding", compNames[a.comp])
		}
	case a.proto == 2:
		h.Set("Content-Type", "application/grpc+"+codecNames[a.codec])
		h.Set("Te", "trailers")
		if a.comp != 1 {
			h.Set("Grpc-Encoding", compNames[a.comp])
		}
	case a.proto == 3:
		h.Set("Content-Type", "application/grpc-web+"+codecNames[a.codec])
		if a.comp != 1 {
			h.Set("Grpc-Encoding", compNames[a.comp])
		}
	}
	if a.tls {
		cs := &tls.ConnectionState{}
		if a.cert {
			cs.PeerCertificates = []*x509.Certificate{{Subject: pkix.Name{CommonName: internal.ClientCertName}}}
		}
		req.TLS = cs
	} else {
		req.TLS = nil
	}
	h.Set("X-Expect-Http-Version", fmt.Sprint(e.ver))
	m := "POST"
	if e.get {
		m = "GET"
	}
	h.Set("X-Expect-Http-Method", m)
	h.Set("X-Expect-Protocol", fmt.Sprint(e.proto))
	h.Set("X-Expect-Codec", fmt.Sprint(e.codec))
	h.Set("X-Expect-Compression", fmt.Sprint(e.comp))
	h.Set("X-Expect-Tls", fmt.Sprint(e.tls))
	if e.cert {
		h.Set("X-Expect-Client-Cert", internal.ClientCertName)
	}
	return req
}

func allTuples(realisable bool) []tup {
	var out []tup
	for ver := 1; ver <= 3; ver++ {
		for _, get := range []bool{false, true} {
			for proto := 1; proto <= 3; proto++ {
				for codec := 1; codec <= 2; codec++ {
					for comp := 1; comp <= 6; comp++ {
						for _, tl := range []bool{false, true} {
							for _, cert := range []bool{false, true} {
								if realisable && ((get && proto != 1) || (cert && !tl)) {
									continue
								}
								out = append(out, tup{ver: ver, get: get, proto: proto, codec: codec, comp: comp, tls: tl, cert: cert})
							}
						}
					}
				}
			}
		}
	}
	return out
}

func TestProbeChecksMatrix(t *testing.T) {
	acts := allTuples(true)
	exps := allTuples(false)
	t.Logf("actual=%d expected=%d", len(acts), len(exps))
	bad := map[string]int{}
	n := 0
	for _, a := range acts {
		for _, stream := range []bool{false, true} {
			if stream && (a.proto != 1 || a.get) {
				continue
			}
			a.stream = stream
			for _, e := range exps {
				n++
				p := &internal.SimplePrinter{}
				called := false
				h := referenceServerChecks(http.HandlerFunc(func(http.ResponseWriter, *http.Request) { called = true }), p)
				h(httptest.NewRecorder(), synth(a, e, "T"))
				// model: set of aspects differing
				want := map[string]bool{}
				if a.ver != e.ver {
					want["version"] = true
				}
				if a.get != e.get {
					want["method"] = true
				}
				if a.proto != e.proto {
					want["protocol"] = true
				}
				if a.codec != e.codec {
					want["codec"] = true
				}
				if a.comp != e.comp {
					want["compression"] = true
				}
				if a.tls != e.tls {
					want["tls"] = true
				} else if a.tls && a.cert != e.cert {
					want["cert"] = true
				}
				got := map[string]bool{}
				for _, m := range p.Messages {
					switch {
					case strings.Contains(m, "HTTP version"):
						got["version"] = true
					case strings.Contains(m, "HTTP method"):
						got["method"] = true
					case strings.Contains(m, "expected protocol"):
						got["protocol"] = true
					case strings.Contains(m, "expected codec"):
						got["codec"] = true
					case strings.Contains(m, "expected compression"):
						got["compression"] = true
					case strings.Contains(m, "TLS request") || strings.Contains(m, "plain-text request"):
						got["tls"] = true
					case strings.Contains(m, "client cert"):
						got["cert"] = true
					default:
						got["OTHER:"+m] = true
					}
				}
				if !called {
					bad["inner-not-called"]++
				}
				for k := range want {
					if !got[k] {
						bad["missed:"+k]++
					}
				}
				for k := range got {
					if !want[k] {
						key := "spurious:" + k
						bad[key]++
						if bad[key] == 1 {
							t.Logf("first %s: a=%+v e=%+v msgs=%q", key, a, e, p.Messages)
						}
					}
				}
			}
		}
	}
	t.Logf("pairs=%d bad=%v", n, bad)
}
