package connectconformance

import (
	"fmt"
	"os"
	"sort"
	"strings"
	"testing"

	"connectrpc.com/conformance/internal/app/connectconformance/testsuites"
	conformancev1 "connectrpc.com/conformance/internal/gen/proto/go/connectrpc/conformance/v1"
)

func mOne[T comparable](rel []T, v T) bool {
	if len(rel) == 0 {
		return true
	}
	for _, r := range rel {
		if r == v {
			return true
		}
	}
	return false
}

// independent model: names of permutations for suites x cases x mode
func mPermutations(suites map[string]*conformancev1.TestSuite, cases []configCase, mode conformancev1.TestSuite_TestMode) map[string]configCase {
	out := map[string]configCase{}
	for _, s := range suites {
		if s.Mode != 0 && s.Mode != mode {
			continue
		}
		for _, c := range cases {
			if !mOne(s.RelevantProtocols, c.Protocol) || !mOne(s.RelevantHttpVersions, c.Version) ||
				!mOne(s.RelevantCodecs, c.Codec) || !mOne(s.RelevantCompressions, c.Compression) {
				continue
			}
			if s.ReliesOnTls && !c.UseTLS {
				continue
			}
			if s.ReliesOnTlsClientCerts != c.UseTLSClientCerts || s.ReliesOnConnectGet != c.UseConnectGET ||
				s.ReliesOnMessageReceiveLimit != c.UseMessageReceiveLimit || s.ConnectVersionMode != c.ConnectVersionMode {
				continue
			}
			for _, tc := range s.TestCases {
				if tc.Request.StreamType != c.StreamType {
					continue
				}
				parts := []string{s.Name}
				if len(s.RelevantHttpVersions) != 1 {
					parts = append(parts, fmt.Sprintf("HTTPVersion:%d", c.Version))
				}
				if len(s.RelevantProtocols) != 1 {
					parts = append(parts, "Protocol:"+c.Protocol.String())
				}
				if len(s.RelevantCodecs) != 1 {
					parts = append(parts, "Codec:"+c.Codec.String())
				}
				if len(s.RelevantCompressions) != 1 {
					parts = append(parts, "Compression:"+c.Compression.String())
				}
				if !s.ReliesOnTls {
					parts = append(parts, fmt.Sprintf("TLS:%v", c.UseTLS))
				}
				parts = append(parts, tc.Request.TestName)
				out[strings.Join(parts, "/")] = c
			}
		}
	}
	return out
}

func mGRPCOk(c configCase, tc *conformancev1.TestCase, client, server bool) bool {
	if c.Protocol == 1 || (client && c.Protocol != 2) {
		return false
	}
	if c.Protocol == 3 && c.Version == 3 {
		return false
	}
	if c.Protocol == 2 && c.Version != 2 {
		return false
	}
	if c.Codec != 1 || (c.Compression != 1 && c.Compression != 2) || c.UseTLS {
		return false
	}
	if client && tc.Request.RawRequest != nil {
		return false
	}
	if server && hasRawResponse(tc.Request.RequestMessages) {
		return false
	}
	return true
}

func TestProbeLibModel(t *testing.T) {
	data, _ := testsuites.LoadTestSuites()
	suites, err := parseTestSuites(data)
	if err != nil {
		t.Fatal(err)
	}
	for _, run := range []struct {
		cfg  string
		mode conformancev1.TestSuite_TestMode
	}{
		{"/repo/testing/reference-impls-config.yaml", conformancev1.TestSuite_TEST_MODE_SERVER},
		{"/repo/testing/reference-impls-config.yaml", conformancev1.TestSuite_TEST_MODE_CLIENT},
		{"/repo/testing/grpc-impls-config.yaml", conformancev1.TestSuite_TEST_MODE_SERVER},
		{"/repo/testing/grpc-web-server-impl-config.yaml", conformancev1.TestSuite_TEST_MODE_SERVER},
		{"/repo/testing/grpc-impls-config.yaml", conformancev1.TestSuite_TEST_MODE_CLIENT},
	} {
		cfgData, _ := os.ReadFile(run.cfg)
		cases, err := parseConfig(run.cfg, cfgData)
		if err != nil {
			t.Fatal(err)
		}
		lib, err := newTestCaseLibrary(suites, cases, run.mode)
		if err != nil {
			t.Fatal(err)
		}
		model := mPermutations(suites, cases, run.mode)
		var diff []string
		for n := range model {
			if _, ok := lib.testCases[n]; !ok {
				diff = append(diff, "missing in impl: "+n)
			}
		}
		for n := range lib.testCases {
			if _, ok := model[n]; !ok {
				diff = append(diff, "extra in impl: "+n)
			}
		}
		// gRPC-marked names
		isServerMode := run.mode == conformancev1.TestSuite_TEST_MODE_SERVER
		all := lib.allPermutations(isServerMode, !isServerMode)
		implNames := map[string]bool{}
		for _, tc := range all {
			implNames[tc.Request.TestName] = true
		}
		modelTotal := len(model)
		for n, c := range model {
			tc := lib.testCases[n]
			if tc == nil {
				continue
			}
			if mGRPCOk(c, tc, isServerMode, !isServerMode) {
				modelTotal++
				simple := lib.testCaseNames[n]
				marker := "(grpc server impl)"
				if isServerMode {
					marker = "(grpc client impl)"
				}
				mn := strings.TrimSuffix(n, simple) + marker + "/" + simple
				if !implNames[mn] {
					diff = append(diff, "grpc missing in impl: "+mn)
				}
			}
		}
		sort.Strings(diff)
		t.Logf("%s mode=%v: cases=%d impl=%d model=%d all(impl)=%d all(model)=%d diffs=%d", run.cfg[14:], run.mode, len(cases), len(lib.testCases), len(model), len(all), modelTotal, len(diff))
		for i, d := range diff {
			if i < 5 {
				t.Log("   ", d)
			}
		}
	}
}
