package connectconformance

import (
	"sort"
	"strings"
	"testing"
)

func vfGlob(p, n []string) bool {
	if len(p) == 0 {
		return len(n) == 0
	}
	switch p[0] {
	case "**":
		for k := 0; k <= len(n); k++ {
			if vfGlob(p[1:], n[k:]) {
				return true
			}
		}
		return false
	case "*":
		return len(n) > 0 && vfGlob(p[1:], n[1:])
	default:
		return len(n) > 0 && n[0] == p[0] && vfGlob(p[1:], n[1:])
	}
}

func vfSeqs(alpha []string, maxLen int) [][]string {
	var out [][]string
	var rec func(cur []string)
	rec = func(cur []string) {
		if len(cur) > 0 {
			out = append(out, append([]string(nil), cur...))
		}
		if len(cur) == maxLen {
			return
		}
		for _, a := range alpha {
			rec(append(cur, a))
		}
	}
	rec(nil)
	return out
}

func TestProbeTrie(t *testing.T) {
	pats := vfSeqs([]string{"a", "b", "*", "**"}, 4)
	names := vfSeqs([]string{"a", "b"}, 4)
	bad := map[string]int{}
	ex := map[string]string{}
	n := 0
	for _, p := range pats {
		for _, nm := range names {
			n++
			tt := parsePatterns([]string{strings.Join(p, "/")})
			got := tt.matchPattern(strings.Join(nm, "/"))
			want := vfGlob(p, nm)
			if got != want {
				k := "single: got=" + map[bool]string{true: "match", false: "nomatch"}[got]
				bad[k]++
				if _, ok := ex[k]; !ok {
					ex[k] = strings.Join(p, "/") + " vs " + strings.Join(nm, "/")
				}
			}
		}
	}
	// pairs (length<=3 to bound)
	pats3 := vfSeqs([]string{"a", "b", "*", "**"}, 3)
	names3 := vfSeqs([]string{"a", "b"}, 3)
	for _, p1 := range pats3 {
		for _, p2 := range pats3 {
			tt := parsePatterns([]string{strings.Join(p1, "/"), strings.Join(p2, "/")})
			for _, nm := range names3 {
				n++
				got := tt.matchPattern(strings.Join(nm, "/"))
				want := vfGlob(p1, nm) || vfGlob(p2, nm)
				if got != want {
					k := "pair: got=" + map[bool]string{true: "match", false: "nomatch"}[got]
					bad[k]++
					if _, ok := ex[k]; !ok {
						ex[k] = strings.Join(p1, "/") + " + " + strings.Join(p2, "/") + " vs " + strings.Join(nm, "/")
					}
				}
			}
		}
	}
	var ks []string
	for k := range bad {
		ks = append(ks, k)
	}
	sort.Strings(ks)
	t.Logf("checked=%d patterns=%d names=%d", n, len(pats), len(names))
	for _, k := range ks {
		t.Logf("%6d %s   e.g. %s", bad[k], k, ex[k])
	}
}
