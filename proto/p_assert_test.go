package connectconformance

import (
	"os"
	"strings"
	"testing"

	"connectrpc.com/conformance/internal/app/connectconformance/testsuites"
	conformancev1 "connectrpc.com/conformance/internal/gen/proto/go/connectrpc/conformance/v1"
	"google.golang.org/protobuf/proto"
)

func runAssert(tc *conformancev1.TestCase, actual *conformancev1.ClientResponseResult) error {
	r := newResults(1, &testTrie{}, &testTrie{}, nil)
	r.assert(tc.Request.TestName, tc, actual)
	return r.outcomes[tc.Request.TestName].actualFailure
}

func clone(m *conformancev1.ClientResponseResult) *conformancev1.ClientResponseResult {
	return proto.Clone(m).(*conformancev1.ClientResponseResult)
}

func TestProbeAssert(t *testing.T) {
	data, _ := testsuites.LoadTestSuites()
	suites, _ := parseTestSuites(data)
	cfgData, _ := os.ReadFile("/repo/testing/reference-impls-config.yaml")
	cases, _ := parseConfig("x", cfgData)
	stats := map[string]int{}
	ex := map[string]string{}
	note := func(k, name string, err error) {
		stats[k]++
		if _, ok := ex[k]; !ok {
			s := name
			if err != nil {
				s += " :: " + strings.ReplaceAll(err.Error(), "\n", " | ")
			}
			if len(s) > 400 {
				s = s[:400]
			}
			ex[k] = s
		}
	}
	for _, mode := range []conformancev1.TestSuite_TestMode{1, 2} {
		lib, err := newTestCaseLibrary(suites, cases, mode)
		if err != nil {
			t.Fatal(err)
		}
		n := 0
		for name, tc := range lib.testCases {
			n++
			if n%7 != 0 {
				continue
			}
			exp := tc.ExpectedResponse
			// 1. echo
			if err := runAssert(tc, clone(exp)); err != nil {
				note("echo-fails", name, err)
				continue
			}
			stats["echo-ok"]++
			// 2. leniencies
			a := clone(exp)
			for _, h := range a.ResponseHeaders {
				h.Name = strings.ToUpper(h.Name)
				if len(h.Value) > 1 {
					h.Value = []string{strings.Join(h.Value, ", ")}
				}
			}
			for _, h := range a.ResponseTrailers {
				h.Name = strings.ToUpper(h.Name)
			}
			a.ResponseHeaders = append(a.ResponseHeaders, &conformancev1.Header{Name: "x-extra", Value: []string{"1"}})
			a.ResponseTrailers = append(a.ResponseTrailers, &conformancev1.Header{Name: "x-extra-t", Value: []string{"1"}})
			a.HttpStatusCode = nil
			a.NumUnsentRequests = 7
			a.Feedback = []string{"zzz"}
			if exp.Error != nil && exp.Error.Message == nil {
				a.Error.Message = proto.String("anything")
			}
			if len(tc.OtherAllowedErrorCodes) > 0 && a.Error != nil {
				a.Error.Code = tc.OtherAllowedErrorCodes[0]
			}
			if err := runAssert(tc, a); err != nil {
				note("leniency-fails", name, err)
			} else {
				stats["leniency-ok"]++
			}
			// merged metadata leniency
			st := tc.Request.StreamType
			if len(exp.Payloads) == 0 && exp.Error != nil && (st == 1 || st == 2) && (len(exp.ResponseHeaders) > 0 || len(exp.ResponseTrailers) > 0) {
				b := clone(exp)
				b.ResponseTrailers = append(b.ResponseTrailers, b.ResponseHeaders...)
				b.ResponseHeaders = nil
				if err := runAssert(tc, b); err != nil {
					note("merged-trailers-fails", name, err)
				} else {
					stats["merged-trailers-ok"]++
				}
			}
			// 3. deviations
			if len(exp.Payloads) > 0 {
				d := clone(exp)
				last := d.Payloads[len(d.Payloads)-1]
				last.Data = append(append([]byte{}, last.Data...), 'X')
				if err := runAssert(tc, d); err == nil {
					note("DEV-data-last-payload-passes", name, nil)
				} else {
					stats["dev-data-caught"]++
				}
				d = clone(exp)
				d.Payloads = d.Payloads[:len(d.Payloads)-1]
				if err := runAssert(tc, d); err == nil {
					note("DEV-drop-payload-passes", name, nil)
				} else {
					stats["dev-drop-caught"]++
				}
			}
			if len(exp.ResponseTrailers) > 0 {
				d := clone(exp)
				d.ResponseTrailers = d.ResponseTrailers[1:]
				if err := runAssert(tc, d); err == nil {
					note("DEV-drop-trailer-passes", name, nil)
				} else {
					stats["dev-trailer-caught"]++
				}
			}
			if exp.Error != nil {
				d := clone(exp)
				d.Error = nil
				if err := runAssert(tc, d); err == nil {
					note("DEV-drop-error-passes", name, nil)
				} else {
					stats["dev-error-caught"]++
				}
				if len(exp.Error.Details) > 0 {
					d := clone(exp)
					d.Error.Details = d.Error.Details[:len(d.Error.Details)-1]
					if err := runAssert(tc, d); err == nil {
						note("DEV-drop-detail-passes", name, nil)
					} else {
						stats["dev-detail-caught"]++
					}
				}
			}
			// query params all missing
			for i, p := range exp.Payloads {
				if len(p.GetRequestInfo().GetConnectGetInfo().GetQueryParams()) > 0 {
					d := clone(exp)
					d.Payloads[i].RequestInfo.ConnectGetInfo = nil
					if err := runAssert(tc, d); err == nil {
						note("DEV-drop-all-queryparams-passes", name, nil)
					} else {
						stats["dev-query-caught"]++
					}
					d = clone(exp)
					d.Payloads[i].RequestInfo.ConnectGetInfo.QueryParams = d.Payloads[i].RequestInfo.ConnectGetInfo.QueryParams[1:]
					if err := runAssert(tc, d); err == nil {
						note("DEV-drop-one-queryparam-passes", name, nil)
					} else {
						stats["dev-query1-caught"]++
					}
				}
			}
		}
	}
	for k, v := range stats {
		t.Logf("%6d %s   %s", v, k, ex[k])
	}
}
