package main

import (
	"context"
	"encoding/binary"
	"io"
	"os"
	"strconv"

	"connectrpc.com/conformance/internal/app/referenceclient"
)

func main() {
	k, _ := strconv.Atoi(os.Args[1])
	pr, pw := io.Pipe()
	done := make(chan error, 1)
	go func() {
		done <- referenceclient.Run(context.Background(), []string{"refclient"}, pr, os.Stdout, os.Stderr)
	}()
	for i := 0; i < k; i++ {
		var pre [4]byte
		if _, err := io.ReadFull(os.Stdin, pre[:]); err != nil {
			break
		}
		buf := make([]byte, binary.BigEndian.Uint32(pre[:]))
		if _, err := io.ReadFull(os.Stdin, buf); err != nil {
			break
		}
		pw.Write(pre[:])
		pw.Write(buf)
	}
	pw.Close()
	<-done
	os.Exit(0)
}
