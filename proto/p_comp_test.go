package compression

import (
	"bytes"
	"fmt"
	"io"
	"math/rand"
	"net/http"
	"testing"

	conformancev1 "connectrpc.com/conformance/internal/gen/proto/go/connectrpc/conformance/v1"
)

func TestProbePoolHistories(t *testing.T) {
	r := rand.New(rand.NewSource(5))
	stats := map[string]int{}
	for enc := conformancev1.Compression(1); enc <= 6; enc++ {
		inputs := [][]byte{nil, {0}, bytes.Repeat([]byte{0}, 70000), make([]byte, 70000), []byte("hello hello hello hello")}
		r.Read(inputs[3])
		for iter := 0; iter < 300; iter++ {
			comp, _ := GetCompressor(enc)
			dec, _ := GetDecompressor(enc)
			for step := 0; step < 4; step++ {
				in := inputs[r.Intn(len(inputs))]
				var buf bytes.Buffer
				comp.Reset(&buf)
				if _, err := comp.Write(in); err != nil {
					t.Fatalf("%v write: %v", enc, err)
				}
				if err := comp.Close(); err != nil {
					t.Fatalf("%v close: %v", enc, err)
				}
				comp.Reset(io.Discard) // pool put
				data := buf.Bytes()
				mode := r.Intn(4)
				src := append([]byte(nil), data...)
				switch mode {
				case 1:
					if len(src) > 0 {
						src[r.Intn(len(src))] ^= 1 << uint(r.Intn(8))
					}
				case 2:
					src = src[:r.Intn(len(src)+1)]
				}
				func() {
					defer func() {
						if p := recover(); p != nil {
							stats[fmt.Sprintf("%v PANIC mode=%d: %v", enc, mode, p)]++
						}
					}()
					if err := dec.Reset(bytes.NewReader(src)); err != nil {
						stats[fmt.Sprintf("%v reset-err mode=%d", enc, mode)]++
						dec, _ = GetDecompressor(enc) // pool drops it
						return
					}
					out, err := io.ReadAll(dec)
					cerr := dec.Close()
					if mode == 0 || mode == 3 {
						if err != nil || !bytes.Equal(out, in) {
							stats[fmt.Sprintf("%v VALID-DECODE-WRONG step=%d err=%v len=%d/%d", enc, step, err, len(out), len(in))]++
						} else {
							stats[fmt.Sprintf("%v ok", enc)]++
						}
					} else if err != nil {
						stats[fmt.Sprintf("%v corrupt-detected", enc)]++
					} else {
						stats[fmt.Sprintf("%v corrupt-undetected", enc)]++
					}
					if cerr != nil {
						stats[fmt.Sprintf("%v close-err(dropped)", enc)]++
						dec, _ = GetDecompressor(enc)
						return
					}
					_ = dec.Reset(http.NoBody)
				}()
			}
		}
	}
	for k, v := range stats {
		t.Logf("%6d %s", v, k)
	}
}
