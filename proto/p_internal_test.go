package internal

import (
	"testing"
	conformancev1 "connectrpc.com/conformance/internal/gen/proto/go/connectrpc/conformance/v1"
)

func TestProbeCodec(t *testing.T) {
	c := StrictProtoCodec{}
	b, err := c.Marshal(&conformancev1.Header{Name: "x", Value: []string{"y"}})
	t.Logf("bytes=%q err=%v", b, err)
	var h conformancev1.Header
	t.Logf("unmarshal err=%v h=%v", c.Unmarshal(b, &h), &h)
}
