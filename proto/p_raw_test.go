package referenceserver

import (
	"bytes"
	"context"
	"crypto/tls"
	"encoding/binary"
	"fmt"
	"io"
	"net"
	"net/http"
	"testing"

	"connectrpc.com/conformance/internal"
	conformancev1 "connectrpc.com/conformance/internal/gen/proto/go/connectrpc/conformance/v1"
	"golang.org/x/net/http2"
	"google.golang.org/protobuf/proto"
)

type vfWC struct{ io.Writer }

func (vfWC) Close() error { return nil }

func vfStart(t *testing.T, ver conformancev1.HTTPVersion) (string, func()) {
	inR, inW := io.Pipe()
	outR, outW := io.Pipe()
	ctx, cancel := context.WithCancel(context.Background())
	go func() {
		_ = RunInReferenceMode(ctx, []string{"refserver"}, inR, outW, vfWC{io.Discard}, nil)
	}()
	if err := internal.WriteDelimitedMessage(inW, &conformancev1.ServerCompatRequest{Protocol: 1, HttpVersion: ver}); err != nil {
		t.Fatal(err)
	}
	inW.Close()
	var resp conformancev1.ServerCompatResponse
	var pre [4]byte
	io.ReadFull(outR, pre[:])
	buf := make([]byte, binary.BigEndian.Uint32(pre[:]))
	io.ReadFull(outR, buf)
	proto.Unmarshal(buf, &resp)
	return fmt.Sprintf("%s:%d", resp.Host, resp.Port), cancel
}

func TestProbeRawResponse(t *testing.T) {
	for _, ver := range []conformancev1.HTTPVersion{1, 2} {
		addr, stop := vfStart(t, ver)
		var client *http.Client
		if ver == 1 {
			client = &http.Client{Transport: &http.Transport{DisableCompression: true}}
		} else {
			client = &http.Client{Transport: &http2.Transport{AllowHTTP: true, DisableCompression: true, DialTLSContext: func(ctx context.Context, n, a string, _ *tls.Config) (net.Conn, error) {
				return (&net.Dialer{}).DialContext(ctx, n, a)
			}}}
		}
		raws := []*conformancev1.RawHTTPResponse{
			{StatusCode: 0, Headers: []*conformancev1.Header{{Name: "X-Given", Value: []string{"a", "b"}}}, Body: &conformancev1.RawHTTPResponse_Unary{Unary: &conformancev1.MessageContents{Data: &conformancev1.MessageContents_Text{Text: "hello"}}}, Trailers: []*conformancev1.Header{{Name: "X-Trail", Value: []string{"t1", "t2"}}}},
			{StatusCode: 418, Body: &conformancev1.RawHTTPResponse_Stream{Stream: &conformancev1.StreamContents{Items: []*conformancev1.StreamContents_StreamItem{
				{Flags: 0, Payload: &conformancev1.MessageContents{Data: &conformancev1.MessageContents_Binary{Binary: []byte{1, 2, 3}}}},
				{Flags: 255, Length: proto.Uint32(9), Payload: &conformancev1.MessageContents{Data: &conformancev1.MessageContents_Text{Text: "xy"}, Compression: conformancev1.Compression_COMPRESSION_GZIP}},
			}}}},
			{StatusCode: 204},
		}
		for i, raw := range raws {
			reqMsg := &conformancev1.UnaryRequest{ResponseDefinition: &conformancev1.UnaryResponseDefinition{RawResponse: raw, ResponseHeaders: []*conformancev1.Header{{Name: "x-handler-set", Value: []string{"should-not-appear"}}}}}
			body, _ := proto.Marshal(reqMsg)
			req, _ := http.NewRequest("POST", "http://"+addr+"/connectrpc.conformance.v1.ConformanceService/Unary", bytes.NewReader(body))
			req.Header.Set("Content-Type", "application/proto")
			req.Header.Set("X-Test-Case-Name", fmt.Sprintf("raw-%d", i))
			resp, err := client.Do(req)
			if err != nil {
				t.Logf("ver=%d raw#%d error: %v", ver, i, err)
				continue
			}
			b, _ := io.ReadAll(resp.Body)
			resp.Body.Close()
			t.Logf("ver=%d raw#%d status=%d proto=%s\n   headers=%v\n   trailers=%v\n   body=%q", ver, i, resp.StatusCode, resp.Proto, resp.Header, resp.Trailer, b)
		}
		stop()
	}
}
