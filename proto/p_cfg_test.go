package connectconformance

import (
	"fmt"
	"math/rand"
	"sort"
	"testing"

	conformancev1 "connectrpc.com/conformance/internal/gen/proto/go/connectrpc/conformance/v1"
	"google.golang.org/protobuf/encoding/protojson"
	"google.golang.org/protobuf/proto"
)

type mFeat struct {
	V                                       []conformancev1.HTTPVersion
	P                                       []conformancev1.Protocol
	C                                       []conformancev1.Codec
	Z                                       []conformancev1.Compression
	S                                       []conformancev1.StreamType
	H2C, TLS, CC, Trailers, HalfH1, Get, Lim bool
}

func tri(b *bool, def bool) bool {
	if b == nil {
		return def
	}
	return *b
}
func has[T comparable](s []T, x T) bool {
	for _, e := range s {
		if e == x {
			return true
		}
	}
	return false
}

// model of feature resolution; returns contradiction reason or ""
func mResolve(f *conformancev1.Features) (mFeat, string) {
	r := mFeat{V: f.Versions, P: f.Protocols, C: f.Codecs, Z: f.Compressions, S: f.StreamTypes,
		H2C: tri(f.SupportsH2C, true), TLS: tri(f.SupportsTls, true), CC: tri(f.SupportsTlsClientCerts, false),
		Trailers: tri(f.SupportsTrailers, true), HalfH1: tri(f.SupportsHalfDuplexBidiOverHttp1, false),
		Get: tri(f.SupportsConnectGet, true), Lim: tri(f.SupportsMessageReceiveLimit, true)}
	if r.CC && !r.TLS {
		return r, "client certs without TLS"
	}
	if len(r.V) == 0 {
		if r.TLS || r.H2C {
			r.V = []conformancev1.HTTPVersion{1, 2}
		} else {
			r.V = []conformancev1.HTTPVersion{1}
		}
	} else if f.SupportsH2C != nil && *f.SupportsH2C && !has(r.V, 2) {
		return r, "h2c declared without http2"
	}
	if has(r.V, 3) && !r.TLS {
		return r, "h3 without tls"
	}
	if has(r.V, 2) && !r.TLS && !r.H2C {
		return r, "h2 without h2c or tls"
	}
	if has(r.P, 2) && !r.Trailers {
		return r, "grpc without trailers"
	}
	if has(r.P, 2) && !has(r.V, 2) {
		return r, "grpc without h2"
	}
	if len(r.P) == 0 {
		if r.Trailers && has(r.V, 2) {
			r.P = []conformancev1.Protocol{1, 2, 3}
		} else {
			r.P = []conformancev1.Protocol{1, 3}
		}
	}
	if len(r.C) == 0 {
		r.C = []conformancev1.Codec{1, 2}
	}
	if len(r.Z) == 0 {
		r.Z = []conformancev1.Compression{1, 2}
	}
	onlyH1 := !has(r.V, 2) && !has(r.V, 3)
	if has(r.S, 5) && onlyH1 {
		return r, "full duplex only h1"
	}
	if has(r.S, 4) && onlyH1 && !r.HalfH1 {
		return r, "half duplex only h1 unsupported"
	}
	if len(r.S) == 0 {
		r.S = []conformancev1.StreamType{1, 2, 3}
		if !onlyH1 || r.HalfH1 {
			r.S = append(r.S, 4)
		}
		if !onlyH1 {
			r.S = append(r.S, 5)
		}
	}
	return r, ""
}

func boolsOf(spec *bool, supported bool) []bool {
	if spec != nil {
		return []bool{*spec}
	}
	if supported {
		return []bool{false, true}
	}
	return []bool{false}
}

// set comprehension; e == nil means plain features
func mCases(r mFeat, e *conformancev1.ConfigCase) map[configCase]struct{} {
	V, P, C, Z, S := r.V, r.P, r.C, r.Z, r.S
	var tls, cc, lim *bool
	if e != nil {
		if e.Version != 0 {
			V = []conformancev1.HTTPVersion{e.Version}
		}
		if e.Protocol != 0 {
			P = []conformancev1.Protocol{e.Protocol}
		}
		if e.Codec != 0 {
			C = []conformancev1.Codec{e.Codec}
		}
		if e.Compression != 0 {
			Z = []conformancev1.Compression{e.Compression}
		}
		if e.StreamType != 0 {
			S = []conformancev1.StreamType{e.StreamType}
		}
		tls, cc, lim = e.UseTls, e.UseTlsClientCerts, e.UseMessageReceiveLimit
	}
	out := map[configCase]struct{}{}
	for _, v := range V {
		for _, p := range P {
			for _, c := range C {
				if c == 3 {
					continue
				}
				for _, z := range Z {
					for _, s := range S {
						for _, t := range boolsOf(tls, r.TLS) {
							for _, k := range boolsOf(cc, r.CC) {
								for _, g := range []bool{false, true} {
									for _, l := range boolsOf(lim, r.Lim) {
										if p == 2 && v != 2 {
											continue
										}
										if v == 3 && !t {
											continue
										}
										if v == 2 && !t && !r.H2C {
											continue
										}
										if k && !t {
											continue
										}
										if s == 5 && v == 1 {
											continue
										}
										if s == 4 && v == 1 && !r.HalfH1 {
											continue
										}
										if g && !(p == 1 && r.Get) {
											continue
										}
										out[configCase{Version: v, Protocol: p, Codec: c, Compression: z, StreamType: s, UseTLS: t, UseTLSClientCerts: k, UseConnectGET: g, UseMessageReceiveLimit: l}] = struct{}{}
									}
								}
							}
						}
					}
				}
			}
		}
	}
	return out
}

func pb(r *rand.Rand) *bool {
	switch r.Intn(3) {
	case 0:
		return nil
	case 1:
		return proto.Bool(false)
	}
	return proto.Bool(true)
}
func subset[T ~int32](r *rand.Rand, n int) []T {
	var out []T
	if r.Intn(3) == 0 {
		return nil
	}
	for i := 1; i <= n; i++ {
		if r.Intn(2) == 0 {
			out = append(out, T(i))
		}
	}
	return out
}
func rcase(r *rand.Rand) *conformancev1.ConfigCase {
	e := &conformancev1.ConfigCase{}
	if r.Intn(2) == 0 {
		e.Version = conformancev1.HTTPVersion(1 + r.Intn(3))
	}
	if r.Intn(2) == 0 {
		e.Protocol = conformancev1.Protocol(1 + r.Intn(3))
	}
	if r.Intn(3) == 0 {
		e.Codec = conformancev1.Codec(1 + r.Intn(2))
	}
	if r.Intn(3) == 0 {
		e.Compression = conformancev1.Compression(1 + r.Intn(6))
	}
	if r.Intn(2) == 0 {
		e.StreamType = conformancev1.StreamType(1 + r.Intn(5))
	}
	e.UseTls, e.UseTlsClientCerts, e.UseMessageReceiveLimit = pb(r), pb(r), pb(r)
	return e
}

func TestProbeConfigModel(t *testing.T) {
	r := rand.New(rand.NewSource(1))
	kinds := map[string]int{}
	samples := map[string]string{}
	n := 60000
	for i := 0; i < n; i++ {
		cfg := &conformancev1.Config{Features: &conformancev1.Features{
			Versions: subset[conformancev1.HTTPVersion](r, 3), Protocols: subset[conformancev1.Protocol](r, 3),
			Codecs: subset[conformancev1.Codec](r, 2), Compressions: subset[conformancev1.Compression](r, 3),
			StreamTypes: subset[conformancev1.StreamType](r, 5),
			SupportsH2C: pb(r), SupportsTls: pb(r), SupportsTlsClientCerts: pb(r), SupportsTrailers: pb(r),
			SupportsHalfDuplexBidiOverHttp1: pb(r), SupportsConnectGet: pb(r), SupportsMessageReceiveLimit: pb(r)}}
		for k := r.Intn(3); k > 0; k-- {
			cfg.IncludeCases = append(cfg.IncludeCases, rcase(r))
		}
		for k := r.Intn(3); k > 0; k-- {
			cfg.ExcludeCases = append(cfg.ExcludeCases, rcase(r))
		}
		data, _ := protojson.Marshal(cfg)
		got, err := parseConfig("x.yaml", data)
		feat, why := mResolve(cfg.Features)
		var want map[configCase]struct{}
		if why == "" {
			want = mCases(feat, nil)
			for _, e := range cfg.IncludeCases {
				for c := range mCases(feat, e) {
					want[c] = struct{}{}
				}
			}
			for _, e := range cfg.ExcludeCases {
				for c := range mCases(feat, e) {
					delete(want, c)
				}
			}
		}
		var kind string
		switch {
		case err != nil && (why != "" || len(want) == 0):
			kind = "agree-error"
		case err != nil:
			anyEmpty := false
			for _, e := range append(append([]*conformancev1.ConfigCase{}, cfg.IncludeCases...), cfg.ExcludeCases...) {
				if len(mCases(feat, e)) == 0 {
					anyEmpty = true
				}
			}
			if anyEmpty {
				kind = "agree-error(entry-empty)"
			} else {
				kind = "OVER-REJECT: " + trimErr(err.Error())[17:]
			}
		case why != "":
			kind = "impl-ok-model-contradiction: " + why
		default:
			gotSet := map[configCase]struct{}{}
			for _, c := range got {
				gotSet[c] = struct{}{}
			}
			if len(gotSet) != len(got) {
				kind = "dup-in-result"
			} else if len(gotSet) == len(want) && subsetOf(gotSet, want) {
				kind = "agree-set"
			} else {
				kind = fmt.Sprintf("set-differs extra=%v missing=%v", !subsetOf(gotSet, want), !subsetOf(want, gotSet))
			}
		}
		kinds[kind]++
		if _, ok := samples[kind]; !ok {
			samples[kind] = string(data)
		}
	}
	var ks []string
	for k := range kinds {
		ks = append(ks, k)
	}
	sort.Strings(ks)
	for _, k := range ks {
		t.Logf("%6d %s\n        e.g. %s", kinds[k], k, samples[k])
	}
}

func trimErr(s string) string {
	if len(s) > 110 {
		return s[:110]
	}
	return s
}
func subsetOf(a, b map[configCase]struct{}) bool {
	for k := range a {
		if _, ok := b[k]; !ok {
			return false
		}
	}
	return true
}
