package tracer

import (
	"bytes"
	"compress/gzip"
	"encoding/binary"
	"fmt"
	"io"
	"math/rand"
	"net/http"
	"testing"
	"time"
)

type pcoll struct{ traces []Trace }

func (c *pcoll) Complete(t Trace) { c.traces = append(c.traces, t) }

type env struct {
	flags   byte
	payload []byte
}

type chunkReader struct {
	data   []byte
	plan   []int
	i      int
	eofTog bool // return last data together with EOF
}

func (c *chunkReader) Read(p []byte) (int, error) {
	if len(c.data) == 0 {
		return 0, io.EOF
	}
	n := 1
	if c.i < len(c.plan) {
		n = c.plan[c.i]
		c.i++
	}
	if n > len(p) {
		n = len(p)
	}
	if n > len(c.data) {
		n = len(c.data)
	}
	copy(p, c.data[:n])
	c.data = c.data[n:]
	if len(c.data) == 0 && c.eofTog {
		return n, io.EOF
	}
	return n, nil
}
func (c *chunkReader) Close() error { return nil }

func sig(evs []Event) []string {
	var out []string
	for _, e := range evs {
		switch e := e.(type) {
		case *ResponseBodyData:
			if e.Envelope != nil {
				out = append(out, fmt.Sprintf("data#%d f=%d l=%d got=%d", e.MessageIndex, e.Envelope.Flags, e.Envelope.Len, e.Len))
			} else {
				out = append(out, fmt.Sprintf("data#%d noenv got=%d", e.MessageIndex, e.Len))
			}
		case *ResponseBodyEndStream:
			out = append(out, fmt.Sprintf("eos %q", e.Content))
		case *ResponseBodyEnd:
			out = append(out, fmt.Sprintf("end err=%v", e.Err))
		default:
			out = append(out, fmt.Sprintf("%T", e))
		}
	}
	return out
}

func TestProbeDataTracerModel(t *testing.T) {
	r := rand.New(rand.NewSource(3))
	mismatch := map[string]int{}
	total := 0
	for iter := 0; iter < 3000; iter++ {
		enc := []string{"", "gzip"}[r.Intn(2)]
		var envs []env
		for k := r.Intn(4); k > 0; k-- {
			p := make([]byte, []int{0, 1, 4, 5, 6, 30}[r.Intn(6)])
			r.Read(p)
			envs = append(envs, env{flags: byte(r.Intn(2)) & 1 * 0, payload: p})
		}
		// optional end-stream
		if r.Intn(2) == 0 {
			content := []byte([]string{"", "{}", `{"error":{"code":"internal"}}`}[r.Intn(3)])
			fl := byte(0x02)
			if r.Intn(2) == 0 {
				fl = 0x80
			}
			if enc == "gzip" && r.Intn(2) == 0 {
				var b bytes.Buffer
				w := gzip.NewWriter(&b)
				w.Write(content)
				w.Close()
				envs = append(envs, env{flags: fl | 1, payload: b.Bytes()})
			} else {
				envs = append(envs, env{flags: fl, payload: content})
			}
		}
		var stream []byte
		for _, e := range envs {
			var pre [5]byte
			pre[0] = e.flags
			binary.BigEndian.PutUint32(pre[1:], uint32(len(e.payload)))
			stream = append(stream, pre[:]...)
			stream = append(stream, e.payload...)
		}
		for cut := 0; cut <= len(stream); cut++ {
			// model
			var want []string
			pos, idx := 0, 0
			for _, e := range envs {
				if pos+5 > cut {
					if cut-pos > 0 {
						want = append(want, fmt.Sprintf("data#%d noenv got=%d", idx, cut-pos))
					}
					pos = cut + 1
					break
				}
				if pos+5+len(e.payload) > cut {
					seen := cut - pos - 5
					if seen > 0 {
						want = append(want, fmt.Sprintf("data#%d f=%d l=%d got=%d", idx, e.flags, len(e.payload), seen))
					} else {
						want = append(want, "BOUNDARY")
					}
					pos = cut + 1
					break
				}
				want = append(want, fmt.Sprintf("data#%d f=%d l=%d got=%d", idx, e.flags, len(e.payload), len(e.payload)))
				if e.flags&0x82 != 0 && len(e.payload) > 0 {
					content := e.payload
					if e.flags&1 != 0 {
						zr, _ := gzip.NewReader(bytes.NewReader(e.payload))
						content, _ = io.ReadAll(zr)
					}
					if len(content) > 0 {
						want = append(want, fmt.Sprintf("eos %q", content))
					}
				}
				idx++
				pos += 5 + len(e.payload)
			}
			want = append(want, "end err=<nil>")
			// real
			var plan []int
			for k := 0; k < 50; k++ {
				plan = append(plan, 1+r.Intn(7))
			}
			c := &pcoll{}
			b := &builder{collector: c, start: time.Now(), trace: Trace{TestName: "x", Request: &http.Request{}}}
			h := http.Header{"Content-Type": {"application/connect+proto"}}
			if enc != "" {
				h.Set("Connect-Content-Encoding", enc)
			}
			rd := newReader(h, &chunkReader{data: append([]byte(nil), stream[:cut]...), plan: plan, eofTog: r.Intn(2) == 0}, false, b, func() {})
			got, err := io.ReadAll(rd)
			if err != nil || !bytes.Equal(got, stream[:cut]) {
				t.Fatalf("not transparent")
			}
			total++
			if len(c.traces) != 1 {
				mismatch["complete-count"]++
				continue
			}
			gs := sig(c.traces[0].Events)
			// compare allowing BOUNDARY wildcard
			ok := true
			wi := 0
			for gi := 0; gi < len(gs) || wi < len(want); {
				if wi < len(want) && want[wi] == "BOUNDARY" {
					wi++
					if gi < len(gs) && gs[gi] != "end err=<nil>" {
						gi++
					}
					continue
				}
				if gi >= len(gs) || wi >= len(want) || gs[gi] != want[wi] {
					ok = false
					break
				}
				gi++
				wi++
			}
			if !ok {
				key := fmt.Sprintf("enc=%s", enc)
				mismatch[key]++
				if mismatch[key] <= 3 {
					t.Logf("MISMATCH enc=%q cut=%d/%d\n  want %v\n  got  %v", enc, cut, len(stream), want, gs)
				}
			}
		}
	}
	t.Logf("total=%d mismatch=%v", total, mismatch)
}
