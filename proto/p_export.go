//go:build verif

package referenceclient

import (
	"net/http"

	"connectrpc.com/conformance/internal"
)

func VerifExamineGRPCEndStream(s string, p internal.Printer) http.Header { return examineGRPCEndStream(s, p) }
func VerifCheckGRPCStatus(h http.Header, p internal.Printer)               { checkGRPCStatus(h, p) }
