package connectconformance

import (
	"math/rand"
	"os"
	"google.golang.org/protobuf/encoding/protojson"
	"google.golang.org/protobuf/proto"
	"fmt"
		"sort"
	"strings"
	"testing"

		conformancev1 "connectrpc.com/conformance/internal/gen/proto/go/connectrpc/conformance/v1"
)

func mOne[T comparable](rel []T, v T) bool {
	if len(rel) == 0 {
		return true
	}
	for _, r := range rel {
		if r == v {
			return true
		}
	}
	return false
}

// independent model: names of permutations for suites x cases x mode
func mPermutations(suites map[string]*conformancev1.TestSuite, cases []configCase, mode conformancev1.TestSuite_TestMode) map[string]configCase {
	out := map[string]configCase{}
	for _, s := range suites {
		if s.Mode != 0 && s.Mode != mode {
			continue
		}
		for _, c := range cases {
			if !mOne(s.RelevantProtocols, c.Protocol) || !mOne(s.RelevantHttpVersions, c.Version) ||
				!mOne(s.RelevantCodecs, c.Codec) || !mOne(s.RelevantCompressions, c.Compression) {
				continue
			}
			if s.ReliesOnTls && !c.UseTLS {
				continue
			}
			if s.ReliesOnTlsClientCerts != c.UseTLSClientCerts || s.ReliesOnConnectGet != c.UseConnectGET ||
				s.ReliesOnMessageReceiveLimit != c.UseMessageReceiveLimit || s.ConnectVersionMode != c.ConnectVersionMode {
				continue
			}
			for _, tc := range s.TestCases {
				if tc.Request.StreamType != c.StreamType {
					continue
				}
				parts := []string{s.Name}
				if len(s.RelevantHttpVersions) != 1 {
					parts = append(parts, fmt.Sprintf("HTTPVersion:%d", c.Version))
				}
				if len(s.RelevantProtocols) != 1 {
					parts = append(parts, "Protocol:"+c.Protocol.String())
				}
				if len(s.RelevantCodecs) != 1 {
					parts = append(parts, "Codec:"+c.Codec.String())
				}
				if len(s.RelevantCompressions) != 1 {
					parts = append(parts, "Compression:"+c.Compression.String())
				}
				if !s.ReliesOnTls {
					parts = append(parts, fmt.Sprintf("TLS:%v", c.UseTLS))
				}
				parts = append(parts, tc.Request.TestName)
				out[strings.Join(parts, "/")] = c
			}
		}
	}
	return out
}

func mGRPCOk(c configCase, tc *conformancev1.TestCase, client, server bool) bool {
	if c.Protocol == 1 || (client && c.Protocol != 2) {
		return false
	}
	if c.Protocol == 3 && c.Version == 3 {
		return false
	}
	if c.Protocol == 2 && c.Version != 2 {
		return false
	}
	if c.Codec != 1 || (c.Compression != 1 && c.Compression != 2) || c.UseTLS {
		return false
	}
	if client && tc.Request.RawRequest != nil {
		return false
	}
	if server && hasRawResponse(tc.Request.RequestMessages) {
		return false
	}
	return true
}


func vfRandSuite(r *rand.Rand, name string) *conformancev1.TestSuite {
	s := &conformancev1.TestSuite{Name: name, Mode: conformancev1.TestSuite_TestMode(r.Intn(3))}
	pickN := func(n int) []int32 {
		var out []int32
		if r.Intn(2) == 0 {
			return nil
		}
		for i := 1; i <= n; i++ {
			if r.Intn(2) == 0 {
				out = append(out, int32(i))
			}
		}
		return out
	}
	for _, v := range pickN(3) {
		s.RelevantProtocols = append(s.RelevantProtocols, conformancev1.Protocol(v))
	}
	for _, v := range pickN(3) {
		s.RelevantHttpVersions = append(s.RelevantHttpVersions, conformancev1.HTTPVersion(v))
	}
	for _, v := range pickN(2) {
		s.RelevantCodecs = append(s.RelevantCodecs, conformancev1.Codec(v))
	}
	for _, v := range pickN(6) {
		s.RelevantCompressions = append(s.RelevantCompressions, conformancev1.Compression(v))
	}
	s.ReliesOnTls = r.Intn(3) == 0
	s.ReliesOnTlsClientCerts = r.Intn(4) == 0
	s.ReliesOnConnectGet = r.Intn(5) == 0
	s.ReliesOnMessageReceiveLimit = r.Intn(4) == 0
	for k := 1 + r.Intn(4); k > 0; k-- {
		st := conformancev1.StreamType(1 + r.Intn(5))
		req := &conformancev1.ClientCompatRequest{TestName: fmt.Sprintf("%s/t%d", []string{"unary", "cs", "ss", "half", "full"}[st-1], r.Intn(4)), StreamType: st}
		s.TestCases = append(s.TestCases, &conformancev1.TestCase{Request: req})
	}
	return s
}

func TestProbeLibModelGen(t *testing.T) {
	defCases, _ := parseConfig("", nil)
	refData, _ := os.ReadFile("/repo/testing/reference-impls-config.yaml")
	refCases, _ := parseConfig("x", refData)
	stats := map[string]int{}
	ex := map[string]string{}
	for it := 0; it < 3000; it++ {
		r := rand.New(rand.NewSource(int64(it)))
		suites := map[string]*conformancev1.TestSuite{}
		for k := 1 + r.Intn(3); k > 0; k-- {
			nm := fmt.Sprintf("Suite%d", r.Intn(3))
			suites[fmt.Sprintf("f%d.yaml", k)] = vfRandSuite(r, nm)
		}
		cases := defCases
		if r.Intn(2) == 0 {
			cases = refCases
		}
		if r.Intn(3) == 0 { // random subset
			var sub []configCase
			for _, c := range cases {
				if r.Intn(3) == 0 {
					sub = append(sub, c)
				}
			}
			cases = sub
		}
		mode := conformancev1.TestSuite_TestMode(r.Intn(3))
		// model validity
		invalid := ""
		names := map[string]bool{}
		for _, s := range suites {
			if names[s.Name] {
				invalid = "dup suite name"
			}
			names[s.Name] = true
		}
		model := map[string]configCase{}
		if invalid == "" {
			for _, s := range suites {
				if s.Mode != 0 && s.Mode != mode {
					continue
				}
				if s.ReliesOnTlsClientCerts && !s.ReliesOnTls {
					invalid = "client certs w/o tls"
				}
				if s.ReliesOnConnectGet && !(len(s.RelevantProtocols) > 0 && func() bool {
					for _, p := range s.RelevantProtocols {
						if p != 1 {
							return false
						}
					}
					return true
				}()) {
					invalid = "get w/o connect-only"
				}
			}
		}
		if invalid == "" {
			model = mPermutations(suites, cases, mode)
			// duplicate test names within a suite that are actually expanded -> invalid
			cnt := 0
			for _, s := range suites {
				if s.Mode != 0 && s.Mode != mode {
					continue
				}
				seen := map[string]bool{}
				dups := map[string]bool{}
				for _, tc := range s.TestCases {
					if seen[tc.Request.TestName] {
						dups[tc.Request.TestName] = true
					}
					seen[tc.Request.TestName] = true
				}
				_ = cnt
				for n := range model {
					for d := range dups {
						if strings.HasPrefix(n, s.Name+"/") && strings.HasSuffix(n, "/"+d) {
							invalid = "dup test name expanded"
						}
					}
				}
			}
			if invalid == "" && len(model) == 0 {
				invalid = "nothing applies"
			}
		}
		cl := map[string]*conformancev1.TestSuite{}
		for k, v := range suites {
			cl[k] = proto.Clone(v).(*conformancev1.TestSuite)
		}
		lib, err := newTestCaseLibrary(cl, cases, mode)
		var kind string
		switch {
		case err != nil && invalid != "":
			kind = "agree-error"
		case err != nil:
			kind = "IMPL-ERROR-MODEL-OK: " + err.Error()
			if len(kind) > 140 {
				kind = kind[:140]
			}
		case invalid != "":
			kind = "IMPL-OK-MODEL-INVALID: " + invalid
		default:
			same := len(lib.testCases) == len(model)
			for n := range model {
				if _, ok := lib.testCases[n]; !ok {
					same = false
				}
			}
			if same {
				kind = "agree-set"
			} else {
				kind = fmt.Sprintf("SET-DIFFERS impl=%d model=%d", len(lib.testCases), len(model))
			}
		}
		stats[kind]++
		if _, ok := ex[kind]; !ok {
			var b []string
			for _, s := range suites {
				j, _ := protojson.Marshal(s)
				b = append(b, string(j))
			}
			ex[kind] = fmt.Sprintf("mode=%v ncases=%d %s", mode, len(cases), strings.Join(b, " || "))
		}
	}
	var ks []string
	for k := range stats {
		ks = append(ks, k)
	}
	sort.Strings(ks)
	for _, k := range ks {
		e := ex[k]
		if len(e) > 700 {
			e = e[:700]
		}
		if strings.HasPrefix(k, "agree") {
			e = ""
		}
		t.Logf("%5d %s\n      %s", stats[k], k, e)
	}
}
