package tracer

import (
	"bytes"
	"encoding/binary"
	"errors"
	"fmt"
	"io"
	"math/rand"
	"net"
	"sort"
	"strings"
	"sync"
	"testing"

	"golang.org/x/net/http2"
	"golang.org/x/net/http2/hpack"
)

// ---- scripted conn: Read returns scripted chunks; Write records
type sconn struct {
	net.Conn
	mu     sync.Mutex
	rbuf   []byte
	wrote  bytes.Buffer
	closed bool
}

func (s *sconn) Read(p []byte) (int, error) {
	s.mu.Lock()
	defer s.mu.Unlock()
	if len(s.rbuf) == 0 {
		return 0, io.EOF
	}
	n := copy(p, s.rbuf)
	s.rbuf = s.rbuf[n:]
	return n, nil
}
func (s *sconn) Write(p []byte) (int, error) { s.wrote.Write(p); return len(p), nil }
func (s *sconn) Close() error                { s.closed = true; return nil }

type h2coll struct {
	mu     sync.Mutex
	traces []Trace
}

func (c *h2coll) Complete(t Trace) { c.mu.Lock(); c.traces = append(c.traces, t); c.mu.Unlock() }

// ---- script model
type sstream struct {
	id        uint32
	name      string // test name ("" = none)
	reqMsgs   [][]byte
	respMsgs  [][]byte
	trailers  bool
	rst       bool // server resets after response headers+some data
	rstCode   http2.ErrCode
	contSplit bool
}

type frameStep struct {
	dir   int // 0 = request direction, 1 = response direction
	bytes []byte
	sid   uint32
	seq   int
}

func envelope(p []byte) []byte {
	b := make([]byte, 5+len(p))
	binary.BigEndian.PutUint32(b[1:], uint32(len(p)))
	copy(b[5:], p)
	return b
}

type dirEnc struct {
	buf bytes.Buffer
	enc *hpack.Encoder
	fr  *http2.Framer
	out bytes.Buffer
}

func newDirEnc() *dirEnc {
	d := &dirEnc{}
	d.enc = hpack.NewEncoder(&d.buf)
	d.fr = http2.NewFramer(&d.out, nil)
	return d
}
func (d *dirEnc) block(kv ...string) []byte {
	d.buf.Reset()
	for i := 0; i < len(kv); i += 2 {
		d.enc.WriteField(hpack.HeaderField{Name: kv[i], Value: kv[i+1]})
	}
	return append([]byte(nil), d.buf.Bytes()...)
}
func (d *dirEnc) take() []byte { b := append([]byte(nil), d.out.Bytes()...); d.out.Reset(); return b }

// Build per-stream ordered frame "intents" (without encoding headers yet, since HPACK order = emission order)
type intent struct {
	dir  int
	kind string // hreq, dreq, hresp, dresp, tresp, rst
	data []byte
	end  bool
	st   *sstream
}

func (s *sstream) intents(r *rand.Rand) []intent {
	var out []intent
	// request
	var reqBody []byte
	for _, m := range s.reqMsgs {
		reqBody = append(reqBody, envelope(m)...)
	}
	out = append(out, intent{dir: 0, kind: "hreq", st: s, end: len(reqBody) == 0})
	for len(reqBody) > 0 {
		n := 1 + r.Intn(len(reqBody))
		out = append(out, intent{dir: 0, kind: "dreq", st: s, data: reqBody[:n], end: n == len(reqBody)})
		reqBody = reqBody[n:]
	}
	// response (after request complete, for simplicity of causality: response headers may come any time after hreq)
	var respBody []byte
	for _, m := range s.respMsgs {
		respBody = append(respBody, envelope(m)...)
	}
	out = append(out, intent{dir: 1, kind: "hresp", st: s})
	cutForRst := -1
	if s.rst {
		cutForRst = r.Intn(len(respBody) + 1)
	}
	sent := 0
	for len(respBody) > 0 {
		if s.rst && sent >= cutForRst {
			break
		}
		n := 1 + r.Intn(len(respBody))
		if s.rst && sent+n > cutForRst {
			n = cutForRst - sent
			if n == 0 {
				break
			}
		}
		out = append(out, intent{dir: 1, kind: "dresp", st: s, data: respBody[:n]})
		respBody = respBody[n:]
		sent += n
	}
	if s.rst {
		out = append(out, intent{dir: 1, kind: "rst", st: s})
	} else {
		out = append(out, intent{dir: 1, kind: "tresp", st: s, end: true})
	}
	return out
}

func evSig(t Trace) []string {
	var out []string
	for _, e := range t.Events {
		switch e := e.(type) {
		case *RequestStart:
			out = append(out, "reqstart "+e.Request.Method+" "+e.Request.URL.Path)
		case *RequestBodyData:
			l := -1
			if e.Envelope != nil {
				l = int(e.Envelope.Len)
			}
			out = append(out, fmt.Sprintf("reqdata#%d env=%d got=%d", e.MessageIndex, l, e.Len))
		case *RequestBodyEnd:
			out = append(out, fmt.Sprintf("reqend err=%v", e.Err))
		case *ResponseStart:
			out = append(out, fmt.Sprintf("respstart %d", e.Response.StatusCode))
		case *ResponseBodyData:
			l := -1
			if e.Envelope != nil {
				l = int(e.Envelope.Len)
			}
			out = append(out, fmt.Sprintf("respdata#%d env=%d got=%d", e.MessageIndex, l, e.Len))
		case *ResponseBodyEnd:
			out = append(out, fmt.Sprintf("respend err=%v", e.Err))
		case *RequestCanceled:
			out = append(out, "canceled")
		default:
			out = append(out, fmt.Sprintf("%T", e))
		}
	}
	return out
}

func TestProbeH2Script(t *testing.T) {
	mism := map[string]int{}
	total := 0
	for seed := 0; seed < 400; seed++ {
		r := rand.New(rand.NewSource(int64(seed)))
		var streams []*sstream
		ns := 1 + r.Intn(4)
		for i := 0; i < ns; i++ {
			s := &sstream{id: uint32(1 + 2*i), name: fmt.Sprintf("t%d", i)}
			if r.Intn(6) == 0 {
				s.name = ""
			}
			for k := r.Intn(3); k > 0; k-- {
				m := make([]byte, []int{0, 1, 7, 40}[r.Intn(4)])
				s.reqMsgs = append(s.reqMsgs, m)
			}
			for k := r.Intn(3); k > 0; k-- {
				m := make([]byte, []int{0, 1, 7, 40}[r.Intn(4)])
				s.respMsgs = append(s.respMsgs, m)
			}
			s.rst = r.Intn(5) == 0
			s.rstCode = http2.ErrCodeCancel
			streams = append(streams, s)
		}
		// random topological merge of per-stream intents
		queues := make([][]intent, len(streams))
		for i, s := range streams {
			queues[i] = s.intents(r)
		}
		var merged []intent
		for {
			var avail []int
			for i, q := range queues {
				if len(q) > 0 {
					avail = append(avail, i)
				}
			}
			if len(avail) == 0 {
				break
			}
			i := avail[r.Intn(len(avail))]
			merged = append(merged, queues[i][0])
			queues[i] = queues[i][1:]
		}
		// encode
		encs := [2]*dirEnc{newDirEnc(), newDirEnc()}
		var steps []frameStep
		for _, in := range merged {
			d := encs[in.dir]
			switch in.kind {
			case "hreq":
				kv := []string{":method", "POST", ":scheme", "http", ":authority", "h", ":path", fmt.Sprintf("/svc/M%d", in.st.id), "content-type", "application/grpc", "te", "trailers"}
				if in.st.name != "" {
					kv = append(kv, "x-test-case-name", in.st.name)
				}
				d.fr.WriteHeaders(http2.HeadersFrameParam{StreamID: in.st.id, BlockFragment: d.block(kv...), EndHeaders: true, EndStream: in.end})
			case "dreq":
				d.fr.WriteData(in.st.id, in.end, in.data)
			case "hresp":
				d.fr.WriteHeaders(http2.HeadersFrameParam{StreamID: in.st.id, BlockFragment: d.block(":status", "200", "content-type", "application/grpc"), EndHeaders: true})
			case "dresp":
				d.fr.WriteData(in.st.id, false, in.data)
			case "tresp":
				d.fr.WriteHeaders(http2.HeadersFrameParam{StreamID: in.st.id, BlockFragment: d.block("grpc-status", "0", "x-trail", fmt.Sprint(in.st.id)), EndHeaders: true, EndStream: true})
			case "rst":
				d.fr.WriteRSTStream(in.st.id, in.st.rstCode)
			}
			steps = append(steps, frameStep{dir: in.dir, bytes: d.take(), sid: in.st.id})
		}
		for _, side := range []bool{false, true} { // isServer
			total++
			coll := &h2coll{}
			sc := &sconn{}
			conn := TracingHTTP2Conn(sc, side, coll)
			var panicked any
			func() {
				defer func() { panicked = recover() }()
				first := true
				for _, st := range steps {
					isRead := (st.dir == 0) == side // server reads requests; client reads responses
					data := st.bytes
					if st.dir == 0 && first {
						data = append([]byte(clientPreface), data...)
						first = false
					}
					// random partition
					for len(data) > 0 {
						n := 1 + r.Intn(len(data))
						if isRead {
							sc.mu.Lock()
							sc.rbuf = append(sc.rbuf, data[:n]...)
							sc.mu.Unlock()
							buf := make([]byte, 64)
							for {
								sc.mu.Lock()
								left := len(sc.rbuf)
								sc.mu.Unlock()
								if left == 0 {
									break
								}
								k, err := conn.Read(buf[:1+r.Intn(63)])
								if k == 0 || err != nil {
									break
								}
							}
						} else {
							conn.Write(data[:n])
						}
						data = data[n:]
					}
				}
				conn.Close()
			}()
			if panicked != nil {
				mism[fmt.Sprintf("PANIC isServer=%v: %v", side, panicked)]++
				continue
			}
			// model
			byName := map[string][]string{}
			for _, tr := range coll.traces {
				byName[tr.TestName] = append(byName[tr.TestName], strings.Join(evSig(tr), " | "))
			}
			for _, s := range streams {
				if s.name == "" {
					continue
				}
				got := byName[s.name]
				var want []string
				want = append(want, fmt.Sprintf("reqstart POST /svc/M%d", s.id))
				// per-stream order of events follows the stream's own intent order: request part first then response
				for i, m := range s.reqMsgs {
					want = append(want, fmt.Sprintf("reqdata#%d env=%d got=%d", i, len(m), len(m)))
				}
				want = append(want, "reqend err=<nil>")
				want = append(want, "respstart 200")
				if len(got) != 1 {
					mism[fmt.Sprintf("trace-count=%d isServer=%v", len(got), side)]++
					continue
				}
				if !s.rst {
					for i, m := range s.respMsgs {
						want = append(want, fmt.Sprintf("respdata#%d env=%d got=%d", i, len(m), len(m)))
					}
					want = append(want, "respend err=<nil>")
					if got[0] != strings.Join(want, " | ") {
						k := fmt.Sprintf("events-differ isServer=%v", side)
						mism[k]++
						if mism[k] <= 2 {
							t.Logf("%s seed=%d stream=%d\n want %s\n got  %s", k, seed, s.id, strings.Join(want, " | "), got[0])
						}
					}
				} else {
					if !strings.HasPrefix(got[0], strings.Join(want, " | ")) || !strings.Contains(got[0], "respend err=stream error") {
						k := fmt.Sprintf("rst-events-differ isServer=%v", side)
						mism[k]++
						if mism[k] <= 2 {
							t.Logf("%s seed=%d stream=%d\n wantprefix %s\n got  %s", k, seed, s.id, strings.Join(want, " | "), got[0])
						}
					}
				}
			}
			if n := len(byName[""]); n > 0 {
				mism["unnamed-trace-delivered"]++
			}
		}
	}
	var ks []string
	for k := range mism {
		ks = append(ks, k)
	}
	sort.Strings(ks)
	t.Logf("total runs=%d", total)
	for _, k := range ks {
		t.Logf("%5d %s", mism[k], k)
	}
	_ = errors.New
}
