package tracer

import (
	"context"
	"fmt"
	"math/rand"
	"strings"
	"sync"
	"testing"
	"time"

	"github.com/anishathalye/porcupine"
)

type pIn struct {
	Name string
	Op   string // init, clear, complete, await
	ID   int
}
type pOut struct {
	Kind string // ok, trace, cleared, ctx
	ID   int
}
type pState struct {
	Slot int // 0 none, 1 pending, 2 done
	ID   int
}

var pModel = porcupine.Model{
	Partition: func(h []porcupine.Operation) [][]porcupine.Operation {
		m := map[string][]porcupine.Operation{}
		for _, o := range h {
			m[o.Input.(pIn).Name] = append(m[o.Input.(pIn).Name], o)
		}
		var out [][]porcupine.Operation
		for _, v := range m {
			out = append(out, v)
		}
		return out
	},
	Init: func() any { return pState{} },
	Step: func(st, in, out any) (bool, any) {
		s, i, o := st.(pState), in.(pIn), out.(pOut)
		switch i.Op {
		case "init":
			return true, pState{Slot: 1}
		case "clear":
			return true, pState{}
		case "complete":
			if s.Slot == 1 {
				return true, pState{Slot: 2, ID: i.ID}
			}
			return true, s
		case "await":
			switch o.Kind {
			case "trace":
				return s.Slot == 2 && s.ID == o.ID, s
			case "cleared":
				return s.Slot == 0, s
			case "ctx":
				return s.Slot == 1, s
			}
		}
		return false, s
	},
	Equal: func(a, b any) bool { return a == b },
}

func TestProbePorcupine(t *testing.T) {
	start := time.Now()
	illegal := 0
	for h := 0; h < 300; h++ {
		rng := rand.New(rand.NewSource(int64(h)))
		tr := &Tracer{}
		var mu sync.Mutex
		var ops []porcupine.Operation
		var wg sync.WaitGroup
		nextID := 0
		names := []string{"a", "b", "c"}[:1+rng.Intn(3)]
		for g := 0; g < 6; g++ {
			seed := rng.Int63()
			wg.Add(1)
			go func(g int) {
				defer wg.Done()
				r := rand.New(rand.NewSource(seed))
				for k := 0; k < 6; k++ {
					in := pIn{Name: names[r.Intn(len(names))]}
					var out pOut
					switch r.Intn(5) {
					case 0:
						in.Op = "init"
					case 1:
						in.Op = "clear"
					case 2:
						in.Op = "complete"
						mu.Lock(); nextID++; in.ID = nextID; mu.Unlock()
					default:
						in.Op = "await"
					}
					call := time.Since(start).Nanoseconds()
					switch in.Op {
					case "init":
						tr.Init(in.Name); out.Kind = "ok"
					case "clear":
						tr.Clear(in.Name); out.Kind = "ok"
					case "complete":
						tr.Complete(Trace{TestName: in.Name, Err: fmt.Errorf("%d", in.ID)}); out.Kind = "ok"
					case "await":
						ctx, cancel := context.WithTimeout(context.Background(), time.Duration(r.Intn(3))*time.Millisecond)
						got, err := tr.Await(ctx, in.Name)
						cancel()
						switch {
						case err == nil:
							out.Kind = "trace"; fmt.Sscanf(got.Err.Error(), "%d", &out.ID)
						case strings.Contains(err.Error(), "cleared"):
							out.Kind = "cleared"
						default:
							out.Kind = "ctx"
						}
					}
					ret := time.Since(start).Nanoseconds()
					mu.Lock()
					ops = append(ops, porcupine.Operation{ClientId: g, Input: in, Call: call, Output: out, Return: ret})
					mu.Unlock()
				}
			}(g)
		}
		wg.Wait()
		res := porcupine.CheckOperationsTimeout(pModel, ops, 10*time.Second)
		if res != porcupine.Ok {
			illegal++
			t.Logf("history %d: %v (%d ops)", h, res, len(ops))
		}
	}
	t.Logf("illegal=%d elapsed=%v", illegal, time.Since(start))
}
