package tracer

import (
	"context"
	"errors"
	"fmt"
	"io"
	"math/rand"
	"net/http"
	"sort"
	"strings"
	"sync"
	"testing"
	"time"
)

type vfColl struct {
	mu     sync.Mutex
	byName map[string][]Trace
}

func (c *vfColl) Complete(t Trace) {
	c.mu.Lock()
	defer c.mu.Unlock()
	if c.byName == nil {
		c.byName = map[string][]Trace{}
	}
	c.byName[t.TestName] = append(c.byName[t.TestName], t)
}

type vfBody struct {
	chunks [][]byte
	err    error // final error (nil => EOF)
	delay  time.Duration
	ctx    context.Context
}

func (b *vfBody) Read(p []byte) (int, error) {
	if b.delay > 0 {
		select {
		case <-time.After(b.delay):
		case <-b.ctx.Done():
			return 0, b.ctx.Err()
		}
	}
	if len(b.chunks) == 0 {
		if b.err != nil {
			return 0, b.err
		}
		return 0, io.EOF
	}
	n := copy(p, b.chunks[0])
	b.chunks[0] = b.chunks[0][n:]
	if len(b.chunks[0]) == 0 {
		b.chunks = b.chunks[1:]
	}
	return n, nil
}
func (b *vfBody) Close() error { return nil }

func TestProbeBuilderOnce(t *testing.T) {
	bad := map[string]int{}
	var badMu sync.Mutex
	note := func(k string) { badMu.Lock(); bad[k]++; badMu.Unlock() }
	coll := &vfColl{}
	var wg sync.WaitGroup
	n := 4000
	sem := make(chan struct{}, 64)
	for i := 0; i < n; i++ {
		wg.Add(1)
		sem <- struct{}{}
		go func(i int) {
			defer wg.Done()
			defer func() { <-sem }()
			r := rand.New(rand.NewSource(int64(i)))
			name := fmt.Sprintf("t%d", i)
			mode := r.Intn(4) // 0 ok, 1 transport error, 2 body error, 3 cancel race
			bodyDelay := time.Duration(r.Intn(200)) * time.Microsecond
			cancelDelay := time.Duration(r.Intn(300)) * time.Microsecond
			closeBody := r.Intn(2) == 0
			rt := TracingRoundTripper(roundTripperFunc(func(req *http.Request) (*http.Response, error) {
				if req.Body != nil {
					io.Copy(io.Discard, req.Body)
					req.Body.Close()
				}
				if mode == 1 {
					return nil, errors.New("dial failed")
				}
				var berr error
				if mode == 2 {
					berr = errors.New("reset")
				}
				return &http.Response{StatusCode: 200, Proto: "HTTP/1.1", ProtoMajor: 1, ProtoMinor: 1, Header: http.Header{"Content-Type": {"application/connect+proto"}},
					Body: &vfBody{chunks: [][]byte{{0, 0, 0, 0, 2, 1}, {2, 2, 0, 0, 0, 2, '{', '}'}}, err: berr, delay: bodyDelay, ctx: req.Context()}}, nil
			}), coll)
			ctx, cancel := context.WithCancel(context.Background())
			req, _ := http.NewRequestWithContext(ctx, "POST", "http://x/y", strings.NewReader("abc"))
			req.Header.Set("X-Test-Case-Name", name)
			req.Header.Set("Content-Type", "application/connect+proto")
			if mode == 3 {
				go func() { time.Sleep(cancelDelay); cancel() }()
			}
			resp, err := rt.RoundTrip(req)
			if err == nil {
				io.Copy(io.Discard, resp.Body)
				if closeBody {
					resp.Body.Close()
				}
			}
			cancel()
		}(i)
	}
	wg.Wait()
	time.Sleep(50 * time.Millisecond)
	coll.mu.Lock()
	defer coll.mu.Unlock()
	for i := 0; i < n; i++ {
		ts := coll.byName[fmt.Sprintf("t%d", i)]
		if len(ts) != 1 {
			note(fmt.Sprintf("complete-count=%d", len(ts)))
			continue
		}
		// terminal event must be last
		evs := ts[0].Events
		for j, e := range evs {
			term := false
			switch e := e.(type) {
			case *ResponseBodyEnd, *ResponseError, *RequestCanceled:
				term = true
			case *RequestBodyEnd:
				term = e.Err != nil
			}
			if term && j != len(evs)-1 {
				note(fmt.Sprintf("event after terminal %T", e))
			}
			if j == len(evs)-1 && !term {
				note(fmt.Sprintf("last event not terminal: %T", e))
			}
		}
	}
	var ks []string
	for k := range bad {
		ks = append(ks, k)
	}
	sort.Strings(ks)
	t.Logf("ops=%d", n)
	for _, k := range ks {
		t.Logf("%5d %s", bad[k], k)
	}
}
