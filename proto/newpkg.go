package verifprobe

import "connectrpc.com/conformance/internal/grpcutil"

func Enc(s string) string { return grpcutil.PercentEncodeMessage(s) }
