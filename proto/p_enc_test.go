//go:build verif

package referenceserver

import (
	"errors"
	"math/rand"
	"net/http"
	"strings"
	"testing"

	"connectrpc.com/conformance/internal"
	"connectrpc.com/conformance/internal/app/referenceclient"
	conformancev1 "connectrpc.com/conformance/internal/gen/proto/go/connectrpc/conformance/v1"
	"connectrpc.com/connect"
)

func TestProbeEncodersVsValidators(t *testing.T) {
	r := rand.New(rand.NewSource(9))
	msgs := []string{"", "plain", "100% sure", "ünïcödé ✓", "tab\tnl\ncr\r", "%41", " lead", "trail ", "\x00\x01\x7f", strings.Repeat("x", 500), "\xff\xfe invalid utf8"}
	bad := map[string]int{}
	n := 0
	for code := connect.Code(1); code <= 16; code++ {
		for _, m := range msgs {
			for nd := 0; nd <= 2; nd++ {
				n++
				ce := connect.NewError(code, errors.New(m))
				for i := 0; i < nd; i++ {
					d, err := connect.NewErrorDetail(&conformancev1.Header{Name: "d", Value: []string{m}})
					if err == nil {
						ce.AddDetail(d)
					}
				}
				var trailers []*conformancev1.Header
				for k := r.Intn(3); k > 0; k-- {
					trailers = append(trailers, &conformancev1.Header{Name: "X-Custom-" + string(rune('a'+k)), Value: []string{"v1", "v 2"}})
				}
				// gRPC-Web end-stream block
				p := &internal.SimplePrinter{}
				block := grpcWebStatusEndStream(ce, trailers)
				hdrs := referenceclient.VerifExamineGRPCEndStream(block, p)
				referenceclient.VerifCheckGRPCStatus(hdrs, p)
				if len(p.Messages) > 0 {
					key := "grpcweb: " + p.Messages[0]
					if len(key) > 150 {
						key = key[:150]
					}
					bad[key]++
				}
				// gRPC trailers
				p = &internal.SimplePrinter{}
				h := http.Header{}
				internal.AddHeaders(grpcStatusTrailers(ce), h)
				referenceclient.VerifCheckGRPCStatus(h, p)
				if len(p.Messages) > 0 {
					key := "grpc: " + p.Messages[0]
					if len(key) > 150 {
						key = key[:150]
					}
					bad[key]++
				}
			}
		}
	}
	t.Logf("n=%d", n)
	for k, v := range bad {
		t.Logf("%4d %q", v, k)
	}
}
