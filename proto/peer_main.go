package main

import (
	"context"
	"encoding/json"
	"fmt"
	"os"
	"os/signal"
	"syscall"

	"connectrpc.com/conformance/internal/app/referenceserver"
	"golang.org/x/sys/unix"
)

func mono() int64 {
	var ts unix.Timespec
	unix.ClockGettime(unix.CLOCK_MONOTONIC, &ts)
	return ts.Nano()
}

func logEv(ev string, extra map[string]any) {
	m := map[string]any{"t": mono(), "pid": os.Getpid(), "ev": ev}
	for k, v := range extra {
		m[k] = v
	}
	b, _ := json.Marshal(m)
	f, err := os.OpenFile(os.Getenv("VERIF_EVENTLOG"), os.O_APPEND|os.O_WRONLY|os.O_CREATE, 0o644)
	if err != nil {
		return
	}
	f.Write(append(b, '\n'))
	f.Close()
}

func main() {
	logEv("server_start", nil)
	ctx, cancel := signal.NotifyContext(context.Background(), syscall.SIGTERM, syscall.SIGINT)
	defer cancel()
	go func() {
		<-ctx.Done()
		logEv("server_sigterm", nil)
	}()
	err := referenceserver.Run(ctx, []string{"refserver"}, os.Stdin, os.Stdout, os.Stderr)
	logEv("server_exit", map[string]any{"err": fmt.Sprint(err)})
}
