package main

import (
	"fmt"
	"math/rand"
	"os"
	"strconv"

	conformancev1 "connectrpc.com/conformance/internal/gen/proto/go/connectrpc/conformance/v1"
	"google.golang.org/protobuf/encoding/protojson"
	"google.golang.org/protobuf/proto"
	"google.golang.org/protobuf/types/known/anypb"
)

var r *rand.Rand

func pick[T any](xs ...T) T { return xs[r.Intn(len(xs))] }

func payload() []byte {
	switch r.Intn(5) {
	case 0:
		return nil
	case 1:
		return []byte{0}
	case 2:
		b := make([]byte, 256)
		for i := range b {
			b[i] = byte(i)
		}
		return b
	case 3:
		b := make([]byte, 4096)
		r.Read(b)
		return b
	}
	return []byte("hello")
}

func headers(prefix string) []*conformancev1.Header {
	var out []*conformancev1.Header
	n := r.Intn(4)
	for i := 0; i < n; i++ {
		name := fmt.Sprintf("%s-%s-%d", pick("X", "x", "X-Mixed", "x-lower"), prefix, i)
		var vals []string
		for k := 1 + r.Intn(3); k > 0; k-- {
			vals = append(vals, pick("a", "Value With Spaces", "v,with,commas", "", "z=1; q=\"x\"", "~!@#$%^&*()"))
		}
		if r.Intn(4) == 0 {
			name += "-bin"
			vals = []string{pick("AAEC", "aGVsbG8", "")}
		}
		out = append(out, &conformancev1.Header{Name: name, Value: vals})
	}
	return out
}

func perr() *conformancev1.Error {
	e := &conformancev1.Error{Code: conformancev1.Code(1 + r.Intn(16))}
	switch r.Intn(6) {
	case 0:
	case 1:
		e.Message = proto.String("")
	case 2:
		e.Message = proto.String("plain ascii message")
	case 3:
		e.Message = proto.String("ünïcödé ✓ message")
	case 4:
		e.Message = proto.String("100% sure\tit's: \"quoted\"\nnewline")
	case 5:
		e.Message = proto.String("trailing percent %")
	}
	for k := r.Intn(3); k > 0; k-- {
		d, _ := anypb.New(&conformancev1.Header{Name: "detail", Value: []string{strconv.Itoa(k)}})
		e.Details = append(e.Details, d)
	}
	return e
}

func main() {
	seed, _ := strconv.Atoi(os.Args[1])
	n, _ := strconv.Atoi(os.Args[2])
	r = rand.New(rand.NewSource(int64(seed)))
	suite := &conformancev1.TestSuite{Name: fmt.Sprintf("Gen%d", seed)}
	for i := 0; i < n; i++ {
		st := conformancev1.StreamType(1 + r.Intn(5))
		req := &conformancev1.ClientCompatRequest{TestName: fmt.Sprintf("%s/case-%d", st.String()[12:], i), StreamType: st, RequestHeaders: headers("req")}
		var msgs []proto.Message
		switch st {
		case 1: // unary
			def := &conformancev1.UnaryResponseDefinition{ResponseHeaders: headers("rh"), ResponseTrailers: headers("rt")}
			switch r.Intn(3) {
			case 0:
				def.Response = &conformancev1.UnaryResponseDefinition_ResponseData{ResponseData: payload()}
			case 1:
				def.Response = &conformancev1.UnaryResponseDefinition_Error{Error: perr()}
			}
			m := &conformancev1.UnaryRequest{RequestData: payload()}
			if r.Intn(5) != 0 {
				m.ResponseDefinition = def
			}
			msgs = append(msgs, m)
		case 2: // client stream
			for k := r.Intn(4); k > 0; k-- {
				m := &conformancev1.ClientStreamRequest{RequestData: payload()}
				if len(msgs) == 0 && r.Intn(5) != 0 {
					def := &conformancev1.UnaryResponseDefinition{ResponseHeaders: headers("rh"), ResponseTrailers: headers("rt")}
					switch r.Intn(3) {
					case 0:
						def.Response = &conformancev1.UnaryResponseDefinition_ResponseData{ResponseData: payload()}
					case 1:
						def.Response = &conformancev1.UnaryResponseDefinition_Error{Error: perr()}
					}
					m.ResponseDefinition = def
				}
				msgs = append(msgs, m)
			}
		case 3: // server stream
			m := &conformancev1.ServerStreamRequest{RequestData: payload()}
			if r.Intn(5) != 0 {
				def := &conformancev1.StreamResponseDefinition{ResponseHeaders: headers("rh"), ResponseTrailers: headers("rt")}
				for k := r.Intn(4); k > 0; k-- {
					def.ResponseData = append(def.ResponseData, payload())
				}
				if r.Intn(2) == 0 {
					def.Error = perr()
				}
				m.ResponseDefinition = def
			}
			msgs = append(msgs, m)
		case 4, 5:
			nreq := r.Intn(4)
			for k := 0; k < nreq; k++ {
				m := &conformancev1.BidiStreamRequest{RequestData: payload(), FullDuplex: st == 5}
				if k == 0 && r.Intn(5) != 0 {
					def := &conformancev1.StreamResponseDefinition{ResponseHeaders: headers("rh"), ResponseTrailers: headers("rt")}
					nresp := r.Intn(4)
					if st == 5 && nresp > nreq {
						nresp = nreq // avoid known panic (item 1)
					}
					for j := 0; j < nresp; j++ {
						def.ResponseData = append(def.ResponseData, payload())
					}
					if r.Intn(2) == 0 {
						def.Error = perr()
					}
					m.ResponseDefinition = def
				}
				msgs = append(msgs, m)
			}
		}
		for _, m := range msgs {
			a, _ := anypb.New(m)
			req.RequestMessages = append(req.RequestMessages, a)
		}
		suite.TestCases = append(suite.TestCases, &conformancev1.TestCase{Request: req})
	}
	data, err := protojson.MarshalOptions{Multiline: true}.Marshal(suite)
	if err != nil {
		panic(err)
	}
	os.Stdout.Write(data)
}
