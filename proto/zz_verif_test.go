package connectconformance

import (
	"testing"
	"github.com/anishathalye/porcupine"
)

func TestVerifProbe(t *testing.T) {
	tt := parsePatterns([]string{"a/**/**"})
	t.Logf("match a: %v", tt.matchPattern("a"))
	t.Logf("match a/b: %v", tt.matchPattern("a/b"))
	_ = porcupine.Ok
}
