package referenceserver

import (
	"net/http"
	"testing"
	"connectrpc.com/conformance/internal"
	conformancev1 "connectrpc.com/conformance/internal/gen/proto/go/connectrpc/conformance/v1"
)

func TestProbeTimeout(t *testing.T) {
	for _, v := range []string{"+5", "-0", "000000000005", "12345678901", "5", ""} {
		p := &internal.SimplePrinter{}
		h := http.Header{}
		h.Set("Connect-Timeout-Ms", v)
		d, ok := extractTimeout(h, conformancev1.Protocol_PROTOCOL_CONNECT, &feedbackPrinter{p: p, testCaseName: "t"})
		t.Logf("connect %q -> %v %v fb=%q", v, d, ok, p.Messages)
	}
	for _, v := range []string{"+5S", "-0m", "0000000005S", "123456789S", "5S", "5", "S", "99999999H"} {
		p := &internal.SimplePrinter{}
		h := http.Header{}
		h.Set("Grpc-Timeout", v)
		d, ok := extractTimeout(h, conformancev1.Protocol_PROTOCOL_GRPC, &feedbackPrinter{p: p, testCaseName: "t"})
		t.Logf("grpc %q -> %v %v fb=%q", v, d, ok, p.Messages)
	}
}
