package connectconformance

import (
	"bytes"
	"context"
	"errors"
	"fmt"
	"io"
	"sort"
	"strings"
	"sync"
	"testing"
	"time"

	"connectrpc.com/conformance/internal"
	conformancev1 "connectrpc.com/conformance/internal/gen/proto/go/connectrpc/conformance/v1"
)

type vfCtl struct {
	mu      sync.Mutex
	done    chan struct{}
	err     error
	aborts  int
	onAbort func()
}

func (f *vfCtl) result() error { <-f.done; return f.err }
func (f *vfCtl) abort() {
	f.mu.Lock()
	f.aborts++
	cb := f.onAbort
	f.mu.Unlock()
	if cb != nil {
		cb()
	}
}
func (f *vfCtl) whenDone(fn func(error)) { go func() { <-f.done; fn(f.err) }() }
func (f *vfCtl) finish(err error) {
	f.mu.Lock()
	defer f.mu.Unlock()
	select {
	case <-f.done:
	default:
		f.err = err
		close(f.done)
	}
}

type vfNopWC struct{ io.Writer }

func (vfNopWC) Close() error { return nil }

type vfErrWC struct{ after int }

func (e *vfErrWC) Write(p []byte) (int, error) {
	if e.after <= 0 {
		return 0, errors.New("stdin broken")
	}
	e.after -= len(p)
	return len(p), nil
}
func (e *vfErrWC) Close() error { return nil }

// scripted client runner
type vfClient struct {
	mu       sync.Mutex
	failAt   int // sendRequest index that fails (-1 none)
	sent     int
	pending  []func()
	onSend   func(i int)
	answerFn func(name string) (*conformancev1.ClientCompatResponse, error)
	async    bool
}

func (c *vfClient) sendRequest(req *conformancev1.ClientCompatRequest, whenDone func(string, *conformancev1.ClientCompatResponse, error)) error {
	c.mu.Lock()
	i := c.sent
	c.sent++
	c.mu.Unlock()
	if c.onSend != nil {
		c.onSend(i)
	}
	if i == c.failAt {
		return errors.New("client pipe broken")
	}
	fire := func() {
		resp, err := c.answerFn(req.TestName)
		whenDone(req.TestName, resp, err)
	}
	if c.async {
		c.mu.Lock()
		c.pending = append(c.pending, fire)
		c.mu.Unlock()
		go func() { time.Sleep(time.Millisecond); c.flushOne() }()
	} else {
		fire()
	}
	return nil
}
func (c *vfClient) flushOne() {
	c.mu.Lock()
	var f func()
	if len(c.pending) > 0 {
		f = c.pending[0]
		c.pending = c.pending[1:]
	}
	c.mu.Unlock()
	if f != nil {
		f()
	}
}
func (c *vfClient) closeSend()              {}
func (c *vfClient) waitForResponses() error { return nil }
func (c *vfClient) isRunning() bool         { return true }
func (c *vfClient) stop()                   {}

func TestProbeServerRunner(t *testing.T) {
	var respBuf bytes.Buffer
	internal.WriteDelimitedMessage(&respBuf, &conformancev1.ServerCompatResponse{Host: "127.0.0.1", Port: 1234})
	good := respBuf.Bytes()
	viol := map[string]int{}
	count := 0
	check := func(label string, n int, useTLS bool, stdout []byte, startErr error, stdinErrAfter int, dieAfter int, clientFailAt int, async bool) {
		count++
		var cases []*conformancev1.TestCase
		for i := 0; i < n; i++ {
			cases = append(cases, &conformancev1.TestCase{Request: &conformancev1.ClientCompatRequest{TestName: fmt.Sprintf("S/c%d", i)}, ExpectedResponse: &conformancev1.ClientResponseResult{}})
		}
		results := newResults(n, &testTrie{}, &testTrie{}, nil)
		ctl := &vfCtl{done: make(chan struct{})}
		ctl.onAbort = func() { ctl.finish(nil) }
		var stdin io.WriteCloser = vfNopWC{io.Discard}
		if stdinErrAfter >= 0 {
			stdin = &vfErrWC{after: stdinErrAfter}
		}
		pr, pw := io.Pipe()
		go func() { pw.Write(stdout); if !bytes.Equal(stdout, good) { pw.Close(); return }; <-ctl.done; pw.Close() }()
		start := func(ctx context.Context, _ bool) (*process, error) {
			if startErr != nil {
				return nil, startErr
			}
			return &process{processController: ctl, stdin: stdin, stdout: pr, stderr: strings.NewReader("")}, nil
		}
		answered := map[string]bool{}
		var amu sync.Mutex
		client := &vfClient{failAt: clientFailAt, async: async}
		client.onSend = func(i int) {
			if dieAfter >= 0 && i == dieAfter {
				ctl.finish(errors.New("server died"))
				time.Sleep(2 * time.Millisecond) // let whenDone propagate
			}
		}
		client.answerFn = func(name string) (*conformancev1.ClientCompatResponse, error) {
			amu.Lock()
			answered[name] = true
			amu.Unlock()
			return &conformancev1.ClientCompatResponse{TestName: name, Result: &conformancev1.ClientCompatResponse_Response{Response: &conformancev1.ClientResponseResult{}}}, nil
		}
		doneCh := make(chan struct{})
		go func() {
			defer close(doneCh)
			runTestCasesForServer(context.Background(), false, false, serverInstance{useTLS: useTLS, protocol: 1, httpVersion: 1}, cases, &conformancev1.TLSCreds{Cert: []byte("c"), Key: []byte("k")}, nil, start, &internal.SimplePrinter{}, &internal.SimplePrinter{}, results, client, nil, false)
		}()
		select {
		case <-doneCh:
		case <-time.After(40 * time.Second):
			viol[label+": HUNG"]++
			return
		}
		// quiescence: flush pending callbacks
		for i := 0; i < n+2; i++ {
			client.flushOne()
		}
		time.Sleep(3 * time.Millisecond)
		results.mu.Lock()
		defer results.mu.Unlock()
		if len(results.outcomes) != n {
			viol[fmt.Sprintf("%s: outcomes=%d want %d", label, len(results.outcomes), n)]++
		}
		for _, tc := range cases {
			o, ok := results.outcomes[tc.Request.TestName]
			if !ok {
				continue
			}
			amu.Lock()
			was := answered[tc.Request.TestName]
			amu.Unlock()
			if was && (o.actualFailure != nil || o.setupError) {
				viol[label+": answered case lost its verdict"]++
			}
			if !was && o.actualFailure == nil {
				viol[label+": unanswered case recorded as pass"]++
			}
		}
		if startErr == nil && ctl.aborts == 0 {
			viol[label+": server never asked to stop"]++
		}
	}
	for n := 1; n <= 4; n++ {
		check("normal", n, false, good, nil, -1, -1, -1, false)
		check("normal-async", n, false, good, nil, -1, -1, -1, true)
		check("start-error", n, false, good, errors.New("nope"), -1, -1, -1, false)
		check("tls-missing-cert", n, true, good, nil, -1, -1, -1, false)
		for b := 0; b < 12; b += 3 {
			check("stdin-write-error", n, false, good, nil, b, -1, -1, false)
		}
		for cut := 0; cut < len(good); cut++ {
			check("stdout-truncated", n, false, good[:cut], nil, -1, -1, -1, false)
		}
		check("stdout-oversize", n, false, []byte{0x7f, 0xff, 0xff, 0xff}, nil, -1, -1, -1, false)
		check("stdout-garbage", n, false, []byte{0, 0, 0, 2, 0xff, 0xff}, nil, -1, -1, -1, false)
		for k := 0; k < n; k++ {
			for _, async := range []bool{false, true} {
				check(fmt.Sprintf("server-dies async=%v", async), n, false, good, nil, -1, k, -1, async)
				check(fmt.Sprintf("client-send-fails async=%v", async), n, false, good, nil, -1, -1, k, async)
			}
		}
	}
	var ks []string
	for k := range viol {
		ks = append(ks, k)
	}
	sort.Strings(ks)
	t.Logf("scenarios=%d", count)
	for _, k := range ks {
		t.Logf("%5d %s", viol[k], k)
	}
}
