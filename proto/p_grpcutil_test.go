package grpcutil

import (
	"testing"
	conformancev1 "connectrpc.com/conformance/internal/gen/proto/go/connectrpc/conformance/v1"
)

func TestProbeMD(t *testing.T) {
	md := ConvertProtoHeaderToMetadata([]*conformancev1.Header{{Name: "X-A", Value: []string{"1"}}, {Name: "x-a", Value: []string{"2"}}})
	t.Logf("md=%v", md)
}
