package tracer

import (
	"bytes"
	"net"
	"testing"
	"time"
	"compress/gzip"

	"golang.org/x/net/http2"
	"golang.org/x/net/http2/hpack"
)

type fakeConn struct{ net.Conn; r *bytes.Reader }
func (f *fakeConn) Read(p []byte) (int, error) { return f.r.Read(p) }
func (f *fakeConn) Write(p []byte) (int, error) { return len(p), nil }
func (f *fakeConn) Close() error { return nil }

type coll struct{ traces []Trace }
func (c *coll) Complete(t Trace) { c.traces = append(c.traces, t) }

func hdrs(enc *hpack.Encoder, buf *bytes.Buffer, kv ...string) []byte {
	buf.Reset()
	for i := 0; i < len(kv); i += 2 { enc.WriteField(hpack.HeaderField{Name: kv[i], Value: kv[i+1]}) }
	return append([]byte(nil), buf.Bytes()...)
}

func TestProbeH2NoName(t *testing.T) {
	defer func() { t.Logf("recovered: %v", recover()) }()
	// client-side conn: writes are requests, reads are responses
	var wire bytes.Buffer
	fr := http2.NewFramer(&wire, nil)
	var hb bytes.Buffer
	enc := hpack.NewEncoder(&hb)
	fr.WriteHeaders(http2.HeadersFrameParam{StreamID: 1, BlockFragment: hdrs(enc, &hb, ":status", "200", "content-type", "application/grpc"), EndHeaders: true})
	fr.WriteHeaders(http2.HeadersFrameParam{StreamID: 1, BlockFragment: hdrs(enc, &hb, "grpc-status", "0"), EndHeaders: true, EndStream: true})
	c := &coll{}
	conn := TracingHTTP2Conn(&fakeConn{r: bytes.NewReader(wire.Bytes())}, false, c)
	var req bytes.Buffer
	req.WriteString(clientPreface)
	fw := http2.NewFramer(&req, nil)
	var hb2 bytes.Buffer
	enc2 := hpack.NewEncoder(&hb2)
	fw.WriteHeaders(http2.HeadersFrameParam{StreamID: 1, BlockFragment: hdrs(enc2, &hb2, ":method", "POST", ":path", "/x", ":scheme", "http", ":authority", "a"), EndHeaders: true, EndStream: true})
	conn.Write(req.Bytes())
	buf := make([]byte, 4096)
	for { n, err := conn.Read(buf); if n == 0 || err != nil { break } }
	t.Logf("traces=%d", len(c.traces))
}

func TestProbeEndStream(t *testing.T) {
	c := &coll{}
	b := &builder{collector: c, start: time.Now(), trace: Trace{TestName: "x"}}
	var gz bytes.Buffer
	zw := gzip.NewWriter(&gz); zw.Write([]byte(`{"error":{"code":"internal"}}`)); zw.Close()
	for _, tc := range []struct{ name, enc string; flags byte; payload []byte }{
		{"gzip-negotiated, uncompressed endstream", "gzip", 0x02, []byte(`{}`)},
		{"gzip-negotiated, compressed endstream", "gzip", 0x03, gz.Bytes()},
		{"identity, compressed flag set but not negotiated", "", 0x03, gz.Bytes()},
	} {
		d := dataTracer{isStreamProtocol: true, decompressor: GetDecompressor(tc.enc), builder: b}
		n := len(b.trace.Events)
		msg := append([]byte{tc.flags, 0, 0, 0, byte(len(tc.payload))}, tc.payload...)
		d.trace(msg)
		for _, ev := range b.trace.Events[n:] {
			if es, ok := ev.(*ResponseBodyEndStream); ok { t.Logf("%s: endstream content=%q", tc.name, es.Content) } else { t.Logf("%s: event %T", tc.name, ev) }
		}
	}
}
