#!/bin/bash
# usage: try_seed.sh <ID> <patch.diff> [tier]  - apply a seeded change to /repo, run the check, undo it.
set -u
ID=$1; PATCH=$2; TIER=${3:-quick}
cd /repo || exit 9
if ! git diff --quiet; then echo "repo dirty"; exit 9; fi
if ! git apply --3way "$PATCH" 2>/tmp/try_seed_apply.err; then
  git reset -q --hard HEAD
  if ! patch -p1 --fuzz=3 -l -s < "$PATCH"; then echo "PATCH DOES NOT APPLY"; git reset -q --hard HEAD; git clean -fdq; exit 8; fi
fi
git reset -q   # unstage what --3way staged
cd /verif && ./check "$ID" "$TIER" 2>&1 | grep -v "^  violation" | tail -${LINES_OUT:-8}
rc=${PIPESTATUS[0]}
git -C /repo checkout -- . && git -C /repo clean -fdq
echo "exit=$rc"
