#!/usr/bin/env python3
"""Prints the markdown table of DESIGN.md section 8 from seeded/*/meta.json and notes.md."""
import json, os, re
TITLES = {
    "C01-a": "grpcserver `ServerStream` sleeps the response delay after each send instead of before it (first response no longer delayed)",
    "C13-a": "gRPC-Web trailer values trimmed with `TrimSpace` (VT/FF/CR at the value's edge no longer flagged)",
    "C13-b": "`PercentEncodeMessage` fast path forgets that `%` itself must be escaped",
    "C13-c": "compressed end-of-stream message arriving in two or more reads is not captured (examiner never runs)",
    "C13-e": "`examineWireDetails`: the guard of the \"HTTP trailers only in gRPC\" check simplified so that `application/grpc+...` sub-formats fall on the wrong side",
    "C13-f": "debug data in Any JSON form: the message name is taken from behind the first slash of the type URL, not the last",
    "C13-g": "gRPC-Web trailer block parser: obsolete-line-folding branch rewritten; a folded line after blank lines is mishandled",
    "C13-h": "Connect error `code` validated with `connect.Code.UnmarshalText` (accepts numbered forms the hand-written check refused)",
    "C13-i": "reference server's gRPC-Web trailer block encoder writes field names as given instead of lower-cased",
    "C13-j": "`tracer.GetDecompressor` switch rewritten over name constants: one encoding name maps to the wrong decompressor",
    "C13-k": "`checkGRPCStatus`: a grpc-message that is present but empty is no longer compared with the message inside grpc-status-details-bin",
    "C13-l": "`tracer.GetDecompressor` returns one process-wide zstd decompressor instead of a fresh one per caller",
    "C13-m": "capture buffer for unary Connect error bodies comes from a sync.Pool and is never reset: leftovers of a body the examiner gave up on prefix the next one",
    "C13-n": "`ShouldEscapeByteInMessage` bound changed to `>= utf8.RuneSelf`: 0x7F is neither escaped nor flagged",
    "C13-d": "a trailer name announced but never sent makes a gRPC trailers-only response look like it had trailers",
}
rows = []
for d in sorted(os.listdir("/verif/seeded")):
    p = os.path.join("/verif/seeded", d)
    if not os.path.exists(p + "/meta.json"):
        continue
    m = json.load(open(p + "/meta.json"))
    title = TITLES.get(d)
    if not title and os.path.exists(p + "/notes.md"):
        for l in open(p + "/notes.md"):
            if l.strip():
                title = re.sub(r"^#\s*C\d\d\s*/\s*(change\s*)?[a-z]\s*[-—–]*\s*", "", l.strip())
                break
    det = m.get("detected_by")
    if isinstance(det, list) and det:
        by = "; ".join("%s %s: `%s`" % (c["check"], c["tier"], (c.get("violation_keys") or ["?"])[0]) for c in det)
    elif isinstance(det, str):
        by = det
    else:
        by = "**not detected**"
    rows.append("| %s | %s | %s |" % (d, (title or "").replace("|", "\\|"), by.replace("|", "\\|")))
print("| seeded change | what it breaks (sub-agent's summary) | caught by (check, tier: first violation key) |")
print("|---|---|---|")
print("\n".join(rows))
