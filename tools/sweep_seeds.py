#!/usr/bin/env python3
"""Runs each kept seeded change against its property's quick check (in a scratch worktree, via VERIF_REPO)
and records in seeded/<id>/meta.json which check caught it. usage: sweep_seeds.py [ID ...] [--also C10,C18]"""
import concurrent.futures as cf, json, os, re, subprocess, sys, shutil

ENV = dict(os.environ, GOFLAGS="-mod=mod", GOPROXY="off", GOSUMDB="off", GOTOOLCHAIN="local")
HEAD = subprocess.check_output(["git", "-C", "/repo", "rev-parse", "HEAD"]).decode().strip()
EXTRA = {"C11-a": ["C10"], "C10-b": ["C09"], "C02-a": ["C03"], "C02-b": ["C18"], "C13-b": ["C18"], "C20-b": ["C17"], "C14-d": ["C16"], "C10-d": ["C09"], "C04-d": ["C05"], "C13-c": ["C14"], "C05-c": ["C04"], "C04-f": ["C11"], "C11-e": ["C10"], "C08-g": ["C05"], "C14-g": ["C20"], "C09-g": ["C10"], "C05-h": ["C10"], "C02-g": ["C13"], "C08-i": ["C04"], "C05-i": ["C07"], "C13-j": ["C20"], "C09-i": ["C11"], "C20-j": ["C12"], "C04-i": ["C11"], "C02-i": ["C13"], "C02-j": ["C13"], "C04-k": ["C11"], "C04-l": ["C11"], "C05-k": ["C11"], "C05-l": ["C04"], "C09-k": ["C10"], "C11-k": ["C05", "C04"], "C12-k": ["C05", "C01"], "C13-l": ["C20", "C15"], "C15-l": ["C16"], "C16-k": ["C15"], "C14-l": ["C13"], "C01-l": ["C12"], "C02-k": ["C01"], "C02-l": ["C07"], "C20-l": ["C17"], "C19-l": ["C01"], "C04-m": ["C11", "C13"], "C04-n": ["C05"], "C13-n": ["C18"], "C17-m": ["C20"], "C18-n": ["C17"], "C16-n": ["C04"], "C12-n": ["C01"], "C11-n": ["C05"], "C20-n": ["C13"], "C19-m": ["C01"], "C12-m": ["C01"]}


def sh(cmd, cwd, env=ENV, timeout=3600):
    p = subprocess.run(cmd, shell=True, cwd=cwd, env=env, stdout=subprocess.PIPE, stderr=subprocess.STDOUT, timeout=timeout)
    return p.returncode, p.stdout.decode(errors="replace")


def one_property(pid):
    out = []
    wt = "/tmp/wts/%s" % pid
    os.makedirs("/tmp/wts", exist_ok=True)
    if not os.path.isdir(wt):
        sh("git -C /repo worktree add --detach %s %s" % (wt, HEAD), "/")
    for v in os.environ.get("SEED_VARIANTS", "a,b").split(","):
        d = "/verif/seeded/%s-%s" % (pid, v)
        if not os.path.exists(d + "/patch.diff"):
            continue
        sh("git checkout -q -- . && git clean -fdq && git checkout -q --detach %s" % HEAD, wt)
        rc, o = sh("(git apply --3way %s/patch.diff && git reset -q) || (git reset -q --hard HEAD && patch -p1 --fuzz=3 -l -s < %s/patch.diff && find . -name '*.orig' -delete)" % (d, d), wt)
        meta = json.load(open(d + "/meta.json"))
        if rc != 0:
            meta["detected_by"] = "PATCH NO LONGER APPLIES on " + HEAD[:7]
            json.dump(meta, open(d + "/meta.json", "w"), indent=1)
            out.append((pid, v, "no-apply", ""))
            continue
        caught = []
        tried = []
        for chk in [pid] + EXTRA.get("%s-%s" % (pid, v), []):
            env = dict(ENV, VERIF_REPO=wt, VERIF_SEED="1")
            rc, o = sh("./check %s quick" % chk, "/verif", env)
            tried.append(chk)
            keys = sorted(set(re.findall(r"^  violation ([^:]+):", o, re.M)))
            if rc == 1 and "VIOLATION property=" in o:
                caught.append({"check": chk, "tier": "quick", "seed": 1, "violation_keys": keys[:6]})
                if chk == pid:
                    break
        meta["detected_by"] = caught or None
        meta["checks_run_against_it"] = tried
        json.dump(meta, open(d + "/meta.json", "w"), indent=1)
        out.append((pid, v, "CAUGHT by " + ",".join(c["check"] for c in caught) if caught else "MISSED", ""))
        sh("git checkout -q -- . && git clean -fdq", wt)
    sh("git -C /repo worktree remove --force %s" % wt, "/")
    return out


def main():
    ids = [a for a in sys.argv[1:] if not a.startswith("--")] or sorted(set(x.split("-")[0] for x in os.listdir("/verif/seeded") if "-" in x))
    with cf.ThreadPoolExecutor(int(os.environ.get("SWEEP_WORKERS", "3"))) as ex:
        for res in ex.map(one_property, ids):
            for r in res:
                print(*r, flush=True)


main()
