#!/bin/bash
# usage: try_seed_wt.sh <ID> <patch.diff> [tier] - apply a seeded change in a scratch worktree of /repo (never /repo itself),
# run the check against it (VERIF_REPO), remove the worktree. Evidence of such runs goes to /tmp/verif-alt-evidence.
set -u
ID=$1; PATCH=$(readlink -f "$2"); TIER=${3:-quick}
WT=/tmp/wts/try-$ID-$$
mkdir -p /tmp/wts
git -C /repo worktree add -q --detach "$WT" HEAD || exit 9
cd "$WT" || exit 9
if ! git apply --3way "$PATCH" 2>/dev/null; then
  git reset -q --hard HEAD
  if ! patch -p1 --fuzz=3 -l -s < "$PATCH"; then echo "PATCH DOES NOT APPLY"; cd /; git -C /repo worktree remove --force "$WT"; exit 8; fi
  find . -name '*.orig' -delete
fi
git reset -q
cd /verif && VERIF_REPO="$WT" ./check "$ID" "$TIER" 2>&1 | grep -v "^  violation" | tail -${LINES_OUT:-8}
rc=${PIPESTATUS[0]}
cd /; git -C /repo worktree remove --force "$WT"
echo "exit=$rc"
