#!/usr/bin/env python3
"""Confirms seeded changes produced by sub-agents: in the scratch worktree /tmp/wt/<ID> (reset to /repo's HEAD)
the patch applies, the tree builds, the unedited suite passes, the demo fails with the patch and passes without.
Confirmed changes are copied to /verif/seeded/<ID>-<v>/ with a meta.json.  usage: confirm_seeds.py [ID ...]"""
import json, os, shutil, subprocess, sys, time

ENV = dict(os.environ, GOFLAGS="-mod=mod", GOPROXY="off", GOSUMDB="off", GOTOOLCHAIN="local")


def sh(cmd, cwd, timeout=1500):
    try:
        p = subprocess.run(cmd, shell=True, cwd=cwd, env=ENV, stdout=subprocess.PIPE, stderr=subprocess.STDOUT, timeout=timeout)
        return p.returncode, p.stdout.decode(errors="replace")
    except subprocess.TimeoutExpired as e:
        return 124, (e.stdout or b"").decode(errors="replace") + "\nTIMEOUT"


def main():
    base = os.environ.get("SEED_BASE", "/tmp/seed")
    variants = os.environ.get("SEED_VARIANTS", "a,b").split(",")
    ids = sys.argv[1:] or sorted(os.listdir(base))
    head = subprocess.check_output(["git", "-C", "/repo", "rev-parse", "HEAD"]).decode().strip()
    for pid in ids:
        for v in variants:
            d = "%s/%s/%s" % (base, pid, v)
            if not os.path.exists(d + "/patch.diff"):
                continue
            dst = "/verif/seeded/%s-%s" % (pid, v)
            if os.path.exists(dst + "/meta.json"):
                continue
            wt = "/tmp/wt/%s" % pid
            if not os.path.isdir(wt):
                subprocess.run(["git", "-C", "/repo", "worktree", "add", "--detach", wt, head], stdout=subprocess.DEVNULL, stderr=subprocess.DEVNULL)
            sh("git checkout -q -- . && git clean -fdq && git checkout -q --detach %s" % head, wt)
            res = {"id": pid, "variant": v, "base": head}
            rc, out = sh("(git apply --3way %s/patch.diff && git reset -q) || (git reset -q --hard HEAD && patch -p1 --fuzz=3 -l -s < %s/patch.diff && find . -name '*.orig' -delete)" % (d, d), wt)
            res["applies"] = rc == 0
            if rc != 0:
                res["apply_output"] = out[-2000:]
            else:
                rc, out = sh("go build ./... && go test -vet=off -count=1 ./... 2>&1 | tail -15", wt)
                res["suite_green_with_patch"] = rc == 0 and "FAIL" not in out
                res["suite_tail"] = out[-1500:]
                rc1, out1 = sh("bash %s/demo/run.sh" % d, wt, 900)
                res["demo_with_patch_rc"] = rc1
                res["demo_with_patch_tail"] = out1[-1500:]
                sh("git checkout -q -- . && git clean -fdq", wt)
                rc2, out2 = sh("bash %s/demo/run.sh" % d, wt, 900)
                res["demo_without_patch_rc"] = rc2
                res["demo_without_patch_tail"] = out2[-800:]
                res["confirmed"] = bool(res["suite_green_with_patch"] and rc1 != 0 and rc2 == 0)
            sh("git checkout -q -- . && git clean -fdq", wt)
            json.dump(res, open(d + "/confirm.json", "w"), indent=1)
            print(pid, v, "confirmed" if res.get("confirmed") else "NOT CONFIRMED", {k: res.get(k) for k in ("applies", "suite_green_with_patch", "demo_with_patch_rc", "demo_without_patch_rc")}, flush=True)
            if res.get("confirmed"):
                os.makedirs(dst, exist_ok=True)
                shutil.copy(d + "/patch.diff", dst + "/patch.diff")
                if os.path.isdir(dst + "/demo"):
                    shutil.rmtree(dst + "/demo")
                shutil.copytree(d + "/demo", dst + "/demo")
                notes = open(d + "/notes.md").read() if os.path.exists(d + "/notes.md") else ""
                open(dst + "/notes.md", "w").write(notes)
                meta = {"property": pid, "variant": v, "breaks": "see notes.md (written by the sub-agent that produced the change)",
                        "needs_to_manifest": "see notes.md", "confirmed_on_base": head,
                        "confirmation": {"patch_applies": True, "builds_and_suite_green_with_patch": True,
                                         "demo_rc_with_patch": res["demo_with_patch_rc"], "demo_rc_without_patch": res["demo_without_patch_rc"],
                                         "commands": ["git apply --3way patch.diff", "go build ./... && go test -vet=off -count=1 ./...", "bash demo/run.sh (with patch, expects != 0)", "git checkout -- . ; bash demo/run.sh (expects 0)"]},
                        "detected_by": None}
                json.dump(meta, open(dst + "/meta.json", "w"), indent=1)


main()
