#!/bin/bash
# usage: sweep.sh <tier> <seed> [ids...]  - runs checks sequentially, prints one summary line each
TIER=${1:-quick}; SEED=${2:-1}; shift 2
IDS=${@:-C01 C02 C03 C04 C05 C06 C07 C08 C09 C10 C11 C12 C13 C14 C15 C16 C17 C18 C19 C20}
cd "$(dirname "$(readlink -f "$0")")/.."
for id in $IDS; do
  out=$(VERIF_SEED=$SEED ./check $id $TIER 2>&1); rc=$?
  echo "$id rc=$rc $(echo "$out" | grep -c '^VIOLATION') violations $(echo "$out" | grep -c '^KNOWN-FINDING') known | $(echo "$out" | tail -1)"
  if [ $rc -ne 0 ]; then echo "$out" | grep -v '^KNOWN' | tail -15 | cut -c1-400; fi
done
